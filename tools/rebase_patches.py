#!/usr/bin/env python3
"""Re-base stored single-change patches after a "fix:" commit in /repo moved their context.

usage: rebase_patches.py <old-commit> [--write] [patch files…]   (default: every patch under seeded/, mutants/patches/, refactorings/)

For each patch that no longer applies to /repo's HEAD: apply it to the files as they were at <old-commit>, merge
that with HEAD's version of the files (git merge-file, three-way), and write the difference HEAD→merged as the new
patch. A patch whose change overlaps the fix is reported as CONFLICT and left alone.
"""
import glob, os, re, subprocess, sys, tempfile, shutil

REPO, VERIF = "/repo", "/verif"

def sh(cmd, cwd=None, inp=None):
    p = subprocess.run(cmd, cwd=cwd, input=inp, capture_output=True, text=True)
    return p.returncode, p.stdout, p.stderr

def files_of(patch):
    return sorted(set(re.findall(r"^\+\+\+ b/(\S+)", open(patch).read(), re.M)) | set(re.findall(r"^--- a/(\S+)", open(patch).read(), re.M)))

def main():
    args = [a for a in sys.argv[1:] if not a.startswith("--")]
    write = "--write" in sys.argv
    old = args[0]
    patches = args[1:] or sorted(glob.glob(VERIF + "/seeded/*/patch.diff") + glob.glob(VERIF + "/mutants/patches/*.diff") + glob.glob(VERIF + "/refactorings/*/patch.diff"))
    n_ok = n_re = n_conf = 0
    for pf in patches:
        fs = [f for f in files_of(pf) if f != "/dev/null"]
        tmp = tempfile.mkdtemp(prefix="wm-rebase-")
        try:
            head, base = os.path.join(tmp, "head"), os.path.join(tmp, "base")
            for f in fs:
                for d, rev in ((head, "HEAD"), (base, old)):
                    os.makedirs(os.path.dirname(os.path.join(d, f)), exist_ok=True)
                    rc, out, _ = sh(["git", "-C", REPO, "show", f"{rev}:{f}"])
                    if rc == 0:
                        open(os.path.join(d, f), "w").write(out)
            rc, _, _ = sh(["patch", "-p1", "-s", "--dry-run", "-f", "-i", pf], cwd=head)
            if rc == 0:
                n_ok += 1
                continue
            theirs = os.path.join(tmp, "theirs")
            shutil.copytree(base, theirs)
            rc, _, err = sh(["patch", "-p1", "-s", "-f", "-i", pf], cwd=theirs)
            if rc != 0:
                print("CANNOT-APPLY-TO-OLD", pf)
                n_conf += 1
                continue
            conflict = False
            out_diff = ""
            for f in fs:
                o, b, t = os.path.join(head, f), os.path.join(base, f), os.path.join(theirs, f)
                if not (os.path.exists(o) and os.path.exists(b) and os.path.exists(t)):
                    conflict = True
                    continue
                rc, merged, _ = sh(["git", "merge-file", "-p", o, b, t])
                if rc != 0:
                    conflict = True
                    continue
                m = os.path.join(tmp, "merged_" + os.path.basename(f))
                open(m, "w").write(merged)
                rc, d, _ = sh(["diff", "-u", "--label", "a/" + f, "--label", "b/" + f, o, m])
                if d:
                    out_diff += f"diff --git a/{f} b/{f}\n" + d
            if conflict or not out_diff:
                print("CONFLICT", pf)
                n_conf += 1
                continue
            n_re += 1
            print("REBASED", pf)
            if write:
                open(pf, "w").write(out_diff)
        finally:
            shutil.rmtree(tmp, ignore_errors=True)
    print({"apply": n_ok, "rebased": n_re, "conflict": n_conf})

if __name__ == "__main__":
    main()
