#!/bin/sh
# usage: sweep_file.sh <path relative to the repo> <replacement file> [ids|all] : decide the properties on a scratch copy of /repo with one file replaced
rel=$1; src=$(readlink -f "$2"); ids=${3:-all}
t=$(mktemp -d ${TMPDIR:-/tmp}/wm-sweep-XXXXXX)
rsync -a --exclude .git --exclude docs --exclude _examples --exclude tools --exclude dev /repo/ $t/repo/
cp "$src" "$t/repo/$rel"
( cd $t/repo && GOFLAGS=-mod=mod GOPROXY=off GOSUMDB=off GOTOOLCHAIN=local go build ./... 2>/dev/null ) || { echo "NO-COMPILE"; rm -rf $t; exit 3; }
${WMCHECK:-/verif/bin/wmcheck} -sweep "$ids" -repo $t/repo -verif /verif 2>&1 | grep -v ' PASS$' | cut -c1-260
rm -rf $t
