#!/usr/bin/env python3
"""Fill the descriptive fields of seeded/<prefix>*/meta.json from the candidate's README.md.

usage: annotate_seeds.py <prefix> <round> <first-contact-misses-comma-separated>
  change             <- the README's title line plus the paragraph under "Change"
  needs_to_manifest  <- the paragraph under a heading / lead-in that says what the change needs in order to manifest
  round, first_contact, what_was_run
Fields already present are kept unless --force is given.
"""
import glob, json, os, re, sys

def paras(text):
    out, cur = [], []
    for l in text.splitlines():
        if l.strip() == "" or l.startswith("#"):
            if cur:
                out.append(" ".join(x.strip() for x in cur))
                cur = []
            if l.startswith("#"):
                out.append(l.strip())
        else:
            cur.append(l)
    if cur:
        out.append(" ".join(x.strip() for x in cur))
    return out

def pick(ps, heads, leads):
    for i, p in enumerate(ps):
        if p.startswith("#") and any(re.sub(r"^#+\s*(the\s+)?", "", p.lower()).startswith(h) for h in heads):
            for q in ps[i + 1:]:
                if not q.startswith("#"):
                    return q
    for p in ps:
        if not p.startswith("#") and any(p.lower().startswith(l) for l in leads):
            return p
    for p in ps:
        if not p.startswith("#"):
            for l in leads:
                k = p.lower().find(l)
                if k >= 0:
                    return p[k:]
    return ""

def main():
    force = "--force" in sys.argv
    args = [a for a in sys.argv[1:] if not a.startswith("--")]
    prefix, rnd = args[0], int(args[1])
    misses = set(args[2].split(",")) if len(args) > 2 and args[2] else set()
    n = 0
    for d in sorted(glob.glob(f"/verif/seeded/{prefix}*")):
        mp = os.path.join(d, "meta.json")
        m = json.load(open(mp))
        rd = os.path.join(d, "README.md")
        ps = paras(open(rd).read()) if os.path.exists(rd) else []
        title = ""
        for p in ps:
            if p.startswith("#"):
                title = re.sub(r"^#+\s*", "", p)
                break
        change = pick(ps, ["change"], ["change", "**change"])
        needs = pick(ps, ["needs to manifest", "needs in order", "what it needs", "what it breaks"], ["needs", "**needs", "what it needs", "manifests"])
        short = os.path.basename(d)[len(prefix):].lstrip("-")
        upd = {
            "change": (title + " — " + change).strip(" —")[:900],
            "needs_to_manifest": needs[:900] or "see README.md",
            "round": rnd,
            "first_contact": "missed at first contact; a rule was added (see DESIGN.md)" if short in misses else "detected at first contact",
            "what_was_run": [
                "go build ./... and go vet of the changed packages in a scratch copy with the patch",
                "the existing suite (go test -count=1 ./message/... ./pubsub/... ./components/... ./internal/... .) with the patch: every stable test passed",
                "the demonstration with the patch (fails) and without it (passes)",
                "wmcheck -property %s against the patched scratch copy" % m.get("property", "?"),
            ],
        }
        for k, v in upd.items():
            if force or k not in m:
                m[k] = v
        json.dump(m, open(mp, "w"), indent=1)
        n += 1
    print("annotated", n)

if __name__ == "__main__":
    main()
