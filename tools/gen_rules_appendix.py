#!/usr/bin/env python3
"""Regenerates Appendix C of DESIGN.md (the obligations as implemented) from the evidence files written by the last run."""
import json, glob, os, re
V = os.path.dirname(os.path.dirname(os.path.abspath(__file__)))
out = ["## Appendix C. Obligations as implemented (generated from the evidence of the last run by tools/gen_rules_appendix.py)", "",
       "One line per rule: id, rule name, number of instances decided on the current tree, and the rule in words (text of its first instance).", ""]
for f in sorted(glob.glob(os.path.join(V, "evidence", "C*.json"))):
    e = json.load(open(f))
    cov = e["coverage"]
    out.append("### %s — %d obligations on %d functions" % (e["property_id"], cov["obligations"], cov["functions_analysed"]))
    out.append("")
    why = {}
    for s in cov["samples"]:
        k = s["id"] + " " + s["rule"]
        why.setdefault(k, s["why"])
    for k in sorted(cov["rules"], key=lambda x: (x.split()[0], x)):
        out.append("* `%s` ×%d — %s" % (k, cov["rules"][k], why.get(k, "")))
    kf = cov.get("known_findings") or []
    for k in kf:
        out.append("* KNOWN-FINDING `%s %s` — %s" % (k["id"], k["rule"], k["why"]))
    out.append("")
p = os.path.join(V, "DESIGN.md")
s = open(p).read()
marker = "## Appendix C. Obligations as implemented"
if marker in s:
    s = s[:s.index(marker)]
s = s.rstrip() + "\n\n" + "\n".join(out) + "\n"
open(p, "w").write(s)
print("appendix C:", sum(1 for l in out if l.startswith("* ")), "rules")
