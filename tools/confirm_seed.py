#!/usr/bin/env python3
"""Confirm a candidate change written by an independent sub-agent and, if it holds up, keep it as /verif/seeded/<id>/.

For a candidate directory <cand> (patch.diff, demo_test.go | demo/main.go, README.md):
  1. scratch copy of /repo (outside /repo and /verif), apply patch, go build ./... , go vet <changed pkgs>
  2. existing tests of the library (message, pubsub, components, internal) with the change: every test of the
     stable baseline that ran must pass (failed packages are re-run up to twice; known-flaky tests are ignored)
  3. demonstration WITH the change must fail (non-zero exit / timeout), WITHOUT the change must pass
  4. run the static checks of the property against the changed copy (wmcheck -repo <copy>) and record the verdict
Everything is recorded in meta.json. The scratch copy is removed.

usage: confirm_seed.py <cand-dir> <property-id> [--keep-as <name>] [--skip-suite]
"""
import argparse, json, os, re, shutil, subprocess, sys, tempfile, time

REPO, VERIF = "/repo", "/verif"
ENV = dict(os.environ, GOFLAGS="-mod=mod", GOPROXY="off", GOSUMDB="off", GOTOOLCHAIN="local", GOWORK="off")
PKGDIR = {"message": "message", "middleware": "message/router/middleware", "gochannel": "pubsub/gochannel", "cqrs": "components/cqrs",
          "requestreply": "components/requestreply", "forwarder": "components/forwarder", "fanin": "components/fanin",
          "requeuer": "components/requeuer", "delay": "components/delay", "metrics": "components/metrics", "sync": "pubsub/sync",
          "plugin": "message/router/plugin", "subscriber": "message/subscriber", "watermill": "."}

def sh(cmd, cwd, timeout=1500):
    try:
        p = subprocess.run(cmd, cwd=cwd, env=ENV, capture_output=True, text=True, timeout=timeout)
        return p.returncode, p.stdout + p.stderr
    except subprocess.TimeoutExpired as e:
        return 124, ((e.stdout or b"").decode() if isinstance(e.stdout, bytes) else (e.stdout or "")) + "\nTIMEOUT"

def run_suite(dst, stable, flaky):
    pkgs = ["./message/...", "./pubsub/...", "./components/...", "./internal/...", "."]
    best = {}
    info = {}
    for attempt in range(3):
        rc, out = sh(["go", "test", "-json", "-vet=off", "-count=1", "-timeout", "20m"] + pkgs, dst, timeout=1500)
        for l in out.splitlines():
            try:
                e = json.loads(l)
            except Exception:
                continue
            if e.get("Action") in ("pass", "fail") and e.get("Test"):
                k = e["Package"] + "::" + e["Test"]
                if best.get(k) != "pass":
                    best[k] = e["Action"]
        failed_stable = sorted(t for t, a in best.items() if a == "fail" and t in stable)
        ran_stable = sum(1 for t in best if t in stable)
        info = {"attempts": attempt + 1, "stable_ran": ran_stable, "failed_stable": failed_stable}
        if not failed_stable and ran_stable >= 300:
            return True, info
        if failed_stable:
            pk = sorted({"./" + t.split("::")[0].replace("github.com/ThreeDotsLabs/watermill", "").lstrip("/") for t in failed_stable})
            pkgs = [p if p != "./" else "." for p in pk]
    return False, info

def main():
    ap = argparse.ArgumentParser()
    ap.add_argument("cand")
    ap.add_argument("prop")
    ap.add_argument("--keep-as", default="")
    ap.add_argument("--skip-suite", action="store_true")
    a = ap.parse_args()
    cand = a.cand.rstrip("/")
    name = a.keep_as or os.path.basename(cand)
    bl = json.load(open("/root/.vp/BASELINE.json"))
    stable, flaky = set(bl["stable_pass"]), set(bl["flaky"])
    meta = {"id": name, "property": a.prop, "source": "independent sub-agent (given only the property text and a scratch worktree)", "confirmed_at": time.strftime("%Y-%m-%dT%H:%M:%SZ", time.gmtime())}
    patch = os.path.join(cand, "patch.diff")
    demo = None
    for f in ("demo_test.go", "demo/main.go", "demo/main_test.go"):
        if os.path.exists(os.path.join(cand, f)):
            demo = os.path.join(cand, f)
            break
    if not os.path.exists(patch) or not demo:
        print("missing patch.diff or demo"); sys.exit(2)
    tmp = tempfile.mkdtemp(prefix="wm-confirm-", dir=os.environ.get("TMPDIR", "/tmp"))
    try:
        dst = os.path.join(tmp, "repo")
        subprocess.check_call(["rsync", "-a", "--exclude", ".git", "--exclude", "docs", "--exclude", "_examples", "--exclude", "tools", REPO + "/", dst + "/"])
        # demo placement
        src = open(demo).read()
        m = re.search(r"^package\s+(\w+)", src, re.M)
        pkg = m.group(1)
        is_test = demo.endswith("_test.go")
        base = pkg[:-5] if pkg.endswith("_test") else pkg
        if is_test:
            ddir = PKGDIR.get(base)
            if ddir is None:
                print("cannot place demo for package", pkg); sys.exit(2)
            tests = re.findall(r"^func (Test\w+)\(", src, re.M)
            demofile = os.path.join(dst, ddir, "zz_seeded_demo_test.go")
            democmd = ["go", "test", "-count=1", "-timeout", "120s", "-run", "^(" + "|".join(tests) + ")$", "./" + ddir + "/"]
        else:
            ddir = "zz_seeded_demo"
            os.makedirs(os.path.join(dst, ddir), exist_ok=True)
            demofile = os.path.join(dst, ddir, "main.go")
            democmd = ["go", "run", "./" + ddir]
        meta["demo_dir"] = ddir
        meta["demo_cmd"] = " ".join(democmd)
        # --- without the change
        shutil.copy(demo, demofile)
        rc0, out0 = sh(democmd, dst, timeout=300)
        if rc0 != 0:  # some demos need -race or are flaky without the change: retry once
            rc0, out0 = sh(democmd, dst, timeout=300)
        meta["demo_without_change"] = {"exit": rc0, "tail": out0[-600:]}
        os.remove(demofile)
        # --- apply the change
        rc, out = sh(["patch", "-p1", "-s", "-i", patch], dst)
        if rc != 0:
            meta["status"] = "PATCH-DOES-NOT-APPLY"; meta["detail"] = out[-400:]
            print(json.dumps(meta, indent=1)); sys.exit(1)
        changed = sorted(set(re.findall(r"^\+\+\+ b/(\S+)", open(patch).read(), re.M)))
        meta["files_changed"] = changed
        rc, out = sh(["go", "build", "./..."], dst)
        meta["build"] = rc == 0
        vet_pkgs = sorted({"./" + os.path.dirname(f) for f in changed})
        rcv, outv = sh(["go", "vet"] + vet_pkgs, dst)
        meta["vet"] = rcv == 0
        if rc != 0:
            meta["status"] = "DOES-NOT-COMPILE"; meta["detail"] = out[-400:]
            print(json.dumps(meta, indent=1)); sys.exit(1)
        if not a.skip_suite:
            ok, info = run_suite(dst, stable, flaky)
            meta["suite_with_change"] = dict(info, passes=ok)
        else:
            meta["suite_with_change"] = {"skipped": True}
        shutil.copy(demo, demofile)
        runs = []
        rc1, out1 = sh(democmd, dst, timeout=300)
        runs.append(rc1)
        mode = "plain"
        if rc1 == 0 and is_test:
            racecmd = democmd[:2] + ["-race"] + democmd[2:]
            rc1, out1 = sh(racecmd, dst, timeout=600)
            runs.append(rc1)
            mode = "-race"
            if rc1 != 0:
                # make sure -race passes without the change too
                pass
        if rc1 == 0:
            for _ in range(4):  # schedule dependent: a few more tries
                rc1, out1 = sh(democmd[:3] + ["-count=5"] + democmd[3:] if is_test else democmd, dst, timeout=600)
                runs.append(rc1)
                if rc1 != 0:
                    mode = "repeated"
                    break
        meta["demo_with_change"] = {"exit": rc1, "mode": mode, "runs": runs, "tail": out1[-800:]}
        os.remove(demofile)
        # --- static checks against the changed copy
        props = [a.prop]
        verdicts = {}
        for pid in props:
            r = subprocess.run([os.environ.get("WMCHECK", os.path.join(VERIF, "bin", "wmcheck")), "-property", pid, "-repo", dst, "-no-evidence", "-verif", VERIF], env=ENV, capture_output=True, text=True)
            lines = [l[:400] for l in r.stdout.splitlines() if l.startswith(("VIOLATION  ", "VIOLATION   ", "UNDECIDED")) or (l.startswith("VIOLATION") and "property=" not in l)]
            verdicts[pid] = {"exit": r.returncode, "violations": lines[:8]}
        meta["static_check"] = verdicts
        ok_suite = meta["suite_with_change"].get("passes", True)
        meta["confirmed"] = bool(meta["build"] and ok_suite and rc0 == 0 and rc1 != 0)
        meta["status"] = "CONFIRMED" if meta["confirmed"] else "NOT-CONFIRMED"
        meta["detected_by_checks"] = any(v["exit"] == 1 for v in verdicts.values())
    finally:
        shutil.rmtree(tmp, ignore_errors=True)
    print(json.dumps({k: meta[k] for k in ("id", "property", "status", "detected_by_checks", "build", "suite_with_change")}, indent=None))
    if meta.get("confirmed"):
        out = os.path.join(VERIF, "seeded", name)
        os.makedirs(out, exist_ok=True)
        shutil.copy(patch, os.path.join(out, "patch.diff"))
        shutil.copy(demo, os.path.join(out, os.path.basename(demo)))
        if os.path.exists(os.path.join(cand, "README.md")):
            shutil.copy(os.path.join(cand, "README.md"), os.path.join(out, "README.md"))
        json.dump(meta, open(os.path.join(out, "meta.json"), "w"), indent=1)
    else:
        os.makedirs(os.path.join(VERIF, "seeded", "_rejected"), exist_ok=True)
        json.dump(meta, open(os.path.join(VERIF, "seeded", "_rejected", name + ".json"), "w"), indent=1)

if __name__ == "__main__":
    main()
