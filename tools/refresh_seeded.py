#!/usr/bin/env python3
"""Re-run the static checks against every kept seeded change (scratch copies) and update meta.json with the current verdict."""
import glob, json, os, subprocess, sys
sys.path.insert(0, os.path.dirname(__file__))
import mutants
ms = [m for m in mutants.load() if m.get("source") == "seeded"]
import concurrent.futures
with concurrent.futures.ThreadPoolExecutor(8) as ex:
    for r in ex.map(mutants.run_one, ms):
        d = r["id"][len("seeded-"):]
        p = os.path.join(mutants.VERIF, "seeded", d, "meta.json")
        meta = json.load(open(p))
        meta["detected_by_checks"] = r["status"] == "DETECTED"
        meta["static_check"] = {"status": r["status"], "violations": r.get("detail")}
        json.dump(meta, open(p, "w"), indent=1)
        print(r["status"], d)
