#!/usr/bin/env python3
"""Syntactic mutation sweep: which single-edit variants of the anchored files does no rule notice?

A tool for finding holes in the rules (it is not a check and nothing here is registered in MANIFEST.json):
  1. bin/mutgen writes single-edit variants of each file (negated condition, dropped call/store/defer/go, un-go, un-defer,
     swapped statements, emptied case, switched operator / constant / lock mode, error result replaced by nil);
  2. every variant that compiles is decided by `wmcheck -sweep all` in a per-worker scratch copy of /repo;
  3. (--tests) variants no rule noticed are run against the tests of the changed package: the ones the tests kill are of
     no interest; the survivors are the list to triage by reading (equivalent edit / outside every property / a hole).
Results: one JSON line per variant in --out.

usage: mutsweep.py --out /tmp/ms.jsonl [--jobs 8] [--tests] [--files a.go,b.go] [--limit N]
"""
import argparse, json, os, shutil, subprocess, sys, tempfile, threading, queue

REPO, VERIF = "/repo", "/verif"
ENV = dict(os.environ, GOFLAGS="-mod=mod", GOPROXY="off", GOSUMDB="off", GOTOOLCHAIN="local", GOWORK="off")
DEFAULT_FILES = [
    "message/router.go", "message/message.go", "message/decorator.go", "message/router_context.go", "message/metadata.go",
    "message/router/middleware/retry.go", "message/router/middleware/poison.go", "message/router/middleware/deduplicator.go",
    "message/router/middleware/timeout.go", "message/router/middleware/throttle.go", "message/router/middleware/correlation.go",
    "message/router/middleware/recoverer.go", "message/router/middleware/duplicator.go", "message/router/middleware/ignore_errors.go",
    "message/router/middleware/instant_ack.go", "message/router/middleware/delay_on_error.go",
    "pubsub/gochannel/pubsub.go", "pubsub/gochannel/fanout.go",
    "components/cqrs/command_bus.go", "components/cqrs/command_processor.go", "components/cqrs/event_bus.go",
    "components/cqrs/event_processor.go", "components/cqrs/event_processor_group.go", "components/cqrs/event_handler.go",
    "components/cqrs/command_handler.go", "components/cqrs/marshaler_json.go", "components/cqrs/marshaler_protobuf.go",
    "components/cqrs/marshaler_protobuf_gogo.go", "components/cqrs/name.go", "components/cqrs/ctx.go",
    "components/forwarder/forwarder.go", "components/forwarder/envelope.go", "components/forwarder/publisher.go",
    "components/requeuer/requeuer.go", "components/fanin/fanin.go", "components/delay/delay.go", "components/delay/publisher.go",
    "components/metrics/publisher.go", "components/metrics/subscriber.go", "components/metrics/handler.go",
    "components/requestreply/command_bus.go", "components/requestreply/backend_pubsub.go", "components/requestreply/backend_pubsub_marshaler.go",
    "components/requestreply/handler.go", "components/requestreply/requestreply.go",
]

def sh(cmd, cwd, timeout=600):
    try:
        p = subprocess.run(cmd, cwd=cwd, env=ENV, capture_output=True, text=True, timeout=timeout)
        return p.returncode, p.stdout + p.stderr
    except subprocess.TimeoutExpired:
        return 124, "TIMEOUT"

def test_pkgs(f):
    d = os.path.dirname(f)
    if d == "message":
        return ["./message/"]
    return ["./" + d + "/..."]

def worker(k, root, q, res, lock, do_tests, checker):
    dst = os.path.join(root, f"w{k}", "repo")
    os.makedirs(dst)
    subprocess.check_call(["rsync", "-a", "--exclude", ".git", "--exclude", "docs", "--exclude", "_examples", "--exclude", "tools", "--exclude", "dev", REPO + "/", dst + "/"])
    while True:
        try:
            v = q.get_nowait()
        except queue.Empty:
            return
        target = os.path.join(dst, v["file"])
        orig = open(target, "rb").read()
        try:
            shutil.copy(v["src"], target)
            r = dict(v)
            del r["src"]
            rc, out = sh(["go", "build", "./..."], dst)
            if rc != 0:
                r["status"] = "NO-COMPILE"
            else:
                rc, out = sh([checker, "-sweep", "all", "-repo", dst, "-verif", VERIF], dst, timeout=300)
                fails = [l.split()[1] for l in out.splitlines() if l.startswith("SWEEP ") and " FAIL " in l]
                rules = sorted({" ".join(l.split()[1:3]) for l in out.splitlines() if l.startswith(("VIOLATION ", "UNDECIDED "))})
                if rc == 2 or "INTERNAL" in out or "panic:" in out:
                    r["status"] = "CHECKER-ERROR"
                    r["detail"] = out[-600:]
                elif fails:
                    r["status"] = "NOTICED"
                    r["by"] = fails
                    r["rules"] = rules[:6]
                else:
                    r["status"] = "SILENT"
                    if do_tests:
                        rc, out = sh(["go", "test", "-count=1", "-timeout", "150s"] + test_pkgs(v["file"]), dst, timeout=400)
                        r["tests"] = "KILLED" if rc != 0 else "SURVIVED"
                        if rc != 0:
                            r["tests_tail"] = out[-300:]
            with lock:
                res.write(json.dumps(r) + "\n")
                res.flush()
        finally:
            open(target, "wb").write(orig)

def main():
    ap = argparse.ArgumentParser()
    ap.add_argument("--out", required=True)
    ap.add_argument("--jobs", type=int, default=8)
    ap.add_argument("--tests", action="store_true")
    ap.add_argument("--files", default="")
    ap.add_argument("--limit", type=int, default=0)
    ap.add_argument("--ops", default="")
    a = ap.parse_args()
    files = a.files.split(",") if a.files else DEFAULT_FILES
    checker = os.environ.get("WMCHECK", VERIF + "/bin/wmcheck")
    root = tempfile.mkdtemp(prefix="wm-mutsweep-", dir=os.environ.get("TMPDIR", "/tmp"))
    try:
        q = queue.Queue()
        n = 0
        for f in files:
            if not os.path.exists(os.path.join(REPO, f)):
                print("skip (missing):", f)
                continue
            od = os.path.join(root, "gen", f.replace("/", "_"))
            rc, out = sh([VERIF + "/bin/mutgen", "-file", os.path.join(REPO, f), "-rel", f, "-out", od], VERIF)
            print(out.strip())
            for l in open(os.path.join(od, "index.jsonl")):
                v = json.loads(l)
                if a.ops and v["op"] not in a.ops.split(","):
                    continue
                v["src"] = os.path.join(od, f"{v['n']}.go")
                q.put(v)
                n += 1
                if a.limit and n >= a.limit:
                    break
        print("variants:", n)
        lock = threading.Lock()
        with open(a.out, "w") as res:
            ts = [threading.Thread(target=worker, args=(k, root, q, res, lock, a.tests, checker)) for k in range(a.jobs)]
            for t in ts:
                t.start()
            for t in ts:
                t.join()
        from collections import Counter
        c = Counter()
        for l in open(a.out):
            r = json.loads(l)
            c[r["status"] + ("/" + r["tests"] if "tests" in r else "")] += 1
        print(dict(c))
    finally:
        shutil.rmtree(root, ignore_errors=True)

if __name__ == "__main__":
    main()
