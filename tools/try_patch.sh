#!/bin/sh
# usage: try_patch.sh <patch.diff> <property-id>...   : apply patch to a scratch copy of /repo and run the static checks on it
p=$1; shift
t=$(mktemp -d ${TMPDIR:-/tmp}/wm-try-XXXXXX)
rsync -a --exclude .git --exclude docs --exclude _examples --exclude tools /repo/ $t/repo/
( cd $t/repo && patch -p1 -s -i "$p" ) || { echo "PATCH-FAILED $p"; rm -rf $t; exit 3; }
( cd $t/repo && GOFLAGS=-mod=mod GOPROXY=off GOSUMDB=off GOTOOLCHAIN=local go build ./... ) || { echo "NO-COMPILE $p"; rm -rf $t; exit 3; }
rc=0
for id in "$@"; do
  ${WMCHECK:-/verif/bin/wmcheck} -property $id -repo $t/repo -no-evidence -verif /verif > $t/out.txt 2>&1
  r=$?
  if [ $r -ne 0 ]; then rc=1; grep -E '^(VIOLATION|UNDECIDED) +C' $t/out.txt | cut -c1-330 | head -6; fi
done
rm -rf $t
[ $rc -eq 1 ] && echo "==> DETECTED $p" || echo "==> MISSED $p"
exit 0
