#!/usr/bin/env python3
"""Write the prompts for a round of independent sub-agents and create their scratch worktrees.

usage: gen_seed_prompts.py <round-dir e.g. /tmp/seed8> [--breaking 3] [--neutral 3]

Each sub-agent gets two properties (statement + quantifier only), a scratch git worktree of /repo under
<round-dir>/<X>/wt and an output directory <round-dir>/<X>/out. It is told nothing about /verif. To spread the
candidates, the prompt lists one line per breaking change collected so far for the property (what was changed —
taken from the sub-agents' own READMEs, never from the checks).
"""
import argparse, glob, json, os, subprocess, sys

GROUPS = {"A": ["C01", "C11"], "B": ["C02", "C12"], "C": ["C03", "C13"], "D": ["C04", "C14"], "E": ["C05", "C15"],
          "F": ["C06", "C16"], "G": ["C07", "C17"], "H": ["C08", "C18"], "I": ["C09", "C19"], "J": ["C10", "C20"]}

HEAD = """You are helping to evaluate a verification effort for the Go library ThreeDotsLabs/watermill
(message router with ack/nack semantics, middlewares, CQRS buses, in-process GoChannel Pub/Sub).

Your working copy is the git worktree at: {wt}   (a checkout of the library; work ONLY there)
Write your results ONLY under:            {out}
Do NOT read or touch /verif, /repo, or any other {root}/* directory. Do not use the network (there is none).
Do NOT use `git stash` (it is shared between worktrees). To compare with the unchanged tree use
`git diff > {out}/tmp.patch && git checkout -- . && git clean -fdq` and later `git apply {out}/tmp.patch`.
Never use `pkill`/`killall` (other people work on this machine); bound every test run with `go test -timeout`.

Every shell command needs this environment (it does not persist between calls):
  export GOFLAGS=-mod=mod GOPROXY=off GOSUMDB=off GOTOOLCHAIN=local

The existing test suite is: `go test -count=1 -timeout 15m ./message/... ./pubsub/... ./components/... ./internal/... .` (about 1-2 minutes).
Some tests are known to be flaky even on the unchanged tree (mostly pubsub/gochannel TestPublishSubscribe_persistent/* and
TestPublishSubscribe_race_condition_on_subscribe, components/requestreply TestRequestReply_parallel_same_handler, middleware
TestMapExpiringKeyRepositoryCleanup, message/subscriber TestBulkRead_timeout, message TestRouter_AddMiddleware_to_router):
if such a test fails, re-run it and compare with the unchanged tree before drawing conclusions.

## Task: for EACH property listed at the end produce TWO kinds of source changes (non-test .go files only)

### Kind B — {nb} BREAKING changes per property  (directories <PROPERTY-ID>-b1 … -b{nb})
A small change (1-25 lines) a maintainer could make by accident in a refactoring, clean-up, optimisation, bug fix or feature addition, such that
 1. the library still compiles (`go build ./...`, `go vet ./<changed pkg>/...`),
 2. the existing suite still passes with the change (a change the suite kills reliably is of no use),
 3. the change BREAKS the property: write a demonstration `demo_test.go` (a new test file; its package clause must be the package of
    the directory where it is placed) that FAILS (or hangs with a timeout, panics, or reports a data race under `-race`) with the
    change and PASSES without it. Run it both ways and record the outputs.
Many changes have been collected already (listed per property below): be DIFFERENT from all of them. In this round look in particular at
{bsteer}

### Kind N — {nn} SMALL BEHAVIOUR-PRESERVING edits per property  (directories <PROPERTY-ID>-n1 … -n{nn})
The kind of small edit (2-25 changed lines) that shows up in drive-by clean-up commits to the code that IMPLEMENTS the property and does
NOT change behaviour. In this round concentrate on
{nsteer}
Each of the edits should be a different kind of edit at a different place. Requirements: compiles, vet clean, the existing suite
passes, and in README.md one or two sentences why behaviour is unchanged (think about concurrency, panics and zero values too; if in
doubt, choose a safer edit). No demonstration is needed for kind N.

## Output, per candidate, in {out}/<dir>/ :
 - patch.diff   `git diff` of the library change only (must apply with `git apply` on the pristine worktree HEAD)
 - README.md    first line `# <dir> — kind B|N — <one-line title>`, then paragraphs starting with **Change**, **Why a reviewer would accept it**,
                for B: **Clause broken** and **Needs to manifest**; for N: **Why behaviour is preserved**; then the commands you ran with abridged output
 - demo_test.go (kind B only) plus in README.md the directory where it goes and the exact `go test -run ...` command
Between candidates restore the worktree (`git checkout -- . && git clean -fdq`). When done leave it pristine and reply with a short list of
the candidates (dir, kind, one line each, whether all requirements were met).

## The properties
"""

BSTEER = """ - configuration handling: defaults (`setDefaults`), validation (`Validate`), constructors and option structs whose values the anchored code relies on;
 - the interaction of two components or options (a middleware with the router's ack/nack logic, a decorator with Close, persistence with blocking mode,
   a CQRS processor with its marshaler and its router handler), and exported helper functions the anchored code calls;
 - the second of two symmetric code paths (command vs. event, publisher vs. subscriber decorator, Ack vs. Nack, group vs. single handler), where a fix or
   feature was applied to one side only;
 - resource lifetime: contexts and cancel functions, timers/tickers, goroutines that must end, channels that must be closed exactly once;
 - *added* code: a cache, a pool, a fast path, batching, a retry, a metric or a trace hook that is correct in the common case only."""

NSTEER = """ - concurrency style: deferred unlock ↔ explicit unlocks in a short function, a narrower or wider (still correct) critical section, a goroutine literal ↔
   a named method started with `go`, `defer close(ch)` ↔ close at the end, `sync.Once`-style wrappers, the order of the cases of a `select`,
   `wg.Add(1)`+`go` pairs rewritten equivalently, reading a field into a local before the lock is released;
 - data-structure style: `append([]T(nil), xs...)` ↔ `make`+`copy` ↔ `slices.Clone`, `for i := range xs` ↔ `for _, x := range xs` ↔ index loop,
   map iteration with the value vs. lookup by key, pre-sized slices, a struct literal ↔ field assignments, a small generic helper;
 - naming and placement: renaming a private field or method, moving a private function to another file of the same package, turning a function literal
   stored in a variable into a private function, splitting a long function at a natural seam."""

BSTEER2 = """ - the edges of the exported API: nil or zero-valued arguments, empty slices and strings, a call repeated or made in an unusual order (Close before Run,
   AddHandler after Close, Stop twice, Subscribe after Close), a default that only applies when a field is left zero;
 - arithmetic on durations, counters and sizes: rounding, truncation, overflow, off-by-one at a limit, a unit mix-up, `<` against `<=` at a boundary the tests never hit;
 - changes that span two places of which only one is adapted: a struct field added with a zero default, a helper whose meaning of a parameter or result changes,
   a constant or metadata key used by a writer and a reader, a generic type parameter or reflection-based name used by two components;
 - observability code that touches state: a log field, a metric or a debug helper that reads shared data without the lock, consumes a value, or keeps a reference;
 - modernisations: replacing hand-written code by a standard-library or `x/` helper (slices, maps, sync.Once/OnceFunc, context.AfterFunc/WithoutCancel, errors.Join, atomic types)
   whose semantics differ in a corner."""

NSTEER2 = """ - control-flow restructuring: guard clauses ↔ nested ifs, `switch` ↔ if-chains, a loop with `break` ↔ a loop condition, labelled `continue` ↔ a flag, an early `return` ↔ `else`,
   De Morgan rewrites of a compound condition, splitting a compound condition into two ifs (same evaluation order);
 - modernisation that keeps the meaning: `interface{}` ↔ `any`, `min`/`max` builtins, `slices`/`maps` helpers that do exactly what the loop did, `for range n`, `errors.Is` for `==` on
   sentinel errors that are never wrapped, `strings.Builder`, `time.Since`, struct tags and comments;
 - dead-code and duplication clean-up: removing an unreachable branch or a variable that is written and never read, merging two identical blocks into one private helper with
   ONE call site each… or inlining a trivial private helper; moving a declaration closer to its use; renaming a result or a receiver."""


BSTEER3 = """ - well-meant FIXES that go wrong: an attempt to fix a data race, a goroutine leak, a double close, a lost error or a lock held too long (real or imagined) that
   introduces a subtler problem — a check-then-act gap, an unlock on one path only, a channel that is now closed too early / too late / twice, a wait that can no longer be interrupted;
 - new OPTIONS and FEATURES with a default that is supposed to keep the old behaviour but does not quite (a zero value that means something, an option consulted at the wrong
   moment, a hook called under a lock or before the state it reports is true, a limit / batch size / timeout applied to the wrong unit);
 - ERROR and SHUTDOWN paths: what happens to the message, the locks, the goroutines and the channels when a step in the middle fails, when Close / Stop / cancel arrives
   during that step, or when the same call is made again after a failure;
 - ORDER: two statements whose order matters (publish-then-ack, register-then-start, signal-then-wait, copy-then-modify) swapped or interleaved with a new statement;
 - code MOVED between goroutines or between the caller and a callback (what runs under which lock, in which goroutine, before or after which signal)."""

NSTEER3 = """ - declarations: renaming private fields, methods, types and constants; reordering struct fields or methods; grouping fields into an embedded private struct; turning
   a `sync.Mutex` field into a `*sync.Mutex` allocated by the constructor (or the reverse) when every use goes through the field;
 - signatures of PRIVATE functions: adding, dropping or reordering a parameter (all call sites adapted), returning a value instead of assigning a field in the callee,
   a bool result turned into an error result that is nil / non-nil in exactly the same cases, a method turned into a function taking the receiver as its first argument;
 - messages and constants: rewording a log or error text that nothing parses, replacing a repeated literal by a private constant, `errors.New` ↔ `fmt.Errorf` without verbs,
   `errors.Wrap` ↔ `fmt.Errorf("…: %w", err)` where nothing inspects the error's type;
 - locals: shadowing removed, a value computed once instead of twice (no side effects in between), `var x T` ↔ `x := T{}`, named results ↔ plain results when no defer reads them."""

BSTEER4 = """ - IDENTITY: which object a statement works on — the consumed message vs. a copy of it, the handler / subscriber / topic of THIS loop iteration vs. another one, the
   configuration of this instance vs. a package-level default, the message's context vs. the router's or the caller's, the channel returned to the caller vs. an internal one;
 - SHARING by reference: a slice, map or pointer that caller, callee and goroutines now share (a shallow copy, a buffer or slice re-used across iterations, a value captured by a
   closure that outlives the iteration, a struct copied together with its mutex or channel);
 - HOW OFTEN something happens per message or per call: a hook, log line, metric, publish, ack, retry or close that is meant to happen exactly once made to happen at most once,
   at least once, once per batch instead of per message (or the reverse);
 - CONDITIONS weakened or strengthened: an extra `&&` / `||`, a nil or emptiness check that silently skips work, `==` vs `errors.Is` vs a type assertion on a wrapped error, a
   `switch` that loses a case or gains a `default`, a comparison of the wrong pair of values;
 - the CONTRACT of the Publisher / Subscriber / Marshaler / middleware interfaces at its edges: a value returned together with an error, a nil channel or nil slice returned as
   success, a batch published in part, an error swallowed into a log line, a panic converted into a plain return."""

NSTEER4 = """ - EXTRACTION and INLINING across function boundaries: a block turned into a private method with two or more parameters, a closure turned into a named function that takes
   what it captured as arguments, a private helper with one call site inlined, two adjacent helpers merged, a method value (`x.f`) ↔ a small closure calling it;
 - LOOP and COLLECTION shapes: `for i := range n`, index ↔ value iteration, collecting into a slice and iterating it afterwards ↔ acting inside the first loop (same order,
   no side effects in between), `continue` ↔ nested `if`, a `switch true` ↔ if-chain, pre-declaring a variable outside the loop when each iteration assigns it first;
 - ERROR PLUMBING that keeps nil-ness and text: `if err := f(); err != nil` ↔ two statements, a sentinel `var` for a repeated `errors.New` that nothing compares,
   returning `err` directly ↔ through a named result that no defer touches, `errors.Wrap(err, …)` ↔ `errors.WithMessage(err, …)` where nothing looks at the stack;
 - SELECT and CHANNEL spelling: the order of the cases of a `select` (no `default` involved), `case <-ch:` ↔ `case _, ok := <-ch:` with `ok` unused… or handled exactly as the
   zero value was, `for { select { … } }` with a labelled break ↔ a helper function that returns."""

BSTEER5 = """ - UNPINNED behaviour: read the package's `_test.go` files first and pick a branch, option, error path or ordering that NO existing test pins down; say in the README which
   tests you looked at and why none of them notices;
 - PROMISES in comments and docs: a godoc sentence or a paragraph under `docs/` that the code keeps today — change the code so that the sentence becomes false in a corner
   (quote the sentence in the README);
 - what one package ASSUMES about another (router ↔ GoChannel, CQRS processor ↔ marshaler, request-reply ↔ command processor, delay ↔ requeuer ↔ DelayOnError, forwarder ↔ router,
   metrics ↔ decorators): change one side so that the assumption no longer holds while each side still looks right on its own;
 - LOAD-BEARING code that looks redundant: a check, a copy, a lock, a `h := h`, a nil guard, a second look at a flag, a `default:` case, a channel close that a tidy-up would remove
   or merge with its neighbour;
 - ZERO VALUES and partial initialisation: a struct built without a constructor, a nil map / nil logger / nil context / zero duration reaching code that used to be protected from it."""

NSTEER5 = """ - TIDY-UPS of genuinely redundant code: a check that an earlier check already implies, `else` after `return`, a double conversion, a variable used once inlined (no side effects
   in between), an unused parameter of a private function dropped at all call sites, an unused private constant removed;
 - STATEMENTS reordered where there is no data or synchronisation dependence between them (two independent assignments, two log lines, two field initialisations in a literal);
 - equivalent STANDARD-LIBRARY spellings: `strings.Cut` ↔ `SplitN`, concatenation ↔ `fmt.Sprintf("%s…")`, `strconv.Itoa` ↔ `FormatInt(…,10)`, `errors.New` ↔ `fmt.Errorf` without verbs,
   `time.Duration(n)*time.Second` ↔ `n*time.Second` for constants, `len(x) == 0` ↔ `x == ""` for strings;
 - TYPE-LEVEL housekeeping: a named type for a repeated func signature, `var _ Interface = (*T)(nil)` assertions, a private interface split in two and embedded back, a constant
   block regrouped (explicit values, not iota-dependent), a private type moved to another file of the package."""


def main():
    ap = argparse.ArgumentParser()
    ap.add_argument("--steer", type=int, default=1)
    ap.add_argument("--shift", type=int, default=0, help="rotate the pairing of properties to groups")
    ap.add_argument("root")
    ap.add_argument("--breaking", type=int, default=3)
    ap.add_argument("--neutral", type=int, default=3)
    a = ap.parse_args()
    props = {}
    for l in open("/verif/properties.jsonl"):
        p = json.loads(l)
        props[p["id"]] = p
    collected = {}
    for mp in sorted(glob.glob("/verif/seeded/*/meta.json")):
        m = json.load(open(mp))
        ch = " ".join(str(m.get("change", "")).split())
        if ch:
            collected.setdefault(m["property"], []).append(ch[:230])
    os.makedirs(a.root, exist_ok=True)
    groups = dict(GROUPS)
    if a.shift:
        firsts = [v[0] for v in GROUPS.values()]
        seconds = [v[1] for v in GROUPS.values()]
        seconds = seconds[a.shift % len(seconds):] + seconds[:a.shift % len(seconds)]
        groups = {g: [firsts[i], seconds[i]] for i, g in enumerate(GROUPS)}
    for g, ids in groups.items():
        d = os.path.join(a.root, g)
        wt, out = os.path.join(d, "wt"), os.path.join(d, "out")
        os.makedirs(out, exist_ok=True)
        if not os.path.exists(wt):
            subprocess.check_call(["git", "-C", "/repo", "worktree", "add", "--detach", "-q", wt, "HEAD"])
        txt = HEAD.format(wt=wt, out=out, root=a.root, nb=a.breaking, nn=a.neutral, bsteer={2: BSTEER2, 3: BSTEER3, 4: BSTEER4, 5: BSTEER5}.get(a.steer, BSTEER), nsteer={2: NSTEER2, 3: NSTEER3, 4: NSTEER4, 5: NSTEER5}.get(a.steer, NSTEER))
        for i in ids:
            p = props[i]
            txt += f"\n### Property {i} — {p['title']}\n\nStatement: {p['statement']}\n\nQuantified over: {p['quantifier']['text']}\n\n"
            txt += f"Breaking changes already collected for {i} (do not repeat these or close variants):\n"
            for ch in collected.get(i, []):
                txt += f" - {ch}\n"
        open(os.path.join(d, "prompt.md"), "w").write(txt)
        print(g, ids, len(txt))

if __name__ == "__main__":
    main()
