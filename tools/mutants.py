#!/usr/bin/env python3
"""Sensitivity self-test of the checker (describes the checker, not /repo).

For every seeded single edit in /verif/mutants/*.json: copy the CURRENT /repo
tree to a scratch directory under $TMPDIR (outside /repo and /verif), apply the
edit, make sure the variant still compiles, run wmcheck for the property the
edit breaks against the scratch copy, and record whether a violation is
reported. Scratch copies are deleted immediately.

usage: mutants.py [--only SUBSTR] [--jobs N] [--suite-survivors] [--json OUT]
"""
import argparse, concurrent.futures, glob, json, os, shutil, subprocess, sys, tempfile

REPO = os.environ.get("WM_REPO", "/repo")
VERIF = os.environ.get("WM_VERIF", "/verif")
ENV = dict(os.environ, GOFLAGS="-mod=mod", GOPROXY="off", GOSUMDB="off", GOTOOLCHAIN="local", GOWORK="off")

def load():
    out = []
    for f in sorted(glob.glob(os.path.join(VERIF, "mutants", "*.json"))):
        for m in json.load(open(f)):
            m["source"] = os.path.basename(f)
            out.append(m)
    for f in sorted(glob.glob(os.path.join(VERIF, "seeded", "*", "meta.json"))):
        meta = json.load(open(f))
        d = os.path.basename(os.path.dirname(f))
        out.append({"id": "seeded-" + d, "property": meta["property"], "properties": meta.get("properties"),
                    "patch": os.path.join("seeded", d, "patch.diff"), "suite": "SURVIVES (independent sub-agent)", "source": "seeded"})
    return out

def run_one(m):
    tmp = tempfile.mkdtemp(prefix="wm-mut-", dir=os.environ.get("TMPDIR", "/tmp"))
    res = {"id": m["id"], "property": m["property"], "suite": m.get("suite", "")}
    try:
        dst = os.path.join(tmp, "repo")
        subprocess.check_call(["rsync", "-a", "--exclude", ".git", "--exclude", "docs", "--exclude", "_examples",
                               "--exclude", "tools", REPO + "/", dst + "/"])
        if m.get("patch"):
            diff = open(os.path.join(VERIF, m["patch"])).read()
            pr = subprocess.run(["patch", "-p1", "-s"], cwd=dst, input=diff, capture_output=True, text=True)
            if pr.returncode != 0:
                res["status"] = "SKIP-ANCHOR"
                res["detail"] = "patch does not apply: %s" % pr.stdout[-200:]
                return res
            edits = []
        elif m.get("revert_commit"):
            diff = subprocess.run(["git", "-C", REPO, "show", "--format=", m["revert_commit"]], capture_output=True, text=True).stdout
            pr = subprocess.run(["patch", "-R", "-p1", "-s"], cwd=dst, input=diff, capture_output=True, text=True)
            if pr.returncode != 0:
                res["status"] = "SKIP-ANCHOR"
                res["detail"] = "cannot revert %s: %s" % (m["revert_commit"], pr.stdout[-200:])
                return res
            edits = []
        else:
            edits = m.get("edits") or ([{"file": m["file"], "find": m["find"], "replace": m["replace"]}] if m.get("file") else [])
        for sd in m.get("seds") or []:
            p = os.path.join(dst, sd["file"])
            s = open(p).read()
            if sd["from"] not in s:
                res["status"] = "SKIP-ANCHOR"
                res["detail"] = "%s: %r not found" % (sd["file"], sd["from"])
                return res
            open(p, "w").write(s.replace(sd["from"], sd["to"]))
        if m.get("seds"):
            edits = m.get("edits") or []
        for e in edits:
            p = os.path.join(dst, e["file"])
            s = open(p).read()
            if s.count(e["find"]) != 1:
                res["status"] = "SKIP-ANCHOR"
                res["detail"] = "%s: find-snippet occurs %d times" % (e["file"], s.count(e["find"]))
                return res
            open(p, "w").write(s.replace(e["find"], e["replace"]))
        b = subprocess.run(["go", "build", "./..."], cwd=dst, env=ENV, capture_output=True, text=True)
        if b.returncode != 0:
            res["status"] = "NO-COMPILE"
            res["detail"] = b.stderr[-400:]
            return res
        props = m.get("properties") or [m["property"]]
        lines, rc_any = [], 0
        for pid in props:
            r = subprocess.run([os.environ.get("WMCHECK", os.path.join(VERIF, "bin", "wmcheck")), "-property", pid, "-repo", dst,
                                "-no-evidence", "-verif", VERIF], env=ENV, capture_output=True, text=True)
            if r.returncode == 2:
                res["status"] = "INTERNAL"
                res["detail"] = r.stdout[-600:] + r.stderr[-300:]
                return res
            if r.returncode == 1:
                rc_any = 1
                lines += [l for l in r.stdout.splitlines() if l.startswith(("VIOLATION ", "UNDECIDED "))]
        if m.get("expect") == "pass":
            res["status"] = "FALSE-ALARM" if rc_any else "SILENT-OK"
        else:
            res["status"] = "DETECTED" if rc_any else "MISSED"
        res["detail"] = [l[:300] for l in lines if not l.startswith("VIOLATION property=")][:6]
        return res
    finally:
        shutil.rmtree(tmp, ignore_errors=True)

def main():
    ap = argparse.ArgumentParser()
    ap.add_argument("--only", default="")
    ap.add_argument("--all-props", action="store_true", help="evaluate the behaviour-preserving variants (expect=pass) against all 20 properties, not only their own")
    ap.add_argument("--jobs", type=int, default=6)
    ap.add_argument("--suite-survivors", action="store_true")
    ap.add_argument("--json", default="")
    ap.add_argument("-v", action="store_true")
    a = ap.parse_args()
    ms = [m for m in load() if a.only in m["id"] or a.only in m["property"]]
    if a.all_props:
        allp = ["C%02d" % i for i in range(1, 21)]
        ms = [dict(m, properties=allp) for m in ms if m.get("expect") == "pass"]
    if a.suite_survivors:
        ms = [m for m in ms if m.get("suite", "").startswith("SURVIV")]
    results = []
    with concurrent.futures.ThreadPoolExecutor(a.jobs) as ex:
        for r in ex.map(run_one, ms):
            results.append(r)
            print("%-12s %-55s %s" % (r["status"], r["id"], r.get("suite", "")))
            if a.v or r["status"] in ("MISSED", "INTERNAL", "SKIP-ANCHOR", "FALSE-ALARM", "NO-COMPILE"):
                d = r.get("detail")
                if d:
                    print("      ", d if isinstance(d, str) else "\n       ".join(d))
            sys.stdout.flush()
    from collections import Counter
    print(dict(Counter(r["status"] for r in results)))
    if a.json:
        json.dump(results, open(a.json, "w"), indent=1)

if __name__ == "__main__":
    main()
