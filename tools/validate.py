#!/usr/bin/env python3-vt
import json, glob, jsonschema, sys
jsonschema.validate(json.load(open('/verif/MANIFEST.json')), json.load(open('/root/.vp/MANIFEST.schema.json')))
es = json.load(open('/root/.vp/EVIDENCE.schema.json'))
n = 0
for f in sorted(glob.glob('/verif/evidence/C*.json')):
    jsonschema.validate(json.load(open(f)), es); n += 1
ps = json.load(open('/root/.vp/PROPERTIES.schema.json'))
for l in open('/verif/properties.jsonl'):
    jsonschema.validate(json.loads(l), ps)
print("manifest ok; evidence files ok:", n)
