#!/usr/bin/env python3
"""Writes /verif/MANIFEST.json from the table below (kept next to the checker so
that the claimed level text and the implemented obligations stay together)."""
import json, os, subprocess
V = os.path.dirname(os.path.dirname(os.path.abspath(__file__)))
CLAIMED = json.load(open(os.path.join(V, "tools", "claims.json")))
DESCR = json.loads(subprocess.check_output([os.path.join(V, "bin", "wmcheck"), "-describe"], text=True))
for k, v in CLAIMED.items():
    if "text" not in v and k in DESCR:
        v["text"] = DESCR[k]
ids = ["C%02d" % i for i in range(1, 21)]
checks, na = [], []
for pid in ids:
    c = CLAIMED.get(pid)
    if not c or c.get("not_applicable"):
        na.append({"property_id": pid, "reason": (c or {}).get("not_applicable", "static check for this property is not built yet (work in progress)")})
        continue
    checks.append({
        "property_id": pid,
        "quick_cmd": "./check %s quick" % pid,
        "thorough_cmd": "./check %s thorough" % pid,
        "evidence_file": "/verif/evidence/%s.json" % pid,
        "replay_cmd_template": "bin/wmcheck -replay {path}",
        "engine": "wmcheck",
        "level_claimed": {"category": "other", "text": c["text"], "design_ref": "DESIGN.md §3 " + pid},
        "level_note": c.get("note", "Trusted base: go/types + go/ssa of x/tools v0.29.0, the Go memory model and the documented behaviour of sync/context/stdlib; user callbacks are opaque. Decides structural necessary conditions on all CFG paths, not the behaviour itself."),
        "technique": c["technique"],
    })
m = {
    "version": 1,
    "setup_cmd": "cd /verif/checker && GOFLAGS=-mod=vendor GOPROXY=off GOSUMDB=off GOTOOLCHAIN=local GOWORK=off go build -o /verif/bin/wmcheck ./cmd/wmcheck",
    "hooks": {"guard": "verif", "enable": "none: static analysis needs no instrumentation; no hook commits exist", "baseline_off_cmd": json.load(open("/root/.vp/BASELINE.json"))["cmd"], "source_commits": [], "add_only": True},
    "engines": [{"name": "wmcheck", "path": "checker/", "serves_properties": [c["property_id"] for c in checks],
                 "kind_free_text": "custom static analyser over type-checked go/ssa: edge-dominance guards, must-pass-through reachability, value provenance, lockset with goroutine hand-off, blocking-operation discipline, loop shape, typestate constant propagation, writer/reader table agreement"}],
    "checks": checks,
    "notes": "All checks decide properties from /repo's source without running it (static analysis). See DESIGN.md. known_findings.json lists genuine defects that are recorded rather than repaired.",
    "not_applicable": na,
}
json.dump(m, open(os.path.join(V, "MANIFEST.json"), "w"), indent=1)
print("claimed", len(checks), "n/a", len(na))
