#!/bin/sh
# usage: sweep_patch.sh <patch.diff> [ids|all]  : apply the patch to a scratch copy of /repo and decide the listed properties on it in one load
p=$(readlink -f "$1"); ids=${2:-all}
t=$(mktemp -d ${TMPDIR:-/tmp}/wm-sweep-XXXXXX)
rsync -a --exclude .git --exclude docs --exclude _examples --exclude tools /repo/ $t/repo/
( cd $t/repo && patch -p1 -s -i "$p" ) || { echo "PATCH-FAILED $p"; rm -rf $t; exit 3; }
( cd $t/repo && GOFLAGS=-mod=mod GOPROXY=off GOSUMDB=off GOTOOLCHAIN=local go build ./... 2>/dev/null ) || { echo "NO-COMPILE $p"; rm -rf $t; exit 3; }
${WMCHECK:-/verif/bin/wmcheck} -sweep "$ids" -repo $t/repo -verif /verif 2>&1 | grep -v ' PASS$' | cut -c1-300
rm -rf $t
