#!/bin/sh
# usage: sweep_neutral.sh [jobs] : every behaviour-preserving variant of mutants/neutral.json against all 20 properties, one load each (fast form of mutants.py --all-props)
cd /verif
python3 -c "
import json
for m in json.load(open('mutants/neutral.json')):
    if m.get('patch'): print(m['patch'])
" | xargs -P ${1:-12} -I{} sh -c 'r=$(/verif/tools/sweep_patch.sh /verif/{} | grep -E "^SWEEP|NO-COMPILE|PATCH-FAILED" | tr "\n" " "); [ -n "$r" ] && echo "{}: $r"; true'
echo sweep-neutral-done
