#!/usr/bin/env python3
"""Run the checks against the behaviour-preserving refactorings written by independent sub-agents that the checks
do NOT follow (refactorings/<id>/patch.diff) and record, per refactoring, what the check says.

These are kept as a measure of how shape-dependent the analyses are, not as tests: a refactoring listed here makes
the property's check fail although the property still holds.  The result distinguishes
  ANCHOR-ONLY   every failing obligation is an ANCHOR/UNDECIDED one (the analysis says it can no longer find or decide
                a construct it was confirmed on - it does not claim a violation of a specific rule)
  RULE-ALARM    at least one specific rule reports a violation (a genuine false alarm of that rule)
  SILENT        the check passes (then the patch should move to mutants/neutral.json)
usage: refactorings.py [--json out]
"""
import concurrent.futures, glob, json, os, re, sys
sys.path.insert(0, os.path.dirname(__file__))
import mutants

def main():
    ms = []
    for d in sorted(glob.glob(os.path.join(mutants.VERIF, "refactorings", "*", "patch.diff"))):
        name = os.path.basename(os.path.dirname(d))
        m = re.match(r"r\d\w*-\w-(C\d\d)-n\d(?:-vs-(.*))?$", name)
        props = [m.group(1)] if not m.group(2) else m.group(2).split("-")
        ms.append({"id": name, "property": props[0], "properties": props, "patch": os.path.relpath(d, mutants.VERIF), "expect": "pass"})
    out = {}
    with concurrent.futures.ThreadPoolExecutor(8) as ex:
        for r in ex.map(mutants.run_one, ms):
            lines = r.get("detail") or []
            if r["status"] == "SILENT-OK":
                kind = "SILENT"
            elif isinstance(lines, list) and lines and all((" ANCHOR " in l) or l.startswith("UNDECIDED") for l in lines):
                kind = "ANCHOR-ONLY"
            else:
                kind = "RULE-ALARM"
            out[r["id"]] = {"property": r["property"], "result": kind, "status": r["status"], "first_reports": lines[:3] if isinstance(lines, list) else lines}
            print("%-12s %s" % (kind, r["id"]))
    cnt = {}
    for v in out.values():
        cnt[v["result"]] = cnt.get(v["result"], 0) + 1
    print(cnt)
    json.dump({"summary": cnt, "refactorings": out}, open(os.path.join(mutants.VERIF, "refactorings", "index.json"), "w"), indent=1)

if __name__ == "__main__":
    main()
