// Package canary holds tiny conforming (Good*) and violating (Bad*) instances
// for every analysis primitive of the checker. They are analysed on every run:
// a primitive that does not fire on its Bad instance, or fires on its Good
// one, makes the check fail (exit 2) instead of passing vacuously.
package canary

import (
	"context"
	"sync"
)

func sink()         {}
func settle()       {}
func work() error   { return nil }
func use(int)       {}
func wrap(f func() int) func() int { return f }

// --- edge dominance ---------------------------------------------------------

func GoodGuard() {
	err := work()
	if err != nil {
		return
	}
	sink()
}

func BadGuard() {
	err := work()
	sink()
	if err != nil {
		return
	}
}

// --- must-pass-through ------------------------------------------------------

func GoodSettle(a, b bool) {
	if a {
		settle()
		return
	}
	if b {
		settle()
		return
	}
	settle()
}

func BadSettle(a, b bool) {
	if a {
		settle()
		return
	}
	if b {
		return
	}
	settle()
}

// --- lockset ----------------------------------------------------------------

type box struct {
	mu sync.Mutex
	n  int
}

func (b *box) GoodLock() {
	b.mu.Lock()
	defer b.mu.Unlock()
	b.n++
}

func (b *box) BadLock() {
	b.mu.Lock()
	b.mu.Unlock()
	b.n++
}

func (b *box) GoodHandoff() {
	b.mu.Lock()
	go func() {
		defer b.mu.Unlock()
		b.n++
	}()
}

func (b *box) BadHandoff() {
	b.mu.Lock()
	go func() {
		b.n++
	}()
	b.mu.Unlock()
}

// --- blocking-operation discipline -------------------------------------------

func GoodSend(ch chan int, done chan struct{}, ctx context.Context) {
	select {
	case ch <- 1:
	case <-done:
	}
	select {
	case ch <- 2:
	case <-ctx.Done():
	}
	select {
	case ch <- 3:
		sink()
	default:
		settle()
	}
}

func BadSend(ch chan int) {
	ch <- 1
}

// --- loop direction ----------------------------------------------------------

func Descending(fs []func(func() int) func() int, base func() int) func() int {
	acc := base
	for i := len(fs) - 1; i >= 0; i-- {
		acc = fs[i](acc)
	}
	return acc
}

func Ascending(fs []func(func() int) func() int, base func() int) func() int {
	acc := base
	for _, f := range fs {
		acc = f(acc)
	}
	return acc
}

func Partial(fs []func(func() int) func() int, base func() int) func() int {
	acc := base
	for i := 1; i < len(fs); i++ {
		acc = fs[i](acc)
	}
	return acc
}

// --- value origins -----------------------------------------------------------

func SpilledReturn() (int, error) {
	defer sink()
	err := work()
	if err != nil {
		return 0, err
	}
	return 1, nil
}

func CapturedResult() (err error) {
	defer func() {
		if err != nil {
			err = nil
		}
	}()
	err = work()
	return err
}

func ConstBranch(x bool) {
	if x && false {
		sink()
	}
}
