module canary

go 1.23
