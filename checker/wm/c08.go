package wm

import (
	"fmt"
	"go/token"
	"go/types"
	"sort"
	"strings"

	"golang.org/x/tools/go/ssa"
)

func init() {
	register(&PropDef{
		ID:  "C08",
		Run: runC08,
		Explanation: "Decides the per-handler wiring of the Router by value provenance: the chain the dispatch function invokes is built from this handler's function field; Subscribe is called on this handler's subscriber field with its subscribe-topic field and its result is the channel the run loop ranges over; Publish is invoked on this handler's publisher field with its publish-topic field and, as variadic argument, the very slice the chain returned; " +
			"AddHandler stores each of its six parameters into the field that is later used in that role (same-typed parameters cannot be swapped unnoticed); the context decorator pairs each context key with the field its exported accessor documents, is applied to consumed messages by the first subscriber decorator and to produced messages before Publish; a no-publisher handler's publisher rejects every publish. " +
			"Not decided: cross-talk through subscribers shared by the user.",
		Assumptions: commonAssumptions,
	})
	register(&PropDef{
		ID:  "C09",
		Run: runC09,
		Explanation: "Decides: the router's middleware and decorator lists are only ever extended by append (registration order is list order), handler-level registrations record the handler's own name and IsRouterLevel=false, router-level ones true; the middleware wrap loop runs descending over the full snapshot (index 0 becomes outermost), publisher decorators are applied descending (first added outermost), subscriber decorators ascending after the context decorator (first added innermost); " +
			"the wrap call of the middleware loop is reachable only through IsRouterLevel==true or HandlerName==this handler's name, and through both; the snapshot is a copy taken under the middlewares lock when the handler starts. Not decided: what user middlewares do.",
		Assumptions: commonAssumptions,
	})
	register(&PropDef{
		ID:  "C10",
		Run: runC10,
		Explanation: "Decides: Running() is closed only on the edge where RunHandlers returned nil, RunHandlers returns nil only after its loop over all handlers, and every iteration either skips a started handler or passes Subscribe()==nil; Subscribe and the start goroutine are reachable only for not-yet-started handlers and 'started' is set in between, under the handlers write lock; " +
			"in every function that closes a handler's Started() channel the close is behind Subscribe()==nil and no field that Stop()/Stopped() read is stored after it; the stop function is the cancel of the very context passed to this handler's Subscribe; the self-close watcher calls Close() on every path after the handlers ended unless already closed, and a second Run returns an error; the handler map is read and written under its lock in the lifecycle functions, the started flag is only ever raised, an explicit panic (duplicate handler name) leaves no router lock held, and the configuration's defaults are applied by every exported constructor. Not decided: that user subscribers honour context cancellation.",
		Assumptions: commonAssumptions,
	})
}

func runC08(c *Check) {
	P := "C08"
	r := c.routerRoles2(P)
	if r == nil {
		return
	}
	// what a handler finds in the context of a message it consumes comes from the router alone: the library's own Pub/Sub
	// hands every subscription copies that carry the Subscribe context, not the publisher's (decided as C04.O1)
	if g := c.gochannelRoles(P + ".G"); g != nil {
		c04FreshCopy(c, P+".G", g)
	}
	L, D := r.RunLoop, r.Dispatch
	// O1 (i) chain base
	var chainArg ssa.Value
	for i, prm := range D.Params {
		if prm == r.ChainParam && i < len(r.GoDispatch.Call.Args) {
			chainArg = r.GoDispatch.Call.Args[i]
		}
	}
	wraps := FindWrapLoops(L)
	okBase, okRest := false, chainArg != nil
	if chainArg != nil {
		for _, o := range Origins(chainArg) {
			switch {
			case LoadedField(o) == r.HFunc:
				okBase = true
			default:
				isWrap := false
				for _, w := range wraps {
					if o == CallValue(w.Call) {
						isWrap = true
					}
				}
				if !isWrap {
					okRest = false
				}
			}
		}
	}
	c.Report(okBase && okRest, P+".O1", "WIRING/function", L, r.GoDispatch.Pos(), "chain", "the dispatched chain is this handler's function, wrapped only by the middleware loop")
	// (ii) Subscribe
	RH := r.RunHandlers
	subs := CallsTo(RH, nSubscribe)
	if c.Floor(P+".O1", "Subscribe call in RunHandlers", len(subs), 1) {
		for _, s := range subs {
			c.Report(AllOrigins(Receiver(s), IsFieldLoad(r.HSub)) && AllOrigins(Arg(s, 1), IsFieldLoad(r.HSubTopic)), P+".O1", "WIRING/subscribe", RH, s.Pos(), "Subscribe", "the handler subscribes with its own subscriber to its own subscribe topic")
			okStore := false
			for _, st := range FieldStores(RH, r.HMsgCh) {
				if AllOrigins(st.Val, ResultOfAny([]ssa.CallInstruction{s}, 0)) && sameBase(st.Addr, Receiver(s)) {
					okStore = true
				}
			}
			c.Report(okStore, P+".O1", "WIRING/messages", RH, s.Pos(), "Subscribe result", "the subscription's channel becomes this handler's message channel")
		}
	}
	// the run loop ranges over that field (C02.O7 established the receive)
	okRecv := false
	AllInstrs(L, func(in ssa.Instruction) {
		if u, ok := in.(*ssa.UnOp); ok && u.Op.String() == "<-" && AllOrigins(u.X, IsFieldLoad(r.HMsgCh)) {
			okRecv = true
		}
	})
	c.Report(okRecv, P+".O1", "WIRING/receive", L, L.Pos(), "range", "the run loop receives from this handler's message channel")
	// the run loop is started for the same handler that subscribed
	for _, cl := range Callers([]*ssa.Function{r.StartLit}, L) {
		okSame := false
		for _, s := range subs {
			if sameBaseVal(Receiver(cl), s) {
				okSame = true
			}
		}
		c.Report(okSame, P+".O1", "WIRING/same-handler", r.StartLit, cl.Pos(), "run loop call", "the run loop runs on the handler that was just subscribed")
	}
	// (iii) Publish
	for _, pc := range r.PubCalls {
		H := CalleeFn(pc.Common())
		if H == nil || IsCallTo(pc, nPublish) {
			continue
		}
		c.Use(P+".O1", H, "publish helper")
		// argument: the chain's outputs
		okArg := false
		var outP *ssa.Parameter
		for i, a := range pc.Common().Args {
			if AllOrigins(a, ResultOfAny(r.ChainCalls, 0)) && i < len(H.Params) {
				okArg = true
				outP = H.Params[i]
			}
		}
		c.Report(okArg, P+".O1", "WIRING/outputs", D, pc.Pos(), "publish helper call", "the publish helper receives exactly the slice the chain returned")
		c.Floor(P+".O1", "Publisher.Publish call in the publish helper", len(CallsTo(H, nPublish)), 1)
		for i, pb := range CallsTo(H, nPublish) {
			k := fmt.Sprintf("Publish#%d", i)
			c.Report(AllOrigins(Receiver(pb), IsFieldLoad(r.HPub)), P+".O1", "WIRING/publisher", H, pb.Pos(), k, "outputs go to this handler's publisher")
			c.Report(AllOrigins(Arg(pb, 0), IsFieldLoad(r.HPubTopic)), P+".O1", "WIRING/publish-topic", H, pb.Pos(), k, "… on this handler's publish topic")
			c.Report(outP != nil && AllOrigins(Arg(pb, 1), IsParam(outP)), P+".O1", "WIRING/unmodified", H, pb.Pos(), k, "… as the very slice returned by the chain (not rebuilt, filtered or reordered)")
			c.Report(len(CallsTo(H, nPublish)) == 1 && !InLoop(pb), P+".O1", "WIRING/one-publish", H, pb.Pos(), k, "in one Publish call")
		}
	}
	// O2: constructor map — fields were located from AddHandler's parameters and are used in their roles above;
	// additionally each parameter goes to exactly one handler field and the six fields are distinct
	seen := map[*types.Var]string{}
	okDistinct := true
	for name, f := range map[string]*types.Var{"handlerName": r.HName, "subscribeTopic": r.HSubTopic, "subscriber": r.HSub, "publishTopic": r.HPubTopic, "publisher": r.HPub, "handlerFunc": r.HFunc} {
		if prev, dup := seen[f]; dup {
			okDistinct = false
			_ = prev
		}
		seen[f] = name
	}
	c.Report(okDistinct, P+".O2", "CONSTRUCTOR-MAP", r.AddHandler, r.AddHandler.Pos(), "AddHandler", "each of AddHandler's six parameters is stored into its own handler field, and that field is the one used in the parameter's role (subscribe/publish topic and Pub/Sub not swapped)")
	// the handler is registered under its name
	okReg := false
	AllInstrs(r.AddHandler, func(in ssa.Instruction) {
		if mu, ok := in.(*ssa.MapUpdate); ok && AllOrigins(mu.Key, IsParam(r.AddHandler.Params[1])) {
			okReg = true
		}
	})
	c.Report(okReg, P+".O2", "REGISTERED-BY-NAME", r.AddHandler, r.AddHandler.Pos(), "handlers map", "the handler is registered under the given name")
	// the identity fields (names, topics, function, Pub/Sub type names) are what AddHandler recorded: nothing rewrites them later
	nID := 0
	for _, pair := range []struct {
		f    *types.Var
		what string
	}{{r.HName, "name"}, {r.HSubTopic, "subscribe topic"}, {r.HPubTopic, "publish topic"}, {r.HFunc, "handler function"}, {r.HPubName, "publisher type name"}, {r.HSubName, "subscriber type name"}} {
		for _, fn := range r.Funcs {
			for _, st := range FieldStores(fn, pair.f) {
				nID++
				c.Report(HomeFn(fn) == r.AddHandler, P+".O2", "IDENTITY-WRITTEN-ONCE", fn, st.Pos(), "store to the handler's "+pair.what,
					"a handler's "+pair.what+" is written only by AddHandler, from its parameters (the context and the wiring keep reporting the Pub/Sub the handler was configured with, also after decoration)")
			}
		}
	}
	c.Floor(P+".O2", "stores to the handler's identity fields", nID, 6)

	// O3 context table
	c08Context(c, P, r)
	// consumed messages get their context in the Router's subscriber decorator: it must hand every message over
	c07Decorator(c, P+".S")
	// "every message a handler returns is published": the dispatch function's ack/nack/publish discipline (decided as C02)
	c02Core(c, P+".S", r.RouterRoles)
	// O5: exactly this handler's middlewares wrap its function
	c09All(c, P, r)
	// O4
	c02NoPublisher(c, P+".O4")
	var pubErrCalls []ssa.CallInstruction
	for _, pc := range r.PubCalls {
		if _, isCall := pc.(*ssa.Call); isCall {
			pubErrCalls = append(pubErrCalls, pc)
		}
	}
	c02HelperResult(c, P+".O4", r.RouterRoles, pubErrCalls)
	// the handler's publisher / subscriber fields only ever hold the handler's own Pub/Sub, possibly decorated
	for _, pair := range []struct {
		f    *types.Var
		what string
	}{{r.HPub, "publisher"}, {r.HSub, "subscriber"}} {
		for _, fn := range r.Funcs {
			if fn == r.AddHandler {
				continue
			}
			for _, st := range FieldStores(fn, pair.f) {
				c.Report(ownOrDecorated(st.Val, pair.f), P+".O1", "WIRING/own-"+pair.what, fn, st.Pos(), "store to the handler's "+pair.what,
					"the handler's "+pair.what+" is only ever replaced by a decoration of its own "+pair.what+" (never by another handler's or a cached one)")
			}
		}
	}
}

func sameBase(addr ssa.Value, recv ssa.Value) bool {
	_, base := FieldOf(addr)
	if base == nil {
		return false
	}
	// recv is a load of a field of the same handler value
	for _, o := range Origins(recv) {
		if u, ok := o.(*ssa.UnOp); ok {
			if _, b2 := FieldOf(u.X); b2 != nil && sameValue(b2, base) {
				return true
			}
		}
	}
	return false
}

func sameBaseVal(h ssa.Value, sub ssa.CallInstruction) bool {
	for _, o := range Origins(Receiver(sub)) {
		if u, ok := o.(*ssa.UnOp); ok {
			if _, b := FieldOf(u.X); b != nil && sameValue(b, h) {
				return true
			}
		}
	}
	return false
}

func c02NoPublisher(c *Check, id string) {
	np := c.P.Method("message", "Router", "AddNoPublisherHandler")
	if !c.Use(id, np, "Router.AddNoPublisherHandler") {
		return
	}
	adds := CallsTo(np, nAddHandler)
	if !c.Floor(id, "AddHandler call in AddNoPublisherHandler", len(adds), 1) {
		return
	}
	for _, ad := range adds {
		mi, ok := Arg(ad, 4).(*ssa.MakeInterface)
		if !ok {
			c.Undecided(id, "NO-PUBLISHER", np, ad.Pos(), "publisher argument", "cannot determine the dynamic type of the publisher passed by AddNoPublisherHandler")
			continue
		}
		var pm *ssa.Function
		if nt := NamedOf(mi.X.Type()); nt != nil {
			pm = c.P.MethodOf(nt, "Publish")
		}
		if !c.Use(id, pm, "Publish method of the no-publisher handler's publisher") {
			continue
		}
		okAll := len(Returns(pm)) > 0
		for _, vs := range ReturnValues(pm, 0) {
			for _, v := range vs {
				if IsNilConst(v) {
					okAll = false
				}
			}
		}
		c.Report(okAll, id, "NO-PUBLISHER-REJECTS", pm, pm.Pos(), "disabled publisher", "the publisher of a no-publisher handler returns a non-nil error on every path (outputs ⇒ Nack, nothing published)")
		// the adapter passes the message through and returns no outputs
		ad5 := FuncOfValue(firstOrigin(Arg(ad, 5)))
		if c.Use(id, ad5, "no-publisher adapter closure") {
			okA := true
			for _, r := range Returns(ad5) {
				if !RetNil(r, 0) {
					okA = false
				}
			}
			var calls []ssa.CallInstruction
			for _, cl := range CallsIn(ad5) {
				if AllOrigins(cl.Common().Value, IsParam(np.Params[4])) {
					calls = append(calls, cl)
				}
			}
			okA = okA && len(calls) == 1 && FromParam(ad5.Params[0])(calls[0].Common().Args[0])
			for _, r := range Returns(ad5) {
				if !AllOrigins(r.Results[1], ResultOfAny(calls, 0)) {
					okA = false
				}
			}
			c.Report(okA, id, "NO-PUBLISHER-ADAPTER", ad5, ad5.Pos(), "adapter", "the adapter calls the user's function once on the consumed message and returns (nil, its error)")
		}
	}
}

// c08StructName: the Pub/Sub names in the handler context are
// internal.StructName(<the Pub/Sub given to AddHandler>): String() of that very
// value when it implements fmt.Stringer, its type name otherwise.
func c08StructName(c *Check, P string) {
	fn := c.P.Func("internal", "StructName")
	if !c.Use(P+".O3", fn, "internal.StructName") || len(fn.Params) != 1 {
		return
	}
	prm := fn.Params[0]
	n := 0
	AllInstrs(fn, func(in ssa.Instruction) {
		ta, ok := in.(*ssa.TypeAssert)
		if !ok || ta.AssertedType.String() != "fmt.Stringer" {
			return
		}
		n++
		c.Report(FromParam(prm)(ta.X), P+".O3", "NAME-OF-THE-ARGUMENT", fn, ta.Pos(), "Stringer test", "String() is asked of the value that was passed in (not of something derived from it: a pointer receiver's String() is not in the method set of the pointed-to value)")
	})
	c.Floor(P+".O3", "fmt.Stringer test in internal.StructName", n, 1)
	// the name is computed from the value on every call: two values of one type may name themselves differently
	// (fmt.Stringer), so nothing is remembered between calls
	nglob := 0
	for _, f := range WithAnon(fn) {
		AllInstrs(f, func(in ssa.Instruction) {
			for _, op := range in.Operands(nil) {
				if g, isG := (*op).(*ssa.Global); isG && g.Pkg == fn.Pkg {
					nglob++
					c.Report(false, P+".O3", "NAME-COMPUTED-PER-CALL", f, in.Pos(), "use of package variable "+g.Name(), "StructName keeps no state between calls (a cache keyed by type hands one value's String() to another value of the same type)")
				}
			}
		})
	}
	c.Report(true, P+".O3", "NAME-STATE-SCANNED", fn, fn.Pos(), "internal.StructName", fmt.Sprintf("%d uses of package-level variables", nglob))
	for _, cl := range CallsTo(fn, "fmt.Sprintf") {
		els := VariadicElems(cl.Common().Args[1])
		okArg := len(els) == 1 && FromParam(prm)(unwrapIface(els[0]))
		f, isS := ConstString(cl.Common().Args[0])
		c.Report(okArg && isS && f == "%T", P+".O3", "NAME-OF-THE-ARGUMENT", fn, cl.Pos(), "type name", "otherwise the name is the %T of the value that was passed in")
	}
}

// c08MessageContext: the message's own context accessors — everything the router, the CQRS layer and the middlewares put
// on a message's context travels through this pair.
func c08MessageContext(c *Check, id string) {
	M := c.P.Named("message", "Message")
	if M == nil {
		c.Floor(id, "type message.Message", 0, 1)
		return
	}
	set, get := c.P.MethodOf(M, "SetContext"), c.P.MethodOf(M, "Context")
	if !c.Use(id, set, "Message.SetContext") || !c.Use(id, get, "Message.Context") {
		return
	}
	var ctxF *types.Var
	if st, ok := M.Underlying().(*types.Struct); ok {
		for i := 0; i < st.NumFields(); i++ {
			if st.Field(i).Type().String() == "context.Context" {
				ctxF = st.Field(i)
			}
		}
	}
	if !c.Floor(id, "context field of Message", b2i(ctxF != nil), 1) {
		return
	}
	sts := FieldStores(set, ctxF)
	okS := len(sts) == 1 && FromParam(set.Params[1])(sts[0].Val)
	if okS {
		for _, r := range Returns(set) {
			if !Dominates(set, sts[0], r) {
				okS = false
			}
		}
	}
	c.Report(okS, id, "MESSAGE-CONTEXT-SET", set, set.Pos(), "SetContext", "SetContext stores the given context in the message, on every path")
	isF := func(v ssa.Value) bool { return AllOrigins(v, IsFieldLoad(ctxF)) }
	isNil, nonNil := NilEdges(get, isF)
	for i, r := range Returns(get) {
		ok := false
		switch {
		case isF(r.Results[0]):
			ok = len(nonNil) > 0 && GuardedBy(get, r, nonNil)
		default:
			ok = len(isNil) > 0 && GuardedBy(get, r, isNil) && AllOrigins(r.Results[0], func(o ssa.Value) bool {
				cl, isCall := o.(*ssa.Call)
				return isCall && (CalleeName(cl) == "context.Background" || CalleeName(cl) == "context.TODO")
			})
		}
		c.Report(ok, id, "MESSAGE-CONTEXT-GET", get, r.Pos(), fmt.Sprintf("Context return#%d", i), "Context answers the stored context whenever one was set, and the background context only when none was")
	}
}

func c08Context(c *Check, P string, r *RouterRoles2) {
	c08StructName(c, P)
	c08MessageContext(c, P+".O3")
	// the context decorator: method of the handler type calling context.WithValue
	var ctxFn *ssa.Function
	for _, fn := range r.Funcs {
		if fn.Parent() == nil && fn.Signature.Recv() != nil && NamedOf(fn.Signature.Recv().Type()) == r.HandlerT && len(CallsTo(fn, nWithValue)) > 0 {
			ctxFn = fn
		}
	}
	if !c.Use(P+".O3", ctxFn, "handler context decorator (calls context.WithValue)") {
		return
	}
	// accessor -> key
	accessors := map[string]*types.Var{
		"HandlerNameFromCtx":    r.HName,
		"PublisherNameFromCtx":  r.HPubName,
		"SubscriberNameFromCtx": r.HSubName,
		"SubscribeTopicFromCtx": r.HSubTopic,
		"PublishTopicFromCtx":   r.HPubTopic,
	}
	keyOf := map[string]string{}
	for name := range accessors {
		fn := c.P.Func("message", name)
		if !c.Use(P+".O3", fn, "message."+name) {
			continue
		}
		k := ""
		for _, cl := range CallsIn(fn) {
			for _, a := range cl.Common().Args {
				if s := constKey(a); s != "" {
					k = s
				}
			}
			// the helper must use its key parameter for ctx.Value
			if cal := CalleeFn(cl.Common()); cal != nil && cal.Pkg == fn.Pkg {
				for _, v := range CallsTo(cal, "(context.Context).Value") {
					okK := AllOrigins(unwrapIface(v.Common().Args[0]), func(o ssa.Value) bool { p, ok := o.(*ssa.Parameter); return ok && p.Parent() == cal })
					c.Report(okK, P+".O3", "ACCESSOR-HELPER", cal, v.Pos(), "ctx.Value(key)", "the shared accessor helper looks up the key it is given")
					// what it answers is the stored string, or "" when there is none — never a rendering of "no value"
					for i, rr := range Returns(cal) {
						okV := AllOrigins(rr.Results[0], func(o ssa.Value) bool {
							if s, isS := ConstString(o); isS && s == "" {
								return true
							}
							e, isE := o.(*ssa.Extract)
							if !isE || e.Index != 0 {
								return false
							}
							ta, isTA := e.Tuple.(*ssa.TypeAssert)
							return isTA && ta.CommaOk && ta.AssertedType.String() == "string" && AllOrigins(ta.X, func(x ssa.Value) bool { return x == CallValue(v) })
						})
						// the empty answer is given only when the lookup found no string (the asserted value itself is "" then, so
						// returning it unconditionally is fine — returning "" although a string was found is not)
						if okV && AllOrigins(rr.Results[0], func(o ssa.Value) bool { s, isS := ConstString(o); return isS && s == "" }) {
							_, notString := BoolEdges(cal, func(x ssa.Value) bool {
								e, isE := x.(*ssa.Extract)
								if !isE || e.Index != 1 {
									return false
								}
								ta, isTA := e.Tuple.(*ssa.TypeAssert)
								return isTA && ta.CommaOk && AllOrigins(ta.X, func(y ssa.Value) bool { return y == CallValue(v) })
							})
							okV = len(notString) > 0 && GuardedBy(cal, rr, notString)
						}
						c.Report(okV, P+".O3", "ACCESSOR-VALUE", cal, rr.Pos(), fmt.Sprintf("accessor helper return#%d", i), `the accessors answer the string stored under the key, and "" when nothing (or something that is not a string) is stored`)
					}
				}
			}
		}
		keyOf[name] = k
		c.Report(k != "", P+".O3", "ACCESSOR-KEY", fn, fn.Pos(), name, "the accessor reads a constant context key ("+k+")")
	}
	// writer: key -> field
	written := map[string]*types.Var{}
	for _, wv := range CallsTo(ctxFn, nWithValue) {
		k := constKey(wv.Common().Args[1])
		if mi, isMI := wv.Common().Args[1].(*ssa.MakeInterface); isMI {
			nt, isNamed := mi.X.Type().(*types.Named)
			c.Report(isNamed && nt.Obj().Pkg() == ctxFn.Pkg.Pkg && !nt.Obj().Exported(), P+".O3", "CONTEXT-KEY-TYPE", ctxFn, wv.Pos(), "WithValue key "+k, "the handler values are stored under keys of a private defined type of package message (a plain string — or an alias of it — would collide with keys user code puts into the message context)")
		}
		f := LoadedField(firstOrigin(unwrapIface(wv.Common().Args[2])))
		if k != "" && f != nil {
			written[k] = f
		}
		// chained on the message's context
		okChain := AllOrigins(wv.Common().Args[0], func(o ssa.Value) bool {
			if call, ok := o.(*ssa.Call); ok {
				n := CalleeName(call)
				return n == nContext || n == nWithValue
			}
			return false
		})
		c.Report(okChain, P+".O3", "CONTEXT-CHAINED", ctxFn, wv.Pos(), "WithValue "+k, "values are added on top of the message's own context")
	}
	for name, f := range accessors {
		k := keyOf[name]
		c.Report(k != "" && written[k] == f && f != nil, P+".O3", "CONTEXT-TABLE", ctxFn, ctxFn.Pos(), name, "the key read by "+name+" is written from the handler field holding that datum")
	}
	// SetContext with the accumulated context on every message of the argument
	for _, sc := range CallsTo(ctxFn, nSetContext) {
		okV := AllOrigins(Arg(sc, 0), func(o ssa.Value) bool {
			call, ok := o.(*ssa.Call)
			return ok && (CalleeName(call) == nWithValue || CalleeName(call) == nContext)
		})
		okM := false
		if u, ok := firstOrigin(Receiver(sc)).(*ssa.UnOp); ok {
			if ia, ok := u.X.(*ssa.IndexAddr); ok {
				okM = IsFullRangeIndex(ia.Index, ia.X)
			}
		}
		c.Report(okV && okM, P+".O3", "CONTEXT-SET", ctxFn, sc.Pos(), "SetContext", "every given message gets the enriched context (full range)")
		if u, ok := firstOrigin(Receiver(sc)).(*ssa.UnOp); ok {
			if ia, ok := u.X.(*ssa.IndexAddr); ok {
				if inc, isIns := ia.Index.(ssa.Instruction); isIns {
					c.Report(!ReachWithout(inc, inc, sc), P+".O3", "CONTEXT-SET-EVERY-MESSAGE", ctxFn, sc.Pos(), "SetContext", "no message is skipped: every iteration sets the context (a message that already carries another handler's values is overwritten, not kept)")
				}
			}
		}
		// every value is written unless the handler's own datum is empty: WithValue calls are guarded only by tests of handler fields
		for _, wv := range CallsTo(ctxFn, nWithValue) {
			okG := true
			for _, t := range Tests(ctxFn) {
				if !ReachAfter(t.If, nil)[wv] || Dominates(ctxFn, wv, t.If) {
					continue
				}
				f := LoadedField(firstOrigin(t.X))
				if f == nil && t.Y != nil {
					f = LoadedField(firstOrigin(t.Y))
				}
				isLoopTest := false
				if bo, isB := t.If.Cond.(*ssa.BinOp); isB {
					if _, isLen := IsBuiltinCall(bo.Y, "len"); isLen || bo.Op.String() == "<" {
						isLoopTest = true
					}
				}
				if f == nil && !isLoopTest && !GuardedBy(ctxFn, wv, []Edge{t.True}) == false {
					// a test on something other than a handler field decides whether this value is written
					if GuardedBy(ctxFn, wv, []Edge{t.True}) || GuardedBy(ctxFn, wv, []Edge{t.False}) {
						okG = false
					}
				}
			}
			c.Report(okG, P+".O3", "CONTEXT-VALUES-UNCONDITIONAL", ctxFn, wv.Pos(), "WithValue "+constKey(wv.Common().Args[1]), "whether a value is written depends only on the handler's own datum being non-empty, not on the message")
		}
	}
	// applied to produced messages before Publish
	D := r.Dispatch
	var applied []ssa.CallInstruction
	for _, cl := range Callers([]*ssa.Function{D}, ctxFn) {
		if AllOrigins(cl.Common().Args[len(cl.Common().Args)-1], ResultOfAny(r.ChainCalls, 0)) {
			applied = append(applied, cl)
		}
	}
	if c.Floor(P+".O3", "context decorator applied to the produced messages in the dispatch function", len(applied), 1) {
		for _, pc := range r.PubCalls {
			ok := false
			for _, a := range applied {
				if Dominates(D, a, pc) {
					ok = true
				}
			}
			c.Report(ok, P+".O3", "CONTEXT-ON-PRODUCED", D, pc.Pos(), "publish", "produced messages carry the handler context before they are published")
		}
	}
	// applied to consumed messages by the first subscriber decorator
	var decSub *ssa.Function
	for _, fn := range r.Funcs {
		if fn.Parent() == nil && len(CallsTo(fn, msgPkg+".MessageTransformSubscriberDecorator")) > 0 && fn.Signature.Recv() != nil && NamedOf(fn.Signature.Recv().Type()) == r.R {
			decSub = fn
		}
	}
	if c.Use(P+".O3", decSub, "router function decorating the handler's subscriber") {
		mt := CallsTo(decSub, msgPkg+".MessageTransformSubscriberDecorator")[0]
		tf := FuncOfValue(firstOrigin(mt.Common().Args[0]))
		msgIdx := 0
		if bt := c.P.BoundMethodTarget(firstOrigin(mt.Common().Args[0])); bt != nil {
			// a method value of the handler (`h.method`): the message is the method's first parameter after the receiver
			tf, msgIdx = bt, 1
		}
		okT := false
		if tf != nil && msgIdx < len(tf.Params) {
			for _, cl := range Callers([]*ssa.Function{tf}, ctxFn) {
				if el := VariadicElems(cl.Common().Args[len(cl.Common().Args)-1]); len(el) == 1 && FromParam(tf.Params[msgIdx])(el[0]) {
					okT = true
				}
			}
		}
		c.Report(okT, P+".O3", "CONTEXT-ON-CONSUMED", decSub, mt.Pos(), "transform", "the transform applied to consumed messages is the handler context decorator")
		// applied first: the decorated value is h.subscriber, and user decorators wrap its result
		var apply ssa.CallInstruction
		for _, cl := range CallsIn(decSub) {
			if AllOrigins(cl.Common().Value, func(o ssa.Value) bool { return o == CallValue(mt) }) {
				apply = cl
			}
		}
		okFirst := apply != nil && AllOrigins(apply.Common().Args[0], IsFieldLoad(r.HSub))
		c.Report(okFirst, P+".O3", "CONTEXT-DECORATOR-FIRST", decSub, mt.Pos(), "transform", "the context decorator wraps the handler's own subscriber directly (it goes before the user's subscriber decorators)")
		// the final value is stored back as the handler's subscriber
		okSt := len(FieldStores(decSub, r.HSub)) == 1
		c.Report(okSt, P+".O3", "DECORATED-SUBSCRIBER-STORED", decSub, decSub.Pos(), "store", "the decorated subscriber replaces the handler's subscriber")
		for _, cl := range Callers([]*ssa.Function{r.RunHandlers}, decSub) {
			for _, s := range CallsTo(r.RunHandlers, nSubscribe) {
				c.Report(Dominates(r.RunHandlers, cl, s), P+".O3", "DECORATE-BEFORE-SUBSCRIBE", r.RunHandlers, cl.Pos(), "decorate", "subscribers are decorated before Subscribe is called")
			}
		}
	}
}

// ---------------------------------------------------------------------------

func runC09(c *Check) {
	P := "C09"
	r := c.routerRoles2(P)
	if r == nil {
		return
	}
	c09All(c, P, r)
	// the router's own context decorator is one of the subscriber decorators whose order C09 is about: it wraps the
	// handler's subscriber directly, in front of the user's (decided as C08.O3)
	c08Context(c, P+".M08", r)
}

// c09All holds the C09 obligations (also run under C08: a foreign handler's
// middleware wrapping this handler changes what its function receives/returns).
// c09PluginsFirst: plugins may register middlewares and decorators; RunHandlers takes each handler's snapshot of them.
func c09PluginsFirst(c *Check, P string, r *RouterRoles2) {
	Run := r.Run
	var plugF *types.Var
	if st, ok := r.R.Underlying().(*types.Struct); ok {
		for i := 0; i < st.NumFields(); i++ {
			if sl, isS := st.Field(i).Type().(*types.Slice); isS && sl.Elem().String() == msgPkg+".RouterPlugin" {
				plugF = st.Field(i)
			}
		}
	}
	if plugF == nil {
		c.Note(P+".O1", "PLUGINS-BEFORE-HANDLERS", Run, Run.Pos(), "Router plugins", "the Router has no plugin list")
		return
	}
	var calls []ssa.CallInstruction
	for _, f := range WithStarted(Run) {
		for _, cl := range CallsIn(f) {
			if cl.Common().IsInvoke() || CalleeFn(cl.Common()) != nil {
				continue
			}
			if AnyOrigin(cl.Common().Value, func(o ssa.Value) bool {
				u, ok := o.(*ssa.UnOp)
				if !ok || u.Op != token.MUL {
					return false
				}
				if ia, isIA := u.X.(*ssa.IndexAddr); isIA {
					return AllOrigins(ia.X, IsFieldLoad(plugF))
				}
				return false
			}) {
				calls = append(calls, cl)
			}
		}
	}
	if !c.Floor(P+".O1", "plugin invocations in Run", len(calls), 1) {
		return
	}
	for _, rh := range Callers([]*ssa.Function{Run}, r.RunHandlers) {
		after := ReachAfter(rh, nil)
		for _, pc := range calls {
			c.Report(!after[pc], P+".O1", "PLUGINS-BEFORE-HANDLERS", Run, pc.Pos(), "plugin invocation", "every plugin has run before Run starts the handlers: a middleware or decorator a plugin registers applies to the handlers present at Run")
		}
	}
}

// c09StartAndDecorate: who starts handlers and who wraps their publisher / subscriber (also decided under C09: it
// fixes which middlewares and decorators a handler runs with).
func c09StartAndDecorate(c *Check, P string, r *RouterRoles2) {
	// handlers are started by Run and by the user's own RunHandlers calls, at a moment the user chooses (after the
	// handler's middlewares were added): nothing else in the package starts them
	for _, cl := range Callers(r.Funcs, r.RunHandlers) {
		c.Report(HomeFn(cl.Parent()) == r.Run, P+".O2", "HANDLERS-STARTED-ONLY-BY-RUN", cl.Parent(), cl.Pos(), "RunHandlers call", "inside the package RunHandlers is called by Run only (a handler that is started as a side effect of its registration misses the middlewares added after AddHandler returned)")
	}
	// a handler's publisher and subscriber are replaced only when it is started (the decorate step of RunHandlers)
	okW := map[*ssa.Function]bool{r.AddHandler: true, r.RunHandlers: true}
	for _, f := range sameReceiverCalleesOf(r.RunHandlers) {
		okW[f] = true
	}
	// (with a new helper read at its call: what the helper calls counts as called by RunHandlers)
	for _, cl := range CallsIn(r.RunHandlers) {
		if _, isCall := cl.(*ssa.Call); !isCall {
			continue
		}
		if cal := CalleeFn(cl.Common()); cal != nil && cal.Pkg == r.RunHandlers.Pkg && len(cal.Blocks) > 0 && HomeFn(cl.Parent()) == r.RunHandlers {
			okW[cal] = true
		}
	}
	for _, fld := range []*types.Var{r.HPub, r.HSub} {
		if fld == nil {
			continue
		}
		for _, fn := range r.Funcs {
			for _, st := range FieldStores(fn, fld) {
				home := HomeFn(fn)
				c.Report(okW[home] || okW[fn] || allocatesNamed(fn, r.HandlerT), P+".O2", "WHO-MAY-REPLACE-A-HANDLERS-PUBSUB", fn, st.Pos(), "store to handler."+fld.Name(), "a handler's publisher / subscriber is set when the handler is built and wrapped when it is started, nowhere else (decorators applied later to running handlers end up in another order than for handlers started afterwards)")
			}
		}
	}
}

func c09All(c *Check, P string, r *RouterRoles2) {
	c09StartAndDecorate(c, P, r)
	c09PluginsFirst(c, P, r)
	// the three list fields of Router
	mwT := c.P.Named("message", "middleware")
	var lists []*types.Var
	st := r.R.Underlying().(*types.Struct)
	var mwF, pdF, sdF *types.Var
	for i := 0; i < st.NumFields(); i++ {
		f := st.Field(i)
		sl, ok := f.Type().(*types.Slice)
		if !ok {
			continue
		}
		switch sl.Elem().String() {
		case msgPkg + ".PublisherDecorator":
			pdF = f
		case msgPkg + ".SubscriberDecorator":
			sdF = f
		default:
			if n := NamedOf(sl.Elem()); n != nil {
				if s2, isS := n.Underlying().(*types.Struct); isS {
					for j := 0; j < s2.NumFields(); j++ {
						if s2.Field(j).Type().String() == msgPkg+".HandlerMiddleware" {
							mwF = f
							mwT = n
						}
					}
				}
			}
		}
	}
	_ = mwT
	if !c.Floor(P+".O1", "Router list fields: middlewares, publisher decorators, subscriber decorators", b2i(mwF != nil)+b2i(pdF != nil)+b2i(sdF != nil), 3) {
		return
	}
	lists = []*types.Var{mwF, pdF, sdF}
	nst := 0
	for _, f := range lists {
		for _, fn := range r.Funcs {
			for _, stv := range FieldStores(fn, f) {
				if allocatesNamed(fn, r.R) {
					continue
				}
				nst++
				call, ok := firstOrigin(stv.Val).(*ssa.Call)
				okApp := false
				if ok {
					if args, isApp := IsBuiltinCall(call, "append"); isApp {
						okApp = AllOrigins(args[0], func(o ssa.Value) bool { return LoadedField(o) == f || isAppendOnto(o, f) })
					}
				}
				c.Report(okApp, P+".O1", "APPEND-ONLY", fn, stv.Pos(), "store to "+roleName(f, mwF, pdF, sdF), "the list is only ever extended by append onto itself (registration order = list order)")
				held := r.LA.Held(stv)
				hasR, hasW := false, false
				for _, m := range held {
					if m == 'R' {
						hasR = true
					} else {
						hasW = true
					}
				}
				c.Report(!hasR || hasW, P+".O1", "APPEND-NOT-UNDER-READ-LOCK", fn, stv.Pos(), "store to "+roleName(f, mwF, pdF, sdF), "a registration list is never extended under a lock held in read mode only (two registrations could run at once and one of them be lost)", "held: "+held.String())
			}
		}
	}
	c.Floor(P+".O1", "stores to the registration lists", nst, 4)
	// registration is unconditional: every exit of a function that extends a list has extended it
	for _, f := range lists {
		for _, fn := range r.Funcs {
			if allocatesNamed(fn, r.R) || fn.Object() == nil || !fn.Object().Exported() {
				continue
			}
			sts := FieldStores(fn, f)
			if len(sts) == 0 {
				continue
			}
			cut := NewCut()
			for _, st := range sts {
				cut.AddInstrs(st)
			}
			re := ReachEntry(fn, cut)
			for i, ret := range Returns(fn) {
				c.Report(!re[ret], P+".O1", "REGISTRATION-UNCONDITIONAL", fn, ret.Pos(), fmt.Sprintf("%s return#%d", roleName(f, mwF, pdF, sdF), i), "whatever the router's state, what is passed to the registration call is appended (handlers added and started later must get it)")
			}
		}
	}
	// every registration call of the Router's API reaches its list: an exported method with a variadic parameter of the
	// list's element type stores to that list, itself or through the private function it hands the parameter to
	var plugF *types.Var
	for i := 0; i < st.NumFields(); i++ {
		if sl, isS := st.Field(i).Type().(*types.Slice); isS && sl.Elem().String() == msgPkg+".RouterPlugin" {
			plugF = st.Field(i)
		}
	}
	elemOf := map[*types.Var]string{mwF: msgPkg + ".HandlerMiddleware", pdF: msgPkg + ".PublisherDecorator", sdF: msgPkg + ".SubscriberDecorator"}
	if plugF != nil {
		elemOf[plugF] = msgPkg + ".RouterPlugin"
	}
	napi := 0
	for f, elem := range elemOf {
		for i := 0; i < r.R.NumMethods(); i++ {
			fn := c.P.SSA.FuncValue(r.R.Method(i).Origin())
			if fn == nil || fn.Object() == nil || !fn.Object().Exported() || !fn.Signature.Variadic() {
				continue
			}
			last := fn.Params[len(fn.Params)-1]
			sl, isS := last.Type().(*types.Slice)
			if !isS || sl.Elem().String() != elem {
				continue
			}
			// a registration with further parameters (a handler with its middlewares) is not a plain list registration
			if len(fn.Params) != 2 {
				continue
			}
			napi++
			reaches := len(FieldStores(fn, f)) > 0
			if !reaches {
				for _, cl := range CallsIn(fn) {
					cal := CalleeFn(cl.Common())
					if cal == nil || cal.Pkg != fn.Pkg || len(FieldStores(cal, f)) == 0 {
						continue
					}
					for _, a := range cl.Common().Args {
						if FromParam(last)(a) {
							reaches = true
						}
					}
				}
			}
			c.Report(reaches, P+".O1", "REGISTRATION-REACHES-THE-LIST", fn, fn.Pos(), fn.Name(), "what is passed to "+fn.Name()+" is appended to the router's "+f.Name()+" list (by the method or by the private function it hands its argument to)")
		}
	}
	c.Floor(P+".O1", "registration methods of the Router (variadic, one list each)", napi, 3)
	// (information) whether the middleware list is extended under the lock its readers take the snapshot under
	for _, fn := range r.Funcs {
		for _, stv := range FieldStores(fn, mwF) {
			if allocatesNamed(fn, r.R) {
				continue
			}
			held := r.LA.Held(stv)
			hasW := false
			for _, m := range held {
				if m == 'W' {
					hasW = true
				}
			}
			// the property quantifies over registration sequences, not over registrations that run concurrently with
			// starting handlers: an unlocked append is reported for information only
			if !hasW {
				c.Note(P+".O1", "MIDDLEWARE-APPEND-LOCKED", fn, stv.Pos(), "store to the middleware list", "the middleware list is extended without a lock held in write mode (handlers take their snapshot of it under the middlewares lock; a registration concurrent with a starting handler races) — outside this property, which is stated over registration sequences")
			}
		}
	}
	c17ForwarderMiddlewares(c, P+".O3")
	// registration records: struct literals of the record type; a field the literal leaves out has its zero value
	nrec := 0
	handlerLevelFns := map[*ssa.Function]bool{}
	for _, fn := range r.Funcs {
		for _, hst := range FieldStoresByName(fn, "Handler") {
			if hst.Val.Type().String() != msgPkg+".HandlerMiddleware" {
				continue
			}
			_, base := FieldOf(hst.Addr)
			if base == nil {
				continue
			}
			nrec++
			router, okLevel := false, true
			pos := hst.Pos()
			for _, s2 := range FieldStoresByName(fn, "IsRouterLevel") {
				if _, b2 := FieldOf(s2.Addr); b2 == base {
					pos = s2.Pos()
					cst, isC := s2.Val.(*ssa.Const)
					if !isC || cst.Value == nil {
						okLevel = false
					} else {
						router = cst.Value.String() == "true"
					}
				}
			}
			if !okLevel {
				c.Undecided(P+".O1", "REGISTRATION-LEVEL", fn, pos, "IsRouterLevel", "non-constant level flag")
				continue
			}
			// the name stored next to it
			var nameVal ssa.Value
			for _, s2 := range FieldStoresByName(fn, "HandlerName") {
				if _, b2 := FieldOf(s2.Addr); b2 == base {
					nameVal = s2.Val
				}
			}
			if router {
				s, isS := ConstString(nameVal)
				c.Report(nameVal == nil || (isS && s == ""), P+".O1", "REGISTRATION-LEVEL", fn, pos, "router-level record", "router-level middlewares are recorded with IsRouterLevel=true and no handler name")
			} else {
				handlerLevelFns[fn] = true
				okN := nameVal != nil && AllOrigins(nameVal, func(o ssa.Value) bool { p, ok := o.(*ssa.Parameter); return ok && p.Type().String() == "string" })
				c.Report(okN, P+".O1", "REGISTRATION-LEVEL", fn, pos, "handler-level record", "handler-level middlewares are recorded with IsRouterLevel=false and the given handler name")
			}
		}
	}
	c.Floor(P+".O1", "middleware registration records", nrec, 2)
	// the record holds the registered middleware itself (element of the variadic argument), in argument order
	nh := 0
	for _, fn := range r.Funcs {
		for _, stv := range FieldStoresByName(fn, "Handler") {
			if stv.Val.Type().String() != msgPkg+".HandlerMiddleware" {
				continue
			}
			nh++
			okEl := false
			for _, prm := range fn.Params {
				if AllOrigins(stv.Val, func(o ssa.Value) bool { return isElemOfParam(o, prm) }) {
					if u, ok := firstOrigin(stv.Val).(*ssa.UnOp); ok {
						if ia, ok := u.X.(*ssa.IndexAddr); ok && IsFullRangeIndex(ia.Index, ia.X) {
							okEl = true
							// every element is registered: no iteration goes round without extending the list
							if inc, isIns := ia.Index.(ssa.Instruction); isIns {
								for _, ls := range FieldStores(fn, mwF) {
									okEvery := !ReachWithout(inc, inc, ls)
									if !okEvery {
										// or: every iteration appends the record to a local slice, and the list is extended by that whole slice
										_, rec := FieldOf(stv.Addr)
										var apps []ssa.Instruction
										for _, ap := range BuiltinCalls(fn, "append") {
											for _, el := range VariadicElems(ap.Common().Args[1]) {
												if u2, isU := el.(*ssa.UnOp); isU && u2.Op == token.MUL && u2.X == rec {
													apps = append(apps, ap)
												}
											}
										}
										if len(apps) > 0 && !ReachAfter(inc, NewCut().AddInstrs(apps...))[inc] {
											if fin, isApp := firstOrigin(ls.Val).(*ssa.Call); isApp {
												if args, isB := IsBuiltinCall(fin, "append"); isB && len(args) == 2 {
													okEvery = AllOrigins(args[1], func(o ssa.Value) bool {
														for _, ap := range apps {
															if o == CallValue(ap.(ssa.CallInstruction)) {
																return true
															}
														}
														if ms, isMS := o.(*ssa.MakeSlice); isMS {
															k, isC := IntConst(ms.Len)
															return isC && k == 0
														}
														return IsNilConst(o)
													})
												}
											}
										}
									}
									c.Report(okEvery, P+".O1", "REGISTRATION-EVERY-ELEMENT", fn, ls.Pos(), "list append in the registration loop", "every middleware of the argument list is appended (none is skipped, e.g. as an alleged duplicate: distinct middlewares can share a code pointer)")
								}
							}
						}
					}
				}
			}
			c.Report(okEl, P+".O1", "REGISTRATION-STORES-MIDDLEWARE", fn, stv.Pos(), "record.Handler", "each record holds the registered middleware itself, one per element of the argument list in order (not a wrapper closure)")
		}
	}
	c.Floor(P+".O1", "stores of the middleware into a registration record", nh, 2)
	// Handler.AddMiddleware passes its own handler's name
	if H := c.P.Named("message", "Handler"); H != nil {
		if am := c.P.MethodOf(H, "AddMiddleware"); c.Use(P+".O1", am, "Handler.AddMiddleware") {
			ok := false
			for _, cl := range CallsIn(am) {
				cal := CalleeFn(cl.Common())
				if cal == nil || cal.Pkg != am.Pkg || !handlerLevelFns[cal] {
					continue
				}
				for _, a := range cl.Common().Args {
					if AllOrigins(a, IsFieldLoad(r.HName)) {
						ok = true
					}
				}
			}
			c.Report(ok, P+".O1", "HANDLER-LEVEL-OWN-NAME", am, am.Pos(), "Handler.AddMiddleware", "a handler registers its middlewares under its own name")
		}
	}

	// O2 directions
	L := r.RunLoop
	mwParam := (*ssa.Parameter)(nil)
	for _, prm := range L.Params {
		if sl, ok := prm.Type().(*types.Slice); ok && NamedOf(sl.Elem()) == NamedOf(mwF.Type().(*types.Slice).Elem()) {
			mwParam = prm
		}
	}
	wl := FindWrapLoops(L)
	if c.Floor(P+".O2", "middleware wrap loop in the run loop", len(wl), 1) {
		for _, w := range wl {
			okS := mwParam != nil && w.Slice != nil && FromParam(mwParam)(w.Slice)
			c.Report(okS && w.Dir == -1 && w.Full, P+".O2", "WRAP-DIRECTION/middlewares", L, w.Call.Pos(), "middleware wrap", "middlewares are wrapped in a full descending loop over the snapshot: the first registered ends up outermost")
			// O3 filter
			var routerLevel, ownName []Edge
			rl, _ := BoolEdges(L, func(v ssa.Value) bool {
				f := LoadedField(firstOrigin(v))
				return f != nil && f.Name() == "IsRouterLevel"
			})
			routerLevel = rl
			for _, t := range Tests(L) {
				if t.Y == nil {
					continue
				}
				isHN := func(v ssa.Value) bool {
					f := LoadedField(firstOrigin(v))
					return f != nil && f.Name() == "HandlerName" && f.Exported()
				}
				isOwn := func(v ssa.Value) bool { return AllOrigins(v, IsFieldLoad(r.HName)) }
				if (isHN(t.X) && isOwn(t.Y)) || (isHN(t.Y) && isOwn(t.X)) {
					ownName = append(ownName, t.True)
				}
			}
			// `isValid := a == b; if x || isValid`: the comparison may be computed into a value first
			on2, _ := BoolEdges(L, func(v ssa.Value) bool {
				bo, ok := v.(*ssa.BinOp)
				if !ok || bo.Op.String() != "==" {
					return false
				}
				isHN := func(v ssa.Value) bool {
					f := LoadedField(firstOrigin(v))
					return f != nil && f.Name() == "HandlerName" && f.Exported()
				}
				isOwn := func(v ssa.Value) bool { return AllOrigins(v, IsFieldLoad(r.HName)) }
				return (isHN(bo.X) && isOwn(bo.Y)) || (isHN(bo.Y) && isOwn(bo.X))
			})
			ownName = append(ownName, on2...)
			c.Floor(P+".O3", "tests IsRouterLevel / HandlerName == own name", b2i(len(routerLevel) > 0)+b2i(len(ownName) > 0), 2)
			both := append(append([]Edge{}, routerLevel...), ownName...)
			c.Report(GuardedBy(L, w.Call, both), P+".O3", "FILTER", L, w.Call.Pos(), "middleware wrap", "a middleware is applied only if it is router-level or registered for this handler (never another handler's)")
			c.Report(!GuardedBy(L, w.Call, routerLevel) && !GuardedBy(L, w.Call, ownName), P+".O3", "FILTER-BOTH-WAYS", L, w.Call.Pos(), "middleware wrap", "both router-level and own handler-level middlewares reach the wrap (neither kind is dropped)")
			// the tested record is the wrapped element
		}
	}
	// O4 snapshot
	for _, cl := range Callers([]*ssa.Function{r.StartLit}, L) {
		var arg ssa.Value
		for i, prm := range L.Params {
			if prm == mwParam && i < len(cl.Common().Args) {
				arg = cl.Common().Args[i]
			}
		}
		app, okSnap := FreshCopyOf(arg, IsFieldLoad(mwF))
		c.Report(okSnap, P+".O4", "SNAPSHOT", r.StartLit, cl.Pos(), "run loop call", "the handler works on a copy of the middleware list taken when it starts")
		if app != nil {
			held := r.LA.Held(app)
			okL := false
			for id := range held {
				if f := oneField(r.R, TypeIs("*sync.RWMutex")); f != nil || id != "" {
					okL = len(held) > 0
				}
			}
			// … the one the locked registrations hold: a registration that takes a lock and a snapshot that takes another
			// one do not exclude each other
			for _, fn := range r.Funcs {
				for _, stv := range FieldStores(fn, mwF) {
					if allocatesNamed(fn, r.R) {
						continue
					}
					wl := []string{}
					for lid, m := range r.LA.Held(stv) {
						if m == 'W' {
							wl = append(wl, lid)
						}
					}
					if len(wl) == 0 {
						continue // an unlocked registration: see the note MIDDLEWARE-APPEND-LOCKED
					}
					common := false
					for _, lid := range wl {
						if _, has := held[lid]; has {
							common = true
						}
					}
					if !common {
						okL = false
					}
				}
			}
			c.Report(okL, P+".O4", "SNAPSHOT-LOCKED", app.Parent(), app.Pos(), "snapshot", "the copy is taken with the lock held under which handler-level registrations extend the list", "held: "+held.String())
		}
	}
	// decoration happens once per handler: in RunHandlers the functions that replace the handler's publisher / subscriber
	// are called only on the not-yet-started edge
	_, notStarted := BoolEdges(r.RunHandlers, func(v ssa.Value) bool { return AllOrigins(v, IsFieldLoad(r.HStarted)) })
	ndec := 0
	for _, cl := range CallsIn(r.RunHandlers) {
		cal := CalleeFn(cl.Common())
		if cal == nil || cal.Pkg != r.RunHandlers.Pkg {
			continue
		}
		if len(FieldStores(cal, r.HPub))+len(FieldStores(cal, r.HSub)) == 0 {
			// or a function that hands the decorated publisher / subscriber back for RunHandlers to store
			stored := false
			for _, f := range []*types.Var{r.HPub, r.HSub} {
				for _, st := range FieldStores(r.RunHandlers, f) {
					if AllOrigins(st.Val, func(o ssa.Value) bool { return IsResultOf(o, cl, 0) }) {
						stored = true
					}
				}
			}
			if !stored {
				continue
			}
		}
		ndec++
		c.Report(len(notStarted) > 0 && GuardedBy(r.RunHandlers, cl, notStarted), P+".O2", "DECORATE-ONCE", r.RunHandlers, cl.Pos(), "decorate call "+fmt.Sprint(ndec),
			"a handler's publisher and subscriber are decorated only when the handler is started (a later RunHandlers call must not wrap them again)")
	}
	c.Floor(P+".O2", "decorate calls in RunHandlers", ndec, 2)
	// … and a decorated handler is started in the same pass: no path leads from a decorate call round the loop to the same
	// call again without the started flag having been raised (handlers decorated in a first loop and started in a second one are
	// decorated again by the next RunHandlers call when a Subscribe in between failed)
	if r.HStarted != nil {
		var raised []ssa.Instruction
		for _, st := range FieldStores(r.RunHandlers, r.HStarted) {
			raised = append(raised, st)
		}
		for _, cl := range CallsIn(r.RunHandlers) {
			cal := CalleeFn(cl.Common())
			if cal == nil || cal.Pkg != r.RunHandlers.Pkg || len(FieldStores(cal, r.HPub))+len(FieldStores(cal, r.HSub)) == 0 || cl.Parent() != r.RunHandlers {
				continue
			}
			c.Report(len(raised) > 0 && !ReachWithout(cl, cl, raised...), P+".O2", "DECORATED-AND-STARTED-IN-ONE-PASS", r.RunHandlers, cl.Pos(), "decorate call", "from a decorate call the loop comes back to it only past the store that marks the handler started: decoration and start belong to one iteration")
		}
	}
	// decorators
	for _, fn := range r.Funcs {
		if fn.Parent() != nil || fn.Signature.Recv() == nil || NamedOf(fn.Signature.Recv().Type()) != r.R {
			continue
		}
		for _, w := range FindWrapLoops(fn) {
			if w.Slice == nil {
				continue
			}
			if AllOrigins(w.Slice, IsFieldLoad(pdF)) || AllOrigins(w.Slice, IsFieldLoad(sdF)) {
				// a decorator that cannot be applied fails the start: on its error edge the function does not go on to the next
				// decorator and returns the failure (a skipped decorator — signing, metrics, envelopes — changes what the handler does)
				if w.Call.Common().Signature().Results().Len() == 2 {
					_, fail := NilEdges(fn, func(v ssa.Value) bool { return isExtractIdx(v, w.Call, 1) })
					c.Floor(P+".O2", "test of the decorator's error", len(fail), 1)
					for _, e := range fail {
						re := ReachEdge(e, nil)
						okF := !re[w.Call]
						for _, ret := range Returns(fn) {
							if re[ret] && !KnownNonNilAt(fn, ret, ret.Results[len(ret.Results)-1]) {
								for _, v := range RetOrigins(ret, len(ret.Results)-1) {
									if !ProvablyNonNil(v, func(x ssa.Value) bool { return isExtractIdx(x, w.Call, 1) }) {
										okF = false
									}
								}
							}
						}
						c.Report(okF, P+".O2", "DECORATOR-FAILURE-FAILS-THE-START", fn, w.Call.Pos(), "decorator error edge", "when a decorator returns an error the decorate function returns it (wrapped): it neither skips the decorator nor goes on with the rest of the chain")
					}
				}
			}
			switch {
			case AllOrigins(w.Slice, IsFieldLoad(pdF)):
				c.Report(w.Dir == -1 && w.Full, P+".O2", "WRAP-DIRECTION/publisher-decorators", fn, w.Call.Pos(), "publisher decorator wrap", "publisher decorators are applied in a full descending loop: the first added is outermost and sees outgoing messages first")
				c.Report(AllOrigins(w.Call.Common().Args[0], func(o ssa.Value) bool {
					return LoadedField(o) == r.HPub || o == CallValue(w.Call) || isExtractOf(o, w.Call)
				}), P+".O2", "WRAP-BASE/publisher", fn, w.Call.Pos(), "publisher decorator wrap", "the chain starts from the handler's own publisher")
				okStored := len(FieldStores(fn, r.HPub)) == 1
				if !okStored && len(FieldStores(fn, r.HPub)) == 0 {
					// handed back: every caller stores the result as the handler's publisher before it goes on
					sites := Callers(r.Funcs, fn)
					okStored = len(sites) > 0
					for _, site := range sites {
						found := false
						for _, st := range FieldStores(site.Parent(), r.HPub) {
							if AllOrigins(st.Val, func(o ssa.Value) bool { return IsResultOf(o, site, 0) }) {
								found = true
							}
						}
						if !found {
							okStored = false
						}
					}
					for _, ret := range Returns(fn) {
						if RetNil(ret, len(ret.Results)-1) && !AllOrigins(ret.Results[0], func(o ssa.Value) bool {
							return LoadedField(o) == r.HPub || o == CallValue(w.Call) || isExtractOf(o, w.Call)
						}) {
							okStored = false
						}
					}
				}
				c.Report(okStored, P+".O2", "WRAP-STORED/publisher", fn, w.Call.Pos(), "publisher decorator wrap", "the decorated publisher replaces the handler's publisher")
				// whatever the handler's configuration: a successful return comes after the decoration
				for _, st := range FieldStores(fn, r.HPub) {
					for _, ret := range Returns(fn) {
						if RetNil(ret, len(ret.Results)-1) {
							c.Report(Dominates(fn, st, ret), P+".O2", "DECORATE-ALWAYS/publisher", fn, ret.Pos(), "return nil", "every handler's publisher goes through the publisher decorators (no configuration-dependent shortcut around the loop)")
						}
					}
				}
			case AllOrigins(w.Slice, IsFieldLoad(sdF)):
				c.Report(w.Dir == +1 && w.Full, P+".O2", "WRAP-DIRECTION/subscriber-decorators", fn, w.Call.Pos(), "subscriber decorator wrap", "subscriber decorators are applied in a full ascending loop: the first added is innermost and sees incoming messages first")
				for _, st := range FieldStores(fn, r.HSub) {
					for _, ret := range Returns(fn) {
						if RetNil(ret, len(ret.Results)-1) {
							c.Report(Dominates(fn, st, ret), P+".O2", "DECORATE-ALWAYS/subscriber", fn, ret.Pos(), "return nil", "every handler's subscriber goes through the subscriber decorators")
						}
					}
				}
			}
		}
	}
	nDec := 0
	for _, fn := range r.Funcs {
		for _, w := range FindWrapLoops(fn) {
			if w.Slice != nil && (AllOrigins(w.Slice, IsFieldLoad(pdF)) || AllOrigins(w.Slice, IsFieldLoad(sdF))) {
				nDec++
			}
		}
	}
	c.Floor(P+".O2", "decorator wrap loops (publisher, subscriber)", nDec, 2)
}

func isExtractOf(v ssa.Value, c ssa.CallInstruction) bool {
	e, ok := v.(*ssa.Extract)
	return ok && e.Tuple == CallValue(c)
}

func isAppendOnto(o ssa.Value, f *types.Var) bool {
	call, ok := o.(*ssa.Call)
	if !ok {
		return false
	}
	args, isApp := IsBuiltinCall(call, "append")
	if !isApp {
		return false
	}
	return AllOrigins(args[0], func(x ssa.Value) bool { return LoadedField(x) == f || (x != o && isAppendOnto(x, f)) || x == o })
}

func roleName(f, a, b, c *types.Var) string {
	switch f {
	case a:
		return "middlewares"
	case b:
		return "publisher decorators"
	case c:
		return "subscriber decorators"
	}
	return "list"
}

// ---------------------------------------------------------------------------

func runC10(c *Check) {
	LostReceiverStores(c, "C10.CFG", "message")
	DefaultsApplied(c, "C10.CFG", "message")
	P := "C10"
	r := c.routerRoles2(P)
	if r == nil {
		return
	}
	c10Lifecycle(c, P, r)
	// a handler that ends (Stop, Close, last message) closes its publisher and, through the watcher, its subscriber
	c06ClosesPubSub(c, P+".S", r)
}

// c10Lifecycle holds the lifecycle obligations of C10; C06 (graceful Close:
// "Run returns nil", "Close waits for the handlers") decides them too.
// c10RouterSafety: the locking facts the lifecycle rests on.
func c10RouterSafety(c *Check, P string, r *RouterRoles2) {
	la := r.LA
	// an explicit panic (duplicate handler name, …) is recovered by callers: it must not leave a router lock held
	np := 0
	for _, fn := range r.Funcs {
		res := la.Result(fn)
		AllInstrs(fn, func(in ssa.Instruction) {
			pn, ok := in.(*ssa.Panic)
			if !ok || in.Parent() != fn {
				return
			}
			np++
			var bad []string
			for lid := range la.Held(pn) {
				if _, atEntry := res.Entry[lid]; atEntry {
					continue
				}
				covered := false
				for _, d := range res.DeferredUnlock[lid] {
					if Dominates(fn, d, pn) {
						covered = true
					}
				}
				if !covered {
					bad = append(bad, lid)
				}
			}
			sort.Strings(bad)
			c.Report(len(bad) == 0, P+".O5", "PANIC-LEAVES-NO-LOCK", fn, pn.Pos(), "explicit panic", "a panic raised by the router itself (a recovered duplicate-name registration, …) leaves no router lock held: every lock held at the panic is released by a defer registered before it", "held without deferred unlock: "+strings.Join(bad, ","))
		})
	}
	c.Report(true, P+".O5", "PANICS-SCANNED", nil, token.NoPos, "package scan", fmt.Sprintf("%d explicit panics in package message examined", np))
	// a lock taken by a function of the package is released on every exit (a deferred unlock, or a hand-off to a goroutine
	// that releases it, counts only for the returns it covers), and nothing unlocks what it does not hold
	la.ReportLeaks(c, P+".O5", r.Funcs)
	// no two router locks are taken in both orders, also when the second one is taken by a method called in place
	// (IsClosed() under the handlers lock against Close, which takes the closed lock first)
	es := la.LockOrderThroughCalls()
	conf := OrderConflicts(es)
	for _, p := range conf {
		c.Report(false, P+".O5", "ROUTER-LOCK-ORDER", p[0].Site.Parent(), p[0].Site.Pos(), "acquire "+p[0].To+" while holding "+p[0].From,
			"two locks of package message are acquired in both orders (deadlock when the two paths interleave)",
			fmt.Sprintf("%s: %s held, %s acquired", c.P.Pos(p[0].Site.Pos()), p[0].From, p[0].To),
			fmt.Sprintf("%s: %s held, %s acquired", c.P.Pos(p[1].Site.Pos()), p[1].From, p[1].To))
	}
	c.Report(len(conf) == 0, P+".O5", "ROUTER-LOCK-ORDER-ACYCLIC", r.Close, r.Close.Pos(), "package lock order", fmt.Sprintf("%d nested lock acquisitions examined (also one call deep); no pair of locks is taken in both orders", len(es)))
	// the started flag of a handler is only ever raised (Stop and Stopped rely on it after the handler ended, too)
	for _, fn := range r.Funcs {
		for _, st := range FieldStores(fn, r.HStarted) {
			cst, isC := st.Val.(*ssa.Const)
			c.Report(isC && cst.Value != nil && cst.Value.String() == "true", P+".O3", "STARTED-FLAG-ONLY-RAISED", fn, st.Pos(), "store to the handler's started flag", "a handler's started flag is never lowered again: Stop() and Stopped() of a handler that has ended must stay usable")
		}
	}
	// the handler map is read and written under the handlers lock
	var hmap *types.Var
	if st, ok := r.R.Underlying().(*types.Struct); ok {
		for i := 0; i < st.NumFields(); i++ {
			if m, isM := st.Field(i).Type().Underlying().(*types.Map); isM {
				if p, isP := m.Elem().(*types.Pointer); isP && NamedOf(p) == r.HandlerT {
					hmap = st.Field(i)
				}
			}
		}
	}
	if c.Floor(P+".O2", "Router field holding the handlers (map to the private handler type)", b2i(hmap != nil), 1) {
		lockID := ""
		for _, a := range la.Accesses(hmap) {
			if _, isMU := a.Ins.(*ssa.MapUpdate); isMU && HomeFn(a.Ins.Parent()) == r.AddHandler {
				for lid, m := range la.Held(a.Ins) {
					if m == 'W' {
						lockID = lid
					}
				}
			}
		}
		// a name is registered once: the store into the map lies behind the edge on which the lookup of that name found
		// nothing (a second registration under the same name would orphan the first handler, which Close still waits for)
		for _, a := range la.Accesses(hmap) {
			mu, isMU := a.Ins.(*ssa.MapUpdate)
			if !isMU || HomeFn(a.Ins.Parent()) != r.AddHandler {
				continue
			}
			fn := a.Ins.Parent()
			found, _ := BoolEdges(fn, func(x ssa.Value) bool {
				e, isE := x.(*ssa.Extract)
				if !isE || e.Index != 1 {
					return false
				}
				lk, isLk := e.Tuple.(*ssa.Lookup)
				return isLk && lk.CommaOk && AllOrigins(lk.X, IsFieldLoad(hmap)) && sameValue(lk.Index, mu.Key)
			})
			okNew := len(found) > 0
			for _, e := range found {
				if ReachEdge(e, nil)[a.Ins] {
					okNew = false
				}
			}
			c.Report(okNew, P+".O2", "REGISTER-ONLY-NEW-NAME", fn, a.Ins.Pos(), "registration of the handler", "a handler is stored under its name only when the lookup of that name found no handler: from the 'found' edge the registration is unreachable (it panics)")
		}
		if c.Floor(P+".O2", "lock held when AddHandler registers the handler", b2i(lockID != ""), 1) {
			// scope: the functions of the lifecycle the property speaks about (registration, start, run, stop, close) and what
			// they call or start; a read-only snapshot accessor outside it is noted, not judged
			inScope := map[*ssa.Function]bool{}
			var mark func(f *ssa.Function, d int)
			mark = func(f *ssa.Function, d int) {
				if f == nil || inScope[f] || d > 6 || f.Pkg != r.Run.Pkg {
					return
				}
				inScope[f] = true
				for _, a := range f.AnonFuncs {
					mark(a, d+1)
				}
				for _, cl := range rawCallsIn(f) {
					mark(CalleeFn(cl.Common()), d+1)
				}
			}
			for _, f := range []*ssa.Function{r.AddHandler, r.Run, r.RunHandlers, r.Close, c.P.MethodOf(r.R, "AddNoPublisherHandler"), c.P.Method("message", "Handler", "Stop"), c.P.Method("message", "Handler", "Stopped"), c.P.Method("message", "Handler", "Started")} {
				mark(f, 0)
			}
			n := 0
			for _, a := range la.Accesses(hmap) {
				fn := a.Ins.Parent()
				if a.What == "load" || (HomeFn(fn).Signature.Recv() == nil && a.What == "store") {
					continue // the load of the field itself; the constructor's store
				}
				if !inScope[HomeFn(fn)] && !inScope[fn] {
					if _, held := la.Held(a.Ins)[lockID]; !held {
						c.Note(P+".O2", "HANDLERS-MAP-GUARDED", fn, a.Ins.Pos(), a.What+" of the handler map outside the lifecycle functions", "not under the handlers lock; outside the functions this property is stated over (a caller that uses it concurrently with handlers being added or ending races)")
					}
					continue
				}
				n++
				m := la.Held(a.Ins)[lockID]
				c.Report(m == 'W' || (!a.Write && m == 'R'), P+".O2", "HANDLERS-MAP-GUARDED", fn, a.Ins.Pos(), a.What+" of the handler map", "the router's handler map is read under its lock and written under the write lock (handlers end, are added and are started concurrently)", "held: "+la.Held(a.Ins).String())
			}
			c.Floor(P+".O2", "accesses to the handler map", n, 4)
		}
		// a handler leaves the map when its own goroutine has ended, and nowhere else: an earlier removal (in Stop, say)
		// lets the name be registered again, and the old goroutine then deletes the new handler
		for _, a := range la.Accesses(hmap) {
			if a.What != "delete" {
				continue
			}
			home := HomeFn(a.Ins.Parent())
			okOwner := false
			for _, f := range WithStarted(r.StartLit) {
				if f == home || f == a.Ins.Parent() {
					okOwner = true
				}
			}
			c.Report(okOwner, P+".O2", "HANDLER-REMOVED-ONLY-BY-ITS-OWN-GOROUTINE", a.Ins.Parent(), a.Ins.Pos(), "delete from the handler map", "a handler is removed from the router's map only by the goroutine that ran it, after its loop ended")
		}
	}
	c09StartAndDecorate(c, P, r)
}

// c10CloseSignals: whoever waits on the router's signals (Run, the handlers' close watchers, Close's other callers) is
// released by the first Close, whatever state the router is in: unless the router was closed already, every return of
// Close lies behind the raising of the closing signal and has the closed signal raised (in place or deferred).
func c10CloseSignals(c *Check, P string, r *RouterRoles2) {
	Cl := r.Close
	alreadyClosed, _ := BoolEdges(Cl, func(v ssa.Value) bool { return AllOrigins(v, IsFieldLoad(r.ClosedF)) })
	for _, sg := range []struct {
		f    *types.Var
		what string
	}{{r.ClosingCh, "closing signal"}, {r.ClosedCh, "closed signal"}} {
		if sg.f == nil {
			continue
		}
		sites := CloseSites(Cl, func(v ssa.Value) bool { return AllOrigins(v, IsFieldLoad(sg.f)) })
		if !c.Floor(P+".O5", "close("+sg.what+") in Router.Close", len(sites), 1) {
			continue
		}
		re := ReachEntry(Cl, NewCut().AddInstrs(instrsOf(sites)...).AddEdges(alreadyClosed...))
		for i, ret := range Returns(Cl) {
			c.Report(!re[ret], P+".O5", "CLOSE-RAISES-ITS-SIGNALS", Cl, ret.Pos(), fmt.Sprintf("Close return#%d vs %s", i, sg.what), "unless the router was already closed, Close does not return without the "+sg.what+" raised (or its raising deferred): a Run that starts later, or waits already, is released")
		}
	}
}

func c10Lifecycle(c *Check, P string, r *RouterRoles2) {
	c10RouterSafety(c, P, r)
	c10CloseSignals(c, P, r)
	Run, RH := r.Run, r.RunHandlers
	// a handler added to a router that was started empty wakes the all-handlers-stopped watcher: AddHandler offers the
	// "handler added" signal on every path, whatever it believes about the router's state (the flag it could look at is set
	// by Run at a moment that is not ordered with the watcher's start)
	if r.SelfClose != nil {
		var sigF *types.Var
		for _, si := range Selects(r.SelfClose) {
			for _, cs := range si.Cases {
				if ck := ClassifyChan(cs.Chan); !cs.Send && ck.Kind == "field" && ck.Field != r.ClosedCh && ck.Field != r.ClosingCh {
					sigF = ck.Field
				}
			}
		}
		if sigF != nil {
			var offers []ssa.Instruction
			for _, si := range Selects(r.AddHandler) {
				for _, cs := range si.Cases {
					if ck := ClassifyChan(cs.Chan); cs.Send && ck.Kind == "field" && ck.Field == sigF {
						offers = append(offers, si.Sel)
					}
				}
			}
			AllInstrs(r.AddHandler, func(in ssa.Instruction) {
				if sd, ok := in.(*ssa.Send); ok {
					if ck := ClassifyChan(sd.Chan); ck.Kind == "field" && ck.Field == sigF {
						offers = append(offers, in)
					}
				}
			})
			if c.Floor(P+".O3", "offer of the handler-added signal in AddHandler", len(offers), 1) {
				re := ReachEntry(r.AddHandler, NewCut().AddInstrs(offers...))
				for i, ret := range Returns(r.AddHandler) {
					c.Report(!re[ret], P+".O3", "HANDLER-ADDED-ALWAYS-SIGNALLED", r.AddHandler, ret.Pos(), fmt.Sprintf("AddHandler return#%d", i), "every return of AddHandler has offered the handler-added signal the watcher of a router started empty waits for")
				}
			}
		}
	}
	// what Started() hands out exists from the moment the handler exists: the channel is made with the handler record, and
	// never replaced (a caller that asked before the handler ran would wait on nil, or on a channel nobody closes)
	if r.HStartedCh != nil {
		ns := 0
		for _, fn := range r.Funcs {
			for _, st := range FieldStores(fn, r.HStartedCh) {
				ns++
				_, isMk := firstOrigin(st.Val).(*ssa.MakeChan)
				c.Report(isMk && (fn == r.AddHandler || allocatesNamed(fn, r.HandlerT)), P+".O3", "STARTED-CHANNEL-MADE-WITH-THE-HANDLER", fn, st.Pos(), "store to handler."+r.HStartedCh.Name(), "the channel Started() returns is created where the handler record is built, once")
			}
		}
		c.Floor(P+".O3", "creation of the handler's started channel", ns, 1)
	}
	// Close ends the handlers by cancelling the context Run derived for them: after the closing signal Run calls that cancel
	// function in place (subscribers that end a subscription only when its context ends would keep Close waiting until the time-out)
	{
		var cancels []ssa.Value
		for _, cl := range CallsTo(Run, nWithCancel) {
			if call, isCall := cl.(*ssa.Call); isCall {
				for _, ref := range *call.Referrers() {
					if e, isE := ref.(*ssa.Extract); isE && e.Index == 1 {
						cancels = append(cancels, e)
					}
				}
			}
		}
		var recvs []ssa.Instruction
		for _, op := range BlockingOps(Run) {
			if op.Kind == "recv" && AllOrigins(op.Chan, IsFieldLoad(r.ClosingCh)) {
				recvs = append(recvs, op.Ins)
			}
		}
		if c.Floor(P+".O3", "Run: derived cancellable context and wait for the closing signal", b2i(len(cancels) > 0)+b2i(len(recvs) > 0), 2) {
			okC := false
			for _, cl := range CallsIn(Run) {
				if _, isDefer := cl.(*ssa.Defer); isDefer || cl.Parent() != Run {
					continue
				}
				for _, cv := range cancels {
					if AllOrigins(cl.Common().Value, func(o ssa.Value) bool { return o == cv }) {
						for _, rv := range recvs {
							if Dominates(Run, rv, cl) {
								okC = true
							}
						}
					}
				}
			}
			c.Report(okC, P+".O3", "RUN-CANCELS-THE-HANDLERS-ON-CLOSE", Run, recvs[0].Pos(), "after <-closing", "once the closing signal is raised Run cancels the context its handlers' subscriptions were made with (not only when Run returns)")
		}
	}
	// the goroutine that closes the router once every handler has stopped is started by every Run, whatever is registered
	// at that moment (handlers may be added to a running router; when they end the router must still close itself)
	if r.SelfClose != nil {
		W := outermost(r.SelfClose)
		var wcalls []ssa.CallInstruction
		if W != Run {
			wcalls = Callers([]*ssa.Function{Run}, W)
		}
		if W == Run || c.Floor(P+".O3", "start of the all-handlers-stopped watcher in Run", len(wcalls), 1) {
			for _, rh := range Callers([]*ssa.Function{Run}, RH) {
				okW := W == Run
				for _, wc := range wcalls {
					if Dominates(Run, wc, rh) {
						okW = true
					}
				}
				if W == Run {
					okW = false
					AllInstrs(Run, func(in ssa.Instruction) {
						if g, isGo := in.(*ssa.Go); isGo && FuncOfValue(g.Call.Value) == r.SelfClose && Dominates(Run, g, rh) {
							okW = true
						}
					})
				}
				c.Report(okW, P+".O3", "SELF-CLOSE-WATCHER-ALWAYS-STARTED", Run, rh.Pos(), "RunHandlers call in Run", "every path of Run to the start of the handlers has started the watcher that closes the router when all handlers stopped (also a router started without handlers)")
			}
		}
	}
	// O1
	rhCalls := Callers([]*ssa.Function{Run}, RH)
	if c.Floor(P+".O1", "RunHandlers call in Run", len(rhCalls), 1) {
		okE, _ := NilEdges(Run, ResultOfAny(rhCalls, 0))
		n := 0
		for _, cl := range BuiltinCalls(Run, "close") {
			if LoadedField(firstOrigin(cl.Common().Args[0])) == r.RunningCh {
				n++
				c.Report(len(okE) > 0 && GuardedBy(Run, cl, okE), P+".O1", "RUNNING-AFTER-SUBSCRIBE", Run, cl.Pos(), "close(running)", "Running() is closed only on the edge where RunHandlers returned nil")
			}
		}
		c.Floor(P+".O1", "close(running) in Run", n, 1)
		for _, fn := range r.Funcs {
			if fn == Run {
				continue
			}
			for _, cl := range BuiltinCalls(fn, "close") {
				if LoadedField(firstOrigin(cl.Common().Args[0])) == r.RunningCh {
					c.Report(false, P+".O1", "RUNNING-CLOSED-ELSEWHERE", fn, cl.Pos(), "close(running)", "only Run closes Running()")
				}
			}
		}
	}
	subs := CallsTo(RH, nSubscribe)
	if !c.Floor(P+".O1", "Subscribe call in RunHandlers", len(subs), 1) {
		return
	}
	sub := subs[0]
	subOK, subFail := NilEdges(RH, ResultOfAny(subs, 1))
	startedTrue, startedFalse := BoolEdges(RH, func(v ssa.Value) bool { return AllOrigins(v, IsFieldLoad(r.HStarted)) })
	c.Floor(P+".O1", "tests `Subscribe error == nil` and `handler started`", b2i(len(subOK) > 0)+b2i(len(startedTrue) > 0), 2)
	// the loop over the handlers map
	var next *ssa.Next
	AllInstrs(RH, func(in ssa.Instruction) {
		if n, ok := in.(*ssa.Next); ok {
			if rg, ok := n.Iter.(*ssa.Range); ok && LoadedFieldIsMapOf(rg.X, r.HandlerT) {
				next = n
			}
		}
	})
	if c.Floor(P+".O1", "range over the registered handlers in RunHandlers", b2i(next != nil), 1) {
		// every path from one step to the next passes subOK or startedTrue
		cut := NewCut().AddEdges(subOK...).AddEdges(startedTrue...)
		c.Report(!ReachAfter(next, cut)[next], P+".O1", "EVERY-HANDLER-SUBSCRIBED", RH, next.Pos(), "handler loop", "every iteration either skips an already started handler or passes Subscribe()==nil before the next handler")
		// nil is returned only after the loop finished
		var done []Edge
		for _, t := range Tests(RH) {
			if e, ok := t.X.(*ssa.Extract); ok && e.Tuple == ssa.Value(next) && e.Index == 0 {
				done = append(done, t.False)
			}
		}
		for i, ret := range Returns(RH) {
			for _, v := range RetOrigins(ret, 0) {
				if IsNilConst(v) {
					c.Report(len(done) > 0 && GuardedBy(RH, ret, done), P+".O1", "NIL-AFTER-ALL", RH, ret.Pos(), fmt.Sprintf("return#%d", i), "RunHandlers returns nil only after the loop over all handlers ended")
				}
			}
		}
		for _, e := range subFail {
			re := ReachEdge(e, nil)
			ok := true
			for _, ret := range Returns(RH) {
				if re[ret] {
					for _, v := range RetOrigins(ret, 0) {
						if IsNilConst(v) {
							ok = false
						}
					}
				}
			}
			c.Report(ok && !re[next], P+".O1", "SUBSCRIBE-ERROR-RETURNED", RH, sub.Pos(), "Subscribe error edge", "a failing Subscribe makes RunHandlers return an error")
		}
		// RunHandlers fails only when starting a handler failed: its error wraps a decorator's or Subscribe's error
		var setup []ssa.CallInstruction
		for _, cl := range CallsIn(RH) {
			if call, ok := cl.(*ssa.Call); ok {
				if cal := CalleeFn(&call.Call); cal != nil && cal.Pkg == RH.Pkg && cal.Signature.Recv() != nil && len(FieldStores(cal, r.HPub))+len(FieldStores(cal, r.HSub)) > 0 {
					setup = append(setup, cl)
				} else if cal != nil && cal.Pkg == RH.Pkg {
					// a decorate function that hands the decorated value back (RunHandlers stores it)
					for _, f := range []*types.Var{r.HPub, r.HSub} {
						for _, st := range FieldStores(RH, f) {
							if AllOrigins(st.Val, func(o ssa.Value) bool { return IsResultOf(o, cl, 0) }) {
								setup = append(setup, cl)
							}
						}
					}
				}
			}
		}
		isSetupErr := func(x ssa.Value) bool {
			if ResultOfAny(setup, 0)(x) {
				return true
			}
			// the error of a setup function with two results (value, error)
			if e, isE := x.(*ssa.Extract); isE && e.Index == 1 {
				for _, su := range setup {
					if e.Tuple == CallValue(su) {
						return true
					}
				}
			}
			e, ok := x.(*ssa.Extract)
			return ok && e.Tuple == CallValue(sub) && e.Index == 1
		}
		notRunning := []Edge{}
		for _, t := range Tests(RH) {
			if f := LoadedField(firstOrigin(t.X)); f != nil && f.Type().String() == "bool" && t.Op == token.ILLEGAL && t.If.Block() == RH.Blocks[0] {
				notRunning = append(notRunning, t.False, t.True) // the entry guard on the is-running flag (either polarity)
			}
		}
		for i, ret := range Returns(RH) {
			if RetNil(ret, 0) {
				continue
			}
			if !ReachAfter(next, nil)[ret] {
				// before the loop: only the "router is not running" guard may refuse
				c.Report(len(notRunning) > 0 && isEntryGuardReturn(RH, ret), P+".O1", "RUNHANDLERS-FAILS-ONLY-ON-START-FAILURE", RH, ret.Pos(), fmt.Sprintf("return#%d", i), "before its loop RunHandlers refuses only a router that is not running (not a cancelled context: Run would return an error instead of closing the router and returning nil)")
				continue
			}
			os := RetOrigins(ret, 0)
			okErr := len(os) > 0 && allOf(os, func(v ssa.Value) bool { return IsNilConst(v) || Wraps(v, isSetupErr) })
			c.Report(okErr, P+".O1", "RUNHANDLERS-FAILS-ONLY-ON-START-FAILURE", RH, ret.Pos(), fmt.Sprintf("return#%d", i), "inside the handler loop RunHandlers returns an error only when decorating or subscribing a handler failed (not because the context is done or the router is closing: Run would then return an error instead of nil and the router would never close itself)")
		}
	}
	// O2 start once
	var goStart *ssa.Go
	AllInstrs(RH, func(in ssa.Instruction) {
		if g, ok := in.(*ssa.Go); ok && FuncOfValue(g.Call.Value) == r.StartLit {
			goStart = g
		}
	})
	if c.Floor(P+".O2", "go statement starting the handler in RunHandlers", b2i(goStart != nil), 1) {
		c.Report(GuardedBy(RH, sub, startedFalse) && GuardedBy(RH, goStart, startedFalse), P+".O2", "START-ONCE", RH, sub.Pos(), "Subscribe/go", "a handler is subscribed and started only on the not-yet-started edge")
		c.Report(GuardedBy(RH, goStart, subOK), P+".O2", "START-AFTER-SUBSCRIBE", RH, goStart.Pos(), "go", "the handler goroutine starts only after Subscribe succeeded")
		okSet := false
		for _, st := range FieldStores(RH, r.HStarted) {
			cst, isC := st.Val.(*ssa.Const)
			if isC && cst.Value != nil && cst.Value.String() == "true" && Dominates(RH, sub, st) && Dominates(RH, st, goStart) {
				okSet = true
			}
		}
		c.Report(okSet, P+".O2", "STARTED-SET", RH, goStart.Pos(), "started = true", "'started' is set between Subscribe and the start of the goroutine")
		held := r.LA.Held(sub)
		hw := false
		for _, m := range held {
			if m == 'W' {
				hw = true
			}
		}
		c.Report(hw, P+".O2", "START-LOCKED", RH, sub.Pos(), "Subscribe", "handlers are started with the handlers write lock held (concurrent RunHandlers calls cannot both start one)", "held: "+held.String())
		c.Report(!ReachWithout(goStart, goStart, next), P+".O2", "START-ONCE-PER-ITERATION", RH, goStart.Pos(), "go", "one goroutine per handler and call")
	}
	// O3 publish-before-signal
	published := []*types.Var{r.HStarted, r.HStopFn, r.HStopped}
	nclose := 0
	for _, fn := range r.Funcs {
		for _, cl := range BuiltinCalls(fn, "close") {
			if LoadedField(firstOrigin(cl.Common().Args[0])) != r.HStartedCh {
				continue
			}
			nclose++
			ok := fn == RH && GuardedBy(RH, cl, subOK)
			c.Report(ok, P+".O3", "STARTED-AFTER-SUBSCRIBE", fn, cl.Pos(), "close(started)", "Started() is closed only after this handler's Subscribe succeeded")
			after := ReachAfter(cl, NewCut().AddInstrs(next))
			var wit []string
			for _, f := range published {
				for _, st := range FieldStores(fn, f) {
					if after[st] {
						wit = append(wit, fmt.Sprintf("field read by Stop()/Stopped() is assigned at %s, after Started() was closed", c.P.Pos(st.Pos())))
					}
				}
			}
			c.Report(len(wit) == 0, P+".O3", "PUBLISH-BEFORE-SIGNAL", fn, cl.Pos(), "close(started)", "everything Stop() and Stopped() read is assigned before Started() is closed", wit...)
			// and is assigned at all
			for _, f := range published {
				ok2 := false
				for _, st := range FieldStores(fn, f) {
					if Dominates(fn, st, cl) {
						ok2 = true
					}
				}
				c.Report(ok2, P+".O3", "PUBLISHED-FIELDS-SET", fn, cl.Pos(), "field read by Stop()/Stopped()", "the field is assigned on every path before Started() is closed")
			}
		}
	}
	c.Floor(P+".O3", "close(started)", nclose, 1)
	// O4 stop target
	for _, st := range FieldStores(RH, r.HStopFn) {
		e, ok := firstOrigin(st.Val).(*ssa.Extract)
		okT := false
		if ok && e.Index == 1 {
			if wc, isC := e.Tuple.(*ssa.Call); isC && CalleeName(wc) == nWithCancel {
				okT = AllOrigins(Arg(sub, 0), func(o ssa.Value) bool {
					x, ok := o.(*ssa.Extract)
					return ok && x.Tuple == ssa.Value(wc) && x.Index == 0
				})
			}
		}
		c.Report(okT, P+".O4", "STOP-TARGET", RH, st.Pos(), "stop function", "Stop() cancels exactly the context this handler subscribed with (it ends that handler only)")
	}
	// … and Handler.Stop calls the stop function of the handler this Handler value was created for (not of whichever
	// handler is registered under that name now)
	if H := c.P.Named("message", "Handler"); H != nil {
		if stop := c.P.MethodOf(H, "Stop"); stop != nil {
			n := 0
			for _, cl := range CallsIn(stop) {
				if cl.Common().IsInvoke() || CalleeFn(cl.Common()) != nil || LoadedField(firstOrigin(cl.Common().Value)) != r.HStopFn {
					continue
				}
				n++
				u, _ := firstOrigin(cl.Common().Value).(*ssa.UnOp)
				okOwn := false
				if u != nil {
					if _, base := FieldOf(u.X); base != nil {
						okOwn = AllOrigins(base, func(o ssa.Value) bool {
							f := LoadedField(o)
							return f != nil && NamedOf(f.Type()) == r.HandlerT && f.Pkg() == H.Obj().Pkg() && !f.Exported()
						})
					}
				}
				c.Report(okOwn, P+".O4", "STOP-OWN-HANDLER", stop, cl.Pos(), "stop function call", "Handler.Stop stops the handler it was handed out for (read from the Handler value itself, not looked up by name: the name may have been re-used by a newer handler)")
			}
			c.Floor(P+".O4", "call of the stop function in Handler.Stop", n, 1)
		}
	}
	// only Close (through its wait helper) waits for the in-flight invocations of the whole router
	waitFam := map[*ssa.Function]bool{}
	for _, f := range WithStarted(r.WaitFn) {
		waitFam[f] = true
	}
	for _, fn := range r.Funcs {
		for _, w := range r.waitsOn(fn, r.WRun) {
			c.Report(waitFam[fn] || HomeFn(fn) == r.WaitFn || fn.Parent() == r.WaitFn || HomeFn(fn).Parent() == r.WaitFn, P+".O4", "WHO-WAITS-FOR-INVOCATIONS", fn, w.Pos(), "Wait on the in-flight wait group", "only Router.Close's wait helper waits for the router-wide in-flight invocations (a single handler's shutdown must not depend on other handlers' work)")
		}
	}
	// Stopped() is closed when the run loop ended
	okStopped := false
	for _, cl := range BuiltinCalls(r.StartLit, "close") {
		if AllOrigins(cl.Common().Args[0], r.isFieldOrItsValue(r.HStopped)) {
			for _, lc := range Callers([]*ssa.Function{r.StartLit}, r.RunLoop) {
				if Dominates(r.StartLit, lc, cl) {
					okStopped = true
				}
			}
		}
	}
	c.Report(okStopped, P+".O4", "STOPPED-AFTER-LOOP", r.StartLit, r.StartLit.Pos(), "close(stopped)", "Stopped() is closed after the handler's run loop returned")
	{
		var stops []ssa.Instruction
		for _, cl := range BuiltinCalls(r.StartLit, "close") {
			if AllOrigins(cl.Common().Args[0], r.isFieldOrItsValue(r.HStopped)) {
				stops = append(stops, cl)
			}
		}
		for _, lc := range Callers([]*ssa.Function{r.StartLit}, r.RunLoop) {
			re := ReachAfter(lc, NewCut().AddInstrs(stops...))
			for i, ret := range Returns(r.StartLit) {
				c.Report(!re[ret], P+".O4", "STOPPED-ALWAYS-CLOSED", r.StartLit, ret.Pos(), fmt.Sprintf("handler goroutine exit#%d", i), "whichever way the handler ends (Stop, closed subscription, router Close) Stopped() is closed before its goroutine ends")
			}
		}
	}
	for _, cl := range BuiltinCalls(r.StartLit, "close") {
		if !AllOrigins(cl.Common().Args[0], r.isFieldOrItsValue(r.HStopped)) {
			continue
		}
		okLast := false
		for _, del := range BuiltinCalls(r.StartLit, "delete") {
			if LoadedFieldIsMapOf(del.Common().Args[0], r.HandlerT) && Dominates(r.StartLit, del, cl) {
				okLast = true
			}
		}
		for _, d := range CallsTo(r.StartLit, nWGDone) {
			if r.LA.LockID(Receiver(d)) == r.WLoop && !Dominates(r.StartLit, d, cl) {
				okLast = false
			}
		}
		c.Report(okLast, P+".O4", "STOPPED-IS-LAST", r.StartLit, cl.Pos(), "close(stopped)", "Stopped() is closed only after the handler was released from the wait group and removed from the router (a caller reacting to Stopped() can re-add a handler of that name)")
	}
	// O5 self close
	SC := r.SelfClose
	closes := Callers([]*ssa.Function{SC}, r.Close)
	waits := r.waitsOn(SC, r.WLoop)
	if c.Floor(P+".O5", "self-close: wait for the handler loops, then Close()", b2i(len(closes) > 0)+b2i(len(waits) > 0), 2) {
		isClosedCalls := Callers([]*ssa.Function{SC}, r.IsClosed)
		closedTrue, _ := BoolEdges(SC, ResultOfAny(isClosedCalls, 0))
		for _, w := range waits {
			cut := NewCut().AddInstrs(instrsOf(closes)...).AddEdges(closedTrue...)
			re := ReachAfter(w, cut)
			ok := true
			for _, ret := range Returns(SC) {
				if re[ret] {
					ok = false
				}
			}
			c.Report(ok, P+".O5", "SELF-CLOSE", SC, w.Pos(), "after handlersWg.Wait()", "once all handler loops ended the router closes itself on every path, unless it is already closed")
			for _, cl := range closes {
				c.Report(Dominates(SC, w, cl), P+".O5", "SELF-CLOSE-AFTER-WAIT", SC, cl.Pos(), "Close()", "the self-close happens only after the handler loops ended")
			}
		}
	}
	// the watcher gives up before waiting only when the router is already closed
	if len(waits) > 0 {
		cut := NewCut().AddInstrs(instrsOf(waits)...)
		for _, si := range Selects(SC) {
			for _, cs := range si.Cases {
				if cs.Edge != nil && !cs.Send && AllOrigins(cs.Chan, IsFieldLoad(r.ClosedCh)) {
					cut.AddEdges(*cs.Edge)
				}
			}
		}
		isClosedCalls := Callers([]*ssa.Function{SC}, r.IsClosed)
		closedTrue, _ := BoolEdges(SC, ResultOfAny(isClosedCalls, 0))
		cut.AddEdges(closedTrue...)
		re := ReachEntry(SC, cut)
		for _, ret := range Returns(SC) {
			c.Report(!re[ret], P+".O5", "WATCHER-REACHES-WAIT", SC, ret.Pos(), "self-close watcher exit", "the watcher ends without waiting for the handler loops only when the router is already closed (not on context cancellation: handlers added later still need it to close the router when the last one ends)")
		}
	}
	// second Run
	var runningF *types.Var
	for _, t := range Tests(Run) {
		if f := LoadedField(firstOrigin(t.X)); f != nil && f.Type().String() == "bool" && t.If.Block() == Run.Blocks[0] {
			runningF = f
		}
	}
	if c.Floor(P+".O5", "is-running flag tested at the entry of Run", b2i(runningF != nil), 1) {
		tr, fa := BoolEdges(Run, func(v ssa.Value) bool { return AllOrigins(v, IsFieldLoad(runningF)) })
		for _, e := range tr {
			re := ReachEdge(e, NewCut().AddEdges(fa...))
			ok := true
			for _, ret := range Returns(Run) {
				if re[ret] {
					for _, v := range RetOrigins(ret, 0) {
						if IsNilConst(v) {
							ok = false
						}
					}
				}
			}
			c.Report(ok, P+".O5", "SECOND-RUN-REJECTED", Run, e.From.Instrs[len(e.From.Instrs)-1].Pos(), "already-running edge", "a second Run returns an error")
		}
		okSet := false
		for _, st := range FieldStores(Run, runningF) {
			cst, isC := st.Val.(*ssa.Const)
			if isC && cst.Value != nil && cst.Value.String() == "true" && GuardedBy(Run, st, fa) {
				okSet = true
				for _, cl := range rhCalls {
					if !Dominates(Run, st, cl) {
						okSet = false
					}
				}
			}
		}
		c.Report(okSet, P+".O5", "RUN-MARKS-RUNNING", Run, Run.Pos(), "isRunning = true", "the first Run marks the router as running before it starts handlers")
		// once marked running, Run fails only with a plugin's or RunHandlers' error; otherwise it runs until the router closed and returns nil
		var setup []ssa.CallInstruction
		for _, cl := range CallsIn(Run) {
			if call, ok := cl.(*ssa.Call); ok && (CalleeFn(&call.Call) == r.RunHandlers || (CalleeFn(&call.Call) == nil && !call.Call.IsInvoke())) {
				setup = append(setup, cl)
			}
		}
		var closedRecv []ssa.Instruction
		AllInstrs(Run, func(in ssa.Instruction) {
			if u, ok := in.(*ssa.UnOp); ok && u.Op == token.ARROW && AllOrigins(u.X, IsFieldLoad(r.ClosedCh)) {
				closedRecv = append(closedRecv, in)
			}
		})
		c.Floor(P+".O5", "receive from the closed signal in Run", len(closedRecv), 1)
		for _, st := range FieldStores(Run, runningF) {
			after := ReachAfter(st, nil)
			afterNoWait := ReachAfter(st, NewCut().AddInstrs(closedRecv...))
			for i, ret := range Returns(Run) {
				if !after[ret] {
					continue
				}
				k := fmt.Sprintf("Run return#%d", i)
				if RetNil(ret, 0) {
					c.Report(!afterNoWait[ret], P+".O5", "RUN-NIL-AFTER-CLOSED", Run, ret.Pos(), k, "Run returns nil only after the router was closed")
					continue
				}
				os := RetOrigins(ret, 0)
				okErr := len(os) > 0 && allOf(os, func(v ssa.Value) bool {
					return Wraps(v, func(x ssa.Value) bool { return ResultOfAny(setup, 0)(x) })
				})
				c.Report(okErr, P+".O5", "RUN-ERROR-ONLY-FROM-SETUP", Run, ret.Pos(), k, "after it marked the router running, Run returns an error only when a plugin or RunHandlers failed (a cancelled context makes the router close itself and Run return nil)")
			}
		}
		for _, fn := range r.Funcs {
			for _, st := range FieldStores(fn, runningF) {
				cst, isC := st.Val.(*ssa.Const)
				c.Report(isC && cst.Value != nil && cst.Value.String() == "true", P+".O5", "RUNNING-FLAG-ONLY-RAISED", fn, st.Pos(), "store to the is-running flag", "the is-running flag is never lowered again (Run's one-shot channels are closed by the first Run: a second Run must be rejected even after the first has returned)")
			}
		}
	}
	// AddHandler must not block on the watcher's wake-up channel
	for i, op := range BlockingOps(r.AddHandler) {
		c.Report(op.Kind == "lock", P+".O5", "ADD-HANDLER-NEVER-BLOCKS", r.AddHandler, op.Ins.Pos(), fmt.Sprintf("op#%d (%s)", i, op.Kind), "AddHandler blocks on nothing but its lock (the wake-up of the self-close watcher is a non-blocking send)")
	}
	nWake := 0
	for _, si := range Selects(r.AddHandler) {
		if !si.Blocking {
			nWake++
		}
	}
	c.Report(nWake >= 1, P+".O5", "ADD-HANDLER-WAKES-WATCHER", r.AddHandler, r.AddHandler.Pos(), "wake-up", "AddHandler signals the self-close watcher without blocking")
	// every handler is counted in the handler-loop wait group when added, and released when its loop ended
	nAdd := 0
	for _, a := range CallsTo(r.AddHandler, nWGAdd) {
		if r.LA.LockID(Receiver(a)) == r.WLoop {
			nAdd++
			n, isC := IntConst(a.Common().Args[1])
			c.Report(isC && n == 1 && !InLoop(a), P+".O5", "HANDLER-COUNTED", r.AddHandler, a.Pos(), "handlersWg.Add", "each added handler is counted once in the handler-loop wait group")
			after := ReachAfter(a, nil)
			okNoPanic := true
			for _, pn := range Panics(r.AddHandler) {
				if after[pn] {
					okNoPanic = false
				}
			}
			c.Report(okNoPanic, P+".O5", "HANDLER-COUNTED-ONLY-IF-ADDED", r.AddHandler, a.Pos(), "handlersWg.Add", "the handler is counted only when it is really added: no panic (duplicate name) is reachable after the Add — a recovered panic would leave the wait group one too high and the router would never close itself")
		}
	}
	c.Floor(P+".O5", "handler-loop wait group Add in AddHandler", nAdd, 1)
	for _, fn := range r.Funcs {
		for _, d := range CallsTo(fn, nWGDone) {
			if r.LA.LockID(Receiver(d)) == r.WLoop {
				c.Report(HomeFn(fn) == r.StartLit, P+".O5", "WHO-RELEASES-HANDLER", fn, d.Pos(), "handlersWg.Done", "a handler is released from the handler-loop wait group only by its own goroutine, after its loop ended (a second release — e.g. on a failed Subscribe that is retried later — makes Close return early or the counter go negative)")
			}
		}
	}
	for _, d := range CallsTo(r.StartLit, nWGDone) {
		if r.LA.LockID(Receiver(d)) != r.WLoop {
			continue
		}
		ok := !InLoop(d)
		for _, lc := range Callers([]*ssa.Function{r.StartLit}, r.RunLoop) {
			if _, isDefer := d.(*ssa.Defer); !isDefer && !Dominates(r.StartLit, lc, d) {
				ok = false
			}
		}
		c.Report(ok, P+".O5", "HANDLER-RELEASED-AFTER-LOOP", r.StartLit, d.Pos(), "handlersWg.Done", "the handler is released from the wait group once, after its run loop returned")
	}
	// Run returns nil after close (C06.O5) and cancels the handlers' context when closing starts
}

// LoadedFieldIsMapOf: v is a load of a field of type map[string]*T.
func LoadedFieldIsMapOf(v ssa.Value, t *types.Named) bool {
	f := LoadedField(firstOrigin(v))
	if f == nil {
		return false
	}
	m, ok := f.Type().(*types.Map)
	return ok && NamedOf(m.Elem()) == t
}

// ownOrDecorated: v is a load of field f, or the result of a dynamic
// (decorator) call whose argument is again ownOrDecorated.
func ownOrDecorated(v ssa.Value, f *types.Var) bool {
	seen := map[ssa.Value]bool{}
	seenFn := map[*ssa.Function]bool{}
	var rec func(v ssa.Value) bool
	rec = func(v ssa.Value) bool {
		if seen[v] {
			return true
		}
		seen[v] = true
		os := Origins(v)
		if len(os) == 0 {
			return false
		}
		for _, o := range os {
			if LoadedField(o) == f {
				continue
			}
			var call *ssa.Call
			if e, ok := o.(*ssa.Extract); ok && e.Index == 0 {
				call, _ = e.Tuple.(*ssa.Call)
			} else if cl, ok := o.(*ssa.Call); ok {
				call = cl
			}
			if call == nil || call.Call.IsInvoke() {
				return false
			}
			if cal := CalleeFn(&call.Call); (cal == nil || cal.Parent() != nil) && len(call.Call.Args) != 1 {
				return false
			}
			if cal := CalleeFn(&call.Call); cal != nil && cal.Parent() == nil {
				// a function of the package that returns the decorated own publisher / subscriber of the handler it is given
				if cal.Pkg == call.Parent().Pkg && len(cal.Blocks) > 0 && !seenFn[cal] {
					seenFn[cal] = true
					okAll := true
					for _, r := range Returns(cal) {
						if len(r.Results) == 0 || IsNilConst(r.Results[0]) {
							continue
						}
						if !rec(r.Results[0]) {
							okAll = false
						}
					}
					if okAll {
						continue
					}
				}
				return false // a named function is not a decorator value
			}
			if !rec(call.Call.Args[0]) {
				return false
			}
		}
		return true
	}
	return rec(v)
}

// isFieldOrItsValue: a load of handler field f, or the very value that is
// stored into f (a local `ch := make(chan …); h.f = ch; … close(ch)`).
func (r *RouterRoles2) isFieldOrItsValue(f *types.Var) func(ssa.Value) bool {
	return func(o ssa.Value) bool {
		if LoadedField(o) == f {
			return true
		}
		if _, isMk := o.(*ssa.MakeChan); !isMk {
			return false
		}
		for _, fn := range r.Funcs {
			for _, st := range FieldStores(fn, f) {
				if AllOrigins(st.Val, func(x ssa.Value) bool { return x == o }) {
					return true
				}
			}
		}
		return false
	}
}

// isEntryGuardReturn: ret lies in a block entered directly from the function's
// entry block (the single guard tested first).
func isEntryGuardReturn(fn *ssa.Function, ret *ssa.Return) bool {
	b := ret.Block()
	return len(b.Preds) == 1 && b.Preds[0] == fn.Blocks[0]
}

// isExtractIdx: v is result #idx of the call c.
func isExtractIdx(v ssa.Value, c ssa.CallInstruction, idx int) bool {
	return AllOrigins(v, func(o ssa.Value) bool {
		e, ok := o.(*ssa.Extract)
		return ok && e.Tuple == CallValue(c) && e.Index == idx
	})
}
