package wm

import (
	"fmt"
	"go/types"

	"golang.org/x/tools/go/ssa"
)

const mwPkg = ModulePath + "/message/router/middleware"

func init() {
	register(&PropDef{
		ID:  "C13",
		Run: runC13,
		Explanation: "Decides on every CFG path of the poison-queue middleware closure, its deferred closure and the publish helper: the error is cleared (stored nil) only behind handler-error != nil, filter == true and poison-publish error == nil; a failed poison publish stores an error built from both errors; " +
			"the poison Publish is reached only behind error != nil and filter true, at most once, with the configured topic and the consumed message object; the four metadata keys are written from their documented sources before Publish; outputs and error of the handler pass through unchanged otherwise. " +
			"Not decided: that the surrounding Router acks (C02), publisher behaviour.",
		Assumptions: commonAssumptions,
	})
}

// BoundMethodTarget returns the method a bound-method closure value refers to.
func (p *Prog) BoundMethodTarget(v ssa.Value) *ssa.Function {
	mc, ok := v.(*ssa.MakeClosure)
	if !ok {
		return nil
	}
	f, ok := mc.Fn.(*ssa.Function)
	if !ok || f.Synthetic == "" {
		return nil
	}
	if obj, ok := f.Object().(*types.Func); ok {
		return p.SSA.FuncValue(obj)
	}
	return nil
}

func runC13(c *Check) {
	LostReceiverStores(c, "C13.CFG", "message/router/middleware")
	DefaultsApplied(c, "C13.CFG", "message/router/middleware")
	P := "C13"
	var outers []*ssa.Function
	seen := map[*ssa.Function]bool{}
	for _, ctor := range []string{"PoisonQueue", "PoisonQueueWithFilter"} {
		fn := c.P.Func("message/router/middleware", ctor)
		if !c.Use(P, fn, "middleware."+ctor) {
			continue
		}
		found := 0
		for _, r := range Returns(fn) {
			for _, o := range RetOrigins(r, 0) {
				if t := c.P.BoundMethodTarget(o); t != nil {
					found++
					if !seen[t] {
						seen[t] = true
						outers = append(outers, t)
					}
				}
			}
		}
		if found == 0 {
			// delegation: `return OtherConstructor(pub, topic, <literal filter>)`
			if call := c13Delegation(fn); call != nil {
				target := CalleeFn(&call.Call)
				okArgs := true
				for _, prm := range fn.Params {
					passed := false
					for i, a := range call.Call.Args {
						if FromParam(prm)(a) && i < len(target.Params) && types.Identical(target.Params[i].Type(), prm.Type()) {
							passed = true
						}
					}
					if !passed {
						okArgs = false
					}
				}
				c.Report(okArgs, P+".O2", "CTOR-DELEGATES", fn, call.Pos(), ctor, "the constructor hands its publisher and topic on to "+target.Name()+", which builds the middleware")
				for _, a := range call.Call.Args {
					if lit := FuncOfValue(firstOrigin(a)); lit != nil {
						c13AcceptAll(c, P, fn, lit)
					}
				}
				continue
			}
		}
		c.Floor(P, ctor+" returns a bound middleware method", found, 1)
		// the constructor stores its topic/pub/filter parameters into the struct it binds
		c13Ctor(c, P, fn)
		if ctor == "PoisonQueue" {
			n := 0
			AllInstrs(fn, func(in ssa.Instruction) {
				if st, ok := in.(*ssa.Store); ok {
					if lit := FuncOfValue(firstOrigin(st.Val)); lit != nil && (lit.Parent() == fn || (lit.Parent() == nil && lit.Pkg == fn.Pkg)) && lit.Signature.Results().Len() == 1 {
						n++
						c13AcceptAll(c, P, fn, lit)
					}
				}
			})
			c.Floor(P+".O2", "PoisonQueue: default filter literal", n, 1)
		}
	}
	for _, outer := range outers {
		m := c.middleware(P, outer, "poison queue middleware")
		if m == nil {
			continue
		}
		c13Middleware(c, P, m)
	}
	// the names the poison message carries are read from the consumed message's context, where the Router put them
	// for exactly the handler that consumed it (decided as C08.O3)
	if r := c.routerRoles2(P + ".O3"); r != nil {
		c08Context(c, P, r)
	}
}

func c13Ctor(c *Check, P string, fn *ssa.Function) {
	for _, prm := range fn.Params {
		fs := FieldsStoringParam(fn, prm)
		ok := len(fs) == 1 && types.Identical(fs[0].Type(), prm.Type())
		c.Report(ok, P+".O2", "CTOR-FIELD", fn, fn.Pos(), "param#"+prm.Name(), "the constructor stores this parameter into exactly one field of the middleware state")
	}
}

func c13Middleware(c *Check, P string, m *MW) {
	I := m.Inner
	MiddlewareStatePerCall(c, P+".O1", "poison queue", m)
	// the poison queue settles nothing itself: whether the consumed message is acked follows from the error it returns
	// (nil only after the poison publish succeeded) — an Ack of its own, before the publish, cannot be taken back
	if recv := outermost(I).Signature.Recv(); recv != nil {
		T := NamedOf(recv.Type())
		ns := 0
		for _, fn := range c.P.SrcFuncs("message/router/middleware") {
			o := outermost(fn)
			if o.Signature.Recv() == nil || NamedOf(o.Signature.Recv().Type()) != T {
				continue
			}
			for _, cl := range CallsIn(fn) {
				if n := CalleeName(cl); n == nAck || n == nNack {
					ns++
					c.Report(false, P+".O1", "POISON-QUEUE-NEVER-SETTLES", fn, cl.Pos(), n, "the poison queue middleware calls neither Ack nor Nack: the router settles the message from the returned error, which is nil only after the poison publish succeeded")
				}
			}
		}
		c.Report(true, P+".O1", "POISON-SETTLE-CALLS-SCANNED", I, I.Pos(), "poison queue middleware", fmt.Sprintf("%d Ack/Nack calls in the poison queue's methods", ns))
	}
	if !c.Floor(P+".O4", "call of the wrapped handler", len(m.HCalls), 1) {
		return
	}
	c.Report(len(m.HCalls) == 1 && m.HCalls[0].Parent() == I && !InLoop(m.HCalls[0]), P+".O4", "HANDLER-ONCE", I, I.Pos(), "handler call",
		"the wrapped handler is called exactly once per invocation, on the consumed message")
	for _, hc := range m.HCalls {
		c.Report(len(hc.Common().Args) == 1 && m.IsMsg(hc.Common().Args[0]), P+".O4", "HANDLER-ARG", I, hc.Pos(), "handler call", "the handler receives the consumed message")
	}
	hErr := ResultOfAny(m.HCalls, 1)
	hOut := ResultOfAny(m.HCalls, 0)
	errCell := ResultCell(I, 1)
	if errCell == nil {
		c.Undecided(P+".O1", "ERR-RESULT", I, I.Pos(), "error result", "the error result is not a named result adjusted by a deferred closure; shape not recognised")
		return
	}
	isErrLoad := IsLoadOfCell(errCell)
	// stores into err in the body: only the handler's result
	for i, st := range StoresToCellIn(I, errCell) {
		c.Report(AllOrigins(st.Val, hErr), P+".O4", "PASS-THROUGH/err", I, st.Pos(), fmt.Sprintf("store#%d", i), "in the body the error result is only ever assigned the handler's error")
	}
	// outputs
	for r, vals := range ReturnValues(I, 0) {
		ok := len(vals) > 0
		for _, v := range vals {
			if !hOut(v) {
				ok = false
			}
		}
		c.Report(ok, P+".O4", "PASS-THROUGH/out", I, r.Pos(), "returned messages", "the returned messages are exactly the handler's outputs")
	}
	// deferred closures
	var dcl []*ssa.Function
	AllInstrs(I, func(in ssa.Instruction) {
		if d, ok := in.(*ssa.Defer); ok {
			if f := FuncOfValue(d.Call.Value); f != nil {
				dcl = append(dcl, f)
				okDom := true
				for _, hc := range m.HCallsIn(I) {
					if !Dominates(I, d, hc) {
						okDom = false
					}
				}
				c.Report(okDom, P+".O1", "DEFER-BEFORE-HANDLER", I, d.Pos(), "defer", "the salvage closure is deferred before the handler is called")
			}
		}
	})
	if !c.Floor(P+".O1", "deferred salvage closure", len(dcl), 1) {
		return
	}
	for _, d := range dcl {
		c.Use(P+".O1", d, "salvage closure")
		_, errNonNil := NilEdges(d, isErrLoad)
		// filter: call of a func(error) bool value loaded from a field, on the error
		var filterCalls []ssa.CallInstruction
		for _, cl := range CallsIn(d) {
			if cl.Common().IsInvoke() || CalleeFn(cl.Common()) != nil {
				continue
			}
			if cl.Common().Signature().String() == "func(err error) bool" || cl.Common().Signature().Results().Len() == 1 && cl.Common().Signature().Results().At(0).Type().String() == "bool" {
				if len(cl.Common().Args) == 1 && isErrLoad(cl.Common().Args[0]) {
					filterCalls = append(filterCalls, cl)
				}
			}
		}
		filterTrue, _ := BoolEdges(d, ResultOfAny(filterCalls, 0))
		pubs := CallsLeadingTo(d, 2, nPublish)
		pubErr := func(v ssa.Value) bool {
			for _, pc := range pubs {
				if n := pc.Common().Signature().Results().Len(); n > 0 && IsResultOf(v, pc, n-1) {
					return true
				}
			}
			return false
		}
		pubOK, pubFail := NilEdges(d, pubErr)
		c.Floor(P+".O1", "test `err != nil` on the named error result", len(errNonNil), 1)
		c.Floor(P+".O1", "test of the filter's verdict", len(filterTrue), 1)
		c.Floor(P+".O1", "test `poison publish error == nil`", len(pubOK), 1)
		c.Floor(P+".O2", "call reaching the poison publisher's Publish", len(pubs), 1)

		nClear := 0
		for i, st := range StoresToCellIn(d, errCell) {
			k := fmt.Sprintf("store#%d", i)
			if IsNilConst(st.Val) {
				nClear++
				c.Report(GuardedBy(d, st, errNonNil), P+".O1", "CLEAR-GUARD/err", d, st.Pos(), k, "err = nil only where the handler error is non-nil")
				c.Report(GuardedBy(d, st, filterTrue), P+".O1", "CLEAR-GUARD/filter", d, st.Pos(), k, "err = nil only where the filter accepted the error")
				c.Report(GuardedBy(d, st, pubOK), P+".O1", "CLEAR-GUARD/published", d, st.Pos(), k, "err = nil only on the edge where the poison publish returned nil (otherwise the message stays failing)")
				dom := true
				for _, pc := range pubs {
					if !Dominates(d, pc, st) {
						dom = false
					}
				}
				c.Report(dom && len(pubs) > 0, P+".O1", "CLEAR-AFTER-PUBLISH", d, st.Pos(), k, "the poison publish precedes the clearing on every path")
			} else {
				okW := Wraps(st.Val, isErrLoad) && Wraps(st.Val, pubErr)
				c.Report(okW && GuardedBy(d, st, pubFail), P+".O1", "FAILED-PUBLISH-KEEPS-ERROR", d, st.Pos(), k,
					"on the failed-publish edge the stored error is built from both the handler error and the publish error (never nil)")
			}
		}
		c.Floor(P+".O1", "store of nil into the error result (the 'reported as success' step)", nClear, 1)
		// a failing message leaves the salvage closure unpublished only through the filter's 'no'
		_, filterFalse := BoolEdges(d, ResultOfAny(filterCalls, 0))
		for _, e := range errNonNil {
			re := ReachEdge(e, NewCut().AddInstrs(instrsOf(pubs)...).AddEdges(filterFalse...))
			ok := true
			var wit []string
			for _, ret := range Returns(d) {
				if re[ret] {
					ok = false
					wit = append(wit, "exit at "+c.P.Pos(ret.Pos())+" reachable on the error edge without publishing and without the filter's verdict")
				}
			}
			c.Report(ok, P+".O2", "POISON-UNLESS-FILTERED", d, e.From.Instrs[len(e.From.Instrs)-1].Pos(), "error edge", "on the error edge every path either publishes to the poison topic or leaves through the filter's 'no' (no other condition keeps a failing message out of the poison topic)", wit...)
		}
		// the filter is asked once per failure
		c.Report(len(filterCalls) == 1 && !InLoop(filterCalls[0]), P+".O2", "FILTER-ASKED-ONCE", d, d.Pos(), "filter call", "the filter is consulted exactly once per failure")
		// on the pubFail edge the error must not be nil at exit: no nil store reachable (covered by CLEAR-GUARD/published)
		// O2: publish guard / once
		for i, pc := range pubs {
			k := fmt.Sprintf("publish#%d", i)
			c.Report(GuardedBy(d, pc, errNonNil) && GuardedBy(d, pc, filterTrue), P+".O2", "POISON-PUBLISH-GUARD", d, pc.Pos(), k,
				"the poison topic is published to only when the handler failed and the filter accepted the error")
			c.Report(!InLoop(pc) && NoneReachableAfter(pc, pubs), P+".O2", "POISON-PUBLISH-ONCE", d, pc.Pos(), k, "at most one poison publish per invocation")
			_, isGo := pc.(*ssa.Go)
			c.Report(!isGo, P+".O2", "POISON-PUBLISH-SYNC", d, pc.Pos(), k, "the poison publish is synchronous (its result decides)")
			H := CalleeFn(pc.Common())
			if H != nil && !IsCallTo(pc, nPublish) {
				c13Helper(c, P, m, d, pc, H, isErrLoad)
			}
		}
	}
}

func c13Helper(c *Check, P string, m *MW, d *ssa.Function, site ssa.CallInstruction, H *ssa.Function, isErrLoad func(ssa.Value) bool) {
	c.Use(P+".O2", H, "poison publish helper")
	// which helper params receive the consumed message / the error
	var msgP, errP *ssa.Parameter
	for i, a := range site.Common().Args {
		if i >= len(H.Params) {
			break
		}
		if m.IsMsg(a) {
			msgP = H.Params[i]
		}
		if isErrLoad(a) {
			errP = H.Params[i]
		}
	}
	c.Report(msgP != nil && errP != nil, P+".O2", "HELPER-ARGS", d, site.Pos(), "helper call", "the helper receives the consumed message and the handler's error")
	if msgP == nil || errP == nil {
		return
	}
	pubs := CallsTo(H, nPublish)
	if !c.Floor(P+".O2", "Publisher.Publish invoke in the helper", len(pubs), 1) {
		return
	}
	for i, pb := range pubs {
		k := fmt.Sprintf("Publish#%d", i)
		c.Report(!InLoop(pb) && NoneReachableAfter(pb, pubs), P+".O2", "POISON-PUBLISH-ONCE", H, pb.Pos(), k, "Publish is invoked at most once per call")
		// topic: a string field of the middleware state
		topic := Arg(pb, 0)
		tf := LoadedField(firstOrigin(topic))
		recvF := LoadedField(firstOrigin(Receiver(pb)))
		c.Report(tf != nil && tf.Type().String() == "string" && len(Origins(topic)) == 1, P+".O2", "POISON-TOPIC", H, pb.Pos(), k, "the topic is the configured poison topic (a field of the middleware state)")
		c.Report(recvF != nil && recvF.Type().String() == msgPkg+".Publisher", P+".O2", "POISON-PUBLISHER", H, pb.Pos(), k, "the publisher is the configured poison publisher (a field of the middleware state)")
		elems := VariadicElems(Arg(pb, 1))
		okMsg := len(elems) == 1 && FromParam(msgP)(elems[0])
		c.Report(okMsg, P+".O2", "POISON-MESSAGE", H, pb.Pos(), k, "exactly the consumed message object is published (same UUID and payload)")
		// … and its identity is left alone: neither the helper nor the middleware closure assigns its UUID or payload
		for _, f := range []*ssa.Function{H, d} {
			if f == nil {
				continue
			}
			AllInstrs(f, func(in ssa.Instruction) {
				st, isSt := in.(*ssa.Store)
				if !isSt {
					return
				}
				fld, base := FieldOf(st.Addr)
				if fld == nil || base == nil || (fld.Name() != "UUID" && fld.Name() != "Payload") || !fld.Exported() || NamedOf(base.Type()) == nil || NamedOf(base.Type()).Obj().Name() != "Message" {
					return
				}
				c.Report(false, P+".O2", "POISON-KEEPS-IDENTITY", f, st.Pos(), "store to "+fld.Name(), "the poisoned message keeps its UUID and payload: nothing in the poison queue assigns them")
			})
		}
		c.Report(true, P+".O2", "POISON-IDENTITY-SCANNED", H, pb.Pos(), k, "helper and middleware closure scanned for assignments to the message's UUID / payload")
		// returned error = Publish result
		for r, vals := range ReturnValues(H, 0) {
			for _, v := range vals {
				if IsNilConst(v) {
					eq, _ := NilEdges(H, FromParam(errP))
					pubOK, _ := NilEdges(H, func(x ssa.Value) bool { return IsResultOf(x, pb, 0) })
					c.Report(GuardedBy(H, r, append(append([]Edge{}, eq...), pubOK...)), P+".O2", "HELPER-RESULT", H, r.Pos(), "return nil", "the helper returns nil only when there was no error to poison, or after Publish returned nil")
				} else {
					c.Report(IsResultOf(v, pb, 0) || Wraps(v, func(x ssa.Value) bool { return IsResultOf(x, pb, 0) }), P+".O2", "HELPER-RESULT", H, r.Pos(), "return", "the helper returns the Publish error")
				}
			}
		}
	}
	// O3 metadata table
	type row struct {
		key    string
		source string // callee that must produce the value
	}
	rows := []row{
		{"ReasonForPoisonedKey", "(error).Error"},
		{"PoisonedTopicKey", msgPkg + ".SubscribeTopicFromCtx"},
		{"PoisonedHandlerKey", msgPkg + ".HandlerNameFromCtx"},
		{"PoisonedSubscriberKey", msgPkg + ".SubscriberNameFromCtx"},
	}
	sets := CallsTo(H, nMetaSet)
	for _, rw := range rows {
		want, ok := c.P.ExportedConstString("message/router/middleware", rw.key)
		if !ok {
			c.Floor(P+".O3", "exported constant "+rw.key, 0, 1)
			continue
		}
		found := 0
		for _, s := range sets {
			ks, isC := ConstString(Arg(s, 0))
			if !isC || ks != want {
				continue
			}
			found++
			val := Arg(s, 1)
			vc, isCall := firstOrigin(val).(*ssa.Call)
			okSrc := isCall && CalleeName(vc) == rw.source
			if okSrc {
				if rw.source == "(error).Error" {
					okSrc = FromParam(errP)(vc.Call.Value)
				} else {
					// argument: msgP.Context()
					a, isC2 := firstOrigin(vc.Call.Args[0]).(*ssa.Call)
					okSrc = isC2 && CalleeName(a) == nContext && FromParam(msgP)(Receiver(a))
				}
			}
			// receiver: msgP.Metadata
			rf := LoadedField(firstOrigin(Receiver(s)))
			okRecv := rf != nil && rf.Name() == "Metadata" && rf.Exported()
			c.Report(okSrc && okRecv, P+".O3", "METADATA-TABLE", H, s.Pos(), rw.key, "metadata key "+rw.key+" is written on the consumed message from "+Short(rw.source))
			for _, pb := range pubs {
				c.Report(Dominates(H, s, pb), P+".O3", "METADATA-BEFORE-PUBLISH", H, s.Pos(), rw.key, "the key is set on every path before Publish")
			}
		}
		c.Floor(P+".O3", "Metadata.Set with key "+rw.key, found, 1)
	}
}

func firstOrigin(v ssa.Value) ssa.Value {
	if v == nil {
		return nil
	}
	os := Origins(v)
	if len(os) == 1 {
		return os[0]
	}
	return v
}

// c13Delegation: every return of fn hands back the results of one call to
// another constructor of the same package.
func c13Delegation(fn *ssa.Function) *ssa.Call {
	var call *ssa.Call
	for _, r := range Returns(fn) {
		// a failing return in front of the delegation (argument validation) is not part of it
		if len(r.Results) == 2 && IsNilConst(r.Results[0]) && !IsNilConst(r.Results[1]) {
			if _, isE := r.Results[1].(*ssa.Extract); !isE {
				if _, isC := r.Results[1].(*ssa.Call); !isC {
					continue
				}
			}
		}
		for _, v := range r.Results {
			var c2 *ssa.Call
			switch x := v.(type) {
			case *ssa.Call:
				c2 = x
			case *ssa.Extract:
				c2, _ = x.Tuple.(*ssa.Call)
			}
			if c2 == nil || (call != nil && c2 != call) {
				return nil
			}
			call = c2
		}
	}
	if call == nil {
		return nil
	}
	if t := CalleeFn(&call.Call); t == nil || t.Pkg != fn.Pkg || t == fn {
		return nil
	}
	return call
}

// c13AcceptAll: the filter PoisonQueue installs by default accepts every error.
func c13AcceptAll(c *Check, P string, ctor, lit *ssa.Function) {
	ok := len(Returns(lit)) > 0
	for _, r := range Returns(lit) {
		cst, isC := r.Results[0].(*ssa.Const)
		if !isC || cst.Value == nil || cst.Value.String() != "true" {
			ok = false
		}
	}
	c.Report(ok, P+".O2", "DEFAULT-FILTER-ACCEPTS-ALL", ctor, lit.Pos(), "PoisonQueue default filter", "without a filter every handler error qualifies for the poison queue")
}
