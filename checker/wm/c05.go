package wm

import (
	"fmt"
	"sort"
	"strings"

	"golang.org/x/tools/go/ssa"
)

func init() {
	register(&PropDef{
		ID:  "C05",
		Run: runC05,
		Explanation: "Decides for GoChannel: the per-subscription mutex is held at the send on the output channel and at the settle-wait, only the deliver function sends on that channel, and from the send every path to the function's exit passes the settle-wait — so the next delivery cannot start before the previous one was settled, whatever the buffer size or number of publishers; " +
			"in blocking mode every message's fan-out is followed, before the next message or a successful return, by the wait helper (a select over exactly the fan-out's completion channel and the Pub/Sub's closing signal); the completion channel is closed only when there were no subscribers or after a WaitGroup that counts every deliver goroutine. " +
			"Before the send every path polls the subscription's closing signal without blocking, so a sender that was queued behind an unsettled message does not deliver once the subscription is closing (F11, repaired); a delivery that is waited for in place runs with none of the Pub/Sub's locks held, and the wait helper returns only after its select or in non-blocking mode. " +
			"The rule 'no wait for subscriber acks while the subscribers lock is held' is violated today (known finding F9: blocking Publish + subscriber publishing to another topic + pending Subscribe deadlocks). Not decided: per-publisher order as a history property, fairness.",
		Assumptions: commonAssumptions,
	})
}

func runC05(c *Check) {
	r := c.gochannelRoles("C05")
	if r == nil {
		return
	}
	c05OneInFlight(c, "C05", r)
	c05BlockWait(c, "C05", r)
	c05AckedByAll(c, "C05", r)
	c05NoLockAcrossWait(c, "C05", r)
	c07TeardownOrder(c, "C05.O5", r)
	c07LockOrder(c, "C05.O5", r)
	c05DeliverUntilSettled(c, "C05.O3", r)
	c11Handoff(c, "C05.O6", r)
	gcSafety(c, "C05", r)
}

// c05DeliverUntilSettled: the deliver function (whose return releases a
// blocking Publish and lets the next delivery start) returns only on the
// Acked() case, on a closing case, or on the subscription-closed check — in
// particular not on a Nack.
func c05DeliverUntilSettled(c *Check, id string, r *GCRoles) {
	D := r.Deliver
	var allowed []Edge
	for _, sw := range r.settleWaits() {
		if sw.acked != nil {
			allowed = append(allowed, *sw.acked)
		}
	}
	for _, si := range Selects(D) {
		for _, cs := range si.Cases {
			// only the closing signals count: a context's Done() fires before the subscription is marked closing, and a
			// sender that gives up then lets the next queued message out while this one is unsettled
			if ok, what := isCancelCase(cs, r.SClosing, r.Closing); ok && what != "ctx.Done()" && cs.Edge != nil {
				allowed = append(allowed, *cs.Edge)
			}
		}
	}
	closedTrue, _ := BoolEdges(D, func(v ssa.Value) bool { return AllOrigins(v, IsFieldLoad(r.SClosed)) })
	allowed = append(allowed, closedTrue...)
	re := ReachEntry(D, NewCut().AddEdges(allowed...))
	for i, ret := range Returns(D) {
		c.Report(!re[ret], id, "DELIVER-UNTIL-SETTLED", D, ret.Pos(), fmt.Sprintf("return#%d of the deliver function", i),
			"the deliver function returns only after the Ack, or because the subscription / Pub/Sub is closing (a Nack keeps it delivering: blocking Publish and the next message wait for the Ack)")
	}
	// redelivery stays in this goroutine: the deliver function does not spawn itself
	for _, f := range WithAnon(D) {
		AllInstrs(f, func(in ssa.Instruction) {
			if g, ok := in.(*ssa.Go); ok && CalleeFn(&g.Call) == D {
				c.Report(false, id, "REDELIVER-IN-PLACE", f, in.Pos(), "go deliver", "redelivery is handed to a new goroutine: the completion that blocking Publish waits for no longer covers it")
			}
		})
	}
}

func c05OneInFlight(c *Check, P string, r *GCRoles) {
	D := r.Deliver
	sws := r.settleWaits()
	if !c.Floor(P+".O1", "settle-wait select", len(sws), 1) || !c.Floor(P+".O1", "send site", len(r.Sends), 1) {
		return
	}
	for i, s := range r.Sends {
		k := fmt.Sprintf("send#%d", i)
		held := r.LA.Held(s.Ins)
		c.Report(held[r.idSending] == 'W', P+".O1", "SENDING-HELD-AT-SEND", D, s.Ins.Pos(), k, "the subscription's sending mutex is held at the send", "held: "+held.String())
		// from the send case every path to exit passes a settle-wait
		var from []Edge
		if s.Case != nil && s.Case.Edge != nil {
			from = append(from, *s.Case.Edge)
		}
		var waits []ssa.Instruction
		for _, sw := range sws {
			waits = append(waits, sw.si.Sel)
		}
		ok := len(from) > 0 || s.Sel == nil
		cut := NewCut().AddInstrs(waits...)
		var reached InstrSet
		if s.Sel == nil {
			reached = ReachAfter(s.Ins, cut)
		} else if len(from) > 0 {
			reached = ReachEdge(from[0], cut)
		}
		var wit []string
		for _, ret := range Returns(D) {
			if reached[ret] {
				ok = false
				wit = append(wit, "return at "+c.P.Pos(ret.Pos())+" reachable after the send without waiting for the settlement")
			}
		}
		for _, s2 := range r.Sends {
			if reached[s2.Ins] {
				ok = false
				wit = append(wit, "another send reachable without waiting for the settlement")
			}
		}
		c.Report(ok, P+".O1", "WAIT-AFTER-SEND", D, s.Ins.Pos(), k, "after a message was handed to the subscriber every path waits for its Ack/Nack (or the subscription's closing) before anything else", wit...)
	}
	// a sender that was queued on the mutex behind an unsettled message gets the mutex as soon as the subscription starts
	// closing (the waiting sender returns on the closing signal, the message still unsettled): before it sends it asks —
	// in a poll that cannot block and cannot lose against the send case — whether the subscription is closing
	var polls []ssa.Instruction
	for _, si := range Selects(D) {
		if si.Blocking || si.Default == nil {
			continue
		}
		for _, cs := range si.Cases {
			if cs.Send || cs.Edge == nil || !AllOrigins(cs.Chan, IsFieldLoad(r.SClosing)) {
				continue
			}
			// the closing case leads to no send
			re := ReachEdge(*cs.Edge, nil)
			quiet := true
			for _, s2 := range r.Sends {
				if re[s2.Ins] {
					quiet = false
				}
			}
			if quiet && len(si.Cases) == 1 {
				polls = append(polls, si.Sel)
			}
		}
	}
	c.RoleKeys = true
	for i, s := range r.Sends {
		// (a resend after a Nack needs no new poll: the sender kept the mutex, and the message it sends again is settled)
		entry := ReachEntry(D, NewCut().AddInstrs(polls...))
		// … asked with the sending mutex held: a poll in front of the acquisition was answered before the sender queued up
		okHeld := true
		for _, cl := range CallsIn(D) {
			if op, isOp := r.LA.opOf(cl); isOp && op.mode == 'W' && op.id == r.idSending {
				if _, isDefer := cl.(*ssa.Defer); !isDefer && ReachAfter(cl, NewCut().AddInstrs(polls...))[s.Ins] {
					okHeld = false
				}
			}
		}
		c.Report(len(polls) > 0 && !entry[s.Ins] && okHeld, P+".O1", "NO-SEND-ONCE-CLOSING", D, s.Ins.Pos(), fmt.Sprintf("send#%d", i),
			"every path from the acquisition of the sending mutex to the send passes a non-blocking poll of the subscription's closing signal that gives up when it is raised (in the send select itself the closing case competes with the send at random, so a queued second message could be delivered while the first is unsettled)")
	}
	c.RoleKeys = false
	for i, sw := range sws {
		held := r.LA.Held(sw.si.Sel)
		c.Report(held[r.idSending] == 'W', P+".O1", "SENDING-HELD-AT-WAIT", D, sw.si.Sel.Pos(), fmt.Sprintf("settle-wait#%d", i), "the sending mutex is still held while waiting for the settlement (one unsettled message per subscription)", "held: "+held.String())
	}
	// the mutex is not released between send and wait: no non-deferred unlock in the deliver function
	for _, cl := range CallsIn(D) {
		if op, ok := r.LA.opOf(cl); ok && (op.mode == 'w') && op.id == r.idSending {
			if _, isDefer := cl.(*ssa.Defer); !isDefer {
				after := false
				for _, s := range r.Sends {
					if ReachAfter(s.Ins, nil)[cl] {
						for _, sw := range sws {
							if ReachAfter(cl, nil)[sw.si.Sel] {
								after = true
							}
						}
					}
				}
				c.Report(!after, P+".O1", "SENDING-NOT-RELEASED", D, cl.Pos(), "unlock", "the sending mutex is not released between the send and the settle-wait")
			}
		}
	}
	// who may send: checked while locating the deliver function (a second sender is reported there)
	n := 0
	for _, fn := range r.Funcs {
		n += len(SendSites(fn, r.isOut))
	}
	c.Report(n == len(r.Sends), P+".O1", "WHO-MAY-SEND", D, D.Pos(), "output channel", "only the deliver function sends on a subscription's output channel")
}

func c05BlockWait(c *Check, P string, r *GCRoles) {
	Pub := r.Publish
	fans := Callers([]*ssa.Function{Pub}, r.Fan)
	waits := r.waitSitesInPublish()
	if !c.Floor(P+".O2", "fan-out call in Publish", len(fans), 1) || !c.Floor(P+".O2", "wait for the subscribers' acks in Publish", len(waits), 1) {
		return
	}
	_, blockFalse := BoolEdges(Pub, exportedFieldLoad("BlockPublishUntilSubscriberAck"))
	var blockFalseW []Edge
	if !r.WaitInline {
		_, blockFalseW = BoolEdges(r.Wait, exportedFieldLoad("BlockPublishUntilSubscriberAck"))
	}
	c.Floor(P+".O2", "test of BlockPublishUntilSubscriberAck", len(blockFalse)+len(blockFalseW), 1)
	if !r.WaitInline {
		// the wait helper returns without having waited only in non-blocking mode
		cut := NewCut().AddEdges(blockFalseW...)
		for _, si := range r.waitSelects() {
			cut.AddInstrs(si.Sel)
		}
		re := ReachEntry(r.Wait, cut)
		for i, ret := range Returns(r.Wait) {
			c.Report(!re[ret], P+".O2", "WAIT-HELPER-WAITS", r.Wait, ret.Pos(), fmt.Sprintf("wait helper return#%d", i), "the wait helper returns only after its select (or at once in non-blocking mode)")
		}
	}
	for i, f := range fans {
		k := fmt.Sprintf("fan-out call#%d", i)
		cut := NewCut().AddInstrs(waits...).AddEdges(blockFalse...)
		re := ReachAfter(f, cut)
		ok := true
		var wit []string
		for _, f2 := range fans {
			if re[f2] {
				ok = false
				wit = append(wit, "the next message's fan-out is reachable without waiting")
			}
		}
		for _, ret := range Returns(Pub) {
			if !re[ret] {
				continue
			}
			for _, v := range RetOrigins(ret, 0) {
				if IsNilConst(v) {
					ok = false
					wit = append(wit, "successful return at "+c.P.Pos(ret.Pos())+" reachable without waiting")
				}
			}
		}
		c.Report(ok, P+".O2", "BLOCK-WAIT", Pub, f.Pos(), k, "in blocking mode every message is waited for before the next one is sent or Publish returns successfully", wit...)
		// the wait gets this fan-out's completion channel
		isDone := func(v ssa.Value) bool { return AllOrigins(v, func(o ssa.Value) bool { return IsResultOf(o, f, 0) }) }
		for _, w := range waits {
			okA := false
			if call, isCall := w.(ssa.CallInstruction); isCall {
				for _, a := range call.Common().Args {
					if isDone(a) {
						okA = true
					}
				}
			} else if sel, isSel := w.(*ssa.Select); isSel {
				for _, st := range sel.States {
					if isDone(st.Chan) {
						okA = true
					}
				}
			}
			c.Report(okA, P+".O2", "WAIT-FOR-THIS-MESSAGE", Pub, w.Pos(), k, "the wait listens on the completion channel of the fan-out just started")
		}
	}
	// a blocking select (no default) over exactly {the completion channel, the closing signal}
	sels := r.waitSelects()
	if c.Floor(P+".O2", "select waiting for the acks", len(sels), 1) {
		for _, si := range sels {
			okShape := si.Blocking && len(si.Cases) == 2
			hasDone, hasClosing := false, false
			for _, cs := range si.Cases {
				if cs.Send {
					okShape = false
				}
				ck := ClassifyChan(cs.Chan)
				switch {
				case ck.Kind == "field" && ck.Field == r.Closing:
					hasClosing = true
				case ck.Kind == "param" && !r.WaitInline:
					hasDone = true
				case AllOrigins(cs.Chan, ResultOfAny(fans, 0)):
					hasDone = true
				}
			}
			c.Report(okShape && hasDone && hasClosing, P+".O2", "WAIT-SHAPE", r.Wait, si.Sel.Pos(), "wait select", "the wait is a blocking select (no default) over exactly the completion channel and the Pub/Sub's closing signal")
		}
		if !r.WaitInline {
			bo := BlockingOps(r.Wait)
			c.Report(len(bo) == len(sels), P+".O2", "WAIT-ONLY-SELECT", r.Wait, r.Wait.Pos(), "wait helper", "the wait helper contains no other blocking operation")
		}
	}
}

func c05AckedByAll(c *Check, P string, r *GCRoles) {
	F := r.Fan
	var done *ssa.MakeChan
	for _, vals := range ReturnValues(F, 0) {
		for _, v := range vals {
			if mc, ok := v.(*ssa.MakeChan); ok {
				done = mc
			}
		}
	}
	if !c.Floor(P+".O3", "completion channel made and returned by the fan-out function", b2i(done != nil), 1) {
		return
	}
	isDone := func(v ssa.Value) bool { return AllOrigins(v, func(o ssa.Value) bool { return o == ssa.Value(done) }) }
	for ret, vals := range ReturnValues(F, 0) {
		ok := len(vals) == 1 && vals[0] == ssa.Value(done)
		c.Report(ok, P+".O3", "COMPLETION-RETURNED", F, ret.Pos(), "return", "the fan-out always returns its own completion channel")
	}
	lookups := Callers([]*ssa.Function{F}, r.LookupSubs)
	empty, _ := LenZeroEdges(F, func(v ssa.Value) bool { return AllOrigins(v, ResultOfAny(lookups, 0)) })
	nclose := 0
	for _, f := range WithStarted(F) {
		for _, cl := range CloseSites(f, isDone) {
			nclose++
			if f == F {
				c.Report(len(empty) > 0 && GuardedBy(F, cl, empty), P+".O3", "ACKED-BY-ALL/no-subscribers", F, cl.Pos(), "close(completion)", "in the fan-out function itself the completion channel is closed only when the topic has no subscribers")
				continue
			}
			// in a literal: after wg.Wait() on a wait group that counts every deliver goroutine
			wts := CallsTo(f, nWGWait)
			ok := len(wts) > 0
			for _, w := range wts {
				if !Dominates(f, w, cl) {
					ok = false
				}
			}
			c.Report(ok, P+".O3", "ACKED-BY-ALL/wait", f, cl.Pos(), "close(completion)", "the completion channel is closed only after the WaitGroup of the deliver goroutines was waited for")
			for _, w := range wts {
				wg := Receiver(w)
				// Add(1) before each go, Done after the deliver call in the spawned literal
				var gos []*ssa.Go
				AllInstrs(f, func(in ssa.Instruction) {
					if g, ok := in.(*ssa.Go); ok {
						gos = append(gos, g)
					}
				})
				c.Floor(P+".O3", "go statements in the fan-out literal", len(gos), 1)
				for _, g := range gos {
					adds := CallsTo(f, nWGAdd)
					okAdd := false
					for _, a := range adds {
						n, isC := IntConst(a.Common().Args[1])
						if sameValue(Receiver(a), wg) && isC && n == 1 && !ReachWithout(a, a, g) && Dominates(f, a, g) {
							okAdd = true
						}
						// or once, before the loop, for the whole list: Add(len(list)) with one goroutine per element of that list
						if largs, isLen := IsBuiltinCall(a.Common().Args[1], "len"); isLen && sameValue(Receiver(a), wg) && !InLoop(a) && Dominates(f, a, g) {
							AllInstrs(f, func(in ssa.Instruction) {
								ia, ok := in.(*ssa.IndexAddr)
								if !ok || !IsFullRangeIndex(ia.Index, ia.X) || !sameValue(ia.X, largs[0]) {
									return
								}
								if inc, isIns := ia.Index.(ssa.Instruction); isIns && !ReachWithout(inc, inc, g) && !ReachWithout(g, g, inc) {
									okAdd = true
								}
							})
						}
					}
					c.Report(okAdd, P+".O3", "WG-ADD-BEFORE-GO", f, g.Pos(), "go deliver", "wg.Add(1) precedes every go statement (once per goroutine)")
					lit := FuncOfValue(g.Call.Value)
					if lit == nil {
						c.Undecided(P+".O3", "WG-DONE-AFTER-DELIVER", f, g.Pos(), "go deliver", "the spawned function is not a literal; cannot relate Done to the deliver call")
						continue
					}
					var dcalls []ssa.CallInstruction
					for _, x := range CallsIn(lit) {
						if CalleeFn(x.Common()) == r.Deliver {
							dcalls = append(dcalls, x)
						}
					}
					dones := CallsTo(lit, nWGDone)
					okDone := len(dones) == 1 && len(dcalls) == 1 && sameValue(Receiver(dones[0]), wg)
					if okDone {
						if _, isDefer := dones[0].(*ssa.Defer); !isDefer {
							okDone = Dominates(lit, dcalls[0], dones[0])
							for _, ret := range Returns(lit) {
								if !Dominates(lit, dones[0], ret) {
									okDone = false
								}
							}
						}
					}
					c.Report(okDone, P+".O3", "WG-DONE-AFTER-DELIVER", lit, lit.Pos(), "deliver goroutine", "the goroutine signals Done only after the deliver function returned (acked, or subscription closed)")
				}
			}
		}
	}
	c.Floor(P+".O3", "close sites of the completion channel", nclose, 2)
	// the literal that waits is started with the looked-up subscribers
}

func c05NoLockAcrossWait(c *Check, P string, r *GCRoles) {
	W := r.Wait
	c.RoleKeys = true
	defer func() { c.RoleKeys = false }()
	for i, si := range r.waitSelects() {
		held := r.LA.Held(si.Sel)
		_, has := held[r.idSubs]
		c.Report(!has, P+".O4", "NO-LOCK-ACROSS-WAIT", W, si.Sel.Pos(), fmt.Sprintf("blocking-publish wait helper: select#%d waiting for subscriber acks", i),
			"the wait for subscribers' acks must not happen while the subscribers lock is held (a subscriber that publishes to another topic while a Subscribe is pending deadlocks on RWMutex writer preference)", "held: "+held.String())
	}
	c.RoleKeys = false
	c05NoOtherLockAcrossWait(c, P+".O4", r)
	c05DeliverOutsideLocks(c, P+".O4", r)
}

// c05NoOtherLockAcrossWait: the part of the wait discipline that holds today
// (the known finding F9 concerns the subscribers lock only); shared through gcSafety.
func c05NoOtherLockAcrossWait(c *Check, id string, r *GCRoles) {
	W := r.Wait
	// besides the topic mutex (one batch at a time per topic, by design) nothing else is held across the wait: a lock
	// every Publish needs (persisted-messages lock, closed lock) would make a subscriber that publishes before it acks deadlock
	for i, si := range r.waitSelects() {
		held := r.LA.Held(si.Sel)
		var extra []string
		for id := range held {
			if id != r.idSubs && id != r.idTopic {
				extra = append(extra, id)
			}
		}
		for _, ws := range r.waitSitesInPublish() {
			for id := range r.LA.MayHoldAt(ws) {
				if id != r.idSubs && id != r.idTopic && !contains(extra, id) {
					extra = append(extra, id)
				}
			}
		}
		sort.Strings(extra)
		c.Report(len(extra) == 0, id, "NO-OTHER-LOCK-ACROSS-WAIT", W, si.Sel.Pos(), fmt.Sprintf("blocking-publish wait: select#%d", i),
			"while waiting for the subscribers' acks Publish holds no lock that other Publish calls need (only its topic's mutex)", "held: "+held.String()+"; not allowed: "+strings.Join(extra, ","))
	}
	// the wait's other exit is the Pub/Sub's closing signal: Close must be able to raise it while a Publish waits
	sig := CloseSites(r.Close, func(v ssa.Value) bool { return AllOrigins(v, IsFieldLoad(r.Closing)) })
	c.Floor(id, "close(closing signal) in GoChannel.Close", len(sig), 1)
	for i, si := range r.waitSelects() {
		held := r.LA.Held(si.Sel)
		for _, s := range sig {
			need := r.LA.Held(s)
			var clash []string
			for id, m := range need {
				if m2, has := held[id]; has && (m == 'W' || m2 == 'W') {
					clash = append(clash, id)
				}
			}
			sort.Strings(clash)
			c.Report(len(clash) == 0, id, "CLOSE-CAN-RELEASE-WAIT", W, si.Sel.Pos(), fmt.Sprintf("blocking-publish wait: select#%d vs close(closing signal)", i),
				"no lock that Close holds when it raises the closing signal is held by the waiting Publish (otherwise Close cannot release a blocked Publish: 'or the Pub/Sub was closed')",
				"held at the wait: "+held.String()+"; held at close(closing): "+need.String()+"; clash: "+strings.Join(clash, ","))
		}
	}
}

// c05DeliverOutsideLocks: a synchronous call of the deliver function lasts until the subscriber settles the
// message; made while one of the Pub/Sub's own locks is held it makes a subscriber that publishes from its receive
// loop (or a concurrent Subscribe / Close) wait for a settlement that waits for it.
func c05DeliverOutsideLocks(c *Check, id string, r *GCRoles) {
	n := 0
	for _, f := range c.P.SrcFuncs("pubsub/gochannel") {
		for _, cl := range CallsIn(f) {
			if CalleeFn(cl.Common()) != r.Deliver {
				continue
			}
			n++
			call, isCall := cl.(*ssa.Call)
			if !isCall {
				continue
			}
			held := LockSet{}
			for k, m := range r.LA.Held(call) {
				held[k] = m
			}
			for k, m := range r.LA.MayHoldAt(call) {
				held[k] = m
			}
			var bad []string
			for _, k := range []string{r.idSubs, r.idTopic, r.idPersist, r.idClosedLock} {
				if _, has := held[k]; has {
					bad = append(bad, k)
				}
			}
			c.Report(len(bad) == 0, id, "DELIVER-OUTSIDE-PUBSUB-LOCKS", f, call.Pos(), "synchronous deliver call",
				"a delivery that is waited for in place (until the subscriber settles the message) runs with none of the Pub/Sub's locks held — Publish from the receive loop, Subscribe and Close need them", "held: "+held.String())
		}
	}
	c.Floor(id, "deliver call sites looked at (go-started ones hold nothing)", n, 1)
}

func contains(xs []string, x string) bool {
	for _, y := range xs {
		if y == x {
			return true
		}
	}
	return false
}
