package wm

import (
	"fmt"
	"go/token"

	"golang.org/x/tools/go/ssa"
)

func init() {
	register(&PropDef{
		ID:  "C11",
		Run: runC11,
		Explanation: "Decides for persistent GoChannel: in the replay goroutine the read of the persisted log, the start of the replays and the registration of the subscription all happen with the subscribers write lock and the topic mutex held — handed over from Subscribe, which releases neither on that path — and are released only at the goroutine's end; in Publish the append to the log and every fan-out of the batch lie inside one critical section of the subscribers read lock and the topic mutex (no unlock in between); " +
			"hence a Publish is entirely before or entirely after a Subscribe's replay+register. The replay loop is a full range over the snapshot and starts exactly one deliver goroutine per element, for this subscription. " +
			"Not decided: Close races (C07), scheduling of the replay goroutines.",
		Assumptions: commonAssumptions,
	})
}

func runC11(c *Check) {
	P := "C11"
	r := c.gochannelRoles(P)
	if r == nil {
		return
	}
	// what is persisted and fanned out are Publish's own copies; the fan-out iterates over a stable copy of the subscriber list
	c04PublishCopies(c, P, r)
	c04LookupCopy(c, P+".O3", r)
	R := r.Replay
	c11Handoff(c, P+".O1", r)
	// the log is a plain map shared by all topics: every access is under its lock; the teardown of a cancelled
	// subscription raises its closing signal before taking the locks a blocked Publish holds
	c07PersistedGuard(c, P+".O2", r)
	c07TeardownOrder(c, P+".O1", r)
	c07LockOrder(c, P+".O1", r)
	gcSafety(c, P, r)
	// registration after the replays were started, on every path
	for _, ad := range Callers([]*ssa.Function{R}, r.AddSub) {
		for _, ret := range Returns(R) {
			c.Report(Dominates(R, ad, ret), P+".O1", "REGISTER-ALWAYS", R, ad.Pos(), "registration", "the subscription is registered on every path of the replay goroutine")
		}
	}

	// O2: Publish
	crit := c11PublishSection(c, P+".O2", r)
	c11PersistBeforeSend(c, P+".O2", r, crit)
	// the same test in Subscribe selects the replay path
	_, persFalseS := BoolEdges(r.Subscribe, exportedFieldLoad("Persistent"))
	for _, ad := range Callers([]*ssa.Function{r.Subscribe}, r.AddSub) {
		c.Report(GuardedBy(r.Subscribe, ad, persFalseS), P+".O1", "DIRECT-REGISTER-ONLY-NON-PERSISTENT", r.Subscribe, ad.Pos(), "registration", "Subscribe registers directly (without replay) only in non-persistent mode")
	}

	// O3 replay loop
	var gos []*ssa.Go
	AllInstrs(R, func(in ssa.Instruction) {
		if g, ok := in.(*ssa.Go); ok && CalleeFn(&g.Call) == r.Deliver {
			gos = append(gos, g)
		}
	})
	for _, f := range WithStarted(R) {
		for _, cl := range CallsIn(f) {
			if CalleeFn(cl.Common()) != r.Deliver {
				continue
			}
			known := false
			for _, g := range gos {
				if ssa.CallInstruction(g) == cl {
					known = true
				}
			}
			c.Report(known, P+".O3", "REPLAY-ONE-WAY", f, cl.Pos(), "deliver call in the replay", "the persisted log is replayed in one way only — the full range loop that starts one deliver goroutine per message (a second path, e.g. batches for big histories, needs its own proof that no message is left out)")
		}
	}
	if c.Floor(P+".O3", "go deliver in the replay loop", len(gos), 1) {
		for _, g := range gos {
			// message: element [i] of persisted[topic], i a full range index over the snapshot
			m := firstOrigin(g.Call.Args[1])
			ok := false
			var idx ssa.Value
			if u, isU := m.(*ssa.UnOp); isU && u.Op == token.MUL {
				if ia, isIA := u.X.(*ssa.IndexAddr); isIA {
					idx = ia.Index
					base := firstOrigin(ia.X)
					if lk, isLk := base.(*ssa.Lookup); isLk && r.isPers(lk.X) {
						ok = true
					} else if e, isE := base.(*ssa.Extract); isE {
						if lk, isLk := e.Tuple.(*ssa.Lookup); isLk && r.isPers(lk.X) {
							ok = true
						}
					}
				}
			}
			okRange := false
			var hdr ssa.Instruction
			if bo, isB := idx.(*ssa.BinOp); isB && ok {
				// loop bound = len(snapshot) where snapshot is a lookup of the persisted log
				for _, ref := range *bo.Referrers() {
					if cmp, isC := ref.(*ssa.BinOp); isC && cmp.Op == token.LSS && cmp.X == ssa.Value(bo) {
						hdr = cmp
						if args, isL := IsBuiltinCall(cmp.Y, "len"); isL {
							if e, isE := firstOrigin(args[0]).(*ssa.Extract); isE {
								if lk, isLk := e.Tuple.(*ssa.Lookup); isLk && r.isPers(lk.X) {
									okRange = isRangeCounter(bo)
								}
							} else if lk, isLk := firstOrigin(args[0]).(*ssa.Lookup); isLk && r.isPers(lk.X) {
								okRange = isRangeCounter(bo)
							}
						}
					}
				}
			}
			c.Report(ok && okRange, P+".O3", "REPLAY-ALL", R, g.Pos(), "go deliver", "every element of the topic's persisted log is replayed (full ascending range over the snapshot taken under the lock)")
			c.Report(InLoop(g) && idx != nil && !ReachWithout(idx.(ssa.Instruction), idx.(ssa.Instruction), g) && !ReachWithout(g, g, idx.(ssa.Instruction)), P+".O3", "REPLAY-ONCE", R, g.Pos(), "go deliver", "exactly one deliver goroutine per persisted message")
			// the loop is not skipped when there is something to replay: every path to the registration passes the
			// loop's head, or the edge on which the lookup found no log for the topic
			if hdr != nil {
				_, absent := BoolEdges(R, func(x ssa.Value) bool {
					e, isE := x.(*ssa.Extract)
					if !isE || e.Index != 1 {
						return false
					}
					lk, isLk := e.Tuple.(*ssa.Lookup)
					return isLk && lk.CommaOk && r.isPers(lk.X)
				})
				re := ReachEntry(R, NewCut().AddInstrs(hdr).AddEdges(absent...))
				for _, ad := range Returns(R) {
					c.Report(!re[ad], P+".O3", "REPLAY-NOT-SKIPPED", R, g.Pos(), "go deliver", "the replay loop is entered whenever the topic has a persisted log: the goroutine's end is reached only through the loop or through the edge on which the lookup found nothing")
				}
			}
			// for this subscription
			okSub := AllOrigins(g.Call.Args[0], func(v ssa.Value) bool {
				a, isA := v.(*ssa.Alloc)
				return isA && NamedOf(a.Type()) == r.S && HomeFn(a.Parent()) == r.Subscribe
			})
			c.Report(okSub, P+".O3", "REPLAY-TO-NEW-SUBSCRIPTION", R, g.Pos(), "go deliver", "the replay goes to the subscription being created")
		}
	}
	for _, ad := range Callers(r.Funcs, r.AddSub) {
		okSub := AllOrigins(ad.Common().Args[2], func(v ssa.Value) bool {
			a, isA := v.(*ssa.Alloc)
			return isA && NamedOf(a.Type()) == r.S && HomeFn(a.Parent()) == r.Subscribe
		})
		c.Report(okSub, P+".O3", "REGISTER-NEW-SUBSCRIPTION", ad.Parent(), ad.Pos(), "registration", "the subscription being created is what gets registered")
	}
}

// isRangeCounter: bo = phi(-1, bo) + 1.
func isRangeCounter(bo *ssa.BinOp) bool {
	if bo.Op != token.ADD {
		return false
	}
	if n, ok := IntConst(bo.Y); !ok || n != 1 {
		return false
	}
	phi, ok := bo.X.(*ssa.Phi)
	if !ok {
		return false
	}
	hasInit, hasStep := false, false
	for _, e := range phi.Edges {
		if n, ok := IntConst(e); ok && n == -1 {
			hasInit = true
		} else if e == ssa.Value(bo) {
			hasStep = true
		} else {
			return false
		}
	}
	return hasInit && hasStep
}

// c11Handoff: the goroutine that registers a persistent subscription starts
// with the subscribers write lock and the topic mutex held (handed over by
// Subscribe, which releases neither on that path) and keeps them until it has
// registered: a Publish after Subscribe returned cannot miss the subscription.
// Shared with C04.O6 and C05.
func c11Handoff(c *Check, id string, r *GCRoles) {
	P := id
	_ = P
	R := r.Replay
	res := r.LA.Result(R)
	// O1: entry lockset of the replay literal (hand-off)
	_, hasSubs := res.Entry[r.idSubs]
	_, hasTopic := res.Entry[r.idTopic]
	c.Report(hasSubs && res.Entry[r.idSubs] == 'W' && hasTopic, id, "HANDOFF", R, R.Pos(), "replay goroutine entry",
		"the replay goroutine starts with the subscribers write lock and the topic mutex held (taken by Subscribe and handed over)", "entry: "+res.Entry.String())
	c.Report(len(res.DeferredUnlock[r.idSubs]) > 0 && len(res.DeferredUnlock[r.idTopic]) > 0, id, "RELEASE-AT-END", R, R.Pos(), "replay goroutine",
		"both locks are released by deferred unlocks of the replay goroutine (held until it ends)")
	// no early unlock inside the literal
	for _, cl := range CallsIn(R) {
		if op, ok := r.LA.opOf(cl); ok && (op.mode == 'w' || op.mode == 'r') && (op.id == r.idSubs || op.id == r.idTopic) {
			if _, isDefer := cl.(*ssa.Defer); !isDefer {
				c.Report(false, id, "NO-EARLY-RELEASE", R, cl.Pos(), "unlock", "the replay goroutine releases "+op.id+" before it registered the subscription")
			}
		}
	}
	// critical operations inside the literal
	n := 0
	AllInstrs(R, func(in ssa.Instruction) {
		what := ""
		switch x := in.(type) {
		case *ssa.Lookup:
			if r.isPers(x.X) {
				what = "read of the persisted log"
			}
		case *ssa.Go:
			if CalleeFn(&x.Call) == r.Deliver {
				what = "start of a replay"
			}
		case *ssa.Call:
			if CalleeFn(&x.Call) == r.AddSub {
				what = "registration"
			}
		}
		if what == "" {
			return
		}
		n++
		held := r.LA.Held(in)
		_, t := held[r.idTopic]
		c.Report(held[r.idSubs] == 'W' && t, id, "ATOMIC-REPLAY-REGISTER", R, in.Pos(), what, "happens with the subscribers write lock and the topic mutex held", "held: "+held.String())
	})
	c.Floor(id, "persisted-log reads, replay starts and registration in the replay goroutine", n, 3)
	// the parent does not release after the hand-off
	var goReplay *ssa.Go
	AllInstrs(r.Subscribe, func(in ssa.Instruction) {
		if g, ok := in.(*ssa.Go); ok && FuncOfValue(g.Call.Value) == R {
			goReplay = g
		}
	})
	if c.Floor(id, "go statement starting the replay goroutine", b2i(goReplay != nil), 1) {
		after := ReachAfter(goReplay, nil)
		ok := true
		var wit []string
		for _, cl := range CallsIn(r.Subscribe) {
			op, isOp := r.LA.opOf(cl)
			if !isOp || (op.mode != 'w' && op.mode != 'r') || (op.id != r.idSubs && op.id != r.idTopic) {
				continue
			}
			if _, isDefer := cl.(*ssa.Defer); isDefer {
				// a deferred unlock executed on a path through the go statement
				if ReachAfter(cl, nil)[goReplay] || after[cl] {
					ok = false
					wit = append(wit, "deferred unlock at "+c.P.Pos(cl.Pos())+" runs on the persistent path")
				}
			} else if after[cl] {
				ok = false
				wit = append(wit, "unlock at "+c.P.Pos(cl.Pos())+" after the hand-off")
			}
		}
		c.Report(ok, id, "PARENT-KEEPS-LOCKED", r.Subscribe, goReplay.Pos(), "hand-off", "Subscribe itself releases neither lock on the persistent path (they stay held until the replay goroutine has registered the subscription)", wit...)
		held := r.LA.Held(goReplay)
		_, t := held[r.idTopic]
		c.Report(held[r.idSubs] == 'W' && t, id, "LOCKED-AT-HANDOFF", r.Subscribe, goReplay.Pos(), "hand-off", "both locks are held when the replay goroutine is started", "held: "+held.String())
		// the replay literal is started for the subscription being created
	}
}

// c11PublishSection: the log append and every fan-out of a batch happen in one
// critical section of the subscribers lock and the topic mutex (a subscription
// that joins meanwhile would otherwise see a message both replayed and live).
// Shared with C04.O6.
func c11PublishSection(c *Check, id string, r *GCRoles) []ssa.Instruction {
	Pub := r.Publish
	var crit []ssa.Instruction
	AllInstrs(Pub, func(in ssa.Instruction) {
		switch x := in.(type) {
		case *ssa.MapUpdate:
			if r.isPers(x.Map) {
				crit = append(crit, in)
			}
		case *ssa.Call:
			if CalleeFn(&x.Call) == r.Fan {
				crit = append(crit, in)
			}
		}
	})
	c.Floor(id, "persisted-log updates and fan-out calls in Publish", len(crit), 2)
	for i, in := range crit {
		held := r.LA.Held(in)
		_, s := held[r.idSubs]
		_, t := held[r.idTopic]
		c.Report(s && t, id, "ATOMIC-PERSIST-SEND", Pub, in.Pos(), fmt.Sprintf("critical op#%d", i), "the log append and the fan-outs happen with the subscribers lock and the topic mutex held", "held: "+held.String())
	}
	for _, cl := range CallsIn(Pub) {
		if op, ok := r.LA.opOf(cl); ok && (op.mode == 'w' || op.mode == 'r') && (op.id == r.idSubs || op.id == r.idTopic) {
			if _, isDefer := cl.(*ssa.Defer); !isDefer {
				c.Report(false, id, "ONE-CRITICAL-SECTION", Pub, cl.Pos(), "unlock", "Publish releases "+op.id+" in the middle of persisting and sending a batch")
			}
		}
	}
	c.Report(len(r.LA.Result(Pub).DeferredUnlock[r.idSubs]) > 0 && len(r.LA.Result(Pub).DeferredUnlock[r.idTopic]) > 0, id, "ONE-CRITICAL-SECTION", Pub, Pub.Pos(), "Publish", "both locks are released only by deferred unlocks at the end of Publish")
	return crit
}

// c11PersistBeforeSend: in persistent mode — whatever the other options — the
// batch is appended to the log on every path before any of it is fanned out.
// Shared with C01.
func c11PersistBeforeSend(c *Check, id string, r *GCRoles, crit []ssa.Instruction) {
	Pub := r.Publish
	// the persisted append happens on the Persistent edge and before the fan-outs
	persTrue, _ := BoolEdges(Pub, exportedFieldLoad("Persistent"))
	c.Floor(id, "test of config.Persistent in Publish", len(persTrue), 1)
	// every path on the Persistent edge passes the append before the first fan-out
	var appends, fans []ssa.Instruction
	for _, in := range crit {
		if mu, ok := in.(*ssa.MapUpdate); ok {
			if call, isCall := firstOrigin(mu.Value).(*ssa.Call); isCall {
				if _, isApp := IsBuiltinCall(call, "append"); isApp {
					appends = append(appends, in)
				}
			}
		} else {
			fans = append(fans, in)
		}
	}
	for _, e := range persTrue {
		re := ReachEdge(e, NewCut().AddInstrs(appends...))
		bad := false
		for _, f := range fans {
			if re[f] {
				bad = true
			}
		}
		c.Report(!bad && len(appends) > 0, id, "PERSIST-BEFORE-SEND", Pub, e.From.Instrs[len(e.From.Instrs)-1].Pos(), "Persistent edge", "in persistent mode the batch is appended to the log before any of it is sent (a later subscription replays it)")
	}
}
