package wm

import (
	"bufio"
	"os"
	"sort"
	"strings"

	"golang.org/x/tools/go/ssa"
)

// Transparent helpers.
//
// A private package-level function or method with exactly one static call
// site that is a plain (synchronous) call, and that is never used as a value,
// can be read as if its body stood at the call: there is no second context to
// confuse. When TransparentOn is set, the path primitives (reach and what is
// built on it), the instruction enumerations (AllInstrs, Tests, …) and the
// value walk (Origins) look through such helpers — but only through helpers
// that did not exist when the obligations were confirmed (Baseline): the
// helpers of the confirmed tree are the anchors the rules are written against.
//
// The driver uses this as a second attempt only: the property is first decided
// on the program as written; if some obligation fails or cannot be decided,
// the property is decided again on the view with the new helpers inlined, and
// that verdict is taken only if every obligation holds there.
var (
	TransparentOn   bool
	Baseline        map[string]bool // full names of the private functions of the confirmed tree
	usedTransparent = map[string]bool{}
)

// LoadBaseline reads the list of private functions of the confirmed tree.
func LoadBaseline(path string) error {
	f, err := os.Open(path)
	if err != nil {
		return err
	}
	defer f.Close()
	Baseline = map[string]bool{}
	sc := bufio.NewScanner(f)
	for sc.Scan() {
		l := strings.TrimSpace(sc.Text())
		if l != "" && !strings.HasPrefix(l, "#") {
			Baseline[l] = true
		}
	}
	return sc.Err()
}

// PrivateFuncs lists the private package-level functions and methods of the
// module's packages (what LoadBaseline expects).
func (p *Prog) PrivateFuncs() []string {
	var out []string
	seen := map[string]bool{}
	for _, pkg := range p.SSA.AllPackages() {
		if pkg.Pkg == nil || !strings.HasPrefix(pkg.Pkg.Path(), ModulePath) {
			continue
		}
		sites, _ := pkgSites(pkg)
		_ = sites
		for _, fn := range pkgFuncs(pkg) {
			if fn.Parent() == nil && fn.Object() != nil && !fn.Object().Exported() && fn.Synthetic == "" {
				n := fn.RelString(nil)
				if !seen[n] {
					seen[n] = true
					out = append(out, n)
				}
			}
		}
	}
	sort.Strings(out)
	return out
}

// UsedTransparent names the helpers that were looked through since the last reset.
func UsedTransparent() []string {
	var out []string
	for n := range usedTransparent {
		out = append(out, n)
	}
	sort.Strings(out)
	return out
}

func ResetTransparent() { usedTransparent = map[string]bool{} }

// transparentCallee returns the helper to look through at instruction in, or nil.
func transparentCallee(in ssa.Instruction) *ssa.Function {
	if !TransparentOn {
		return nil
	}
	call, ok := in.(*ssa.Call)
	if !ok {
		return nil
	}
	cal := CalleeFn(&call.Call)
	if cal == nil || len(cal.Blocks) == 0 || cal == in.Parent() {
		return nil
	}
	if site := OnlySite(cal); site == nil || site != ssa.CallInstruction(call) {
		return nil
	}
	if Baseline == nil || Baseline[cal.RelString(nil)] {
		return nil
	}
	if cal.Pkg == nil || cal.Pkg.Pkg == nil || !strings.HasPrefix(cal.Pkg.Pkg.Path(), ModulePath) {
		return nil
	}
	// a helper that registers defers or recovers has its own frame semantics
	for _, b := range cal.Blocks {
		for _, i := range b.Instrs {
			switch x := i.(type) {
			case *ssa.Defer:
				// deferred unlocks of the helper's own lock are fine for path reasoning: they run at the helper's return.
				// Any other deferred call runs when the helper returns, not when the function it is read in returns: rules
				// that take a defer as "runs at the exit" would misread it, so such a helper is not looked through
				switch CalleeName(x) {
				case "(*sync.Mutex).Unlock", "(*sync.RWMutex).Unlock", "(*sync.RWMutex).RUnlock":
				default:
					if os.Getenv("WM_LAX_DEFER") == "" {
						return nil
					}
				}
			}
		}
	}
	usedTransparent[cal.RelString(nil)] = true
	return cal
}

// transparentOf reports whether fn is a helper that is being looked through.
func transparentOf(fn *ssa.Function) *ssa.Call {
	if !TransparentOn || fn == nil || fn.Parent() != nil {
		return nil
	}
	site := OnlySite(fn)
	if site == nil {
		return nil
	}
	call, ok := site.(*ssa.Call)
	if !ok || transparentCallee(call) != fn {
		return nil
	}
	return call
}

// regionFuncs returns fn followed by the helpers looked through from it
// (transitively, in call order).
func regionFuncs(fn *ssa.Function) []*ssa.Function {
	out := []*ssa.Function{fn}
	if !TransparentOn {
		return out
	}
	seen := map[*ssa.Function]bool{fn: true}
	for i := 0; i < len(out) && len(out) < 32; i++ {
		for _, b := range out[i].Blocks {
			for _, in := range b.Instrs {
				if cal := transparentCallee(in); cal != nil && !seen[cal] {
					seen[cal] = true
					out = append(out, cal)
				}
			}
		}
	}
	return out
}

// HomeFn returns the function in which fn's body is read: fn itself, or —
// when fn is a helper that is being looked through — the (home of the)
// function that contains its only call site. Who-may-write rules compare homes.
func HomeFn(fn *ssa.Function) *ssa.Function {
	for i := 0; i < 8 && fn != nil; i++ {
		call := transparentOf(fn)
		if call == nil {
			return fn
		}
		fn = call.Parent()
	}
	return fn
}
