// Package wm holds the static-analysis machinery that decides the watermill
// properties: a loader (type-checked packages + SSA), a handful of reusable
// analyses over the SSA control-flow graph, and one file of obligations per
// property.
package wm

import (
	"fmt"
	"go/token"
	"go/types"
	"os"
	"sort"
	"strings"

	"golang.org/x/tools/go/packages"
	"golang.org/x/tools/go/ssa"
	"golang.org/x/tools/go/ssa/ssautil"
)

// ModulePath is the import path prefix of the analysed module.
const ModulePath = "github.com/ThreeDotsLabs/watermill"

// Config selects what is loaded.
type Config struct {
	Dir    string   // repository root (default /repo)
	Tags   []string // build tags
	Env    []string // extra environment (GOARCH=…)
	Label  string   // name of the build configuration in reports
	Prefix string   // import path prefix of the analysed module (default ModulePath)
}

// Prog is a loaded, type-checked and SSA-built program.
type Prog struct {
	Cfg    Config
	Fset   *token.FileSet
	Pkgs   []*packages.Package // module packages only, sorted by path
	All    map[string]*packages.Package
	SSA    *ssa.Program
	byPath map[string]*ssa.Package
	nFuncs int
}

// Load loads ./... of the module in cfg.Dir, type-checks it, and builds SSA for
// the module packages and all dependencies. Any error is fatal for the check.
func Load(cfg Config) (*Prog, error) {
	if cfg.Dir == "" {
		cfg.Dir = "/repo"
	}
	if cfg.Label == "" {
		cfg.Label = "default"
	}
	if cfg.Prefix == "" {
		cfg.Prefix = ModulePath
	}
	env := append(os.Environ(),
		"GOFLAGS=-mod=mod", "GOPROXY=off", "GOSUMDB=off", "GOWORK=off", "GOTOOLCHAIN=local", "CGO_ENABLED=0")
	env = append(env, cfg.Env...)
	pc := &packages.Config{
		Mode:  packages.LoadAllSyntax,
		Dir:   cfg.Dir,
		Env:   env,
		Tests: false,
	}
	if len(cfg.Tags) > 0 {
		pc.BuildFlags = []string{"-tags=" + strings.Join(cfg.Tags, ",")}
	}
	pkgs, err := packages.Load(pc, "./...")
	if err != nil {
		return nil, fmt.Errorf("packages.Load: %w", err)
	}
	if len(pkgs) == 0 {
		return nil, fmt.Errorf("no packages loaded from %s", cfg.Dir)
	}
	var errs []string
	all := map[string]*packages.Package{}
	packages.Visit(pkgs, nil, func(p *packages.Package) {
		all[p.PkgPath] = p
		if strings.HasPrefix(p.PkgPath, cfg.Prefix) {
			for _, e := range p.Errors {
				errs = append(errs, e.Error())
			}
		}
		if p.IllTyped && strings.HasPrefix(p.PkgPath, cfg.Prefix) {
			errs = append(errs, p.PkgPath+": ill-typed")
		}
	})
	if len(errs) > 0 {
		sort.Strings(errs)
		return nil, fmt.Errorf("type errors in analysed module: %s", strings.Join(errs, "; "))
	}
	prog, _ := ssautil.AllPackages(pkgs, ssa.BuilderMode(0))
	prog.Build()
	p := &Prog{Cfg: cfg, Fset: pkgs[0].Fset, All: all, SSA: prog, byPath: map[string]*ssa.Package{}}
	for _, sp := range prog.AllPackages() {
		p.byPath[sp.Pkg.Path()] = sp
	}
	for _, pk := range pkgs {
		if strings.HasPrefix(pk.PkgPath, cfg.Prefix) {
			p.Pkgs = append(p.Pkgs, pk)
			if p.byPath[pk.PkgPath] == nil {
				return nil, fmt.Errorf("no SSA package for %s", pk.PkgPath)
			}
		}
	}
	sort.Slice(p.Pkgs, func(i, j int) bool { return p.Pkgs[i].PkgPath < p.Pkgs[j].PkgPath })
	if len(p.Pkgs) == 0 {
		return nil, fmt.Errorf("no packages of %s under %s", cfg.Prefix, cfg.Dir)
	}
	return p, nil
}

// Pkg returns the SSA package with the given path relative to the module ("" = root).
func (p *Prog) Pkg(rel string) *ssa.Package {
	path := p.Cfg.Prefix
	if rel != "" {
		path += "/" + rel
	}
	return p.byPath[path]
}

// TypesPkg returns the types.Package for a module-relative path.
func (p *Prog) TypesPkg(rel string) *types.Package {
	sp := p.Pkg(rel)
	if sp == nil {
		return nil
	}
	return sp.Pkg
}

// ExtPkg returns a dependency's SSA package by full import path.
func (p *Prog) ExtPkg(path string) *ssa.Package { return p.byPath[path] }

// Func returns the package-level function rel.name or nil.
func (p *Prog) Func(rel, name string) *ssa.Function {
	sp := p.Pkg(rel)
	if sp == nil {
		return nil
	}
	return sp.Func(name)
}

// Named returns the named type rel.name or nil.
func (p *Prog) Named(rel, name string) *types.Named {
	sp := p.Pkg(rel)
	if sp == nil {
		return nil
	}
	o := sp.Pkg.Scope().Lookup(name)
	if o == nil {
		return nil
	}
	tn, ok := o.(*types.TypeName)
	if !ok {
		return nil
	}
	n, _ := tn.Type().(*types.Named)
	return n
}

// Method returns the SSA function for method name of the named type (pointer or
// value receiver, generic or not), or nil.
func (p *Prog) Method(rel, typ, name string) *ssa.Function {
	n := p.Named(rel, typ)
	if n == nil {
		return nil
	}
	return p.MethodOf(n, name)
}

// MethodOf looks a method up on a named type (including unexported ones).
func (p *Prog) MethodOf(n *types.Named, name string) *ssa.Function {
	for i := 0; i < n.NumMethods(); i++ {
		m := n.Method(i)
		if m.Name() == name {
			return p.SSA.FuncValue(m.Origin())
		}
	}
	return nil
}

// Pos renders a position relative to the repository root.
func (p *Prog) Pos(pos token.Pos) string {
	if !pos.IsValid() {
		return "-"
	}
	ps := p.Fset.Position(pos)
	f := strings.TrimPrefix(ps.Filename, p.Cfg.Dir+"/")
	return fmt.Sprintf("%s:%d", f, ps.Line)
}

// SrcFuncs returns all source-level functions (including anonymous ones and
// methods, generic bodies included) of the module package rel.
func (p *Prog) SrcFuncs(rel string) []*ssa.Function { return p.srcFuncs(rel, true) }

// SrcFuncsRaw lists every source function of the package, also helpers that
// are being looked through (for analyses that have their own call-site handling).
func (p *Prog) SrcFuncsRaw(rel string) []*ssa.Function { return p.srcFuncs(rel, false) }

func (p *Prog) srcFuncs(rel string, skipTransparent bool) []*ssa.Function {
	sp := p.Pkg(rel)
	if sp == nil {
		return nil
	}
	var out []*ssa.Function
	seen := map[*ssa.Function]bool{}
	var add func(f *ssa.Function)
	add = func(f *ssa.Function) {
		if f == nil || seen[f] || f.Blocks == nil {
			return
		}
		seen[f] = true
		// a helper that is being looked through is enumerated with the function it is read in, not on its own
		if !skipTransparent || transparentOf(f) == nil {
			out = append(out, f)
		}
		for _, a := range f.AnonFuncs {
			add(a)
		}
	}
	for _, m := range sp.Members {
		switch m := m.(type) {
		case *ssa.Function:
			add(m)
		case *ssa.Type:
			if n, ok := m.Type().(*types.Named); ok {
				for i := 0; i < n.NumMethods(); i++ {
					add(p.SSA.FuncValue(n.Method(i).Origin()))
				}
			}
		}
	}
	sort.Slice(out, func(i, j int) bool { return out[i].Pos() < out[j].Pos() })
	return out
}

// ModuleRel returns the module-relative paths of all loaded module packages.
func (p *Prog) ModuleRel() []string {
	var out []string
	for _, pk := range p.Pkgs {
		out = append(out, strings.TrimPrefix(strings.TrimPrefix(pk.PkgPath, p.Cfg.Prefix), "/"))
	}
	return out
}
