package wm

func runCanaries(dir string) string { return "" }
