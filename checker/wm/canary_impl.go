package wm

import (
	"fmt"
	"strings"

	"golang.org/x/tools/go/ssa"
)

// runCanaries analyses checker/testdata/canary with every primitive and
// reports the first disagreement ("" = all primitives behave).
func runCanaries(dir string) (msg string) {
	defer func() {
		if r := recover(); r != nil {
			msg = fmt.Sprintf("panic: %v", r)
		}
	}()
	p, err := Load(Config{Dir: dir, Prefix: "canary", Label: "canary"})
	if err != nil {
		return "cannot load canary package: " + err.Error()
	}
	var fails []string
	expect := func(name string, got, want bool) {
		canaryStats["assertions"]++
		if got != want {
			fails = append(fails, fmt.Sprintf("%s: got %v want %v", name, got, want))
		}
	}
	fn := func(name string) *ssa.Function {
		f := p.Func("", name)
		if f == nil {
			fails = append(fails, "missing canary function "+name)
		}
		return f
	}
	calls := func(f *ssa.Function, name string) []ssa.CallInstruction {
		var out []ssa.CallInstruction
		for _, c := range CallsIn(f) {
			if cal := CalleeFn(c.Common()); cal != nil && cal.Name() == name {
				out = append(out, c)
			}
		}
		return out
	}

	// edge dominance
	for _, tc := range []struct {
		name string
		want bool
	}{{"GoodGuard", true}, {"BadGuard", false}} {
		f := fn(tc.name)
		if f == nil {
			continue
		}
		w := calls(f, "work")
		s := calls(f, "sink")
		eq, _ := NilEdges(f, ResultOfAny(w, 0))
		expect("GUARD "+tc.name, len(s) == 1 && len(eq) == 1 && GuardedBy(f, s[0], eq), tc.want)
		canaryStats["guard"]++
	}
	// must-pass
	for _, tc := range []struct {
		name string
		want bool
	}{{"GoodSettle", true}, {"BadSettle", false}} {
		f := fn(tc.name)
		if f == nil {
			continue
		}
		st := calls(f, "settle")
		re := ReachEntry(f, NewCut().AddInstrs(instrsOf(st)...))
		ok := true
		for _, r := range Returns(f) {
			if re[r] {
				ok = false
			}
		}
		expect("MUSTPASS "+tc.name, ok, tc.want)
		canaryStats["mustpass"]++
	}
	// constant branch pruning
	if f := fn("ConstBranch"); f != nil {
		s := calls(f, "sink")
		expect("CONSTBRANCH", len(s) == 1 && !Reachable(f, s[0]), true)
		canaryStats["constbranch"]++
	}
	// lockset
	box := p.Named("", "box")
	if box == nil {
		fails = append(fails, "missing canary type box")
	} else {
		la := NewLockAn(p, "")
		mu := oneField(box, TypeIs("sync.Mutex"))
		nf := oneField(box, TypeIs("int"))
		id := la.canon(fieldID(mu))
		for _, tc := range []struct {
			name string
			want bool
		}{{"GoodLock", true}, {"BadLock", false}, {"GoodHandoff", true}, {"BadHandoff", false}} {
			m := p.MethodOf(box, tc.name)
			if m == nil {
				fails = append(fails, "missing canary method "+tc.name)
				continue
			}
			ok, n := true, 0
			for _, a := range la.Accesses(nf) {
				root := a.Ins.Parent()
				for root.Parent() != nil {
					root = root.Parent()
				}
				if root != m || !a.Write {
					continue
				}
				n++
				if la.Held(a.Ins)[id] != 'W' {
					ok = false
				}
			}
			expect("LOCKSET "+tc.name, ok && n == 1, tc.want)
			canaryStats["lockset"]++
		}
	}
	// blocking discipline
	if f := fn("GoodSend"); f != nil {
		ops := BlockingOps(f)
		okAll := len(ops) == 2 // the third select is non-blocking
		for _, op := range ops {
			if op.Kind != "select" {
				okAll = false
				continue
			}
			esc := false
			for _, cs := range op.Sel.Cases {
				ck := ClassifyChan(cs.Chan)
				if !cs.Send && (ck.Kind == "ctx.Done" || ck.Kind == "param") {
					esc = true
				}
			}
			if !esc {
				okAll = false
			}
		}
		sends := SendSites(f, func(ssa.Value) bool { return true })
		expect("BLOCK GoodSend", okAll && len(sends) == 3, true)
		nb := 0
		for _, si := range Selects(f) {
			if !si.Blocking && si.Default != nil {
				nb++
			}
		}
		expect("BLOCK GoodSend default edge", nb == 1, true)
		canaryStats["block"]++
	}
	if f := fn("BadSend"); f != nil {
		ops := BlockingOps(f)
		expect("BLOCK BadSend", len(ops) == 1 && ops[0].Kind == "send", true)
		canaryStats["block"]++
	}
	// loop direction
	for _, tc := range []struct {
		name string
		dir  int
		full bool
	}{{"Descending", -1, true}, {"Ascending", +1, true}, {"Partial", +1, false}} {
		f := fn(tc.name)
		if f == nil {
			continue
		}
		wl := FindWrapLoops(f)
		expect("LOOP "+tc.name, len(wl) == 1 && wl[0].Dir == tc.dir && wl[0].Full == tc.full, true)
		canaryStats["loop"]++
	}
	// origins
	if f := fn("SpilledReturn"); f != nil {
		w := calls(f, "work")
		nNil, nErr := 0, 0
		for _, vals := range ReturnValues(f, 1) {
			if len(vals) == 1 && IsNilConst(vals[0]) {
				nNil++
			}
			if len(vals) == 1 && ResultOfAny(w, 0)(vals[0]) {
				nErr++
			}
		}
		expect("ORIGINS SpilledReturn", nNil == 1 && nErr == 1, true)
		canaryStats["origins"]++
	}
	if f := fn("CapturedResult"); f != nil {
		cell := ResultCell(f, 0)
		n := 0
		if cell != nil {
			for _, a := range f.AnonFuncs {
				for _, st := range StoresToCellIn(a, cell) {
					_, ne := NilEdges(a, IsLoadOfCell(cell))
					if IsNilConst(st.Val) && GuardedBy(a, st, ne) {
						n++
					}
				}
			}
		}
		expect("ORIGINS CapturedResult", cell != nil && n == 1, true)
		canaryStats["origins"]++
	}
	if len(fails) > 0 {
		return strings.Join(fails, "; ")
	}
	return ""
}
