package wm

import (
	"fmt"
	"go/token"
	"go/types"

	"golang.org/x/tools/go/ssa"
)

const rrRel = "components/requestreply"
const rrPkg = ModulePath + "/" + rrRel

func init() {
	register(&PropDef{
		ID:  "C18",
		Run: runC18,
		Explanation: "Decides for the request-reply Pub/Sub backend, SendWithReplies and the command-handler adapters: a notification is turned into a reply only on the edge where its operation-id metadata equals the listener's id, which is the very value SendWithReplies generated, put on the command under the same key and handed to ListenForNotifications; OnCommandProcessed copies the id from the command to the notification; " +
			"OnCommandProcessed returns nil / the handler error only on the edge where Publish (or the configured error handler) returned nil, nil on the AckCommandErrors edge and the handler error otherwise, and the adapters return its result unchanged; every notification is acked; in the listener goroutine close(replyChan), cancel() and OnListenForReplyFinished are deferred once outside the loop; every send on the reply channel is a select case accompanied by default or by the listener's ctx.Done() (no bare send), and every receive is escapable. " +
			"Not decided: that unrelated subscribers deliver, timing of the timeout.",
		Assumptions: commonAssumptions,
	})
}

func runC18(c *Check) {
	LostReceiverStores(c, "C18.CFG", "components/requestreply", "components/cqrs")
	DefaultsApplied(c, "C18.CFG", "components/requestreply", "components/cqrs")
	OptionalHooksGuarded(c, "C18.CFG", "components/requestreply")
	P := "C18"
	// the request-reply handler finds the command message through the context the command processor sets on it
	for _, fn := range c.P.SrcFuncs("components/cqrs") {
		rs := fn.Signature.Results()
		recv := fn.Signature.Recv()
		if fn.Parent() != nil || recv == nil || rs.Len() != 2 || rs.At(0).Type().String() != msgPkg+".NoPublishHandlerFunc" || NamedOf(recv.Type()) == nil || NamedOf(recv.Type()).Obj().Name() != "CommandProcessor" {
			continue
		}
		for _, r := range Returns(fn) {
			for _, o := range RetOrigins(r, 0) {
				if f := FuncOfValue(o); f != nil && f.Parent() == fn && len(ParamsOfType(f, tMessagePtr)) == 1 {
					c15OriginalMessageCtx(c, P+".O3", f, "command")
					c15FreshTarget(c, P+".O3", f, "command")
				}
			}
		}
	}
	B := c.P.Named(rrRel, "PubSubBackend")
	if !c.Floor(P, "type requestreply.PubSubBackend", b2i(B != nil), 1) {
		return
	}
	listen := c.P.MethodOf(B, "ListenForNotifications")
	processed := c.P.MethodOf(B, "OnCommandProcessed")
	if !c.Use(P, listen, "PubSubBackend.ListenForNotifications") || !c.Use(P, processed, "PubSubBackend.OnCommandProcessed") {
		return
	}
	key, okKey := c.P.ExportedConstString(rrRel, "OperationIDMetadataKey")
	if !c.Floor(P+".O1", "exported constant OperationIDMetadataKey", b2i(okKey), 1) {
		return
	}
	isKeyGet := func(v ssa.Value, onMsg func(ssa.Value) bool) bool {
		call, ok := firstOrigin(v).(*ssa.Call)
		if !ok || CalleeName(call) != nMetaGet {
			return false
		}
		k, isK := ConstString(Arg(call, 0))
		if !isK || k != key {
			return false
		}
		u, ok := firstOrigin(Receiver(call)).(*ssa.UnOp)
		if !ok {
			return false
		}
		f, base := FieldOf(u.X)
		return f != nil && f.Name() == "Metadata" && onMsg(base)
	}

	// the command is settled by the command processor, from what the handler returns — after OnCommandProcessed published the
	// reply: the request-reply layer itself settles no message except the notifications its listener consumes
	{
		inListener := map[*ssa.Function]bool{}
		for _, f := range WithAnon(listen) {
			inListener[f] = true
			for _, g := range sameReceiverCalleesOf(f) {
				for _, h := range WithAnon(g) {
					inListener[h] = true
				}
			}
		}
		ns := 0
		for _, f := range c.P.SrcFuncs(rrRel) {
			if inListener[f] || inListener[outermost(f)] {
				continue
			}
			for _, cl := range CallsIn(f) {
				if n := CalleeName(cl); n == nAck || n == nNack {
					ns++
					c.Report(false, P+".O2", "COMMAND-SETTLED-ONLY-BY-THE-PROCESSOR", f, cl.Pos(), n, "outside the reply listener the request-reply code calls neither Ack nor Nack: the command message is settled by the command processor from the handler's return value, i.e. only after the reply was published (an earlier Ack cannot be taken back when the publish fails)")
				}
			}
		}
		c.Report(true, P+".O2", "SETTLE-CALLS-SCANNED", processed, processed.Pos(), "package requestreply", fmt.Sprintf("%d Ack/Nack calls outside the reply listener", ns))
	}
	// a step of the set-up that fails (subscriber constructor, topic generator, Subscribe) is reported: the caller never gets
	// "no error" together with a channel nobody will ever write to or close
	for _, cl := range CallsIn(listen) {
		call, isCall := cl.(*ssa.Call)
		if !isCall || call.Parent() != listen {
			continue
		}
		sig := call.Common().Signature()
		nr := sig.Results().Len()
		if nr == 0 || !IsErrorType(sig.Results().At(nr-1).Type()) {
			continue
		}
		_, fail := NilEdges(listen, func(v ssa.Value) bool {
			if nr == 1 {
				return v == ssa.Value(call)
			}
			e, ok := v.(*ssa.Extract)
			return ok && e.Tuple == ssa.Value(call) && e.Index == nr-1
		})
		for _, e := range fail {
			re := ReachEdge(e, nil)
			okF := true
			for _, ret := range Returns(listen) {
				if re[ret] && !KnownNonNilAt(listen, ret, ret.Results[1]) {
					for _, v := range RetOrigins(ret, 1) {
						if !ProvablyNonNil(v, func(x ssa.Value) bool { return KnownNonNilAt(listen, ret, x) }) {
							okF = false
						}
					}
				}
			}
			c.Report(okF, P+".O4", "LISTEN-SETUP-FAILURE-REPORTED", listen, call.Pos(), "set-up step", "when a step of the listener's set-up fails ListenForNotifications returns a non-nil error (never a channel that stays silent and open)")
		}
	}
	// the reply channel has room for one reply: a reply that arrived in time waits there for a caller that reads late
	AllInstrs(listen, func(in ssa.Instruction) {
		if mc, ok := in.(*ssa.MakeChan); ok && mc.Parent() == listen {
			n, isC := IntConst(mc.Size)
			c.Report(isC && n >= 1, P+".O4", "REPLY-CHANNEL-BUFFERED", listen, mc.Pos(), "make(chan Reply, n)", "the reply channel is buffered (the listener's sends never depend on the caller being in its receive at that moment)")
		}
	})
	// listener literal
	var lit *ssa.Function
	var goLit *ssa.Go
	AllInstrs(listen, func(in ssa.Instruction) {
		if g, ok := in.(*ssa.Go); ok {
			if f := FuncOfValue(g.Call.Value); f != nil {
				lit, goLit = f, g
			}
		}
	})
	if !c.Use(P+".O4", lit, "listener goroutine literal") {
		return
	}
	// reply channel: the MakeChan returned by ListenForNotifications
	var replyCell *ssa.Alloc
	for _, vals := range ReturnValues(listen, 0) {
		for _, v := range vals {
			if IsNilConst(v) {
				continue
			}
			if u, ok := v.(*ssa.UnOp); ok {
				replyCell = cellOf(u.X)
			}
			if mc, ok := v.(*ssa.MakeChan); ok {
				_ = mc
			}
		}
	}
	isReply := func(v ssa.Value) bool {
		return AllOrigins(v, func(o ssa.Value) bool {
			if _, ok := o.(*ssa.MakeChan); ok && o.Parent() == listen {
				return true
			}
			return false
		})
	}
	_ = replyCell
	// handleNotifyMsg role: in-package method called from the literal returning (Reply, bool, error)
	var hn *ssa.Function
	var hnCalls []ssa.CallInstruction
	for _, cl := range CallsIn(lit) {
		cal := CalleeFn(cl.Common())
		if cal != nil && cal.Signature.Results().Len() == 3 && cal.Signature.Results().At(1).Type().String() == "bool" && len(ParamsOfType(cal, tMessagePtr)) == 1 {
			hn = cal
			hnCalls = append(hnCalls, cl)
		}
	}
	if c.Use(P+".O1", hn, "notification filter (called by the listener, returns (reply, matched, error))") {
		c18Filter(c, P, hn, isKeyGet)
		// the listener passes its own operation id
		paramsP := listen.Params[len(listen.Params)-1]
		for _, hc := range hnCalls {
			okID := false
			for _, a := range hc.Common().Args {
				if b, isB := a.Type().Underlying().(*types.Basic); isB && b.Kind() == types.String {
					okID = AllOrigins(unwrapStringConv(a), func(o ssa.Value) bool {
						f := LoadedField(o)
						if f == nil || f.Name() != "OperationID" {
							return false
						}
						u := o.(*ssa.UnOp)
						_, base := FieldOf(u.X)
						return AllOrigins(base, func(b ssa.Value) bool {
							if b == ssa.Value(paramsP) {
								return true
							}
							al := cellOf(b)
							if al == nil {
								return false
							}
							vals, _, _ := StoresTo(al)
							for _, sv := range vals {
								if sv != ssa.Value(paramsP) {
									return false
								}
							}
							return len(vals) > 0
						})
					})
				}
			}
			c.Report(okID, P+".O1", "LISTENER-ID", lit, hc.Pos(), "filter call", "the filter is given the operation id this listener was created for")
			// message: the one received from the notifications channel
			okMsg := false
			for _, a := range hc.Common().Args {
				if a.Type().String() == tMessagePtr {
					okMsg = AllOrigins(a, func(o ssa.Value) bool {
						e, ok := o.(*ssa.Extract)
						if !ok {
							return false
						}
						_, isSel := e.Tuple.(*ssa.Select)
						return isSel
					})
				}
			}
			c.Report(okMsg, P+".O1", "LISTENER-MESSAGE", lit, hc.Pos(), "filter call", "the filter examines the notification just received")
		}
		// a "matched" reply is forwarded only on matched==true ∧ err==nil
		matchedTrue, _ := BoolEdges(lit, ResultOfAny(hnCalls, 1))
		errNil, _ := NilEdges(lit, ResultOfAny(hnCalls, 2))
		c.Floor(P+".O1", "listener: tests of the filter's matched flag and error", b2i(len(matchedTrue) > 0)+b2i(len(errNil) > 0), 2)
		nfw := 0
		for _, f := range WithAnon(lit) {
			_ = f
		}
		for _, cl := range CallsIn(lit) {
			// sends of a reply built from the filter's reply
			if cal := CalleeFn(cl.Common()); (cal != nil && cal.Parent() == nil) || cl.Common().IsInvoke() || len(cl.Common().Args) != 1 {
				continue
			}
			if Wraps(cl.Common().Args[0], func(v ssa.Value) bool {
				if ResultOfAny(hnCalls, 0)(v) {
					return true // the filter's reply handed on as it is
				}
				u, ok := v.(*ssa.UnOp)
				if !ok || u.Op != token.MUL {
					return false
				}
				if whole, isWhole := u.X.(*ssa.Alloc); isWhole {
					// … or the local it was put in (completed with the notification message)
					vals, _, _ := StoresTo(whole)
					for _, sv := range vals {
						if ResultOfAny(hnCalls, 0)(sv) {
							return true
						}
					}
					return false
				}
				f, base := FieldOf(u.X)
				if f == nil || f.Name() != "HandlerResult" {
					return false
				}
				al, isA := base.(*ssa.Alloc)
				if !isA {
					return false
				}
				vals, _, _ := StoresTo(al)
				for _, sv := range vals {
					if ResultOfAny(hnCalls, 0)(sv) {
						return true
					}
				}
				return false
			}) {
				nfw++
				c.Report(GuardedBy(lit, cl, matchedTrue) && GuardedBy(lit, cl, errNil), P+".O1", "CORRELATION", lit, cl.Pos(), "forward of a handler reply",
					"a notification's result is handed to the caller only on the edge where the filter matched this listener's operation id (and decoding succeeded)")
			}
		}
		c.Floor(P+".O1", "forwarding of a matched reply in the listener", nfw, 1)
	}

	c18Finish(c, P, listen, lit, goLit)
	c18Escapable(c, P, listen, lit, isReply)
	c18Processed(c, P, processed, key, isKeyGet)
	c18Send(c, P, key)
	c18Adapters(c, P)
	c16Reply(c, P+".O6")
	c18ListenerTimeout(c, P, listen)
}

func c18Filter(c *Check, P string, hn *ssa.Function, isKeyGet func(ssa.Value, func(ssa.Value) bool) bool) {
	msg := ParamsOfType(hn, tMessagePtr)[0]
	// the expected id: a parameter that is a string, plain or named (OperationID)
	var ids []*ssa.Parameter
	for _, prm := range hn.Params {
		if b, isB := prm.Type().Underlying().(*types.Basic); isB && b.Kind() == types.String {
			ids = append(ids, prm)
		}
	}
	if !c.Floor(P+".O1", "expected-id parameter of the filter", len(ids), 1) {
		return
	}
	var match, mismatch []Edge
	for _, t := range Tests(hn) {
		if t.Op != token.EQL || t.Y == nil {
			continue
		}
		x, y := unwrapStringConv(t.X), unwrapStringConv(t.Y)
		if FromParam(ids[0])(x) {
			x, y = y, x
		}
		if FromParam(ids[0])(y) && isKeyGet(x, FromParam(msg)) {
			match = append(match, t.True)
			mismatch = append(mismatch, t.False)
		}
	}
	if !c.Floor(P+".O1", "filter: test metadata[OperationIDMetadataKey] == expected id", len(match), 1) {
		return
	}
	for i, r := range Returns(hn) {
		k := fmt.Sprintf("filter return#%d", i)
		for _, v := range RetOrigins(r, 1) {
			cst, ok := v.(*ssa.Const)
			if !ok || cst.Value == nil {
				c.Undecided(P+".O1", "FILTER", hn, r.Pos(), k, "the matched flag is not a constant")
				continue
			}
			if cst.Value.String() == "true" {
				c.Report(GuardedBy(hn, r, match), P+".O1", "FILTER-MATCH-ONLY-OWN-ID", hn, r.Pos(), k, "'matched' is answered only on the edge where the notification carries this listener's operation id")
			} else {
				c.Report(GuardedBy(hn, r, mismatch), P+".O1", "FILTER-MISMATCH", hn, r.Pos(), k, "'not matched' is answered only for other ids")
			}
		}
	}
	// O3: every notification is acked
	acks := SettleSites(hn, nAck, FromParam(msg), 0)
	ok := false
	for _, a := range acks {
		if _, isDefer := a.(*ssa.Defer); isDefer {
			okD := true
			for _, r := range Returns(hn) {
				if !Dominates(hn, a, r) {
					okD = false
				}
			}
			if okD {
				ok = true
			}
		}
	}
	if !ok && len(acks) > 0 {
		ok = true
		re := ReachEntry(hn, NewCut().AddInstrs(instrsOf(acks)...))
		for _, r := range Returns(hn) {
			if re[r] {
				ok = false
			}
		}
	}
	c.Report(ok, P+".O3", "ACK-NOTIFICATIONS", hn, hn.Pos(), "notification ack", "every notification is acked on every path (own or foreign), so the reply subscription keeps flowing")
	c.Report(len(SettleSites(hn, nNack, FromParam(msg), 0)) == 0, P+".O3", "NO-NACK-NOTIFICATIONS", hn, hn.Pos(), "notification nack", "notifications are never nacked (a foreign reply must not be redelivered forever)")
}

func c18Finish(c *Check, P string, listen, lit *ssa.Function, goLit *ssa.Go) {
	// a notification for this request that cannot be decoded is told to the caller (as an error reply), not passed over in
	// silence: from the decode-error edge the loop goes on only past a reply
	{
		isReplyCh := func(v ssa.Value) bool {
			return AllOrigins(v, func(o ssa.Value) bool { _, ok := o.(*ssa.MakeChan); return ok && o.Parent() == listen })
		}
		sendsReply := func(f *ssa.Function) bool {
			if f == nil {
				return false
			}
			found := false
			for _, g := range WithAnon(f) {
				AllInstrs(g, func(in ssa.Instruction) {
					switch x := in.(type) {
					case *ssa.Send:
						if isReplyCh(x.Chan) {
							found = true
						}
					case *ssa.Select:
						for _, st := range x.States {
							if st.Dir == types.SendOnly && isReplyCh(st.Chan) {
								found = true
							}
						}
					}
				})
			}
			return found
		}
		var emits []ssa.Instruction
		var decodes []ssa.CallInstruction
		for _, cl := range CallsIn(lit) {
			if cl.Parent() != lit {
				continue
			}
			if f := FuncOfValue(firstOrigin(cl.Common().Value)); f != nil && f != lit && sendsReply(f) {
				emits = append(emits, cl)
			}
			if cal := CalleeFn(cl.Common()); cal != nil && cal.Pkg == lit.Pkg && cal.Signature.Results().Len() == 3 && IsErrorType(cal.Signature.Results().At(2).Type()) {
				decodes = append(decodes, cl)
			}
		}
		if len(decodes) > 0 && len(emits) > 0 {
			_, fail := NilEdges(lit, func(v ssa.Value) bool {
				e, ok := v.(*ssa.Extract)
				return ok && e.Index == 2 && ResultOfAny(decodes, 2)(v)
			})
			var loopSel []ssa.Instruction
			for _, si := range Selects(lit) {
				if si.Sel.Parent() == lit && si.Blocking {
					loopSel = append(loopSel, si.Sel)
				}
			}
			for _, e := range fail {
				re := ReachEdge(e, NewCut().AddInstrs(emits...))
				okT := true
				for _, sl := range loopSel {
					if re[sl] {
						okT = false
					}
				}
				c.Report(okT, P+".O1", "UNDECODABLE-REPLY-REPORTED", lit, e.From.Instrs[len(e.From.Instrs)-1].Pos(), "decode-error edge", "when a notification of this request cannot be decoded the caller gets an error reply before the listener waits for the next notification")
			}
			c.Floor(P+".O1", "listener: test of the notification decoder's error", len(fail), 1)
		}
	}
	// the listener stops listening only because its context ended or the notification channel was closed: no reply, readable
	// or not, makes it leave (further replies — a redelivery after a Nack — may still come)
	{
		var allowed []Edge
		for _, si := range Selects(lit) {
			if si.Sel.Parent() != lit {
				continue
			}
			for _, cs := range si.Cases {
				if cs.Send || cs.Edge == nil {
					continue
				}
				if ck := ClassifyChan(cs.Chan); ck.Kind == "ctx.Done" {
					allowed = append(allowed, *cs.Edge)
				}
			}
			// recvOk: extract #(1 + number of receive cases seen so far … ) — located through its use as a branch condition
			for _, ref := range *si.Sel.Referrers() {
				e, isE := ref.(*ssa.Extract)
				if !isE || e.Type().String() != "bool" || e.Index != 1 {
					continue
				}
				_, notOK := BoolEdges(lit, func(v ssa.Value) bool { return v == ssa.Value(e) })
				allowed = append(allowed, notOK...)
			}
		}
		if c.Floor(P+".O4", "listener: ctx.Done case and closed-channel edge", len(allowed), 2) {
			for i, r := range Returns(lit) {
				c.Report(GuardedBy(lit, r, allowed), P+".O4", "LISTENER-LEAVES-ONLY-WHEN-IT-IS-OVER", lit, r.Pos(), fmt.Sprintf("listener return#%d", i), "the listener goroutine returns only behind the ctx.Done() case or the edge on which the notification channel was found closed (not after some reply — more may follow)")
			}
		}
	}
	// the reply channel's buffer belongs to the caller: the listener only sends into it and closes it
	isReplyCh := func(v ssa.Value) bool {
		return AllOrigins(v, func(o ssa.Value) bool { _, ok := o.(*ssa.MakeChan); return ok && o.Parent() == listen })
	}
	nrecv := 0
	for _, f := range WithAnon(listen) {
		AllInstrs(f, func(in ssa.Instruction) {
			switch x := in.(type) {
			case *ssa.UnOp:
				if x.Op == token.ARROW && isReplyCh(x.X) {
					nrecv++
					c.Report(false, P+".O4", "LISTENER-NEVER-TAKES-A-REPLY-BACK", f, x.Pos(), "receive from the reply channel", "the listener never receives from the reply channel: a reply it has buffered stays there until the caller reads it")
				}
			case *ssa.Select:
				for _, st := range x.States {
					if st.Dir == types.RecvOnly && isReplyCh(st.Chan) {
						nrecv++
						c.Report(false, P+".O4", "LISTENER-NEVER-TAKES-A-REPLY-BACK", f, x.Pos(), "receive from the reply channel", "the listener never receives from the reply channel: a reply it has buffered stays there until the caller reads it")
					}
				}
			case *ssa.Range:
				if isReplyCh(x.X) {
					nrecv++
					c.Report(false, P+".O4", "LISTENER-NEVER-TAKES-A-REPLY-BACK", f, x.Pos(), "range over the reply channel", "the listener never receives from the reply channel")
				}
			}
		})
	}
	c.Report(true, P+".O4", "REPLY-CHANNEL-RECEIVES-SCANNED", listen, listen.Pos(), "ListenForNotifications", fmt.Sprintf("%d receives from the reply channel inside the listener", nrecv))
	var dClose, dCancel, dFinish []*ssa.Defer
	AllInstrs(lit, func(in ssa.Instruction) {
		d, ok := in.(*ssa.Defer)
		if !ok {
			return
		}
		if b, isB := d.Call.Value.(*ssa.Builtin); isB && b.Name() == "close" {
			dClose = append(dClose, d)
			return
		}
		f := FuncOfValue(d.Call.Value)
		if cf := CalleeFn(&d.Call); cf != nil {
			f = cf // a named (possibly generic) function deferred directly
		}
		if f != nil {
			for _, cl := range CallsIn(f) {
				if AllOrigins(cl.Common().Value, exportedFieldLoad("OnListenForReplyFinished")) {
					dFinish = append(dFinish, d)
				}
			}
			return
		}
		if d.Call.Value.Type().String() == "context.CancelFunc" || d.Call.Signature().Params().Len() == 0 {
			dCancel = append(dCancel, d)
		}
	})
	entry := lit.Blocks[0]
	chk := func(ds []*ssa.Defer, what, why string) {
		ok := len(ds) == 1 && ds[0].Block() == entry && !InLoop(ds[0])
		var pos token.Pos = lit.Pos()
		if len(ds) > 0 {
			pos = ds[0].Pos()
		}
		c.Report(ok, P+".O4", "FINISH-ONCE", lit, pos, what, why)
	}
	// close and cancel may also sit, once and on every path, inside the one deferred closure that runs the hook
	inFinish := func(isIt func(ssa.CallInstruction) bool) (ssa.CallInstruction, bool) {
		if len(dFinish) != 1 || dFinish[0].Block() != entry {
			return nil, false
		}
		f := FuncOfValue(dFinish[0].Call.Value)
		if f == nil {
			return nil, false
		}
		var hits []ssa.CallInstruction
		for _, cl := range CallsIn(f) {
			if _, isCall := cl.(*ssa.Call); isCall && isIt(cl) {
				hits = append(hits, cl)
			}
		}
		if len(hits) != 1 || InLoop(hits[0]) {
			return nil, false
		}
		for _, r := range Returns(f) {
			if !Dominates(f, hits[0], r) {
				return nil, false
			}
		}
		return hits[0], true
	}
	isReplyChan := func(v ssa.Value) bool {
		return AllOrigins(v, func(o ssa.Value) bool { _, ok := o.(*ssa.MakeChan); return ok && o.Parent() == listen })
	}
	var closeInFinish ssa.CallInstruction
	if len(dClose) == 0 {
		if cl, ok := inFinish(func(cl ssa.CallInstruction) bool {
			b, isB := cl.Common().Value.(*ssa.Builtin)
			return isB && b.Name() == "close"
		}); ok {
			closeInFinish = cl
			c.Report(true, P+".O4", "FINISH-ONCE", lit, cl.Pos(), "close(replyChan) in the deferred closure", "the reply channel is closed exactly once, on every path of the one closure deferred at the goroutine's entry")
		} else {
			chk(dClose, "defer close(replyChan)", "the reply channel is closed exactly once, by a defer registered at the goroutine's entry (every exit closes it)")
		}
	} else {
		chk(dClose, "defer close(replyChan)", "the reply channel is closed exactly once, by a defer registered at the goroutine's entry (every exit closes it)")
	}
	if len(dCancel) == 0 {
		if cl, ok := inFinish(func(cl ssa.CallInstruction) bool {
			return !cl.Common().IsInvoke() && CalleeFn(cl.Common()) == nil && cl.Common().Signature().Params().Len() == 0 && cl.Common().Signature().Results().Len() == 0 &&
				AnyOrigin(cl.Common().Value, func(o ssa.Value) bool {
					e, isE := o.(*ssa.Extract)
					if !isE || e.Index != 1 {
						return false
					}
					wc, isC := e.Tuple.(*ssa.Call)
					return isC && (CalleeName(wc) == nWithCancel || CalleeName(wc) == nWithTimeout)
				})
		}); ok {
			c.Report(true, P+".O4", "FINISH-ONCE", lit, cl.Pos(), "cancel() in the deferred closure", "the listener's context is cancelled exactly once on exit")
		} else {
			chk(dCancel, "defer cancel()", "the listener's context is cancelled exactly once on exit")
		}
	} else {
		chk(dCancel, "defer cancel()", "the listener's context is cancelled exactly once on exit")
	}
	chk(dFinish, "defer OnListenForReplyFinished", "the finish hook is deferred exactly once at the goroutine's entry (runs on every exit)")
	// … and called nowhere else: the deferred call is the only call of the hook in the package
	{
		deferred := map[*ssa.Function]bool{}
		for _, d := range dFinish {
			if f := FuncOfValue(d.Call.Value); f != nil {
				deferred[f] = true
			}
			if cf := CalleeFn(&d.Call); cf != nil {
				deferred[cf] = true
			}
		}
		for _, f := range WithAnon(listen) {
			for _, cl := range CallsIn(f) {
				if !AllOrigins(cl.Common().Value, exportedFieldLoad("OnListenForReplyFinished")) {
					continue
				}
				_, isDefer := cl.(*ssa.Defer)
				okOnly := deferred[cl.Parent()] || (isDefer && cl.Parent() == lit)
				c.Report(okOnly, P+".O4", "FINISH-HOOK-ONLY-DEFERRED", f, cl.Pos(), "OnListenForReplyFinished call", "the finish hook is called by the deferred call only (a second call in a branch of the listener makes it run twice on that exit)")
			}
		}
	}
	if len(dClose) == 1 {
		c.Report(isReplyChan(dClose[0].Call.Args[0]), P+".O4", "FINISH-CLOSES-REPLY-CHANNEL", lit, dClose[0].Pos(), "defer close(replyChan)", "the closed channel is the one returned to the caller")
	} else if closeInFinish != nil {
		c.Report(isReplyChan(closeInFinish.Common().Args[0]), P+".O4", "FINISH-CLOSES-REPLY-CHANNEL", lit, closeInFinish.Pos(), "close(replyChan)", "the closed channel is the one returned to the caller")
	}
	// the finish hook is called at most once inside its closure and only skipped when unset
	for _, d := range dFinish {
		f := FuncOfValue(d.Call.Value)
		if cf := CalleeFn(&d.Call); cf != nil {
			f = cf
		}
		var hooks []ssa.CallInstruction
		for _, cl := range CallsIn(f) {
			if AllOrigins(cl.Common().Value, exportedFieldLoad("OnListenForReplyFinished")) {
				hooks = append(hooks, cl)
			}
		}
		unset, _ := NilEdges(f, func(v ssa.Value) bool { return AllOrigins(v, exportedFieldLoad("OnListenForReplyFinished")) })
		ok := len(hooks) == 1 && !InLoop(hooks[0])
		if ok {
			re := ReachEntry(f, NewCut().AddInstrs(hooks[0]).AddEdges(unset...))
			for _, r := range Returns(f) {
				if re[r] {
					ok = false
				}
			}
		}
		c.Report(ok, P+".O4", "FINISH-HOOK-ALWAYS", f, f.Pos(), "finish closure", "the hook runs exactly once on every path unless it is not configured")
	}
	// the goroutine is started exactly once, after a successful Subscribe; on the Subscribe error path cancel is called
	subs := CallsTo(listen, nSubscribe)
	if c.Floor(P+".O4", "Subscribe to the notifications topic", len(subs), 1) {
		okE, fail := NilEdges(listen, ResultOfAny(subs, 1))
		c.Report(GuardedBy(listen, goLit, okE) && !InLoop(goLit), P+".O4", "LISTENER-STARTED-ONCE", listen, goLit.Pos(), "go listener", "one listener goroutine, started only after the subscription succeeded")
		for _, e := range fail {
			re := ReachEdge(e, nil)
			okC := false
			for _, cl := range CallsIn(listen) {
				if re[cl] && cl.Common().Value.Type().String() == "context.CancelFunc" {
					okC = true
				}
			}
			c.Report(okC, P+".O4", "CANCEL-ON-SUBSCRIBE-ERROR", listen, subs[0].Pos(), "subscribe error edge", "when subscribing fails the derived context is cancelled (nothing is leaked)")
		}
	}
}

func c18Escapable(c *Check, P string, listen, lit *ssa.Function, isReply func(ssa.Value) bool) {
	nsend := 0
	for _, f := range WithAnon(lit) {
		for _, s := range SendSites(f, isReply) {
			nsend++
			k := fmt.Sprintf("send on the reply channel in %s", f.Name())
			if s.Sel == nil {
				c.Report(false, P+".O5", "LISTENER-ESCAPABLE", f, s.Ins.Pos(), k, "a bare send on the reply channel blocks forever once the caller stopped reading: the channel is then never closed and the finish hook never runs")
				continue
			}
			ok := !s.Sel.Blocking
			why := "non-blocking try-send (select with default)"
			if s.Sel.Blocking {
				for _, cs := range s.Sel.Cases {
					if cs.Send {
						continue
					}
					ck := ClassifyChan(cs.Chan)
					if ck.Kind == "ctx.Done" && AllOrigins(ck.Call.Call.Value, isListenerCtx(listen)) && AnyOrigin(ck.Call.Call.Value, isDerivedCtx(listen)) {
						ok = true
						why = "send-or-ctx.Done()"
					}
				}
			}
			c.Report(ok, P+".O5", "LISTENER-ESCAPABLE", f, s.Ins.Pos(), k, "the send is a select case accompanied by default or by the listener's ctx.Done(): "+why)
		}
		for i, op := range BlockingOps(f) {
			if op.Kind != "select" {
				if op.Kind == "send" && isReply(op.Chan) {
					continue // reported above
				}
				c.Report(false, P+".O5", "LISTENER-ESCAPABLE", f, op.Ins.Pos(), fmt.Sprintf("%s op#%d (%s)", f.Name(), i, op.Kind), "a bare "+op.Kind+" in the listener cannot be cancelled")
				continue
			}
			hasCancel := false
			for _, cs := range op.Sel.Cases {
				if ck := ClassifyChan(cs.Chan); !cs.Send && ck.Kind == "ctx.Done" && AllOrigins(ck.Call.Call.Value, isListenerCtx(listen)) && AnyOrigin(ck.Call.Call.Value, isDerivedCtx(listen)) {
					hasCancel = true
				}
			}
			c.Report(hasCancel, P+".O5", "LISTENER-ESCAPABLE", f, op.Ins.Pos(), fmt.Sprintf("%s select#%d", f.Name(), i), "every blocking select of the listener has a case on the listener's ctx.Done()")
		}
	}
	c.Floor(P+".O5", "send sites on the reply channel", nsend, 2)
	// the ctx.Done() case of the main loop leaves the goroutine
	for _, si := range Selects(lit) {
		for _, cs := range si.Cases {
			if ck := ClassifyChan(cs.Chan); !cs.Send && ck.Kind == "ctx.Done" && cs.Edge != nil {
				re := ReachEdge(*cs.Edge, nil)
				c.Report(!re[si.Sel], P+".O5", "CTX-DONE-LEAVES", lit, si.Sel.Pos(), "listener loop", "when the context ends the listener leaves its loop (and the defers run)")
			}
		}
	}
}

// isListenerCtx: the context derived in ListenForNotifications (WithTimeout /
// WithCancel of the caller's ctx) or that parameter itself.
func isListenerCtx(listen *ssa.Function) func(ssa.Value) bool {
	return func(o ssa.Value) bool {
		if p, ok := o.(*ssa.Parameter); ok && p.Parent() == listen && p.Type().String() == "context.Context" {
			return true
		}
		e, ok := o.(*ssa.Extract)
		if !ok || e.Index != 0 {
			return false
		}
		call, ok := e.Tuple.(*ssa.Call)
		return ok && HomeFn(call.Parent()) == listen && (CalleeName(call) == nWithCancel || CalleeName(call) == nWithTimeout)
	}
}

// isDerivedCtx: the context the listener derived (WithTimeout / WithCancel in ListenForNotifications) — the one its
// timeout and its cancel act on; the caller's own context alone does not end when the timeout passes.
func isDerivedCtx(listen *ssa.Function) func(ssa.Value) bool {
	return func(o ssa.Value) bool {
		e, ok := o.(*ssa.Extract)
		if !ok || e.Index != 0 {
			return false
		}
		call, ok := e.Tuple.(*ssa.Call)
		return ok && HomeFn(call.Parent()) == listen && (CalleeName(call) == nWithCancel || CalleeName(call) == nWithTimeout)
	}
}

func c18Processed(c *Check, P string, fn *ssa.Function, key string, isKeyGet func(ssa.Value, func(ssa.Value) bool) bool) {
	pubs := CallsTo(fn, nPublish)
	if !c.Floor(P+".O2", "Publish of the reply in OnCommandProcessed", len(pubs), 1) {
		return
	}
	pub := pubs[0]
	c.Report(len(pubs) == 1 && !InLoop(pub), P+".O2", "REPLY-PUBLISHED-ONCE", fn, pub.Pos(), "Publish", "one reply per processed command")
	// error handler
	var eh []ssa.CallInstruction
	for _, cl := range CallsIn(fn) {
		if AllOrigins(cl.Common().Value, exportedFieldLoad("ReplyPublishErrorHandler")) {
			eh = append(eh, cl)
		}
	}
	isPubErr := func(v ssa.Value) bool {
		os := Origins(v)
		hasPub := false
		for _, o := range os {
			switch {
			case IsResultOf(o, pub, 0):
				hasPub = true
			case ResultOfAny(eh, 0)(o):
			default:
				return false
			}
		}
		return hasPub
	}
	okE, _ := NilEdges(fn, isPubErr)
	// only the tests that come after the error handler had its chance count as "final"
	var finalOK []Edge
	for _, e := range okE {
		post := true
		re := ReachEdge(e, nil)
		for _, h := range eh {
			if re[h] {
				post = false
			}
		}
		if post {
			finalOK = append(finalOK, e)
		}
	}
	if !c.Floor(P+".O2", "final test `reply publish error == nil`", len(finalOK), 1) {
		return
	}
	ackTrue, ackFalse := BoolEdges(fn, exportedFieldLoad("AckCommandErrors"))
	c.Floor(P+".O2", "test of AckCommandErrors", len(ackTrue), 1)
	isHandleErr := func(v ssa.Value) bool { f := LoadedField(v); return f != nil && f.Name() == "HandleErr" }
	after := ReachAfter(pub, nil)
	for i, r := range Returns(fn) {
		if !after[r] {
			// before the reply was handed to the publisher the only way out is a failure (⇒ Nack, the command comes again)
			okFail := !RetNil(r, 0)
			for _, v := range RetOrigins(r, 0) {
				if !ProvablyNonNil(v, func(x ssa.Value) bool { return KnownNonNilAt(fn, r, x) }) {
					okFail = false
				}
			}
			c.Report(okFail, P+".O2", "NO-SETTLE-WITHOUT-REPLY", fn, r.Pos(), fmt.Sprintf("return#%d (before the reply is published)", i), "a return that is reached without the reply having been handed to the publisher carries a non-nil error: the command is never acked without a reply")
			continue
		}
		k := fmt.Sprintf("return#%d", i)
		for _, v := range RetOrigins(r, 0) {
			switch {
			case IsNilConst(v):
				c.Report(GuardedBy(fn, r, finalOK) && GuardedBy(fn, r, ackTrue), P+".O2", "REPLY-BEFORE-SETTLE/ack", fn, r.Pos(), k, "nil (⇒ Ack) is returned only after the reply was published, on the AckCommandErrors edge")
			case isHandleErr(v):
				c.Report(GuardedBy(fn, r, finalOK) && GuardedBy(fn, r, ackFalse), P+".O2", "REPLY-BEFORE-SETTLE/handler-error", fn, r.Pos(), k, "the handler's error decides the settlement only after the reply was published, on the !AckCommandErrors edge")
			default:
				// … and it is an error: what is wrapped is known to be non-nil at this return (errors.Wrap of a nil error is nil — a
				// return that hands on whatever the error handler answered acks the command when the handler answered nil,
				// whatever AckCommandErrors and the handler's error say)
				okNN := ProvablyNonNil(v, func(x ssa.Value) bool { return KnownNonNilAt(fn, r, x) })
				c.Report(okNN && (Wraps(v, isPubErr) || Wraps(v, func(x ssa.Value) bool { return IsResultOf(x, pub, 0) || ResultOfAny(eh, 0)(x) })), P+".O2", "REPLY-PUBLISH-ERROR-RETURNED", fn, r.Pos(), k, "a failed reply publish is returned as an error that is non-nil at that return (⇒ Nack, the command is redelivered)")
			}
		}
	}
	// the error handler is consulted only after a failed publish
	_, pubFail := NilEdges(fn, func(v ssa.Value) bool { return IsResultOf(v, pub, 0) })
	for _, h := range eh {
		c.Report(GuardedBy(fn, h, pubFail), P+".O2", "ERROR-HANDLER-ONLY-ON-FAILURE", fn, h.Pos(), "ReplyPublishErrorHandler", "the error handler is called only when Publish failed")
	}
	// O1: the operation id travels from the command to the notification
	var mar []ssa.CallInstruction
	for _, cl := range CallsIn(fn) {
		if cl.Common().IsInvoke() && cl.Common().Method.Name() == "MarshalReply" {
			mar = append(mar, cl)
		}
	}
	if c.Floor(P+".O1", "MarshalReply call", len(mar), 1) {
		el := VariadicElems(Arg(pub, 1))
		c.Report(len(el) == 1 && AllOrigins(el[0], ResultOfAny(mar, 0)), P+".O1", "REPLY-MESSAGE", fn, pub.Pos(), "Publish", "the published notification is the marshaled reply")
		n := 0
		for _, s := range CallsTo(fn, nMetaSet) {
			k, isK := ConstString(Arg(s, 0))
			if !isK || k != key {
				continue
			}
			n++
			u, ok := firstOrigin(Receiver(s)).(*ssa.UnOp)
			okOn := false
			if ok {
				f, base := FieldOf(u.X)
				okOn = f != nil && f.Name() == "Metadata" && AllOrigins(base, ResultOfAny(mar, 0))
			}
			// value: id read from the command message (through the in-package reader)
			okVal := AllOrigins2(Arg(s, 1), fn.Pkg, func(v ssa.Value) bool {
				return isKeyGet(v, func(b ssa.Value) bool { return true })
			})
			c.Report(okOn && okVal && Dominates(fn, s, pub), P+".O1", "ID-COPIED-TO-REPLY", fn, s.Pos(), "Set(OperationIDMetadataKey)", "the command's operation id is copied to the notification before it is published")
		}
		c.Floor(P+".O1", "Set(OperationIDMetadataKey) on the notification", n, 1)
	}
	// the id is read from the command message of the parameters
	for _, cl := range CallsIn(fn) {
		cal := CalleeFn(cl.Common())
		if cal == nil || cal.Pkg != fn.Pkg || len(cal.Blocks) == 0 || cal.Signature.Results().Len() != 2 {
			continue
		}
		if cal.Signature.Results().At(0).Type().String() != rrPkg+".OperationID" {
			continue
		}
		okArg := AllOrigins(cl.Common().Args[0], func(v ssa.Value) bool { f := LoadedField(v); return f != nil && f.Name() == "CommandMessage" })
		c.Report(okArg, P+".O1", "ID-FROM-COMMAND", fn, cl.Pos(), "operation id reader", "the operation id is read from the command message")
		c.Use(P+".O1", cal, "operation id reader")
		msgp := ParamsOfType(cal, tMessagePtr)
		for ret, vals := range ReturnValues(cal, 0) {
			for _, v := range vals {
				if s, isS := ConstString(v); isS && s == "" {
					continue
				}
				c.Report(len(msgp) == 1 && isKeyGet(v, FromParam(msgp[0])), P+".O1", "ID-READER-KEY", cal, ret.Pos(), "operation id reader", "the reader returns metadata[OperationIDMetadataKey] of the given message")
			}
		}
	}
}

func c18Send(c *Check, P string, key string) {
	fn := c.P.Func(rrRel, "SendWithReplies")
	if !c.Use(P+".O1", fn, "requestreply.SendWithReplies") {
		return
	}
	var listens, sends []ssa.CallInstruction
	for _, cl := range CallsIn(fn) {
		if cl.Common().IsInvoke() && cl.Common().Method.Name() == "ListenForNotifications" {
			listens = append(listens, cl)
		}
		if cl.Common().IsInvoke() && cl.Common().Method.Name() == "SendWithModifiedMessage" {
			sends = append(sends, cl)
		}
	}
	if !c.Floor(P+".O1", "ListenForNotifications and SendWithModifiedMessage calls in SendWithReplies", b2i(len(listens) == 1)+b2i(len(sends) == 1), 2) {
		return
	}
	l, s := listens[0], sends[0]
	ids := CallsTo(fn, ModulePath+".NewUUID")
	if !c.Floor(P+".O1", "fresh operation id (watermill.NewUUID)", len(ids), 1) {
		return
	}
	isID := func(v ssa.Value) bool {
		return AllOrigins(v, func(o ssa.Value) bool {
			if ResultOfAny(ids, 0)(o) {
				return true
			}
			return false
		})
	}
	c.Report(len(ids) == 1 && !InLoop(ids[0]), P+".O1", "ID-FRESH", fn, ids[0].Pos(), "operation id", "one fresh id per request")
	c.Report(Wraps(Arg(l, 1), isID), P+".O1", "ID-TO-LISTENER", fn, l.Pos(), "ListenForNotifications", "the listener is created for this request's id")
	c.Report(Dominates(fn, l, s), P+".O1", "LISTEN-BEFORE-SEND", fn, s.Pos(), "SendWithModifiedMessage", "the listener subscribes before the command is sent (no reply can be missed)")
	lOK, _ := NilEdges(fn, ResultOfAny(listens, 1))
	c.Report(GuardedBy(fn, s, lOK), P+".O1", "SEND-ONLY-IF-LISTENING", fn, s.Pos(), "SendWithModifiedMessage", "the command is sent only when listening succeeded")
	mod := FuncOfValue(firstOrigin(Arg(s, 2)))
	if c.Use(P+".O1", mod, "modify closure passed to SendWithModifiedMessage") {
		n := 0
		for _, st := range CallsTo(mod, nMetaSet) {
			k, isK := ConstString(Arg(st, 0))
			if isK && k == key {
				n++
				mp := ParamsOfType(mod, tMessagePtr)
				u, ok := firstOrigin(Receiver(st)).(*ssa.UnOp)
				okOn := false
				if ok && len(mp) == 1 {
					f, base := FieldOf(u.X)
					okOn = f != nil && f.Name() == "Metadata" && FromParam(mp[0])(base)
				}
				c.Report(okOn && isID(Arg(st, 1)), P+".O1", "ID-ON-COMMAND", mod, st.Pos(), "Set(OperationIDMetadataKey)", "the same id is put on the command message under OperationIDMetadataKey")
			}
		}
		c.Floor(P+".O1", "Set(OperationIDMetadataKey) on the command", n, 1)
	}
	// every error return has cancelled the derived context (nothing keeps listening)
	var wc ssa.CallInstruction
	for _, cl := range CallsTo(fn, nWithCancel) {
		wc = cl
	}
	if c.Floor(P+".O4", "context.WithCancel in SendWithReplies", b2i(wc != nil), 1) {
		isCancel := func(v ssa.Value) bool {
			return AnyOrigin(v, func(o ssa.Value) bool {
				e, ok := o.(*ssa.Extract)
				return ok && e.Tuple == CallValue(wc) && e.Index == 1
			})
		}
		errCell := ResultCell(fn, 2)
		deferred := false
		AllInstrs(fn, func(in ssa.Instruction) {
			d, ok := in.(*ssa.Defer)
			if !ok {
				return
			}
			f := FuncOfValue(d.Call.Value)
			if f == nil || errCell == nil {
				return
			}
			_, ne := NilEdges(f, IsLoadOfCell(errCell))
			for _, cl := range CallsIn(f) {
				if isCancel(cl.Common().Value) && len(ne) > 0 && d.Block() == fn.Blocks[0] {
					// on the error edge every path of the closure calls cancel
					okAll := true
					for _, e := range ne {
						re := ReachEdge(e, NewCut().AddInstrs(cl))
						for _, ret := range Returns(f) {
							if re[ret] {
								okAll = false
							}
						}
					}
					if okAll {
						deferred = true
					}
				}
			}
		})
		for i, r := range Returns(fn) {
			if RetNil(r, 2) {
				continue
			}
			ok := deferred
			if !ok {
				for _, cl := range CallsIn(fn) {
					if _, isCall := cl.(*ssa.Call); isCall && isCancel(cl.Common().Value) && Dominates(fn, cl, r) {
						ok = true
					}
				}
			}
			c.Report(ok, P+".O4", "CANCEL-ON-EVERY-ERROR", fn, r.Pos(), fmt.Sprintf("error return#%d", i), "when SendWithReplies fails (also after the listener was started) the derived context has been cancelled, so the listener terminates and its finish hook runs")
		}
	}
	// replies come from the listener; on errors the derived context is cancelled
	for ret, vals := range ReturnValues(fn, 0) {
		for _, v := range vals {
			if !IsNilConst(v) {
				c.Report(AllOrigins(v, ResultOfAny(listens, 0)), P+".O1", "REPLIES-FROM-LISTENER", fn, ret.Pos(), "return", "the returned channel is the listener's reply channel")
			}
		}
	}
	swr := c.P.Func(rrRel, "SendWithReply")
	if c.Use(P+".O4", swr, "requestreply.SendWithReply") {
		// cancel is deferred after a successful SendWithReplies
		nd := 0
		AllInstrs(swr, func(in ssa.Instruction) {
			if d, ok := in.(*ssa.Defer); ok && d.Call.Signature().Params().Len() == 0 {
				if e, isE := firstOrigin(d.Call.Value).(*ssa.Extract); isE && e.Index == 1 {
					nd++
				}
			}
		})
		c.Report(nd == 1, P+".O4", "SINGLE-REPLY-CANCELS", swr, swr.Pos(), "defer cancel()", "SendWithReply always cancels its listener when it returns")
		for _, si := range Selects(swr) {
			hasCtx := false
			for _, cs := range si.Cases {
				if ClassifyChan(cs.Chan).Kind == "ctx.Done" {
					hasCtx = true
				}
			}
			c.Report(si.Blocking && hasCtx, P+".O4", "SINGLE-REPLY-ESCAPABLE", swr, si.Sel.Pos(), "wait for the reply", "the wait for the single reply also ends when the caller's context ends")
		}
	}
}

func c18Adapters(c *Check, P string) {
	for _, name := range []string{"NewCommandHandler", "NewCommandHandlerWithResult"} {
		fn := c.P.Func(rrRel, name)
		if !c.Use(P+".O2", fn, "requestreply."+name) {
			continue
		}
		var inner *ssa.Function
		for _, cl := range CallsIn(fn) {
			for _, a := range cl.Common().Args {
				if f := FuncOfValue(firstOrigin(a)); f != nil && f.Parent() == fn {
					inner = f
				}
			}
		}
		if !c.Use(P+".O2", inner, name+" handler closure") {
			continue
		}
		// delegation: NewCommandHandler = NewCommandHandlerWithResult with an adapter that adds an empty result
		if name == "NewCommandHandler" {
			if other := c.P.Func(rrRel, "NewCommandHandlerWithResult"); other != nil {
				var deleg ssa.CallInstruction
				for _, cl := range CallsIn(fn) {
					if CalleeFn(cl.Common()) == other {
						deleg = cl
					}
				}
				if deleg != nil {
					okRet := true
					for _, r := range Returns(fn) {
						if !AllOrigins(r.Results[0], func(v ssa.Value) bool { return IsResultOf(v, deleg, 0) }) {
							okRet = false
						}
					}
					okArgs := len(deleg.Common().Args) == 3 && len(fn.Params) == 3 && FromParam(fn.Params[0])(Arg(deleg, 0)) && FromParam(fn.Params[1])(unwrapIface(Arg(deleg, 1))) && FuncOfValue(firstOrigin(Arg(deleg, 2))) == inner
					// the adapter calls the user's handler once and returns its error unchanged
					var ucalls []ssa.CallInstruction
					for _, cl := range CallsIn(inner) {
						if !cl.Common().IsInvoke() && CalleeFn(cl.Common()) == nil && AllOrigins(cl.Common().Value, func(o ssa.Value) bool { p, ok := o.(*ssa.Parameter); return ok && p.Parent() == fn }) {
							ucalls = append(ucalls, cl)
						}
					}
					okAd := len(ucalls) == 1 && !InLoop(ucalls[0])
					for _, r := range Returns(inner) {
						if !okAd || len(r.Results) != 2 || !AllOrigins(r.Results[1], func(v ssa.Value) bool { return IsResultOf(v, ucalls[0], 0) }) {
							okAd = false
						}
					}
					c.Report(okRet && okArgs && okAd, P+".O2", "HANDLER-DELEGATES", fn, deleg.Pos(), name, "NewCommandHandler is NewCommandHandlerWithResult with the same name and backend and an adapter that runs the user's handler once and passes its error on (the obligations are decided on NewCommandHandlerWithResult)")
					continue
				}
			}
		}
		var user, proc []ssa.CallInstruction
		for _, cl := range CallsIn(inner) {
			if cl.Common().IsInvoke() && cl.Common().Method.Name() == "OnCommandProcessed" {
				proc = append(proc, cl)
			} else if !cl.Common().IsInvoke() && CalleeFn(cl.Common()) == nil {
				if AllOrigins(cl.Common().Value, func(o ssa.Value) bool { p, ok := o.(*ssa.Parameter); return ok && p.Parent() == fn }) {
					user = append(user, cl)
				}
			}
		}
		if !c.Floor(P+".O2", name+": user handler call and OnCommandProcessed call", b2i(len(user) == 1)+b2i(len(proc) == 1), 2) {
			continue
		}
		u, p := user[0], proc[0]
		c.Report(Dominates(inner, u, p) && !InLoop(u), P+".O2", "HANDLE-THEN-REPLY", inner, p.Pos(), name, "the user's handler runs once, before the reply is produced")
		nres := u.Common().Signature().Results().Len()
		okErr := Wraps(Arg(p, 1), func(v ssa.Value) bool { return IsResultOf(v, u, nres-1) })
		c.Report(okErr, P+".O2", "REPLY-CARRIES-HANDLER-ERROR", inner, p.Pos(), name, "the reply parameters carry the user's handler error")
		if nres == 2 {
			c.Report(Wraps(Arg(p, 1), func(v ssa.Value) bool { return IsResultOf(v, u, 0) }), P+".O2", "REPLY-CARRIES-RESULT", inner, p.Pos(), name, "… and its result")
		}
		// returns: OnCommandProcessed's result unchanged (or the missing-original-message error)
		for i, r := range Returns(inner) {
			after := ReachAfter(p, nil)[r]
			ok := true
			for _, v := range RetOrigins(r, 0) {
				if after {
					if !IsResultOf(v, p, 0) {
						ok = false
					}
				} else if IsNilConst(v) {
					ok = false
				}
			}
			c.Report(ok, P+".O2", "SETTLE-BY-BACKEND", inner, r.Pos(), fmt.Sprintf("%s return#%d", name, i), "the command's settlement is exactly what OnCommandProcessed returned (a reply that could not be produced is an error)")
		}
		// the command message handed to the backend is the original message from the context
		okMsg := Wraps(Arg(p, 1), func(v ssa.Value) bool {
			e, ok := v.(*ssa.Extract)
			if !ok || e.Index != 0 {
				return false
			}
			call, ok := e.Tuple.(*ssa.Call)
			if !ok {
				return false
			}
			cal := CalleeFn(&call.Call)
			if cal == nil {
				return false
			}
			return len(CallsTo(cal, cqrsPkg+".OriginalMessageFromCtx")) > 0
		})
		c.Report(okMsg, P+".O2", "REPLY-FOR-ORIGINAL-COMMAND", inner, p.Pos(), name, "the reply is produced for the original command message taken from the handler context")
	}
	_ = types.Typ
}

// c18ListenerTimeout: when ListenForReplyTimeout is configured, the listener's
// context — the one every escapable send and receive of the listener listens
// on — is WithTimeout(ctx, *ListenForReplyTimeout); a timeout implemented only
// as a case of the main loop cannot release a listener blocked in a send.
func c18ListenerTimeout(c *Check, P string, listen *ssa.Function) {
	isTO := func(v ssa.Value) bool {
		return AllOrigins(v, func(o ssa.Value) bool {
			f := LoadedField(o)
			return f != nil && f.Name() == "ListenForReplyTimeout"
		})
	}
	_, set := NilEdges(listen, isTO)
	if !c.Floor(P+".O5", "test `ListenForReplyTimeout != nil`", len(set), 1) {
		return
	}
	var wts []ssa.CallInstruction
	for _, cl := range CallsTo(listen, nWithTimeout) {
		d := firstOrigin(cl.Common().Args[1])
		if u, ok := d.(*ssa.UnOp); ok && isTO(u.X) {
			wts = append(wts, cl)
		}
	}
	if !c.Floor(P+".O5", "context.WithTimeout(ctx, *ListenForReplyTimeout)", len(wts), 1) {
		return
	}
	wt := wts[0]
	c.Report(GuardedBy(listen, wt, set), P+".O5", "TIMEOUT-CONTEXT", listen, wt.Pos(), "WithTimeout", "the timeout context is derived on the edge where a timeout is configured")
	// … and on every path of that edge: the unbounded alternative is taken only when no timeout is configured
	unset, _ := NilEdges(listen, isTO)
	for _, wc := range CallsTo(listen, nWithCancel) {
		c.Report(GuardedBy(listen, wc, unset), P+".O5", "TIMEOUT-ALWAYS-WHEN-CONFIGURED", listen, wc.Pos(), "WithCancel (no timeout)", "the listener runs without a deadline only when ListenForReplyTimeout is nil (whatever its value, a configured timeout bounds the listener)")
	}
	// on that edge, the context handed to the subscriber and captured by the listener is the timeout context
	subs := CallsTo(listen, nSubscribe)
	for _, s := range subs {
		okS := AnyOrigin(Arg(s, 0), func(o ssa.Value) bool {
			e, ok := o.(*ssa.Extract)
			return ok && e.Tuple == CallValue(wt) && e.Index == 0
		})
		c.Report(okS, P+".O5", "TIMEOUT-BOUNDS-LISTENER", listen, s.Pos(), "listener context", "the listener's context (used by Subscribe and by every escapable send/receive of the listener) is the one bounded by ListenForReplyTimeout")
	}
}

// unwrapStringConv strips a conversion between string types (string(id), OperationID(s)).
func unwrapStringConv(v ssa.Value) ssa.Value {
	for i := 0; i < 3; i++ {
		switch x := v.(type) {
		case *ssa.ChangeType:
			v = x.X
		case *ssa.Convert:
			if b, ok := x.X.Type().Underlying().(*types.Basic); ok && b.Kind() == types.String {
				v = x.X
			} else {
				return v
			}
		default:
			return v
		}
	}
	return v
}
