package wm

import (
	"go/constant"
	"go/token"
	"go/types"
	"strings"

	"golang.org/x/tools/go/ssa"
)

// ---------------------------------------------------------------------------
// Calls

// CallsIn lists every call-like instruction (Call, Go, Defer) of fn.
func CallsIn(fn *ssa.Function) []ssa.CallInstruction {
	var out []ssa.CallInstruction
	AllInstrs(fn, func(in ssa.Instruction) {
		if c, ok := in.(ssa.CallInstruction); ok {
			out = append(out, c)
		}
	})
	return out
}

// CalleeName returns the full name of the statically known callee or of the
// invoked interface method, e.g. "(*pkg.T).M", "(pkg.I).M", "pkg.F"; "" for
// dynamic calls of function values and for closures.
func CalleeName(c ssa.CallInstruction) string {
	cc := c.Common()
	if cc.IsInvoke() {
		return cc.Method.FullName()
	}
	if f := CalleeFn(cc); f != nil {
		return FuncName(f)
	}
	if b, ok := cc.Value.(*ssa.Builtin); ok {
		return "builtin." + b.Name()
	}
	return ""
}

// FuncName is the types-level full name of a function (origin for instances).
func FuncName(f *ssa.Function) string {
	if f == nil {
		return ""
	}
	if o := f.Origin(); o != nil {
		f = o
	}
	if obj, ok := f.Object().(*types.Func); ok && obj != nil {
		return obj.FullName()
	}
	return ""
}

// Short strips the module path from a full name for reports.
func Short(s string) string {
	return strings.ReplaceAll(s, ModulePath+"/", "")
}

// IsCallTo reports whether c calls one of the named functions/methods.
func IsCallTo(c ssa.CallInstruction, names ...string) bool {
	n := CalleeName(c)
	if n == "" {
		return false
	}
	for _, x := range names {
		if n == x {
			return true
		}
	}
	return false
}

// CallsTo filters the calls of fn by callee name.
func CallsTo(fn *ssa.Function, names ...string) []ssa.CallInstruction {
	var out []ssa.CallInstruction
	for _, c := range CallsIn(fn) {
		if IsCallTo(c, names...) {
			out = append(out, c)
		}
	}
	return out
}

// Receiver returns the receiver operand of a method call (static or invoke).
func Receiver(c ssa.CallInstruction) ssa.Value {
	cc := c.Common()
	if cc.IsInvoke() {
		return cc.Value
	}
	if f := CalleeFn(cc); f != nil && f.Signature.Recv() != nil && len(cc.Args) > 0 {
		return cc.Args[0]
	}
	return nil
}

// Arg returns the i-th declared argument (not counting the receiver).
func Arg(c ssa.CallInstruction, i int) ssa.Value {
	cc := c.Common()
	off := 0
	if !cc.IsInvoke() {
		if f := CalleeFn(cc); f != nil && f.Signature.Recv() != nil {
			off = 1
		}
	}
	if i+off < len(cc.Args) {
		return cc.Args[i+off]
	}
	return nil
}

// CallValue returns the instruction as a Value when it is a plain Call.
func CallValue(c ssa.CallInstruction) ssa.Value {
	if v, ok := c.(*ssa.Call); ok {
		return v
	}
	return nil
}

// Result returns the value of result k of call c as used in fn: the call
// itself for single results, the Extract instructions otherwise.
func Results(c ssa.CallInstruction, k int) []ssa.Value {
	call, ok := c.(*ssa.Call)
	if !ok {
		return nil
	}
	sig := call.Common().Signature()
	if sig.Results().Len() == 1 {
		if k == 0 {
			return []ssa.Value{call}
		}
		return nil
	}
	var out []ssa.Value
	for _, r := range *call.Referrers() {
		if e, ok := r.(*ssa.Extract); ok && e.Index == k {
			out = append(out, e)
		}
	}
	return out
}

// ---------------------------------------------------------------------------
// Closures

// ClosureSites returns the MakeClosure instructions creating fn in its parent.
func ClosureSites(fn *ssa.Function) []*ssa.MakeClosure {
	p := fn.Parent()
	if p == nil {
		return nil
	}
	var out []*ssa.MakeClosure
	AllInstrs(p, func(in ssa.Instruction) {
		if mc, ok := in.(*ssa.MakeClosure); ok && mc.Fn == fn {
			out = append(out, mc)
		}
	})
	// the recover block is skipped by AllInstrs; closures are never made there
	return out
}

// FreeVarBinding returns the value bound to free variable fv in the parent.
func FreeVarBinding(fv *ssa.FreeVar) ssa.Value {
	fn := fv.Parent()
	idx := -1
	for i, v := range fn.FreeVars {
		if v == fv {
			idx = i
		}
	}
	if idx < 0 {
		return nil
	}
	sites := ClosureSites(fn)
	if len(sites) != 1 {
		return nil
	}
	return sites[0].Bindings[idx]
}

// AnonFuncOf returns the function a value denotes if it is a closure or a
// function constant.
func FuncOfValue(v ssa.Value) *ssa.Function {
	switch v := v.(type) {
	case *ssa.Function:
		return v
	case *ssa.MakeClosure:
		if f, ok := v.Fn.(*ssa.Function); ok {
			return f
		}
	case *ssa.ChangeType:
		return FuncOfValue(v.X)
	}
	return nil
}

// WithAnon returns fn and all functions lexically nested in it.
func WithAnon(fn *ssa.Function) []*ssa.Function {
	out := withAnonRaw(fn)
	// a looked-through helper's literals belong to the function its body is read in
	if TransparentOn {
		for _, h := range regionFuncs(fn) {
			if h == fn {
				continue
			}
			for _, a := range h.AnonFuncs {
				out = append(out, WithAnon(a)...)
			}
		}
	}
	return out
}

// withAnonRaw: fn and its literals, nothing looked through (used by the indexes the look-through itself consults).
func withAnonRaw(fn *ssa.Function) []*ssa.Function {
	out := []*ssa.Function{fn}
	for _, a := range fn.AnonFuncs {
		out = append(out, withAnonRaw(a)...)
	}
	return out
}

// ---------------------------------------------------------------------------
// Value origins

// cellOf returns the storage cell (an *ssa.Alloc, possibly of an enclosing
// function) that address value addr denotes, or nil.
func cellOf(addr ssa.Value) *ssa.Alloc {
	for i := 0; i < 8; i++ {
		switch a := addr.(type) {
		case *ssa.Alloc:
			return a
		case *ssa.FreeVar:
			b := FreeVarBinding(a)
			if b == nil {
				return nil
			}
			addr = b
		default:
			return nil
		}
	}
	return nil
}

// refersTo reports whether address value addr (in any nested function)
// denotes cell.
func refersTo(addr ssa.Value, cell *ssa.Alloc) bool { return cellOf(addr) == cell }

// StoresTo lists the values stored into a local variable cell, looking into
// every closure that captures it. escaped is true when the cell's address is
// used in any other way than load/store/capture (then unknown writers exist).
func StoresTo(cell *ssa.Alloc) (vals []ssa.Value, stores []*ssa.Store, escaped bool) {
	root := cell.Parent()
	for _, fn := range WithAnon(root) {
		AllInstrs(fn, func(in ssa.Instruction) {
			switch in := in.(type) {
			case *ssa.Store:
				if refersTo(in.Addr, cell) {
					vals = append(vals, in.Val)
					stores = append(stores, in)
				} else if refersTo(in.Val, cell) {
					escaped = true
				}
			case *ssa.UnOp:
				// loads are fine
			case *ssa.MakeClosure:
				// captures are followed through FreeVar
			case *ssa.DebugRef:
			default:
				for _, op := range in.Operands(nil) {
					if *op != nil && refersTo(*op, cell) {
						escaped = true
					}
				}
			}
		})
	}
	return
}

// Origins follows a value backwards through copies (phi, loads of local
// variables and captured variables, interface/type conversions that keep the
// dynamic value) and returns the set of leaf definitions it may come from.
func Origins(v ssa.Value) []ssa.Value {
	var out []ssa.Value
	walkOrigins(v, nil, func(l ssa.Value) { out = append(out, l) })
	return out
}

// walkOrigins is the traversal behind Origins. pre (may be nil) is asked at
// every node before it is resolved further: when it returns true the node is
// accepted as it is and not followed. leaf receives every node that cannot be
// resolved further.
func walkOrigins(v ssa.Value, pre func(ssa.Value) bool, leaf func(ssa.Value)) {
	seen := map[ssa.Value]bool{}
	var walk func(v ssa.Value)
	walk = func(v ssa.Value) {
		if v == nil || seen[v] {
			return
		}
		seen[v] = true
		if pre != nil && pre(v) {
			return
		}
		switch x := v.(type) {
		case *ssa.Phi:
			for _, e := range x.Edges {
				walk(e)
			}
		case *ssa.ChangeType:
			walk(x.X)
		case *ssa.ChangeInterface:
			walk(x.X)
		case *ssa.UnOp:
			if x.Op == token.MUL {
				if cell := cellOf(x.X); cell != nil {
					if a, isLocal := x.X.(*ssa.Alloc); isLocal && a == cell && !capturedOrEscaped(cell) {
						vals, complete := reachingStores(x, cell)
						if !complete {
							leaf(v)
						}
						for _, s := range vals {
							walk(s)
						}
						return
					}
					if st := sameBlockStore(x, cell); st != nil {
						walk(st.Val)
						return
					}
					vals, _, escaped := StoresTo(cell)
					if escaped || len(vals) == 0 {
						leaf(v)
					}
					for _, s := range vals {
						walk(s)
					}
					return
				}
			}
			leaf(v)
		case *ssa.Parameter:
			if a := BoundArg(x); a != nil {
				walk(a)
				return
			}
			leaf(v)
		case *ssa.Call:
			if cal := transparentCallee(x); cal != nil && cal.Signature.Results().Len() == 1 {
				for _, r := range Returns(cal) {
					walk(r.Results[0])
				}
				return
			}
			leaf(v)
		case *ssa.Extract:
			if call, ok := x.Tuple.(*ssa.Call); ok {
				if cal := transparentCallee(call); cal != nil && x.Index < cal.Signature.Results().Len() {
					for _, r := range Returns(cal) {
						walk(r.Results[x.Index])
					}
					return
				}
			}
			leaf(v)
		case *ssa.FreeVar:
			if b := FreeVarBinding(x); b != nil {
				if _, isCell := b.(*ssa.Alloc); !isCell {
					walk(b)
					return
				}
			}
			leaf(v)
		default:
			leaf(v)
		}
	}
	walk(v)
}

// AllOrigins reports whether every way v can be traced back ends in a value
// satisfying pred (and there is at least one). pred is asked at every node on
// the way, not only at the leaves: a parameter that is bound to an argument at
// its function's only call site still counts as that parameter.
func AllOrigins(v ssa.Value, pred func(ssa.Value) bool) bool {
	ok, any := true, false
	walkOrigins(v, func(n ssa.Value) bool {
		if pred(n) {
			any = true
			return true
		}
		return false
	}, func(ssa.Value) { ok = false })
	return ok && any
}

// AnyOrigin reports whether some node on the way back from v satisfies pred.
func AnyOrigin(v ssa.Value, pred func(ssa.Value) bool) bool {
	any := false
	walkOrigins(v, func(n ssa.Value) bool {
		if pred(n) {
			any = true
			return true
		}
		return false
	}, func(ssa.Value) {})
	return any
}

// IsResultOf reports whether v is result k of call c.
func IsResultOf(v ssa.Value, c ssa.CallInstruction, k int) bool {
	for _, r := range Results(c, k) {
		if r == v {
			return true
		}
	}
	return false
}

// ResultOfAny returns a predicate: value is result k of one of the calls.
func ResultOfAny(calls []ssa.CallInstruction, k int) func(ssa.Value) bool {
	raw := func(v ssa.Value) bool {
		for _, c := range calls {
			if IsResultOf(v, c, k) {
				return true
			}
		}
		return false
	}
	return func(v ssa.Value) bool {
		if raw(v) {
			return true
		}
		switch v.(type) {
		case *ssa.UnOp, *ssa.Phi, *ssa.ChangeType, *ssa.ChangeInterface, *ssa.FreeVar, *ssa.Parameter:
			return AllOrigins(v, raw)
		}
		return false
	}
}

// ---------------------------------------------------------------------------
// Fields

// FieldOf returns the struct field object addressed/read by v when v is a
// FieldAddr or Field instruction, and the base value.
func FieldOf(v ssa.Value) (*types.Var, ssa.Value) {
	switch x := v.(type) {
	case *ssa.Parameter:
		// a pointer-to-field parameter of a helper with one call site: the field whose address is passed
		if a := BoundArg(x); a != nil {
			if _, isP := a.(*ssa.Parameter); !isP {
				return FieldOf(a)
			}
		}
	case *ssa.FieldAddr:
		st := derefStruct(x.X.Type())
		if st != nil {
			return st.Field(x.Field), x.X
		}
	case *ssa.Field:
		st := derefStruct(x.X.Type())
		if st != nil {
			return st.Field(x.Field), x.X
		}
	}
	return nil, nil
}

func derefStruct(t types.Type) *types.Struct {
	if p, ok := t.Underlying().(*types.Pointer); ok {
		t = p.Elem()
	}
	st, _ := t.Underlying().(*types.Struct)
	return st
}

// LoadedField returns the field whose value v is (a load of a FieldAddr, or a
// Field of a struct value), looking through local copies.
func LoadedField(v ssa.Value) *types.Var {
	switch x := v.(type) {
	case *ssa.UnOp:
		if x.Op == token.MUL {
			f, _ := FieldOf(x.X)
			return f
		}
	case *ssa.Field:
		f, _ := FieldOf(x)
		return f
	}
	return nil
}

// IsFieldLoad returns a predicate "v is a load of field f".
func IsFieldLoad(f *types.Var) func(ssa.Value) bool {
	return func(v ssa.Value) bool { return f != nil && LoadedField(v) == f }
}

// FieldByType finds the unique field of struct type n whose type satisfies pred.
func FieldsByType(n *types.Named, pred func(types.Type) bool) []*types.Var {
	st, ok := n.Underlying().(*types.Struct)
	if !ok {
		return nil
	}
	var out []*types.Var
	for i := 0; i < st.NumFields(); i++ {
		if pred(st.Field(i).Type()) {
			out = append(out, st.Field(i))
		} else if f := st.Field(i); f.Embedded() {
			// fields promoted from a struct of the same package embedded by value
			if en, isN := f.Type().(*types.Named); isN && en.Obj().Pkg() == n.Obj().Pkg() && en != n {
				out = append(out, FieldsByType(en, pred)...)
			}
		}
	}
	return out
}

// TypeIs returns a predicate comparing the type's string form with s.
func TypeIs(s string) func(types.Type) bool {
	return func(t types.Type) bool { return t.String() == s }
}

// NamedOf returns the named type behind t (through one pointer), or nil.
func NamedOf(t types.Type) *types.Named {
	if p, ok := t.(*types.Pointer); ok {
		t = p.Elem()
	}
	n, _ := t.(*types.Named)
	return n
}

// FieldStores lists the stores into field f (through FieldAddr) in fn.
func FieldStores(fn *ssa.Function, f *types.Var) []*ssa.Store {
	var out []*ssa.Store
	AllInstrs(fn, func(in ssa.Instruction) {
		if st, ok := in.(*ssa.Store); ok {
			if g, _ := FieldOf(st.Addr); g == f {
				out = append(out, st)
			}
		}
	})
	return out
}

// FieldLoads lists the loads of field f in fn.
func FieldLoads(fn *ssa.Function, f *types.Var) []ssa.Instruction {
	var out []ssa.Instruction
	AllInstrs(fn, func(in ssa.Instruction) {
		if v, ok := in.(ssa.Value); ok && LoadedField(v) == f {
			out = append(out, in)
		}
	})
	return out
}

// ReturnedFields returns the fields whose loaded value fn returns as result k.
func ReturnedFields(fn *ssa.Function, k int) []*types.Var {
	var out []*types.Var
	for _, r := range Returns(fn) {
		if k < len(r.Results) {
			for _, o := range Origins(r.Results[k]) {
				if f := LoadedField(o); f != nil {
					out = append(out, f)
				}
			}
		}
	}
	return out
}

// ReturnValues returns the values fn returns as result k, per Return, looking
// through the defer-spill (`store; rundefers; load; return`) shape.
func ReturnValues(fn *ssa.Function, k int) map[*ssa.Return][]ssa.Value {
	out := map[*ssa.Return][]ssa.Value{}
	for _, r := range Returns(fn) {
		if k < len(r.Results) {
			out[r] = Origins(r.Results[k])
		}
	}
	return out
}

// ConstString returns the string constant value of v, if any.
func ConstString(v ssa.Value) (string, bool) {
	for {
		switch x := v.(type) {
		case *ssa.Const:
			if x.Value != nil && x.Value.Kind() == constant.String {
				return constant.StringVal(x.Value), true
			}
			return "", false
		case *ssa.ChangeType:
			v = x.X
		case *ssa.Convert:
			v = x.X
		case *ssa.MakeInterface:
			v = x.X
		default:
			return "", false
		}
	}
}

// capturedOrEscaped reports whether a local cell is captured by a closure or
// its address is used other than by direct loads and stores.
func capturedOrEscaped(cell *ssa.Alloc) bool {
	for _, ref := range *cell.Referrers() {
		switch r := ref.(type) {
		case *ssa.Store:
			if r.Addr != ssa.Value(cell) {
				return true
			}
		case *ssa.UnOp:
			if r.Op != token.MUL {
				return true
			}
		case *ssa.DebugRef:
		default:
			return true
		}
	}
	return false
}

// reachingStores returns the values of the stores to cell that reach load
// (flow-sensitive, for cells that are neither captured nor escaped). complete
// is false when some path from the entry reaches the load without a store.
func reachingStores(load *ssa.UnOp, cell *ssa.Alloc) (vals []ssa.Value, complete bool) {
	complete = true
	type item struct {
		b *ssa.BasicBlock
		k int // scan instructions k-1 … 0
	}
	seen := map[*ssa.BasicBlock]bool{}
	start := load.Block()
	work := []item{{start, indexIn(start, load)}}
	first := true
	for len(work) > 0 {
		it := work[len(work)-1]
		work = work[:len(work)-1]
		if !first {
			if seen[it.b] {
				continue
			}
			seen[it.b] = true
		}
		first = false
		found := false
		for k := it.k - 1; k >= 0; k-- {
			if st, ok := it.b.Instrs[k].(*ssa.Store); ok && st.Addr == ssa.Value(cell) {
				vals = append(vals, st.Val)
				found = true
				break
			}
		}
		if found {
			continue
		}
		if len(it.b.Preds) == 0 {
			complete = false
			continue
		}
		for _, p := range it.b.Preds {
			work = append(work, item{p, len(p.Instrs)})
		}
	}
	return
}

// BoundArg returns the argument bound to parameter p when p belongs to a
// function literal that is called (or go'ed / deferred) at exactly one site in
// its parent and is not used in any other way; nil otherwise.
func BoundArg(p *ssa.Parameter) ssa.Value {
	fn := p.Parent()
	parent := fn.Parent()
	if parent == nil {
		return boundArgTopLevel(p)
	}
	idx := -1
	for i, q := range fn.Params {
		if q == p {
			idx = i
		}
	}
	if idx < 0 {
		return nil
	}
	var fv ssa.Value = fn
	if sites := ClosureSites(fn); len(sites) == 1 {
		fv = sites[0]
	} else if len(sites) > 1 {
		return nil
	}
	refs := fv.Referrers()
	var site ssa.CallInstruction
	if refs != nil {
		for _, r := range *refs {
			if _, isDbg := r.(*ssa.DebugRef); isDbg {
				continue
			}
			c, ok := r.(ssa.CallInstruction)
			if !ok || c.Common().Value != fv || site != nil {
				return nil
			}
			site = c
		}
	} else {
		// plain function value without free variables: scan the parent
		n := 0
		AllInstrs(parent, func(in ssa.Instruction) {
			if c, ok := in.(ssa.CallInstruction); ok && c.Common().Value == fv {
				site = c
				n++
			}
			for _, op := range in.Operands(nil) {
				if *op == fv {
					if c, ok := in.(ssa.CallInstruction); !ok || c.Common().Value != fv {
						n += 2
					}
				}
			}
		})
		if n != 1 {
			return nil
		}
	}
	if site == nil || idx >= len(site.Common().Args) {
		return nil
	}
	return site.Common().Args[idx]
}

// CalleeFn returns the statically known callee of a call; instantiation
// wrappers of generic functions are replaced by the generic function whose
// body is analysed.
func CalleeFn(cc *ssa.CallCommon) *ssa.Function {
	f := cc.StaticCallee()
	if f != nil && f.Origin() != nil && len(f.Blocks) <= 1 && f.Synthetic != "" {
		return f.Origin()
	}
	return f
}

// sameBlockStore returns the store to cell that precedes load in the same
// basic block with no call in between (nothing else can have written the
// variable in the meantime), or nil.
func sameBlockStore(load *ssa.UnOp, cell *ssa.Alloc) *ssa.Store {
	b := load.Block()
	k := indexIn(b, load)
	for i := k - 1; i >= 0; i-- {
		switch x := b.Instrs[i].(type) {
		case *ssa.Store:
			if cellOf(x.Addr) == cell {
				return x
			}
		case ssa.CallInstruction:
			return nil
		case *ssa.RunDefers:
			return nil
		}
	}
	return nil
}

// RetNil reports whether result k of return r is nil on every path reaching it
// (looking through the defer spill).
func RetNil(r *ssa.Return, k int) bool {
	return k < len(r.Results) && (AllOrigins(r.Results[k], IsNilConst) || KnownNilAt(r.Parent(), r, r.Results[k]))
}

// ---------------------------------------------------------------------------
// Private helpers with one call site

var (
	siteCache   = map[*ssa.Package]map[*ssa.Function][]ssa.CallInstruction{}
	valueUses   = map[*ssa.Package]map[*ssa.Function]bool{}
	noBindParam = map[*ssa.Function]bool{}
)

// pkgSites indexes, for a package, the static call sites of every function and
// the functions that are also used as values (method values, callbacks).
func pkgSites(pkg *ssa.Package) (map[*ssa.Function][]ssa.CallInstruction, map[*ssa.Function]bool) {
	if m, ok := siteCache[pkg]; ok {
		return m, valueUses[pkg]
	}
	sites := map[*ssa.Function][]ssa.CallInstruction{}
	vals := map[*ssa.Function]bool{}
	fns := pkgFuncs(pkg)
	seen := map[*ssa.Function]bool{}
	for _, f := range fns {
		if seen[f] {
			continue
		}
		seen[f] = true
		rawInstrs(f, func(in ssa.Instruction) {
			if c, ok := in.(ssa.CallInstruction); ok {
				if cal := CalleeFn(c.Common()); cal != nil {
					sites[cal] = append(sites[cal], c)
				}
			}
			for _, op := range in.Operands(nil) {
				if *op == nil {
					continue
				}
				var used *ssa.Function
				switch x := (*op).(type) {
				case *ssa.Function:
					used = x
				case *ssa.MakeClosure:
					if g, ok := x.Fn.(*ssa.Function); ok && g.Synthetic != "" && g.Object() != nil {
						// bound-method wrapper: the method itself is used as a value
						if mf := pkg.Prog.FuncValue(g.Object().(*types.Func)); mf != nil {
							vals[mf] = true
						}
					}
				}
				if used != nil {
					if c, ok := in.(ssa.CallInstruction); !ok || c.Common().Value != ssa.Value(used) {
						vals[used] = true
					}
				}
			}
		})
	}
	siteCache[pkg] = sites
	valueUses[pkg] = vals
	return sites, vals
}

// OnlySite returns the single static call site of an unexported package-level
// function or method that is never used as a value; nil otherwise.
func OnlySite(fn *ssa.Function) ssa.CallInstruction {
	if fn == nil || fn.Pkg == nil || fn.Parent() != nil || fn.Synthetic != "" || fn.Object() == nil || fn.Object().Exported() || noBindParam[fn] {
		return nil
	}
	if fn.Name() == "init" || fn.Name() == "main" {
		return nil
	}
	sites, vals := pkgSites(fn.Pkg)
	if vals[fn] || len(sites[fn]) != 1 {
		return nil
	}
	return sites[fn][0]
}

func boundArgTopLevel(p *ssa.Parameter) ssa.Value {
	fn := p.Parent()
	site := OnlySite(fn)
	if site == nil {
		return nil
	}
	for i, q := range fn.Params {
		if q == p && i < len(site.Common().Args) {
			return site.Common().Args[i]
		}
	}
	return nil
}

// pkgFuncs lists the source functions of a package: package-level functions,
// methods of its named types, and the literals nested in them.
func pkgFuncs(pkg *ssa.Package) []*ssa.Function {
	var fns []*ssa.Function
	for _, mem := range pkg.Members {
		switch m := mem.(type) {
		case *ssa.Function:
			fns = append(fns, withAnonRaw(m)...)
		case *ssa.Type:
			if n, ok := m.Type().(*types.Named); ok {
				// declared methods, also of generic types (their bodies are analysed once, uninstantiated)
				for i := 0; i < n.NumMethods(); i++ {
					if f := pkg.Prog.FuncValue(n.Method(i).Origin()); f != nil && f.Pkg == pkg && f.Synthetic == "" && len(f.Blocks) > 0 {
						fns = append(fns, withAnonRaw(f)...)
					}
				}
			}
		}
	}
	return fns
}

// FreshCopyOf: v is a new slice holding a full copy of a source accepted by
// isSrc — `append(<fresh empty>, src...)`, or `make(T, len(src))` filled by a
// `copy(dst, src)` that every use of the result passes — possibly handed out
// by an in-package helper (one level). site is the instruction that reads src.
func FreshCopyOf(v ssa.Value, isSrc func(ssa.Value) bool) (site ssa.Instruction, ok bool) {
	os := Origins(v)
	if len(os) != 1 {
		return nil, false
	}
	o := os[0]
	if call, isCall := o.(*ssa.Call); isCall {
		if args, isApp := IsBuiltinCall(call, "append"); isApp && len(args) == 2 {
			fresh := false
			switch x := firstOrigin(args[0]).(type) {
			case *ssa.Slice:
				_, fresh = x.X.(*ssa.Alloc)
			case *ssa.MakeSlice:
				n, isC := IntConst(x.Len)
				fresh = isC && n == 0
			case *ssa.Const:
				fresh = x.IsNil()
			}
			if fresh && AllOrigins(args[1], isSrc) {
				return call, true
			}
			return nil, false
		}
		// the standard library's shallow copy: slices.Clone(src) (and bytes.Clone for byte slices)
		if cal := CalleeFn(&call.Call); cal != nil && len(call.Call.Args) == 1 {
			full := cal.String()
			if i := strings.Index(full, "["); i >= 0 {
				full = full[:i]
			}
			if (full == "slices.Clone" || full == "bytes.Clone") && AllOrigins(call.Call.Args[0], isSrc) {
				return call, true
			}
		}
		// result of an in-package helper
		if cal := CalleeFn(&call.Call); cal != nil && cal.Pkg == call.Parent().Pkg && len(cal.Blocks) > 0 && cal.Signature.Results().Len() == 1 {
			var s ssa.Instruction
			for _, r := range Returns(cal) {
				s2, ok2 := FreshCopyOf(r.Results[0], isSrc)
				if !ok2 {
					return nil, false
				}
				s = s2
			}
			return s, s != nil
		}
		return nil, false
	}
	if ms, isMS := o.(*ssa.MakeSlice); isMS {
		args, isLen := IsBuiltinCall(ms.Len, "len")
		if !isLen || !AllOrigins(args[0], isSrc) {
			return nil, false
		}
		fn := ms.Parent()
		for _, cp := range BuiltinCalls(fn, "copy") {
			a := cp.Common().Args
			if len(a) == 2 && AllOrigins(a[0], func(x ssa.Value) bool { return x == ssa.Value(ms) }) && AllOrigins(a[1], isSrc) && !InLoop(cp) {
				// every return of fn (and every later use) comes after the copy: the copy must follow the make on all paths
				okDom := true
				for _, r := range Returns(fn) {
					if ReachAfter(ms, NewCut().AddInstrs(cp))[r] {
						okDom = false
					}
				}
				if okDom {
					return cp, true
				}
			}
		}
	}
	return nil, false
}

// rawInstrs iterates over fn's own instructions (never looking through helpers).
func rawInstrs(fn *ssa.Function, f func(ssa.Instruction)) {
	for _, b := range fn.Blocks {
		if b == fn.Recover {
			continue
		}
		for _, in := range b.Instrs {
			f(in)
		}
	}
}

// WithStarted returns fn, the literals nested in it, and the private named
// functions that these start with `go` or `defer` at their only call site
// (transitively): what used to be a goroutine literal may be a named method.
func WithStarted(fn *ssa.Function) []*ssa.Function {
	out := WithAnon(fn)
	seen := map[*ssa.Function]bool{}
	for _, f := range out {
		seen[f] = true
	}
	for i := 0; i < len(out) && len(out) < 64; i++ {
		f := out[i]
		rawInstrs(f, func(in ssa.Instruction) {
			var cc *ssa.CallCommon
			switch x := in.(type) {
			case *ssa.Go:
				cc = &x.Call
			case *ssa.Defer:
				cc = &x.Call
			}
			if cc == nil {
				return
			}
			cal := CalleeFn(cc)
			if cal == nil || cal.Pkg != f.Pkg || cal.Parent() != nil || len(cal.Blocks) == 0 || seen[cal] || cal == f {
				return
			}
			if site := OnlySite(cal); site != nil && site == in.(ssa.CallInstruction) {
				for _, g := range WithAnon(cal) {
					if !seen[g] {
						seen[g] = true
						out = append(out, g)
					}
				}
			}
		})
	}
	return out
}
