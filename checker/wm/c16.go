package wm

import (
	"fmt"
	"go/token"
	"go/types"
	"reflect"
	"strings"

	"golang.org/x/tools/go/ssa"
)

func init() {
	register(&PropDef{
		ID:  "C16",
		Run: runC16,
		Explanation: "Decides structural necessary conditions of the value-semantics laws: Equals reads every exported data field of both messages and answers false on each inequality edge; its metadata comparison is a complete map-equality idiom (both lengths compared and a comma-ok lookup whose not-found edge answers false); Copy builds a new message from UUID and payload, writes every ranged metadata entry into the new message's own map and never stores the source map; " +
			"the forwarder envelope has distinct JSON tags, is filled from and read back into the same four components, with encoding/json on the envelope type in both directions; every CQRS marshaler pairs its encoder with the matching decoder on the payload; the request-reply marshaler writes and reads the same keys and flag constant. " +
			"Not decided: identity of encoding/json / protobuf round trips on all values (library semantics), payload byte aliasing.",
		Assumptions: append([]string{"encoding/json, google.golang.org/protobuf and gogo/protobuf Marshal/Unmarshal are mutual inverses on the values they accept"}, commonAssumptions...),
	})
}

func runC16(c *Check) {
	c16Equals(c, "C16.O1")
	c16Copy(c, "C16.O2")
	c16Metadata(c, "C16.O3")
	c16Envelope(c, "C16.O4")
	c16Codecs(c, "C16.O5")
	c16Reply(c, "C16.O6")
}

func exportedDataFields(n *types.Named) []*types.Var {
	st, ok := n.Underlying().(*types.Struct)
	if !ok {
		return nil
	}
	var out []*types.Var
	for i := 0; i < st.NumFields(); i++ {
		if st.Field(i).Exported() {
			out = append(out, st.Field(i))
		}
	}
	return out
}

// fieldLoadOf: v is a load of field f from a base originating from parameter p.
func fieldLoadFrom(f *types.Var, p *ssa.Parameter) func(ssa.Value) bool {
	return func(v ssa.Value) bool {
		for _, o := range Origins(v) {
			var g *types.Var
			var base ssa.Value
			switch x := o.(type) {
			case *ssa.UnOp:
				if x.Op == token.MUL {
					g, base = FieldOf(x.X)
				}
			case *ssa.Field:
				g, base = FieldOf(x)
			}
			if g != f || base == nil || !FromParam(p)(base) {
				return false
			}
		}
		return len(Origins(v)) > 0
	}
}

func isFalseReturnOnly(set InstrSet, fn *ssa.Function) (ok bool, n int) {
	ok = true
	for _, r := range Returns(fn) {
		if !set[r] {
			continue
		}
		n++
		for _, v := range RetOrigins(r, 0) {
			cst, isC := v.(*ssa.Const)
			if !isC || cst.Value == nil || cst.Value.String() != "false" {
				ok = false
			}
		}
	}
	return ok, n
}

func c16Equals(c *Check, id string) {
	T := c.P.Named("message", "Message")
	if T == nil {
		c.Floor(id, "type message.Message", 0, 1)
		return
	}
	eq := c.P.MethodOf(T, "Equals")
	if !c.Use(id, eq, "Message.Equals") {
		return
	}
	a, b := eq.Params[0], eq.Params[1]
	fields := exportedDataFields(T)
	c.Floor(id, "exported data fields of Message", len(fields), 3)
	for _, f := range fields {
		ra, rb := false, false
		AllInstrs(eq, func(in ssa.Instruction) {
			var g *types.Var
			var base ssa.Value
			switch x := in.(type) {
			case *ssa.FieldAddr:
				g, base = FieldOf(x)
			case *ssa.Field:
				g, base = FieldOf(x)
			}
			if g == f && base != nil {
				if FromParam(a)(base) {
					ra = true
				}
				if FromParam(b)(base) {
					rb = true
				}
			}
		})
		c.Report(ra && rb, id, "EQUALS-FIELD-COVER", eq, eq.Pos(), "field "+f.Name(), "Equals reads field "+f.Name()+" of both messages")
		ft := f.Type().Underlying()
		isA, isB := fieldLoadFrom(f, a), fieldLoadFrom(f, b)
		switch ft.(type) {
		case *types.Basic:
			// scalar: a test a.f == b.f whose inequality edge answers false
			n := 0
			for _, t := range Tests(eq) {
				if t.Op != token.EQL || t.Y == nil {
					continue
				}
				if (isA(t.X) && isB(t.Y)) || (isB(t.X) && isA(t.Y)) {
					n++
					ok, k := isFalseReturnOnly(ReachEdge(t.False, NewCut().AddEdges(t.True)), eq)
					okDirect := k > 0 && ok && !reachesOtherTests(t.False, eq)
					c.Report(okDirect, id, "EQUALS-SCALAR", eq, t.If.Pos(), "field "+f.Name(), "on the inequality edge of "+f.Name()+" Equals answers false")
				}
			}
			c.Floor(id, "comparison of "+f.Name(), n, 1)
		case *types.Slice:
			// bytes.Equal(a.f, b.f) returned or tested
			n := 0
			for _, cl := range CallsTo(eq, "bytes.Equal") {
				x, y := cl.Common().Args[0], cl.Common().Args[1]
				if (isA(x) && isB(y)) || (isB(x) && isA(y)) {
					n++
					used := false
					for _, r := range Returns(eq) {
						if AllOrigins(r.Results[0], func(v ssa.Value) bool { return v == CallValue(cl) }) {
							used = true
						}
					}
					for _, t := range Tests(eq) {
						if t.Op == token.ILLEGAL && t.X == CallValue(cl) {
							ok, k := isFalseReturnOnly(ReachEdge(t.False, nil), eq)
							if ok && k > 0 {
								used = true
							}
						}
					}
					c.Report(used, id, "EQUALS-BYTES", eq, cl.Pos(), "field "+f.Name(), "the byte-wise comparison of "+f.Name()+" decides the answer")
				}
			}
			// string(a.f) == string(b.f) compares the same bytes
			unconv := func(v ssa.Value) ssa.Value {
				if cv, ok := v.(*ssa.Convert); ok {
					if b, isB := cv.Type().Underlying().(*types.Basic); isB && b.Kind() == types.String {
						return cv.X
					}
				}
				return nil
			}
			for _, t := range Tests(eq) {
				if t.Y == nil || (t.Op != token.EQL && t.Op != token.NEQ) {
					continue
				}
				x, y := unconv(t.X), unconv(t.Y)
				if x == nil || y == nil || !((isA(x) && isB(y)) || (isB(x) && isA(y))) {
					continue
				}
				n++
				ne := t.False
				if t.Op == token.NEQ {
					ne = t.True
				}
				ok, k := isFalseReturnOnly(ReachEdge(ne, nil), eq)
				c.Report(ok && k > 0, id, "EQUALS-BYTES", eq, t.If.Pos(), "field "+f.Name(), "the byte-wise comparison of "+f.Name()+" decides the answer")
			}
			AllInstrs(eq, func(in ssa.Instruction) {
				bo, ok := in.(*ssa.BinOp)
				if !ok || bo.Op != token.EQL {
					return
				}
				x, y := unconv(bo.X), unconv(bo.Y)
				if x == nil || y == nil || !((isA(x) && isB(y)) || (isB(x) && isA(y))) {
					return
				}
				for _, r := range Returns(eq) {
					if AllOrigins(r.Results[0], func(v ssa.Value) bool { return v == ssa.Value(bo) }) {
						n++
						c.Report(true, id, "EQUALS-BYTES", eq, bo.Pos(), "field "+f.Name(), "the byte-wise comparison of "+f.Name()+" decides the answer")
					}
				}
			})
			c.Floor(id, "byte comparison of "+f.Name(), n, 1)
		case *types.Map:
			c16MapEquality(c, id, eq, f, isA, isB)
		}
	}
	// 'true' is answered only after all comparisons: every return of a non-false value is dominated by all tests
}

// reachesOtherTests: from edge e, is another If reached before a return?
func reachesOtherTests(e Edge, fn *ssa.Function) bool {
	re := ReachEdge(e, nil)
	for _, t := range Tests(fn) {
		if re[t.If] {
			return true
		}
	}
	return false
}

func c16MapEquality(c *Check, id string, eq *ssa.Function, f *types.Var, isA, isB func(ssa.Value) bool) {
	// the standard library's maps.Equal(a.f, b.f) is exactly this comparison (same length, every key of one present in
	// the other with an equal value): when its inequality answers false, nothing more is to be shown
	for _, cl := range CallsIn(eq) {
		cal := CalleeFn(cl.Common())
		if cal == nil || cal.Pkg == nil || cal.Pkg.Pkg.Path() != "maps" || !strings.HasPrefix(cal.Name(), "Equal") || strings.HasPrefix(cal.Name(), "EqualFunc") || len(cl.Common().Args) != 2 {
			continue
		}
		x, y := cl.Common().Args[0], cl.Common().Args[1]
		if !((isA(x) && isB(y)) || (isB(x) && isA(y))) {
			continue
		}
		used := false
		for _, t := range Tests(eq) {
			if t.Op == token.ILLEGAL && t.X == CallValue(cl) {
				if ok, k := isFalseReturnOnly(ReachEdge(t.False, NewCut().AddEdges(t.True)), eq); ok && k > 0 {
					used = true
				}
			}
		}
		for _, r := range Returns(eq) {
			if AllOrigins(r.Results[0], func(v ssa.Value) bool { return v == CallValue(cl) }) {
				used = true
			}
		}
		c.Report(used, id, "MAP-EQ/maps.Equal", eq, cl.Pos(), "field "+f.Name(), "maps.Equal of the two "+f.Name()+" maps decides: unequal maps answer false")
		return
	}
	// length comparison
	nlen := 0
	for _, t := range Tests(eq) {
		if t.Op != token.EQL || t.Y == nil {
			continue
		}
		ax, okx := IsBuiltinCall(t.X, "len")
		ay, oky := IsBuiltinCall(t.Y, "len")
		if !okx || !oky {
			continue
		}
		if (isA(ax[0]) && isB(ay[0])) || (isB(ax[0]) && isA(ay[0])) {
			nlen++
			ok, k := isFalseReturnOnly(ReachEdge(t.False, nil), eq)
			c.Report(ok && k > 0, id, "MAP-EQ/length", eq, t.If.Pos(), "field "+f.Name(), "different numbers of entries answer false")
		}
	}
	// range over one, lookup in the other
	var ranges []*ssa.Range
	AllInstrs(eq, func(in ssa.Instruction) {
		if r, ok := in.(*ssa.Range); ok && (isA(r.X) || isB(r.X)) {
			ranges = append(ranges, r)
		}
	})
	if !c.Floor(id, "range over the "+f.Name()+" map", len(ranges), 1) {
		return
	}
	bothDirections := false
	if len(ranges) >= 2 {
		ra, rb := false, false
		for _, r := range ranges {
			if isA(r.X) {
				ra = true
			}
			if isB(r.X) {
				rb = true
			}
		}
		bothDirections = ra && rb
	}
	c.Report(nlen >= 1 || bothDirections, id, "MAP-EQ/complete", eq, ranges[0].Pos(), "field "+f.Name(), "a one-directional comparison is complete only together with a length comparison (or both directions are compared)")
	for i, rg := range ranges {
		k := fmt.Sprintf("range#%d over %s", i, f.Name())
		var next *ssa.Next
		for _, ref := range *rg.Referrers() {
			if n, ok := ref.(*ssa.Next); ok {
				next = n
			}
		}
		if next == nil {
			c.Undecided(id, "MAP-EQ", eq, rg.Pos(), k, "cannot find the iteration step of the range")
			continue
		}
		isKey := func(v ssa.Value) bool {
			e, ok := v.(*ssa.Extract)
			return ok && e.Tuple == ssa.Value(next) && e.Index == 1
		}
		isVal := func(v ssa.Value) bool {
			e, ok := v.(*ssa.Extract)
			return ok && e.Tuple == ssa.Value(next) && e.Index == 2
		}
		other := isB
		if isB(rg.X) {
			other = isA
		}
		var lks []*ssa.Lookup
		AllInstrs(eq, func(in ssa.Instruction) {
			if l, ok := in.(*ssa.Lookup); ok && other(l.X) && AllOrigins(l.Index, isKey) {
				lks = append(lks, l)
			}
		})
		// Metadata.Get(key) is a lookup that cannot tell a missing key from an empty value
		for _, g := range CallsTo(eq, nMetaGet) {
			if other(Receiver(g)) && AllOrigins(Arg(g, 0), isKey) {
				c.Report(false, id, "MAP-EQ/comma-ok", eq, g.Pos(), k, "the other map is read with Get(key): a missing key reads as \"\" and is indistinguishable from an empty value (two maps of equal size with different keys and empty values compare equal)")
			}
		}
		if !c.Floor(id, "lookup of the ranged key in the other message's "+f.Name(), len(lks), 1) {
			continue
		}
		for _, lk := range lks {
			if !lk.CommaOk {
				c.Report(false, id, "MAP-EQ/comma-ok", eq, lk.Pos(), k, "the lookup in the other map must be comma-ok: a missing key reads as the zero value and is indistinguishable from an empty value")
				continue
			}
			nok := 0
			for _, t := range Tests(eq) {
				if e, ok := t.X.(*ssa.Extract); ok && t.Op == token.ILLEGAL && e.Tuple == ssa.Value(lk) && e.Index == 1 {
					nok++
					re := ReachEdge(t.False, nil)
					ok2, n2 := isFalseReturnOnly(ReachEdge(t.False, NewCut().AddInstrs(next)), eq)
					c.Report(ok2 && n2 > 0 && !re[next], id, "MAP-EQ/comma-ok", eq, lk.Pos(), k, "a key missing from the other map answers false")
				}
			}
			c.Floor(id, "test of the lookup's found flag", nok, 1)
			// values compared
			nv := 0
			for _, t := range Tests(eq) {
				if t.Op != token.EQL || t.Y == nil {
					continue
				}
				isLV := func(v ssa.Value) bool {
					e, ok := v.(*ssa.Extract)
					return ok && e.Tuple == ssa.Value(lk) && e.Index == 0
				}
				if (AllOrigins(t.X, isVal) && AllOrigins(t.Y, isLV)) || (AllOrigins(t.Y, isVal) && AllOrigins(t.X, isLV)) {
					nv++
					re := ReachEdge(t.False, nil)
					ok2, n2 := isFalseReturnOnly(ReachEdge(t.False, NewCut().AddInstrs(next)), eq)
					c.Report(ok2 && n2 > 0 && !re[next], id, "MAP-EQ/values", eq, t.If.Pos(), k, "different values for a key answer false")
				}
			}
			c.Floor(id, "comparison of the two values of a key", nv, 1)
		}
	}
}

// c16Copy checks Message.Copy (shared with C04.O7).
func c16Copy(c *Check, id string) {
	T := c.P.Named("message", "Message")
	if T == nil {
		c.Floor(id, "type message.Message", 0, 1)
		return
	}
	cp := c.P.MethodOf(T, "Copy")
	nm := c.P.Func("message", "NewMessage")
	if !c.Use(id, cp, "Message.Copy") || !c.Use(id, nm, "message.NewMessage") {
		return
	}
	recv := cp.Params[0]
	news := Callers([]*ssa.Function{cp}, nm)
	if len(news) == 0 {
		c16CopyLiteral(c, id, cp, T)
		return
	}
	n := news[0]
	var uuidF, payF, metaF *types.Var
	for _, f := range exportedDataFields(T) {
		switch f.Type().Underlying().(type) {
		case *types.Basic:
			uuidF = f
		case *types.Slice:
			payF = f
		case *types.Map:
			metaF = f
		}
	}
	if !c.Floor(id, "Message's UUID / payload / metadata fields", b2i(uuidF != nil)+b2i(payF != nil)+b2i(metaF != nil), 3) {
		return
	}
	c.Report(fieldLoadFrom(uuidF, recv)(n.Common().Args[0]) && fieldLoadFrom(payF, recv)(n.Common().Args[1]), id, "COPY-COVER/uuid-payload", cp, n.Pos(), "NewMessage(...)", "the copy is built from the source's UUID and payload")
	for ret, vals := range ReturnValues(cp, 0) {
		c.Report(len(vals) == 1 && vals[0] == CallValue(n), id, "COPY-RESULT", cp, ret.Pos(), "return", "the new message is returned")
	}
	// NewMessage makes a fresh metadata map
	freshMap := false
	for _, st := range FieldStores(nm, metaF) {
		if mm, ok := firstOrigin(st.Val).(*ssa.MakeMap); ok && mm != nil {
			freshMap = true
		} else if ct, ok := st.Val.(*ssa.ChangeType); ok {
			if _, ok := ct.X.(*ssa.MakeMap); ok {
				freshMap = true
			}
		}
	}
	c.Report(freshMap, id, "COPY-FRESH/constructor", nm, nm.Pos(), "NewMessage metadata", "NewMessage gives every message its own metadata map")
	// … and takes UUID and payload exactly as given (Copy, the forwarder's unwrap and the codecs build their results through it)
	if len(nm.Params) >= 2 {
		for k, fld := range []*types.Var{uuidF, payF} {
			sts := FieldStores(nm, fld)
			okV := len(sts) == 1 && AllOrigins(sts[0].Val, IsParam(nm.Params[k]))
			if okV {
				for _, r := range Returns(nm) {
					if !Dominates(nm, sts[0], r) {
						okV = false
					}
				}
			}
			c.Report(okV, id, "CONSTRUCTOR-TAKES-AS-GIVEN", nm, nm.Pos(), "NewMessage "+fld.Name(), "NewMessage stores the given "+fld.Name()+" unchanged, whatever its value (empty included): a substituted value makes Copy() differ from its original")
		}
	}
	// no store of the source map into the copy
	aliased := false
	AllInstrs(cp, func(in ssa.Instruction) {
		if st, ok := in.(*ssa.Store); ok {
			if g, _ := FieldOf(st.Addr); g == metaF {
				// a new, empty map made by Copy itself is fine as long as nothing was written to the copy's metadata before
				v := st.Val
				if ct, isCT := v.(*ssa.ChangeType); isCT {
					v = ct.X
				}
				mm, isMM := v.(*ssa.MakeMap)
				if !isMM || mm.Parent() != cp {
					aliased = true
					return
				}
				AllInstrs(cp, func(w ssa.Instruction) {
					isWrite := false
					if _, isMU := w.(*ssa.MapUpdate); isMU {
						isWrite = true
					}
					if cl, isCall := w.(ssa.CallInstruction); isCall && CalleeName(cl) == nMetaSet {
						isWrite = true
					}
					if isWrite && ReachAfter(w, nil)[st] {
						aliased = true
					}
				})
			}
		}
	})
	c.Report(!aliased, id, "COPY-FRESH", cp, cp.Pos(), "metadata", "Copy never assigns a metadata map to the copy (the source's map is not shared)")
	// the standard library's maps.Copy(dst, src) writes every entry of src into dst: with dst the copy's own map and
	// src the source's metadata that is the whole obligation
	for _, cl := range CallsIn(cp) {
		cal := CalleeFn(cl.Common())
		if cal == nil || cal.Pkg == nil || cal.Pkg.Pkg.Path() != "maps" || !strings.HasPrefix(cal.Name(), "Copy") || len(cl.Common().Args) != 2 {
			continue
		}
		dst, src := cl.Common().Args[0], cl.Common().Args[1]
		okDst := false
		if u, isU := firstOrigin(dst).(*ssa.UnOp); isU {
			rf, base := FieldOf(u.X)
			okDst = rf == metaF && base != nil && sameValue(base, CallValue(n))
		}
		okAll := okDst && fieldLoadFrom(metaF, recv)(src) && !InLoop(cl)
		for _, r := range Returns(cp) {
			if !Dominates(cp, cl, r) {
				okAll = false
			}
		}
		c.Report(okAll, id, "COPY-COVER/metadata", cp, cl.Pos(), "maps.Copy", "every metadata entry of the source is written, key and value, into the copy's own map")
		return
	}
	// every ranged entry is set on the copy
	var rg *ssa.Range
	AllInstrs(cp, func(in ssa.Instruction) {
		if r, ok := in.(*ssa.Range); ok && fieldLoadFrom(metaF, recv)(r.X) {
			rg = r
		}
	})
	if !c.Floor(id, "range over the source's metadata in Copy", b2i(rg != nil), 1) {
		return
	}
	var next *ssa.Next
	for _, ref := range *rg.Referrers() {
		if x, ok := ref.(*ssa.Next); ok {
			next = x
		}
	}
	nset := 0
	for _, s := range CallsTo(cp, nMetaSet) {
		okK := AllOrigins(Arg(s, 0), func(v ssa.Value) bool {
			e, ok := v.(*ssa.Extract)
			return ok && e.Tuple == ssa.Value(next) && e.Index == 1
		})
		okV := AllOrigins(Arg(s, 1), rangeValueOf(next, fieldLoadFrom(metaF, recv)))
		rf, base := (*types.Var)(nil), ssa.Value(nil)
		if u, ok := firstOrigin(Receiver(s)).(*ssa.UnOp); ok {
			rf, base = FieldOf(u.X)
		}
		okR := rf == metaF && base != nil && sameValue(base, CallValue(n))
		if okK && okV && okR {
			nset++
			// every iteration sets: from next's ok edge the next step is reached only through Set
			c.Report(!ReachWithout(next, next, s), id, "COPY-COVER/metadata", cp, s.Pos(), "Metadata.Set", "every metadata entry of the source is written, key and value, into the copy's own map")
		}
	}
	// the idiom msg.Metadata[k] = v is accepted as well
	AllInstrs(cp, func(in ssa.Instruction) {
		mu, ok := in.(*ssa.MapUpdate)
		if !ok {
			return
		}
		okK := AllOrigins(mu.Key, func(v ssa.Value) bool {
			e, ok := v.(*ssa.Extract)
			return ok && e.Tuple == ssa.Value(next) && e.Index == 1
		})
		okV := AllOrigins(mu.Value, rangeValueOf(next, fieldLoadFrom(metaF, recv)))
		okR := false
		if u, isU := firstOrigin(mu.Map).(*ssa.UnOp); isU {
			rf, base := FieldOf(u.X)
			okR = rf == metaF && base != nil && sameValue(base, CallValue(n))
		}
		if okK && okV && okR {
			nset++
			c.Report(!ReachWithout(next, next, in), id, "COPY-COVER/metadata", cp, in.Pos(), "metadata[k] = v", "every metadata entry of the source is written, key and value, into the copy's own map")
		}
	})
	c.Floor(id, "write of (k, v) into the copy's metadata inside the range", nset, 1)
}

// c16CopyLiteral decides Copy when it builds the new message itself (a composite
// literal instead of a NewMessage call): the same obligations, on the stores
// to the new value's fields.
func c16CopyLiteral(c *Check, id string, cp *ssa.Function, T *types.Named) {
	recv := cp.Params[0]
	var uuidF, payF, metaF *types.Var
	for _, f := range exportedDataFields(T) {
		switch f.Type().Underlying().(type) {
		case *types.Basic:
			uuidF = f
		case *types.Slice:
			payF = f
		case *types.Map:
			metaF = f
		}
	}
	if !c.Floor(id, "Message's UUID / payload / metadata fields", b2i(uuidF != nil)+b2i(payF != nil)+b2i(metaF != nil), 3) {
		return
	}
	var alloc *ssa.Alloc
	nAlloc := 0
	AllInstrs(cp, func(in ssa.Instruction) {
		if a, ok := in.(*ssa.Alloc); ok && NamedOf(a.Type()) == T {
			alloc = a
			nAlloc++
		}
	})
	if !c.Floor(id, "the new message in Copy (NewMessage call or one composite literal)", b2i(nAlloc == 1), 1) {
		return
	}
	for ret, vals := range ReturnValues(cp, 0) {
		c.Report(len(vals) == 1 && vals[0] == ssa.Value(alloc), id, "COPY-RESULT", cp, ret.Pos(), "return", "the new message is returned")
	}
	storesTo := func(f *types.Var) []*ssa.Store {
		var out []*ssa.Store
		for _, st := range FieldStores(cp, f) {
			if _, base := FieldOf(st.Addr); base == ssa.Value(alloc) {
				out = append(out, st)
			}
		}
		return out
	}
	okUP := true
	for _, f := range []*types.Var{uuidF, payF} {
		sts := storesTo(f)
		if len(sts) != 1 || !fieldLoadFrom(f, recv)(sts[0].Val) {
			okUP = false
		}
		for _, ret := range Returns(cp) {
			if len(sts) == 1 && !Dominates(cp, sts[0], ret) {
				okUP = false
			}
		}
	}
	c.Report(okUP, id, "COPY-COVER/uuid-payload", cp, alloc.Pos(), "Message{...}", "the copy is built from the source's UUID and payload")
	// metadata: at every return the copy's map is one made in Copy
	isFresh := func(v ssa.Value) bool {
		return AllOrigins(v, func(o ssa.Value) bool { _, ok := o.(*ssa.MakeMap); return ok })
	}
	var fresh []ssa.Instruction
	var freshMaps []ssa.Value
	for _, st := range storesTo(metaF) {
		if isFresh(st.Val) {
			fresh = append(fresh, st)
			freshMaps = append(freshMaps, Origins(st.Val)...)
		}
	}
	cutF := NewCut().AddInstrs(fresh...)
	okFresh := len(fresh) > 0
	var wit []string
	for _, ret := range Returns(cp) {
		if ReachEntry(cp, cutF)[ret] {
			okFresh = false
			wit = append(wit, "a path reaches the return at "+c.P.Pos(ret.Pos())+" without giving the copy a map made in Copy")
		}
	}
	for _, st := range storesTo(metaF) {
		if !isFresh(st.Val) {
			for _, ret := range Returns(cp) {
				if ReachAfter(st, cutF)[ret] {
					okFresh = false
					wit = append(wit, "the map stored at "+c.P.Pos(st.Pos())+" (not made in Copy) is still the copy's metadata at the return at "+c.P.Pos(ret.Pos()))
				}
			}
		}
	}
	c.Report(okFresh, id, "COPY-FRESH", cp, alloc.Pos(), "metadata", "on every path the copy's metadata is a map made in Copy (never the source's map, never nil)", wit...)
	// the private state is new: channels made here, nothing taken from the source, no context
	st := T.Underlying().(*types.Struct)
	okPriv := true
	nCh := 0
	for i := 0; i < st.NumFields(); i++ {
		f := st.Field(i)
		if f.Exported() {
			continue
		}
		for _, s := range storesTo(f) {
			if _, isCh := f.Type().Underlying().(*types.Chan); isCh {
				if _, mk := firstOrigin(s.Val).(*ssa.MakeChan); mk {
					nCh++
					continue
				}
			}
			okPriv = false
		}
	}
	c.Report(okPriv && nCh >= 2, id, "COPY-UNSETTLED", cp, alloc.Pos(), "private fields", "the copy gets its own, new settlement channels and nothing else of the source's private state (not its settlement, not its context)")
	// every ranged entry is written into the fresh map
	var rg *ssa.Range
	AllInstrs(cp, func(in ssa.Instruction) {
		if r, ok := in.(*ssa.Range); ok && fieldLoadFrom(metaF, recv)(r.X) {
			rg = r
		}
	})
	if !c.Floor(id, "range over the source's metadata in Copy", b2i(rg != nil), 1) {
		return
	}
	var next *ssa.Next
	for _, ref := range *rg.Referrers() {
		if x, ok := ref.(*ssa.Next); ok {
			next = x
		}
	}
	isCopyMap := func(v ssa.Value) bool {
		return AllOrigins(v, func(o ssa.Value) bool {
			for _, m := range freshMaps {
				if o == m {
					return true
				}
			}
			if u, ok := o.(*ssa.UnOp); ok {
				f, base := FieldOf(u.X)
				return f == metaF && base == ssa.Value(alloc)
			}
			return false
		})
	}
	nset := 0
	fromNext := func(i int) func(ssa.Value) bool {
		return func(v ssa.Value) bool {
			e, ok := v.(*ssa.Extract)
			return ok && e.Tuple == ssa.Value(next) && e.Index == i
		}
	}
	AllInstrs(cp, func(in ssa.Instruction) {
		switch x := in.(type) {
		case *ssa.MapUpdate:
			if AllOrigins(x.Key, fromNext(1)) && AllOrigins(x.Value, rangeValueOf(next, fieldLoadFrom(metaF, recv))) && isCopyMap(x.Map) {
				nset++
				c.Report(!ReachWithout(next, next, in), id, "COPY-COVER/metadata", cp, in.Pos(), "metadata[k] = v", "every metadata entry of the source is written, key and value, into the copy's own map")
			}
		case *ssa.Call:
			if IsCallTo(x, nMetaSet) && AllOrigins(Arg(x, 0), fromNext(1)) && AllOrigins(Arg(x, 1), rangeValueOf(next, fieldLoadFrom(metaF, recv))) && isCopyMap(Receiver(x)) {
				nset++
				c.Report(!ReachWithout(next, next, in), id, "COPY-COVER/metadata", cp, in.Pos(), "Metadata.Set", "every metadata entry of the source is written, key and value, into the copy's own map")
			}
		}
	})
	c.Floor(id, "write of (k, v) into the copy's metadata inside the range", nset, 1)
	// the loop runs whenever the source has entries: it is skipped only on a `len(source metadata) == 0` edge
	lz, _ := LenZeroEdges(cp, fieldLoadFrom(metaF, recv))
	okLoop := Dominates(cp, rg, Returns(cp)[0])
	if !okLoop {
		okLoop = true
		for _, ret := range Returns(cp) {
			if ReachEntry(cp, NewCut().AddInstrs(rg).AddEdges(lz...))[ret] {
				okLoop = false
			}
		}
	}
	c.Report(okLoop, id, "COPY-COVER/always", cp, rg.Pos(), "range", "the copying loop is skipped only when the source has no metadata")
}

// ---------------------------------------------------------------------------

func c16Envelope(c *Check, id string) {
	const rel = "components/forwarder"
	// the envelope type: the struct passed (by pointer) to json.Marshal in this package
	var envT *types.Named
	var wrapFn, unwrapFn *ssa.Function
	for _, fn := range c.P.SrcFuncs(rel) {
		for _, cl := range CallsTo(fn, "encoding/json.Marshal") {
			if n := NamedOf(unwrapIface(cl.Common().Args[0]).Type()); n != nil && n.Obj().Pkg().Path() == ModulePath+"/"+rel {
				envT, wrapFn = n, fn
			}
		}
	}
	if !c.Floor(id, "envelope type (argument of json.Marshal in package forwarder)", b2i(envT != nil), 1) {
		return
	}
	for _, fn := range c.P.SrcFuncs(rel) {
		for _, cl := range CallsTo(fn, "encoding/json.Unmarshal") {
			if n := NamedOf(unwrapIface(cl.Common().Args[1]).Type()); n == envT {
				unwrapFn = fn
			}
		}
	}
	if !c.Use(id, wrapFn, "wrap function") || !c.Use(id, unwrapFn, "unwrap function (json.Unmarshal into the envelope type)") {
		return
	}
	st := envT.Underlying().(*types.Struct)
	tags := map[string]bool{}
	okTags := true
	for i := 0; i < st.NumFields(); i++ {
		tag := reflect.StructTag(st.Tag(i)).Get("json")
		name := strings.Split(tag, ",")[0]
		if name == "" {
			name = st.Field(i).Name()
		}
		if name == "-" || tags[name] || !st.Field(i).Exported() {
			okTags = false
		}
		tags[name] = true
	}
	c.Report(okTags && st.NumFields() >= 4, id, "ENVELOPE-TAGS", wrapFn, wrapFn.Pos(), "envelope fields", "every envelope field is exported and has a distinct JSON name (none is dropped or merged by the codec)")
	// what the encoder writes the decoder accepts: unwrap fails only when the payload does not decode or has no destination
	// (shared with C17.O1: an extra filter on the decoded envelope — no payload, no UUID — rejects envelopes wrap produces)
	c17UnwrapValidates(c, id, unwrapFn)
	// constructor role: the function that stores into the envelope's fields
	// the wire form keeps every field, also when it is empty: no json option drops or re-types a field
	for i := 0; i < st.NumFields(); i++ {
		tag := reflectTag(st.Tag(i), "json")
		name, opts := tag, ""
		if k := strings.Index(tag, ","); k >= 0 {
			name, opts = tag[:k], tag[k+1:]
		}
		c.Report(name != "-" && opts == "", id, "ENVELOPE-FIELD-TAG", unwrapFn, st.Field(i).Pos(), "envelope."+st.Field(i).Name()+" `json:\""+tag+"\"`", "the envelope field is always encoded and decoded as it is (omitempty turns empty metadata into a nil map on the other side; string/- change or drop the value)")
	}
	var ctor *ssa.Function
	for _, fn := range c.P.SrcFuncs(rel) {
		n := 0
		for i := 0; i < st.NumFields(); i++ {
			n += len(FieldStores(fn, st.Field(i)))
		}
		if n >= st.NumFields() {
			ctor = fn
		}
	}
	if !c.Use(id, ctor, "envelope constructor (stores all envelope fields)") {
		return
	}
	msgP := ParamsOfType(ctor, tMessagePtr)
	strP := ParamsOfType(ctor, "string")
	if !c.Floor(id, "envelope constructor parameters (destination string, message)", b2i(len(msgP) == 1)+b2i(len(strP) == 1), 2) {
		return
	}
	M := c.P.Named("message", "Message")
	var destF *types.Var
	for i := 0; i < st.NumFields(); i++ {
		f := st.Field(i)
		stores := FieldStores(ctor, f)
		if len(stores) != 1 {
			c.Report(false, id, "ENVELOPE-WRITE", ctor, ctor.Pos(), "envelope."+f.Name(), "each envelope field is written exactly once")
			continue
		}
		v := stores[0].Val
		if FromParam(strP[0])(v) {
			destF = f
			c.Report(true, id, "ENVELOPE-WRITE", ctor, stores[0].Pos(), "envelope."+f.Name(), "the destination topic is recorded")
			continue
		}
		// message field of the same name
		ok := false
		for _, mf := range exportedDataFields(M) {
			if mf.Name() == f.Name() && fieldLoadFrom(mf, msgP[0])(v) {
				ok = true
			}
		}
		c.Report(ok, id, "ENVELOPE-WRITE", ctor, stores[0].Pos(), "envelope."+f.Name(), "envelope."+f.Name()+" is filled from the message's "+f.Name())
	}
	c.Report(destF != nil, id, "ENVELOPE-DESTINATION", ctor, ctor.Pos(), "envelope destination", "one envelope field holds the destination topic")
	// wrap: calls ctor with (topic param, msg param), marshals its result, payload of the new message = the bytes
	for _, cl := range Callers([]*ssa.Function{wrapFn}, ctor) {
		wp, ws := ParamsOfType(wrapFn, tMessagePtr), ParamsOfType(wrapFn, "string")
		ok := len(wp) == 1 && len(ws) == 1
		if ok {
			for i, prm := range ctor.Params {
				a := cl.Common().Args[i]
				if prm == msgP[0] && !FromParam(wp[0])(a) {
					ok = false
				}
				if prm == strP[0] && !FromParam(ws[0])(a) {
					ok = false
				}
			}
		}
		c.Report(ok, id, "WRAP-ARGS", wrapFn, cl.Pos(), "wrap", "the envelope is built from the destination topic and the message being wrapped")
		for _, jm := range CallsTo(wrapFn, "encoding/json.Marshal") {
			okJ := AllOrigins(unwrapIface(jm.Common().Args[0]), ResultOfAny([]ssa.CallInstruction{cl}, 0))
			c.Report(okJ, id, "WRAP-ENCODES-ENVELOPE", wrapFn, jm.Pos(), "wrap", "the envelope is what gets JSON-encoded")
			for _, nmsg := range CallsTo(wrapFn, nNewMessage) {
				c.Report(AllOrigins(nmsg.Common().Args[1], func(v ssa.Value) bool { return IsResultOf(v, jm, 0) }), id, "WRAP-PAYLOAD", wrapFn, nmsg.Pos(), "wrap", "the encoded envelope is the wrapping message's payload")
			}
			// what wrap hands back on success is that new message, for every input
			for i, r := range Returns(wrapFn) {
				if len(r.Results) == 2 && RetNil(r, 1) {
					okNew := AllOrigins(r.Results[0], func(v ssa.Value) bool {
						for _, nmsg := range CallsTo(wrapFn, nNewMessage) {
							if v == CallValue(nmsg) {
								return true
							}
						}
						return false
					})
					c.Report(okNew, id, "WRAP-RESULT", wrapFn, r.Pos(), fmt.Sprintf("wrap return#%d", i), "a successful wrap returns the newly built envelope message (never the input message: a payload that happens to look like an envelope must be wrapped like any other)")
				}
			}
		}
	}
	// unwrap: decodes msg.Payload into the envelope; rebuilds the message field by field
	up := ParamsOfType(unwrapFn, tMessagePtr)
	if !c.Floor(id, "message parameter of unwrap", len(up), 1) {
		return
	}
	var envAlloc ssa.Value
	for _, ju := range CallsTo(unwrapFn, "encoding/json.Unmarshal") {
		pf := LoadedField(firstOrigin(unwrapSliceConv(ju.Common().Args[0])))
		c.Report(pf != nil && pf.Name() == "Payload", id, "UNWRAP-DECODES-PAYLOAD", unwrapFn, ju.Pos(), "unwrap", "the consumed message's payload is decoded")
		envAlloc = unwrapIface(ju.Common().Args[1])
		// decoded into a new, zero-valued envelope of this call: json.Unmarshal keeps what a reused target already holds
		// (map entries, fields absent from the input), so a pooled or shared target leaks one message into the next
		al, isAl := firstOrigin(envAlloc).(*ssa.Alloc)
		okFresh := isAl && HomeFn(al.Parent()) == HomeFn(unwrapFn)
		if okFresh {
			// nothing is stored into it before the decoding
			for _, ref := range *al.Referrers() {
				if fa, isFA := ref.(*ssa.FieldAddr); isFA {
					for _, r2 := range *fa.Referrers() {
						if st, isSt := r2.(*ssa.Store); isSt && ReachAfter(st, nil)[ju] {
							okFresh = false
						}
					}
				}
				if st, isSt := ref.(*ssa.Store); isSt && st.Addr == ssa.Value(al) && ReachAfter(st, nil)[ju] {
					if _, zero := st.Val.(*ssa.Const); !zero {
						okFresh = false
					}
				}
			}
		}
		c.Report(okFresh, id, "UNWRAP-FRESH-TARGET", unwrapFn, ju.Pos(), "unwrap", "the payload is decoded into a new zero-valued envelope allocated by this call (not a pooled, cached or shared one)")
	}
	isEnvField := func(name string) func(ssa.Value) bool {
		return func(v ssa.Value) bool {
			return AllOrigins(v, func(o ssa.Value) bool {
				u, ok := o.(*ssa.UnOp)
				if !ok || u.Op != token.MUL {
					return false
				}
				f, base := FieldOf(u.X)
				return f != nil && f.Name() == name && base == envAlloc
			})
		}
	}
	for _, nmsg := range CallsTo(unwrapFn, nNewMessage) {
		c.Report(isEnvField("UUID")(nmsg.Common().Args[0]) && isEnvField("Payload")(nmsg.Common().Args[1]), id, "UNWRAP-READ/uuid-payload", unwrapFn, nmsg.Pos(), "unwrap", "UUID and payload of the rebuilt message come from the envelope's UUID and Payload")
		okMeta := false
		AllInstrs(unwrapFn, func(in ssa.Instruction) {
			if stv, ok := in.(*ssa.Store); ok {
				if g, base := FieldOf(stv.Addr); g != nil && g.Name() == "Metadata" && sameValue(base, CallValue(nmsg)) && isEnvField("Metadata")(stv.Val) {
					okMeta = true
				}
			}
		})
		c.Report(okMeta, id, "UNWRAP-READ/metadata", unwrapFn, nmsg.Pos(), "unwrap", "the rebuilt message's metadata is the envelope's Metadata")
		// … and nothing else: no entry is added to, or removed from, the rebuilt message's metadata
		extra := false
		isRebuilt := func(v ssa.Value) bool {
			return AllOrigins(v, func(o ssa.Value) bool {
				if u, ok := o.(*ssa.UnOp); ok {
					if g, base := FieldOf(u.X); g != nil && g.Name() == "Metadata" && sameValue(base, CallValue(nmsg)) {
						return true
					}
				}
				return false
			})
		}
		AllInstrs(unwrapFn, func(in ssa.Instruction) {
			switch x := in.(type) {
			case *ssa.MapUpdate:
				if isRebuilt(x.Map) || isEnvField("Metadata")(x.Map) {
					extra = true
				}
			case *ssa.Call:
				if IsCallTo(x, nMetaSet) && (isRebuilt(Receiver(x)) || isEnvField("Metadata")(Receiver(x))) {
					extra = true
				}
				if args, isDel := IsBuiltinCall(x, "delete"); isDel && (isRebuilt(args[0]) || isEnvField("Metadata")(args[0])) {
					extra = true
				}
			}
		})
		nStores := 0
		AllInstrs(unwrapFn, func(in ssa.Instruction) {
			if stv, ok := in.(*ssa.Store); ok {
				if g, base := FieldOf(stv.Addr); g != nil && g.Name() == "Metadata" && sameValue(base, CallValue(nmsg)) {
					nStores++
					for _, ret := range Returns(unwrapFn) {
						if len(ret.Results) > 1 && !RetNil(ret, 1) && !Dominates(unwrapFn, stv, ret) {
							extra = true
						}
					}
				}
			}
		})
		c.Report(!extra && nStores == 1, id, "UNWRAP-METADATA-EXACT", unwrapFn, nmsg.Pos(), "unwrap", "the envelope's metadata is assigned once, unconditionally, and no entry is added or removed (nothing of the carrier message leaks into the forwarded one)")
		for ret, vals := range ReturnValues(unwrapFn, 1) {
			for _, v := range vals {
				if !IsNilConst(v) {
					c.Report(v == CallValue(nmsg), id, "UNWRAP-RESULT", unwrapFn, ret.Pos(), "unwrap", "the rebuilt message is returned")
				}
			}
		}
	}
	if destF != nil {
		for ret, vals := range ReturnValues(unwrapFn, 0) {
			for _, v := range vals {
				if s, ok := ConstString(v); ok && s == "" {
					continue
				}
				c.Report(isEnvField(destF.Name())(v), id, "UNWRAP-DESTINATION", unwrapFn, ret.Pos(), "unwrap", "the returned destination is the envelope's destination field")
			}
		}
	}
}

func unwrapSliceConv(v ssa.Value) ssa.Value {
	for {
		switch x := v.(type) {
		case *ssa.ChangeType:
			v = x.X
		case *ssa.Convert:
			v = x.X
		default:
			return v
		}
	}
}

func c16Codecs(c *Check, id string) {
	pairs := map[string]string{
		"encoding/json.Marshal":                    "encoding/json.Unmarshal",
		"google.golang.org/protobuf/proto.Marshal": "google.golang.org/protobuf/proto.Unmarshal",
		"github.com/gogo/protobuf/proto.Marshal":   "github.com/gogo/protobuf/proto.Unmarshal",
	}
	tp := c.P.TypesPkg("components/cqrs")
	if tp == nil {
		c.Floor(id, "package components/cqrs", 0, 1)
		return
	}
	n := 0
	for _, name := range tp.Scope().Names() {
		tn, ok := tp.Scope().Lookup(name).(*types.TypeName)
		if !ok || !tn.Exported() {
			continue
		}
		named, ok := tn.Type().(*types.Named)
		if !ok {
			continue
		}
		mar, unm := c.P.MethodOf(named, "Marshal"), c.P.MethodOf(named, "Unmarshal")
		if mar == nil || unm == nil || c.P.MethodOf(named, "NameFromMessage") == nil || len(mar.Blocks) == 0 {
			continue
		}
		n++
		c.Use(id, mar, name+".Marshal")
		c.Use(id, unm, name+".Unmarshal")
		var enc ssa.CallInstruction
		encName := ""
		for e := range pairs {
			if cs := CallsTo(mar, e); len(cs) > 0 {
				enc, encName = cs[0], e
			}
		}
		if !c.Floor(id, name+": encoder call in Marshal", b2i(enc != nil), 1) {
			continue
		}
		val := mar.Params[len(mar.Params)-1]
		okV := AllOrigins(unwrapIface(enc.Common().Args[0]), func(v ssa.Value) bool {
			if v == ssa.Value(val) {
				return true
			}
			ta, ok := v.(*ssa.TypeAssert)
			if ok {
				return FromParam(val)(ta.X)
			}
			e, ok := v.(*ssa.Extract)
			if ok {
				if ta, ok := e.Tuple.(*ssa.TypeAssert); ok {
					return FromParam(val)(ta.X)
				}
			}
			return false
		})
		c.Report(okV, id, "CODEC/encode-value", mar, enc.Pos(), name, "Marshal encodes the given value")
		okP := false
		for _, nmsg := range CallsTo(mar, nNewMessage) {
			if AllOrigins(unwrapSliceConv(nmsg.Common().Args[1]), func(v ssa.Value) bool { return IsResultOf(v, enc, 0) }) {
				okP = true
			}
		}
		c.Report(okP, id, "CODEC/payload", mar, enc.Pos(), name, "the encoded bytes become the message payload")
		decs := CallsTo(unm, pairs[encName])
		if c.Floor(id, name+": matching decoder "+pairs[encName]+" in Unmarshal", len(decs), 1) {
			d := decs[0]
			pf := LoadedField(firstOrigin(unwrapSliceConv(d.Common().Args[0])))
			dst := unm.Params[len(unm.Params)-1]
			okD := AllOrigins(unwrapIface(d.Common().Args[1]), func(v ssa.Value) bool {
				if v == ssa.Value(dst) {
					return true
				}
				if ta, ok := v.(*ssa.TypeAssert); ok {
					return FromParam(dst)(ta.X)
				}
				if e, ok := v.(*ssa.Extract); ok {
					if ta, ok := e.Tuple.(*ssa.TypeAssert); ok {
						return FromParam(dst)(ta.X)
					}
				}
				return false
			})
			c.Report(pf != nil && pf.Name() == "Payload" && okD, id, "CODEC/decode", unm, d.Pos(), name, "Unmarshal applies the matching decoder to the payload, into the given value")
			// failure means the decoder failed (or the value is not of the codec's kind): no other condition — an empty
			// payload, a size, a metadata key — makes Unmarshal refuse what Marshal produced
			_, notKind := BoolEdges(unm, func(v ssa.Value) bool {
				e, ok := v.(*ssa.Extract)
				if !ok || e.Index != 1 {
					return false
				}
				ta, ok := e.Tuple.(*ssa.TypeAssert)
				return ok && ta.CommaOk && FromParam(dst)(ta.X)
			})
			// a deferred closure may turn a decoder panic into an error, or ask a sibling codec (judged by this same rule)
			inDefer := func(v ssa.Value) bool {
				in, ok := v.(ssa.Instruction)
				if !ok || in.Parent() == unm || in.Parent().Parent() != unm {
					return false
				}
				if cl, isCall := v.(*ssa.Call); isCall {
					if cal := CalleeFn(cl.Common()); cal != nil && cal.Name() == "Unmarshal" && cal.Pkg == unm.Pkg && cal != unm {
						return true
					}
				}
				_, recovered := NilEdges(in.Parent(), func(x ssa.Value) bool {
					return AllOrigins(x, func(o ssa.Value) bool { _, is := IsBuiltinCall(o, "recover"); return is })
				})
				return len(recovered) > 0 && GuardedBy(in.Parent(), in, recovered)
			}
			ErrorsOnlyFromKindsAlso(c, id, "CODEC/decode-fails-only-in-the-decoder", unm, func(cl ssa.CallInstruction) (int, bool) {
				return 0, cl == d
			}, notKind, inDefer, "Unmarshal fails only when the decoder fails or the destination is not a value of the codec's kind (an encoding of a zero value may be empty)")
			// success means decoded: no nil return that did not go through the decoder
			re := ReachEntry(unm, NewCut().AddInstrs(d))
			for i, r := range Returns(unm) {
				if RetNil(r, len(r.Results)-1) {
					c.Report(!re[r], id, "CODEC/decode-always", unm, r.Pos(), fmt.Sprintf("%s Unmarshal return#%d", name, i), "Unmarshal reports success only after the decoder ran (whatever the payload looks like — an empty payload is for the decoder to judge)")
				}
			}
		}
	}
	c.Floor(id, "CQRS marshalers", n, 3)
	// a marshaler that hands its work to a sibling (the gogo marshaler's fallback to the std-proto one) configures the
	// sibling like itself: every option both have (UUID generator, name generator) is copied, field by name — otherwise
	// Marshal on the fallback path writes another name than Name() reports
	nconv := 0
	for _, fn := range c.P.SrcFuncs("components/cqrs") {
		recv := fn.Signature.Recv()
		if fn.Parent() != nil || recv == nil || fn.Signature.Params().Len() != 0 || fn.Signature.Results().Len() != 1 {
			continue
		}
		from, to := NamedOf(recv.Type()), NamedOf(fn.Signature.Results().At(0).Type())
		if from == nil || to == nil || from == to || !strings.HasSuffix(from.Obj().Name(), "Marshaler") || !strings.HasSuffix(to.Obj().Name(), "Marshaler") {
			continue
		}
		fs, ok1 := from.Underlying().(*types.Struct)
		ts, ok2 := to.Underlying().(*types.Struct)
		if !ok1 || !ok2 {
			continue
		}
		nconv++
		for i := 0; i < ts.NumFields(); i++ {
			tf := ts.Field(i)
			var ff *types.Var
			for j := 0; j < fs.NumFields(); j++ {
				if fs.Field(j).Name() == tf.Name() && types.Identical(fs.Field(j).Type(), tf.Type()) {
					ff = fs.Field(j)
				}
			}
			if ff == nil {
				continue
			}
			okCopy := false
			for _, st := range FieldStoresByName(fn, tf.Name()) {
				if g, _ := FieldOf(st.Addr); g == tf && AllOrigins(st.Val, func(o ssa.Value) bool { return LoadedField(o) == ff }) {
					okCopy = true
				}
			}
			c.Report(okCopy, id, "SIBLING-CODEC-SAME-OPTIONS", fn, fn.Pos(), from.Obj().Name()+"."+fn.Name()+": option "+tf.Name(), "the sibling marshaler gets this marshaler's "+tf.Name()+" (the two must generate the same names and UUIDs)")
		}
	}
	c.Report(true, id, "SIBLING-CODECS-SCANNED", nil, token.NoPos, "package cqrs", fmt.Sprintf("%d marshaler-to-marshaler conversions examined", nconv))
}

func c16Reply(c *Check, id string) {
	const rel = "components/requestreply"
	T := c.P.Named(rel, "BackendPubsubJSONMarshaler")
	if T == nil {
		c.Floor(id, "type requestreply.BackendPubsubJSONMarshaler", 0, 1)
		return
	}
	mar, unm := c.P.MethodOf(T, "MarshalReply"), c.P.MethodOf(T, "UnmarshalReply")
	if !c.Use(id, mar, "MarshalReply") || !c.Use(id, unm, "UnmarshalReply") {
		return
	}
	errKey, ok1 := c.P.ExportedConstString(rel, "ErrorMetadataKey")
	hasKey, ok2 := c.P.ExportedConstString(rel, "HasErrorMetadataKey")
	if !c.Floor(id, "exported reply metadata keys", b2i(ok1)+b2i(ok2), 2) {
		return
	}
	isHandleErr := func(v ssa.Value) bool {
		return AllOrigins(v, func(o ssa.Value) bool {
			f := LoadedField(o)
			return f != nil && f.Name() == "HandleErr"
		})
	}
	_, errSet := NilEdges(mar, isHandleErr)
	errNil, _ := NilEdges(mar, isHandleErr)
	flagOn := ""
	nW := 0
	for _, s := range CallsTo(mar, nMetaSet) {
		k, _ := ConstString(Arg(s, 0))
		switch k {
		case errKey:
			nW++
			call, ok := firstOrigin(Arg(s, 1)).(*ssa.Call)
			okV := ok && CalleeName(call) == "(error).Error" && isHandleErr(call.Call.Value)
			c.Report(okV && GuardedBy(mar, s, errSet), id, "REPLY-WRITE/error-text", mar, s.Pos(), "ErrorMetadataKey", "the handler error's text is written under ErrorMetadataKey on the error edge")
		case hasKey:
			// one write whose value was chosen before: a phi of two constants, the 'has error' one coming in on the error edge
			if phi, isPhi := Arg(s, 1).(*ssa.Phi); isPhi && len(phi.Edges) == 2 && !GuardedBy(mar, s, errSet) && !GuardedBy(mar, s, errNil) {
				on, off, okPhi := "", "", true
				for i, e := range phi.Edges {
					v, isC := ConstString(e)
					pred := phi.Block().Preds[i]
					term := pred.Instrs[len(pred.Instrs)-1]
					viaErr := GuardedBy(mar, term, errSet) || edgeIs(pred, phi.Block(), errSet)
					if !isC {
						okPhi = false
					} else if viaErr {
						on = v
					} else {
						off = v
					}
				}
				okPhi = okPhi && on != "" && off != "" && on != off
				c.Report(okPhi, id, "REPLY-WRITE/flag-chosen", mar, s.Pos(), "HasErrorMetadataKey", "the flag value is chosen before the write: the 'has error' value on the handler-error edge, a different one otherwise")
				if okPhi {
					nW++
					flagOn = on
				}
				continue
			}
			v, _ := ConstString(Arg(s, 1))
			if GuardedBy(mar, s, errSet) && len(errSet) > 0 {
				nW++
				flagOn = v
			} else {
				c.Report(GuardedBy(mar, s, errNil), id, "REPLY-WRITE/flag-off", mar, s.Pos(), "HasErrorMetadataKey", "the 'no error' flag value is written only when there is no handler error")
				if flagOn != "" {
					c.Report(v != flagOn, id, "REPLY-WRITE/flag-distinct", mar, s.Pos(), "HasErrorMetadataKey", "the two flag values differ")
				}
			}
		}
	}
	c.Floor(id, "MarshalReply: writes of error text and error flag on the error edge", nW, 2)
	jm := CallsTo(mar, "encoding/json.Marshal")
	if c.Floor(id, "MarshalReply: json.Marshal of the result", len(jm), 1) {
		okR := AllOrigins(unwrapIface(jm[0].Common().Args[0]), func(o ssa.Value) bool {
			f := LoadedField(o)
			return f != nil && f.Name() == "HandlerResult"
		})
		c.Report(okR, id, "REPLY-WRITE/result", mar, jm[0].Pos(), "HandlerResult", "the handler result is JSON-encoded")
		okP := false
		isEnc := func(v ssa.Value) bool { return IsResultOf(v, jm[0], 0) }
		for _, st := range FieldStoresByName(mar, "Payload") {
			if AllOrigins(unwrapSliceConv(st.Val), isEnc) {
				okP = true
			} else {
				okP = false
				break
			}
			// … whatever it looks like: every successful return has passed the store (an encoding left out for some results —
			// "null", an empty object — is an encoding the decoder cannot read back)
			for _, ret := range Returns(mar) {
				if RetNil(ret, len(ret.Results)-1) && !Dominates(mar, st, ret) {
					okP = false
				}
			}
			if !okP {
				break
			}
		}
		if len(FieldStoresByName(mar, "Payload")) == 0 {
			// or the message is built with the encoded result right away
			for _, nm := range CallsTo(mar, nNewMessage) {
				if AllOrigins(unwrapSliceConv(nm.Common().Args[1]), isEnc) {
					okP = true
				}
			}
		}
		c.Report(okP, id, "REPLY-WRITE/payload", mar, jm[0].Pos(), "payload", "the encoded result is the reply's payload")
	}
	// reader
	var onEdges []Edge
	for _, t := range Tests(unm) {
		if t.Op != token.EQL || t.Y == nil {
			continue
		}
		x, y := t.X, t.Y
		if _, ok := ConstString(x); ok {
			x, y = y, x
		}
		cv, okc := ConstString(y)
		g, okg := firstOrigin(x).(*ssa.Call)
		if okc && okg && CalleeName(g) == nMetaGet {
			k, _ := ConstString(Arg(g, 0))
			if k == hasKey {
				c.Report(cv == flagOn && flagOn != "", id, "REPLY-READ/flag", unm, t.If.Pos(), "HasErrorMetadataKey", "the reader tests the flag against the value the writer uses for 'has error' ("+flagOn+")")
				onEdges = append(onEdges, t.True)
			}
		}
	}
	c.Floor(id, "UnmarshalReply: test of the error flag", len(onEdges), 1)
	nE := 0
	for _, cl := range CallsIn(unm) {
		n := CalleeName(cl)
		if n != "github.com/pkg/errors.New" && n != "errors.New" {
			continue
		}
		g, ok := firstOrigin(cl.Common().Args[0]).(*ssa.Call)
		if !ok || CalleeName(g) != nMetaGet {
			continue
		}
		k, _ := ConstString(Arg(g, 0))
		nE++
		c.Report(k == errKey && GuardedBy(unm, cl, onEdges), id, "REPLY-READ/error-text", unm, cl.Pos(), "ErrorMetadataKey", "the reply's error is rebuilt from the text under ErrorMetadataKey, only on the 'has error' edge")
	}
	c.Floor(id, "UnmarshalReply: errors.New(<error text>)", nE, 1)
	ju := CallsTo(unm, "encoding/json.Unmarshal")
	if c.Floor(id, "UnmarshalReply: json.Unmarshal of the payload", len(ju), 1) {
		pf := LoadedField(firstOrigin(unwrapSliceConv(ju[0].Common().Args[0])))
		c.Report(pf != nil && pf.Name() == "Payload", id, "REPLY-READ/result", unm, ju[0].Pos(), "payload", "the result is decoded from the reply's payload")
	}
}

// FieldStoresByName lists stores into any field named name (exported API fields).
func FieldStoresByName(fn *ssa.Function, name string) []*ssa.Store {
	var out []*ssa.Store
	AllInstrs(fn, func(in ssa.Instruction) {
		if st, ok := in.(*ssa.Store); ok {
			if g, _ := FieldOf(st.Addr); g != nil && g.Name() == name && g.Exported() {
				out = append(out, st)
			}
		}
	})
	return out
}

// c16Metadata: Metadata.Set stores every key/value it is given (also empty
// values) and Get reads the key back; Copy relies on it for every entry.
func c16Metadata(c *Check, id string) {
	M := c.P.Named("message", "Metadata")
	if M == nil {
		c.Floor(id, "type message.Metadata", 0, 1)
		return
	}
	set, get := c.P.MethodOf(M, "Set"), c.P.MethodOf(M, "Get")
	if !c.Use(id, set, "Metadata.Set") || !c.Use(id, get, "Metadata.Get") {
		return
	}
	var upd *ssa.MapUpdate
	AllInstrs(set, func(in ssa.Instruction) {
		if mu, ok := in.(*ssa.MapUpdate); ok && FromParam(set.Params[0])(mu.Map) {
			upd = mu
		}
	})
	ok := upd != nil && FromParam(set.Params[1])(upd.Key) && FromParam(set.Params[2])(upd.Value)
	if ok {
		for _, r := range Returns(set) {
			if !Dominates(set, upd, r) {
				ok = false
			}
		}
	}
	ok = ok && len(BuiltinCalls(set, "delete")) == 0
	c.Report(ok, id, "METADATA-SET-STORES", set, set.Pos(), "Metadata.Set", "Set stores exactly (key, value) on every path, also for empty values, and never deletes (Copy's metadata is complete)")
	okG := false
	AllInstrs(get, func(in ssa.Instruction) {
		if lk, isLk := in.(*ssa.Lookup); isLk && FromParam(get.Params[0])(lk.X) && FromParam(get.Params[1])(lk.Index) {
			okG = true
		}
	})
	c.Report(okG, id, "METADATA-GET-READS", get, get.Pos(), "Metadata.Get", "Get looks up exactly the given key")
}

// reflectTag is reflect.StructTag.Get without importing reflect's conventions elsewhere.
func reflectTag(tag, key string) string {
	return reflect.StructTag(tag).Get(key)
}

// rangeValueOf: v is the value of the current entry of the range behind next — the value the range yields, or a plain
// lookup of the ranged map (isSrc) at the key the range yields.
func rangeValueOf(next *ssa.Next, isSrc func(ssa.Value) bool) func(ssa.Value) bool {
	isKey := func(v ssa.Value) bool {
		e, ok := v.(*ssa.Extract)
		return ok && e.Tuple == ssa.Value(next) && e.Index == 1
	}
	return func(v ssa.Value) bool {
		if e, ok := v.(*ssa.Extract); ok && e.Tuple == ssa.Value(next) && e.Index == 2 {
			return true
		}
		if l, ok := v.(*ssa.Lookup); ok && !l.CommaOk && isSrc(l.X) && AllOrigins(l.Index, isKey) {
			return true
		}
		return false
	}
}
