package wm

import (
	"go/types"

	"golang.org/x/tools/go/ssa"
)

// RouterRoles locates the router's private constructs by what they do.
type RouterRoles struct {
	Dispatch   *ssa.Function // D: callee of `go` taking (msg *Message, chain HandlerFunc)
	RunLoop    *ssa.Function // L: function containing that go
	GoDispatch *ssa.Go
	MsgParam   *ssa.Parameter // D's consumed message
	ChainParam *ssa.Parameter // D's handler chain
	ChainCalls []ssa.CallInstruction
	PubCalls   []ssa.CallInstruction // calls in D through which Publisher.Publish is reached
	HandlerT   *types.Named          // the private handler struct
	// when the chain is invoked through a helper: the helper, the chain calls inside it, and its message parameter
	ChainHelper *ssa.Function
	ChainInner  []ssa.CallInstruction
	HelperMsg   *ssa.Parameter
}

func (c *Check) routerRoles(id string) *RouterRoles {
	r := &RouterRoles{}
	p := c.P
	for _, fn := range p.SrcFuncs("message") {
		AllInstrs(fn, func(in ssa.Instruction) {
			g, ok := in.(*ssa.Go)
			if !ok {
				return
			}
			cal := CalleeFn(&g.Call)
			if cal == nil || len(cal.Blocks) == 0 {
				return
			}
			if len(ParamsOfType(cal, tHandlerFunc)) == 1 && len(ParamsOfType(cal, tMessagePtr)) == 1 {
				if r.Dispatch != nil && r.Dispatch != cal {
					r.Dispatch = nil // ambiguous
					return
				}
				r.Dispatch, r.RunLoop, r.GoDispatch = cal, fn, g
			}
		})
	}
	n := 0
	if r.Dispatch != nil {
		n = 1
	}
	if !c.Floor(id, "router dispatch function (callee of `go f(msg, chain)` in package message)", n, 1) {
		return nil
	}
	D := r.Dispatch
	c.Use(id, D, "dispatch function")
	c.Use(id, r.RunLoop, "run loop")
	r.MsgParam = ParamsOfType(D, tMessagePtr)[0]
	r.ChainParam = ParamsOfType(D, tHandlerFunc)[0]
	if recv := D.Signature.Recv(); recv != nil {
		r.HandlerT = NamedOf(recv.Type())
	}
	for _, cl := range CallsIn(D) {
		if _, isGo := cl.(*ssa.Go); isGo {
			continue
		}
		if !cl.Common().IsInvoke() && CalleeFn(cl.Common()) == nil && FromParam(r.ChainParam)(cl.Common().Value) {
			r.ChainCalls = append(r.ChainCalls, cl)
		}
	}
	if len(r.ChainCalls) == 0 {
		// the chain may be invoked through an in-package helper taking (chain, msg)
		for _, cl := range CallsIn(D) {
			H := CalleeFn(cl.Common())
			if H == nil || H.Pkg != D.Pkg || len(H.Blocks) == 0 {
				continue
			}
			if _, isCall := cl.(*ssa.Call); !isCall {
				continue
			}
			var hChain, hMsg *ssa.Parameter
			for i, a := range cl.Common().Args {
				if i >= len(H.Params) {
					break
				}
				if FromParam(r.ChainParam)(a) {
					hChain = H.Params[i]
				}
				if FromParam(r.MsgParam)(a) {
					hMsg = H.Params[i]
				}
			}
			rs := H.Signature.Results()
			if hChain == nil || hMsg == nil || rs.Len() != 2 || !IsErrorType(rs.At(1).Type()) {
				continue
			}
			var inner []ssa.CallInstruction
			for _, f := range WithAnon(H) {
				for _, c2 := range CallsIn(f) {
					if !c2.Common().IsInvoke() && CalleeFn(c2.Common()) == nil && AllOrigins(c2.Common().Value, IsParam(hChain)) {
						inner = append(inner, c2)
					}
				}
			}
			if len(inner) == 0 {
				continue
			}
			r.ChainCalls = append(r.ChainCalls, cl)
			r.ChainHelper, r.ChainInner, r.HelperMsg = H, inner, hMsg
		}
	}
	r.PubCalls = CallsLeadingTo(D, 3, nPublish)
	return r
}

// SettleSites returns the calls in fn that settle a message satisfying isMsg:
// direct Ack/Nack calls, and calls of in-package helpers that may do so on a
// parameter bound to such a message (depth 2). kind is nAck or nNack.
func SettleSites(fn *ssa.Function, kind string, isMsg func(ssa.Value) bool, depth int) []ssa.CallInstruction {
	var out []ssa.CallInstruction
	for _, cl := range CallsIn(fn) {
		if IsCallTo(cl, kind) {
			if r := Receiver(cl); r != nil && isMsg(r) {
				out = append(out, cl)
			}
			continue
		}
		if depth <= 0 {
			continue
		}
		if _, isCall := cl.(*ssa.Call); !isCall {
			continue // a deferred / spawned helper does not settle at this program point
		}
		cal := CalleeFn(cl.Common())
		if cal == nil || cal.Pkg != fn.Pkg || len(cal.Blocks) == 0 {
			continue
		}
		args := cl.Common().Args
		for i, a := range args {
			if i >= len(cal.Params) || !isMsg(a) {
				continue
			}
			if len(SettleSites(cal, kind, FromParam(cal.Params[i]), depth-1)) > 0 {
				out = append(out, cl)
				break
			}
		}
	}
	return out
}

func instrsOf(cs []ssa.CallInstruction) []ssa.Instruction {
	out := make([]ssa.Instruction, len(cs))
	for i, c := range cs {
		out[i] = c
	}
	return out
}
