package wm

import (
	"fmt"
	"go/token"
	"go/types"
	"strings"

	"golang.org/x/tools/go/ssa"
)

func init() {
	register(&PropDef{
		ID:  "C14",
		Run: runC14,
		Explanation: "Decides for the map-backed ExpiringKeyRepository, the Deduplicator middleware/decorator and the built-in hashers: every access to the tag map holds the repository mutex; in IsDuplicate the lookup and the insert lie in one critical section (no unlock on any path between them), the insert is reachable only on the not-found edge and uses the looked-up key, 'duplicate' is answered only on the found edge — hence among any number of concurrent callers with one key exactly one sees 'new'; " +
			"the middleware calls the handler only behind (repository error == nil ∧ !duplicate) and answers duplicates with (nil, nil); the decorator Acks duplicates, forwards the rest in order in one inner Publish; the stored expiry is time.Now()+window and clean-up deletes only entries whose expiry is before the tick; the map key is exactly the given key; hashers read only the payload, through CopyN limited by max(readLimit, minimum). " +
			"Not decided: wall-clock retention (ticker scheduling), collision behaviour of Adler-32/SHA-256.",
		Assumptions: commonAssumptions,
	})
}

func runC14(c *Check) {
	LostReceiverStores(c, "C14.CFG", "message/router/middleware")
	DefaultsApplied(c, "C14.CFG", "message/router/middleware")
	P := "C14"
	const rel = "message/router/middleware"
	ctor := c.P.Func(rel, "NewMapExpiringKeyRepository")
	if !c.Use(P+".O1", ctor, "middleware.NewMapExpiringKeyRepository") {
		return
	}
	var T *types.Named
	for _, r := range Returns(ctor) {
		for _, o := range RetOrigins(r, 0) {
			if mi, ok := o.(*ssa.MakeInterface); ok {
				if n := NamedOf(mi.X.Type()); n != nil {
					T = n
				}
			}
		}
	}
	if !c.Floor(P+".O1", "dynamic type returned by NewMapExpiringKeyRepository", b2i(T != nil), 1) {
		return
	}
	isDup := c.P.MethodOf(T, "IsDuplicate")
	if !c.Use(P+".O1", isDup, "repository IsDuplicate") {
		return
	}
	maps := FieldsByType(T, func(t types.Type) bool { return t.String() == "map[string]time.Time" })
	mus := FieldsByType(T, func(t types.Type) bool { return t.String() == "*sync.Mutex" || t.String() == "sync.Mutex" })
	wins := FieldsByType(T, TypeIs("time.Duration"))
	if !c.Floor(P+".O1", "repository fields: tag map, mutex, window", b2i(len(maps) == 1)+b2i(len(mus) == 1)+b2i(len(wins) == 1), 3) {
		return
	}
	tags, muF, win := maps[0], mus[0], wins[0]
	la := NewLockAn(c.P, rel)
	mu := la.canon(fieldID(muF))
	nacc := 0
	for _, a := range la.Accesses(tags) {
		fn := HomeFn(a.Ins.Parent())
		if fn == ctor {
			continue
		}
		nacc++
		held := la.Held(a.Ins)
		_, ok := held[mu]
		c.Report(ok, P+".O1", "GUARDED-BY", fn, a.Ins.Pos(), a.What+" of tag map", "every access to the tag map holds the repository mutex", "held: "+held.String())
	}
	c.Floor(P+".O1", "accesses to the tag map", nacc, 5)
	// keys are forgotten one by one, when they have expired: the map itself is made once, by the constructor, and never
	// replaced or emptied wholesale (a reset forgets keys that are still inside their window)
	nrep := 0
	for _, fn := range c.P.SrcFuncs(rel) {
		if HomeFn(fn) == ctor || outermost(fn) == ctor {
			continue
		}
		for _, st := range FieldStores(fn, tags) {
			nrep++
			c.Report(false, P+".O1", "TAG-MAP-NEVER-REPLACED", fn, st.Pos(), "store to the tag map field", "the tag map is created by the constructor and never replaced: keys leave it only by the expiry sweep")
		}
		for _, cl := range CallsIn(fn) {
			if args, ok := IsBuiltinCall(valueOfCall(cl), "clear"); ok && len(args) == 1 && AllOrigins(args[0], IsFieldLoad(tags)) {
				nrep++
				c.Report(false, P+".O1", "TAG-MAP-NEVER-REPLACED", fn, cl.Pos(), "clear of the tag map", "the tag map is never emptied wholesale: keys leave it only by the expiry sweep")
			}
		}
	}
	c.Report(true, P+".O1", "TAG-MAP-REPLACEMENTS-SCANNED", isDup, isDup.Pos(), "repository", fmt.Sprintf("%d replacements of the tag map outside the constructor", nrep))

	// lookup / insert in IsDuplicate
	var lookups []*ssa.Lookup
	var updates []*ssa.MapUpdate
	isTags := func(v ssa.Value) bool { return AllOrigins(v, IsFieldLoad(tags)) }
	AllInstrs(isDup, func(ins ssa.Instruction) {
		switch x := ins.(type) {
		case *ssa.Lookup:
			if isTags(x.X) {
				lookups = append(lookups, x)
			}
		case *ssa.MapUpdate:
			if isTags(x.Map) {
				updates = append(updates, x)
			}
		}
	})
	if !c.Floor(P+".O1", "lookup of the key in IsDuplicate", len(lookups), 1) || !c.Floor(P+".O1", "insert of the key in IsDuplicate", len(updates), 1) {
		return
	}
	keyP := ParamsOfType(isDup, "string")
	if !c.Floor(P+".O4", "key parameter of IsDuplicate", len(keyP), 1) {
		return
	}
	lk, up := lookups[0], updates[0]
	c.Report(len(lookups) == 1 && len(updates) == 1, P+".O1", "ONE-LOOKUP-ONE-INSERT", isDup, lk.Pos(), "IsDuplicate", "exactly one lookup and one insert site")
	c.Report(FromParam(keyP[0])(lk.Index) && FromParam(keyP[0])(up.Key), P+".O4", "KEY-EXACT", isDup, up.Pos(), "IsDuplicate", "lookup and insert use exactly the given key (different keys never suppress each other)")
	var found, notFound []Edge
	if lk.CommaOk {
		for _, t := range Tests(isDup) {
			if e, ok := t.X.(*ssa.Extract); ok && t.Op == token.ILLEGAL && e.Tuple == ssa.Value(lk) && e.Index == 1 {
				found = append(found, t.True)
				notFound = append(notFound, t.False)
			}
		}
	}
	if !c.Floor(P+".O1", "test of the lookup's `found` result", len(found), 1) {
		return
	}
	c.Report(GuardedBy(isDup, up, notFound), P+".O1", "INSERT-ONLY-IF-NEW", isDup, up.Pos(), "insert", "the key is inserted only on the not-found edge")
	// no unlock between lookup and insert
	var unlocks []ssa.Instruction
	for _, cl := range CallsIn(isDup) {
		if op, ok := la.opOf(cl); ok && (op.mode == 'w' || op.mode == 'r') && op.id == mu {
			if _, isDefer := cl.(*ssa.Defer); !isDefer {
				unlocks = append(unlocks, cl)
			}
		}
	}
	split := false
	var wit []string
	for _, u := range unlocks {
		if ReachAfter(lk, NewCut().AddInstrs(up))[u] && ReachAfter(u, nil)[up] {
			split = true
			wit = append(wit, "unlock at "+c.P.Pos(u.Pos())+" lies on a path from the lookup to the insert")
		}
	}
	c.Report(!split, P+".O1", "ATOMIC-CHECK-INSERT", isDup, lk.Pos(), "lookup…insert", "no path from the lookup to the insert releases the mutex (check and insert are one critical section)", wit...)
	for i, r := range Returns(isDup) {
		k := fmt.Sprintf("return#%d", i)
		for _, v := range RetOrigins(r, 0) {
			if e, isE := v.(*ssa.Extract); isE && e.Index == 1 && e.Tuple == ssa.Value(lk) {
				// the lookup's own `found` flag is the answer: right by construction; a new key must have been inserted by then
				okIns := true
				for _, ne := range notFound {
					if ReachEdge(ne, NewCut().AddInstrs(up))[r] {
						okIns = false
					}
				}
				c.Report(okIns, P+".O1", "ANSWER-NEW-ONLY-AFTER-INSERT", isDup, r.Pos(), k, "the answer is the lookup's found flag, and on the not-found edge the key is inserted before returning")
				continue
			}
			cst, ok := v.(*ssa.Const)
			if !ok || cst.Value == nil {
				c.Undecided(P+".O1", "ANSWER", isDup, r.Pos(), k, "the result is not a constant; cannot establish the found/not-found answer")
				continue
			}
			if cst.Value.String() == "true" {
				c.Report(GuardedBy(isDup, r, found), P+".O1", "ANSWER-DUPLICATE-ONLY-IF-FOUND", isDup, r.Pos(), k, "'duplicate' is answered only on the found edge")
			} else {
				c.Report(GuardedBy(isDup, r, notFound) && Dominates(isDup, up, r), P+".O1", "ANSWER-NEW-ONLY-AFTER-INSERT", isDup, r.Pos(), k, "'new' is answered only on the not-found edge and after the key was inserted")
			}
		}
		c.Report(RetNil(r, 1), P+".O1", "ANSWER-NO-ERROR", isDup, r.Pos(), k, "the in-memory repository never fails")
	}

	// O3 expiry
	okExp := false
	if call, ok := firstOrigin(up.Value).(*ssa.Call); ok && CalleeName(call) == "(time.Time).Add" {
		now, isNow := firstOrigin(call.Call.Args[0]).(*ssa.Call)
		okExp = isNow && CalleeName(now) == "time.Now" && AllOrigins(call.Call.Args[1], IsFieldLoad(win))
	}
	c.Report(okExp, P+".O3", "EXPIRY-IS-NOW-PLUS-WINDOW", isDup, up.Pos(), "stored expiry", "the stored expiry is time.Now() plus the configured window")
	for _, prm := range ParamsOfType(ctor, "time.Duration") {
		fs := FieldsStoringParam(ctor, prm)
		c.Report(len(fs) == 1 && fs[0] == win, P+".O3", "WINDOW-CONFIGURED", ctor, ctor.Pos(), "window", "the constructor stores the given window")
	}
	ndel := 0
	// the standard library's maps.DeleteFunc(tags, pred) visits every entry and deletes those pred accepts: with
	// pred = "the stored expiry is before the tick" it is the sweep
	var deleteFuncFns []*ssa.Function
	for _, fn := range la.Funcs {
		for _, cl := range CallsIn(fn) {
			cal := CalleeFn(cl.Common())
			if cal == nil || cal.Pkg == nil || cal.Pkg.Pkg.Path() != "maps" || !strings.HasPrefix(cal.Name(), "DeleteFunc") || len(cl.Common().Args) != 2 || !isTags(cl.Common().Args[0]) {
				continue
			}
			ndel++
			deleteFuncFns = append(deleteFuncFns, HomeFn(fn))
			pred := FuncOfValue(firstOrigin(cl.Common().Args[1]))
			okPred := false
			if pred != nil && len(pred.Params) == 2 {
				ticks := ParamsOfType(fn, "time.Time")
				okPred = true
				for _, r := range Returns(pred) {
					call, isCall := firstOrigin(r.Results[0]).(*ssa.Call)
					if !isCall || len(call.Call.Args) != 2 {
						okPred = false
						continue
					}
					isTick := func(v ssa.Value) bool {
						return len(ticks) == 1 && AllOrigins(v, func(o ssa.Value) bool {
							if fv, isFV := o.(*ssa.FreeVar); isFV {
								b := FreeVarBinding(fv)
								return b != nil && FromParam(ticks[0])(b)
							}
							return FromParam(ticks[0])(o)
						})
					}
					isExp := FromParam(pred.Params[1])
					a0, a1 := call.Call.Args[0], call.Call.Args[1]
					switch CalleeName(call) {
					case "(time.Time).Before":
						okPred = okPred && isExp(a0) && isTick(a1)
					case "(time.Time).After":
						okPred = okPred && isTick(a0) && isExp(a1)
					default:
						okPred = false
					}
				}
			}
			c.Report(okPred, P+".O3", "EXPIRY-COMPARISON", fn, cl.Pos(), "maps.DeleteFunc", "an entry is deleted only when its stored expiry is before (not after) the clean-up tick")
			c.Report(!InLoop(cl), P+".O3", "CLEANUP-SWEEPS-ALL", fn, cl.Pos(), "maps.DeleteFunc", "one clean-up pass visits every entry (maps.DeleteFunc over the whole tag map)")
		}
	}
	for _, fn := range la.Funcs {
		for _, cl := range BuiltinCalls(fn, "delete") {
			if !isTags(cl.Common().Args[0]) {
				continue
			}
			ndel++
			// the deleted key and the tested expiry come from the same range step
			kx, ok := firstOrigin(cl.Common().Args[1]).(*ssa.Extract)
			if !ok || kx.Index != 1 {
				c.Undecided(P+".O3", "EXPIRY-COMPARISON", fn, cl.Pos(), "delete", "cannot relate the deleted key to a range step over the tag map")
				continue
			}
			next := kx.Tuple
			isExp := func(v ssa.Value) bool {
				e, ok := v.(*ssa.Extract)
				return ok && e.Tuple == next && e.Index == 2
			}
			ticks := ParamsOfType(fn, "time.Time")
			isTick := func(v ssa.Value) bool { return len(ticks) == 1 && FromParam(ticks[0])(v) }
			var expired []Edge
			for _, t := range Tests(fn) {
				if t.Op != token.ILLEGAL {
					continue
				}
				call, ok := t.X.(*ssa.Call)
				if !ok {
					continue
				}
				n := CalleeName(call)
				a0, a1 := call.Call.Args[0], call.Call.Args[1]
				switch {
				case n == "(time.Time).Before" && AllOrigins(a0, isExp) && isTick(a1): // expires.Before(tick)
					expired = append(expired, t.True)
				case n == "(time.Time).After" && isTick(a0) && AllOrigins(a1, isExp): // tick.After(expires)
					expired = append(expired, t.True)
				case n == "(time.Time).After" && AllOrigins(a0, isExp) && isTick(a1): // !expires.After(tick)
					expired = append(expired, t.False)
				case n == "(time.Time).Before" && isTick(a0) && AllOrigins(a1, isExp): // !tick.Before(expires)
					expired = append(expired, t.False)
				}
			}
			c.Report(len(expired) > 0 && GuardedBy(fn, cl, expired), P+".O3", "EXPIRY-COMPARISON", fn, cl.Pos(), "delete", "an entry is deleted only on the edge where its stored expiry is before (not after) the clean-up tick")
			// the sweep is complete: after a delete the loop goes on to the next entry (no early end that leaves expired keys behind)
			if nx, isNx := next.(ssa.Instruction); isNx {
				re := ReachAfter(cl, NewCut().AddInstrs(nx))
				okFull := true
				for _, ret := range Returns(fn) {
					if re[ret] {
						okFull = false
					}
				}
				c.Report(okFull, P+".O3", "CLEANUP-SWEEPS-ALL", fn, cl.Pos(), "delete", "one clean-up pass visits every entry: a delete is always followed by the next step of the range (a bounded batch would let expired keys keep suppressing messages)")
			}
		}
	}
	c.Floor(P+".O3", "delete from the tag map", ndel, 1)
	// the clean-up keeps running for the life of the repository: it is the only thing that lets a key be accepted again
	var sweepFns []*ssa.Function
	for _, fn := range la.Funcs {
		for _, cl := range BuiltinCalls(fn, "delete") {
			if isTags(cl.Common().Args[0]) {
				sweepFns = append(sweepFns, HomeFn(fn))
			}
		}
	}
	sweepFns = append(sweepFns, deleteFuncFns...)
	nloop := 0
	for _, sf := range sweepFns {
		for _, site := range Callers(la.Funcs, sf) {
			L := HomeFn(site.Parent())
			if !InLoop(site) {
				continue
			}
			nloop++
			var done []Edge
			for _, si := range Selects(L) {
				for _, cs := range si.Cases {
					if call, isCall := firstOrigin(cs.Chan).(*ssa.Call); isCall && !cs.Send && CalleeName(call) == "(context.Context).Done" && cs.Edge != nil {
						done = append(done, *cs.Edge)
					}
				}
			}
			// … and it does end then: from the Done() case a return is reached without another round of the select
			for _, e := range done {
				var sels []ssa.Instruction
				for _, si := range Selects(L) {
					sels = append(sels, si.Sel)
				}
				re := ReachEdge(e, NewCut().AddInstrs(sels...))
				ends := false
				for _, ret := range Returns(L) {
					if re[ret] {
						ends = true
					}
				}
				c.Report(ends, P+".O3", "CLEANUP-ENDS-WITH-ITS-CONTEXT", L, e.From.Instrs[len(e.From.Instrs)-1].Pos(), "Done() case of the clean-up loop", "when its context ends the clean-up goroutine returns (it does not go on sweeping for ever)")
			}
			for i, ret := range Returns(L) {
				c.Report(len(done) > 0 && GuardedBy(L, ret, done), P+".O3", "CLEANUP-ENDS-ONLY-WITH-ITS-CONTEXT", L, ret.Pos(), fmt.Sprintf("clean-up loop return#%d", i), "the clean-up loop ends only through its context's Done() case (an idle or empty repository must keep being swept: keys added later have to expire too)")
			}
			// started by the constructor on every successful path
			startsLoop := func(in ssa.Instruction) bool {
				g, isGo := in.(*ssa.Go)
				if !isGo {
					return false
				}
				cal := CalleeFn(&g.Call)
				if cal == nil {
					cal = FuncOfValue(firstOrigin(g.Call.Value))
				}
				return cal == L || (cal != nil && len(Callers([]*ssa.Function{cal}, L)) > 0)
			}
			var gos []ssa.Instruction
			AllInstrs(ctor, func(in ssa.Instruction) {
				if startsLoop(in) {
					gos = append(gos, in)
					return
				}
				// or a helper of the package, called in place, that starts it on all its paths
				if call, isCall := in.(*ssa.Call); isCall {
					if h := CalleeFn(call.Common()); h != nil && h.Pkg == ctor.Pkg && len(h.Blocks) > 0 {
						var hg []ssa.Instruction
						rawInstrs(h, func(x ssa.Instruction) {
							if startsLoop(x) {
								hg = append(hg, x)
							}
						})
						if len(hg) > 0 {
							all := true
							re := rawReachEntry(h, hg)
							for _, r := range Returns(h) {
								if re[r] {
									all = false
								}
							}
							if all {
								gos = append(gos, in)
							}
						}
					}
				}
			})
			okStart := len(gos) > 0
			if okStart {
				re := ReachEntry(ctor, NewCut().AddInstrs(gos...))
				for _, ret := range Returns(ctor) {
					if re[ret] && RetNil(ret, 1) {
						okStart = false
					}
				}
			}
			// the sweep's period is a positive fraction of the window for every window the constructor accepts
			for _, f := range append([]*ssa.Function{ctor}, sameReceiverCalleesOf(ctor)...) {
				for _, tk := range CallsTo(f, "time.NewTicker") {
					arg := firstOrigin(tk.Common().Args[0])
					bo, isBO := arg.(*ssa.BinOp)
					okP := false
					if isBO && bo.Op == token.QUO {
						k, isC := IntConst(bo.Y)
						okP = isC && k >= 1 && k <= 1000 && AllOrigins(bo.X, func(o ssa.Value) bool { _, isP := o.(*ssa.Parameter); return isP || LoadedField(o) == win })
					}
					c.Report(okP, P+".O3", "CLEANUP-PERIOD", f, tk.Pos(), "time.NewTicker", "the clean-up period is the window divided by a small constant — never rounded or truncated to something that can be zero (NewTicker panics) or longer than the window")
				}
			}
			c.Report(okStart, P+".O3", "CLEANUP-STARTED-WITH-THE-REPOSITORY", ctor, ctor.Pos(), "constructor", "every repository the constructor hands out has its clean-up loop running (started by the constructor, not lazily by a later call)")
		}
	}
	c.Floor(P+".O3", "clean-up loop calling the sweep", nloop, 1)

	la.ReportLeaks(c, P+".O1", la.Funcs)
	c14Defaults(c, P)
	c14Dedup(c, P)
	c14Hashers(c, P)
}

// c14Defaults: the defaults are filled into the Deduplicator the caller gave, so
// that every middleware / decorator built from one Deduplicator shares one repository.
func c14Defaults(c *Check, P string) {
	const rel = "message/router/middleware"
	D := c.P.Named(rel, "Deduplicator")
	if D == nil {
		return
	}
	mw := c.P.MethodOf(D, "Middleware")
	if !c.Use(P+".O2", mw, "Deduplicator.Middleware") {
		return
	}
	var def *ssa.Function
	for _, cl := range CallsIn(mw) {
		cal := CalleeFn(cl.Common())
		if cal != nil && cal.Pkg == mw.Pkg && cal.Signature.Params().Len() == 1 && cal.Signature.Results().Len() == 1 && NamedOf(cal.Signature.Results().At(0).Type()) == D {
			def = cal
		}
	}
	if !c.Use(P+".O2", def, "defaults function of the Deduplicator") {
		return
	}
	dP := def.Params[0]
	isNil, notNil := NilEdges(def, FromParam(dP))
	c.Floor(P+".O2", "test `deduplicator == nil` in the defaults function", len(isNil), 1)
	for i, r := range Returns(def) {
		k := fmt.Sprintf("defaults return#%d", i)
		for _, v := range RetOrigins(r, 0) {
			if v == ssa.Value(dP) {
				continue
			}
			if al, ok := v.(*ssa.Alloc); ok && al != nil {
				c.Report(GuardedBy(def, r, isNil), P+".O2", "DEFAULTS-SHARED", def, r.Pos(), k, "a new Deduplicator is created only when none was given; otherwise the caller's own instance is completed and returned, so that all its wrappings share one repository (one message per key overall)")
				continue
			}
			c.Report(false, P+".O2", "DEFAULTS-SHARED", def, r.Pos(), k, "the defaults function returns something other than the caller's Deduplicator")
		}
	}
	// the default repository is stored into the caller's instance
	okSt := false
	for _, st := range FieldStoresByName(def, "Repository") {
		if _, base := FieldOf(st.Addr); base != nil && FromParam(dP)(base) && GuardedBy(def, st, notNil) {
			okSt = true
		}
	}
	c.Report(okSt, P+".O2", "DEFAULT-REPOSITORY-KEPT", def, def.Pos(), "default repository", "a default repository is stored in the caller's Deduplicator (not in a private copy)")
	// what the caller configured is kept: a field of the caller's Deduplicator is overwritten only on the edge on which it
	// was found unset (key factory, repository: nil; timeout: below the floor) — a default that replaces a custom key
	// factory makes different keys suppress each other
	for _, st := range stFieldStores(def) {
		fld, base := FieldOf(st.Addr)
		if fld == nil || base == nil || !FromParam(dP)(base) {
			continue
		}
		isFld := func(v ssa.Value) bool { return AllOrigins(v, func(o ssa.Value) bool { return LoadedField(o) == fld }) }
		var unset []Edge
		if _, isNilable := fld.Type().Underlying().(*types.Basic); !isNilable {
			eq, _ := NilEdges(def, isFld)
			unset = eq
		} else {
			for _, t := range Tests(def) {
				if (t.Op == token.LSS || t.Op == token.LEQ) && isFld(t.X) {
					unset = append(unset, t.True)
				}
				if (t.Op == token.GTR || t.Op == token.GEQ) && isFld(t.X) {
					unset = append(unset, t.False)
				}
				if t.Op == token.EQL && isFld(t.X) {
					if z, isC := IntConst(t.Y); isC && z == 0 {
						unset = append(unset, t.True)
					}
				}
			}
		}
		c.Report(len(unset) > 0 && GuardedBy(def, st, unset), P+".O2", "DEFAULT-ONLY-IF-UNSET", def, st.Pos(), "default for "+fld.Name(), "a field of the caller's Deduplicator gets its default only on the edge on which it was found unset (nil, or below the minimum)")
	}
	// both entry points use it
	for _, name := range []string{"Middleware", "PublisherDecorator"} {
		fn := c.P.MethodOf(D, name)
		n := 0
		for _, f := range WithAnon(fn) {
			n += len(Callers([]*ssa.Function{f}, def))
		}
		c.Report(n >= 1, P+".O2", "DEFAULTS-APPLIED", fn, fn.Pos(), name, "defaults are applied through the shared defaults function")
	}
}

func c14Dedup(c *Check, P string) {
	const rel = "message/router/middleware"
	D := c.P.Named(rel, "Deduplicator")
	if D == nil {
		c.Floor(P+".O2", "type middleware.Deduplicator", 0, 1)
		return
	}
	dupM := c.P.MethodOf(D, "IsDuplicate")
	if c.Use(P+".O2", dupM, "Deduplicator.IsDuplicate") {
		var kf []ssa.CallInstruction
		for _, cl := range CallsIn(dupM) {
			if !cl.Common().IsInvoke() && CalleeFn(cl.Common()) == nil && AllOrigins(cl.Common().Value, exportedFieldLoad("KeyFactory")) {
				kf = append(kf, cl)
			}
		}
		rep := CallsTo(dupM, "("+mwPkg+".ExpiringKeyRepository).IsDuplicate")
		if c.Floor(P+".O2", "KeyFactory call and Repository.IsDuplicate call", b2i(len(kf) == 1)+b2i(len(rep) == 1), 2) {
			msgP := ParamsOfType(dupM, tMessagePtr)[0]
			c.Report(FromParam(msgP)(kf[0].Common().Args[0]), P+".O2", "KEY-OF-MESSAGE", dupM, kf[0].Pos(), "KeyFactory", "the key is computed from the given message")
			c.Report(AllOrigins(Arg(rep[0], 1), ResultOfAny(kf, 0)), P+".O2", "REPOSITORY-KEY", dupM, rep[0].Pos(), "Repository.IsDuplicate", "the repository is asked about exactly that key")
			kOK, _ := NilEdges(dupM, ResultOfAny(kf, 1))
			c.Report(GuardedBy(dupM, rep[0], kOK), P+".O2", "KEY-ERROR", dupM, rep[0].Pos(), "Repository.IsDuplicate", "a hashing error is returned instead of consulting the repository")
			// every answer comes from the repository — except the failure of the key factory: no key (an empty one
			// included) is answered without asking
			_, kFail := NilEdges(dupM, ResultOfAny(kf, 1))
			for i, r := range Returns(dupM) {
				if ReachAfter(rep[0], nil)[r] {
					continue
				}
				c.Report(len(kFail) > 0 && GuardedBy(dupM, r, kFail), P+".O2", "VERDICT-ONLY-FROM-THE-REPOSITORY", dupM, r.Pos(), fmt.Sprintf("IsDuplicate return#%d", i), "IsDuplicate answers without the repository only when the key could not be computed (every key, also the empty one, is a key: equal keys must suppress each other)")
			}
			for r, vals := range ReturnValues(dupM, 0) {
				if !ReachAfter(rep[0], nil)[r] {
					continue
				}
				ok := len(vals) == 1 && IsResultOf(vals[0], rep[0], 0)
				ev := RetOrigins(r, 1)
				ok = ok && len(ev) == 1 && IsResultOf(ev[0], rep[0], 1)
				c.Report(ok, P+".O2", "REPOSITORY-ANSWER", dupM, r.Pos(), "return", "the repository's answer and error are returned unchanged")
			}
		}
	}
	// middleware
	if m := c.middleware(P+".O2", c.P.MethodOf(D, "Middleware"), "Deduplicator.Middleware"); m != nil {
		I := m.Inner
		var dcalls []ssa.CallInstruction
		for _, cl := range CallsIn(I) {
			if CalleeFn(cl.Common()) == dupM {
				dcalls = append(dcalls, cl)
			}
		}
		if c.Floor(P+".O2", "IsDuplicate call in the middleware", len(dcalls), 1) && c.Floor(P+".O2", "handler call in the middleware", len(m.HCalls), 1) {
			c.Report(m.IsMsg(dcalls[0].Common().Args[1]), P+".O2", "GATE-ARG", I, dcalls[0].Pos(), "middleware", "the consumed message is checked")
			eOK, eFail := NilEdges(I, ResultOfAny(dcalls, 1))
			dup, fresh := BoolEdges(I, ResultOfAny(dcalls, 0))
			c.Floor(P+".O2", "middleware: tests of the repository error and of the verdict", b2i(len(eOK) > 0)+b2i(len(dup) > 0), 2)
			for _, hc := range m.HCalls {
				c.Report(GuardedBy(I, hc, eOK) && GuardedBy(I, hc, fresh), P+".O2", "GATE", I, hc.Pos(), "middleware handler call", "the handler runs only when the repository answered without error and the key is new")
				c.Report(len(m.HCalls) == 1 && !InLoop(hc) && m.IsMsg(hc.Common().Args[0]), P+".O2", "GATE-ONCE", I, hc.Pos(), "middleware handler call", "the handler runs at most once, on the consumed message")
			}
			for _, e := range dup {
				re := ReachEdge(e, nil)
				for _, r := range Returns(I) {
					if re[r] && GuardedBy(I, r, eOK) {
						c.Report(RetNil(r, 0) && RetNil(r, 1), P+".O2", "DUPLICATE-IS-SUCCESS", I, r.Pos(), "middleware duplicate edge", "a duplicate is dropped as success: (nil, nil)")
					}
				}
				c.Report(!reachesAny(re, m.HCalls), P+".O2", "DUPLICATE-NOT-HANDLED", I, I.Pos(), "middleware duplicate edge", "the handler is unreachable on the duplicate edge")
			}
			for _, e := range eFail {
				re := ReachEdge(e, nil)
				ok := !reachesAny(re, m.HCalls)
				for _, r := range Returns(I) {
					if re[r] && !AllOrigins(r.Results[1], ResultOfAny(dcalls, 1)) {
						ok = false
					}
				}
				c.Report(ok, P+".O2", "REPOSITORY-ERROR-RETURNED", I, I.Pos(), "middleware error edge", "a repository error is returned and the handler is not called")
			}
			{
				var srcs []ErrSource
				for _, d := range dcalls {
					srcs = append(srcs, ErrSource{d, 1})
				}
				for _, hc := range m.HCalls {
					srcs = append(srcs, ErrSource{hc, 1})
				}
				ErrorsOnlyFrom(c, P+".O2", "MIDDLEWARE-FAILS-ONLY-ON-FAULT", I, srcs, nil, "the deduplicating middleware returns an error only when the repository or the handler did")
			}
			for r, vals := range ReturnValues(I, 0) {
				if reachesAny(InstrSet{r: true}, nil) {
					continue
				}
				for _, v := range vals {
					if !IsNilConst(v) {
						c.Report(ResultOfAny(m.HCalls, 0)(v), P+".O2", "PASS-THROUGH", I, r.Pos(), "middleware return", "non-nil outputs are the handler's")
					}
				}
			}
		}
	}
	// publisher decorator: the dynamic type returned by the decorator closure
	pd := c.P.MethodOf(D, "PublisherDecorator")
	if !c.Use(P+".O2", pd, "Deduplicator.PublisherDecorator") {
		return
	}
	var decT *types.Named
	for _, f := range WithAnon(pd) {
		for _, r := range Returns(f) {
			for _, o := range RetOrigins(r, 0) {
				if mi, ok := o.(*ssa.MakeInterface); ok && mi.Type().String() == msgPkg+".Publisher" {
					decT = NamedOf(mi.X.Type())
				}
			}
		}
	}
	if !c.Floor(P+".O2", "publisher type built by PublisherDecorator", b2i(decT != nil), 1) {
		return
	}
	pub := c.P.MethodOf(decT, "Publish")
	if !c.Use(P+".O2", pub, "deduplicating decorator Publish") {
		return
	}
	var dcalls []ssa.CallInstruction
	for _, cl := range CallsIn(pub) {
		if CalleeFn(cl.Common()) == dupM {
			dcalls = append(dcalls, cl)
		}
	}
	inner := CallsTo(pub, nPublish)
	if !c.Floor(P+".O2", "decorator: IsDuplicate call", len(dcalls), 1) || !c.Floor(P+".O2", "decorator: inner Publish", len(inner), 1) {
		return
	}
	msgs := pub.Params[2]
	isElem := func(v ssa.Value) bool { return isElemOfParam(v, msgs) }
	dc := dcalls[0]
	okArg := AllOrigins(dc.Common().Args[1], isElem)
	var idx ssa.Value
	if u, ok := firstOrigin(dc.Common().Args[1]).(*ssa.UnOp); ok {
		if ia, ok := u.X.(*ssa.IndexAddr); ok {
			idx = ia.Index
			okArg = okArg && IsFullRangeIndex(ia.Index, ia.X)
		}
	}
	c.Report(okArg && idx != nil, P+".O2", "DECORATOR-EVERY-MESSAGE", pub, dc.Pos(), "decorator", "every message of the batch is checked (full range loop)")
	eOK, eFail := NilEdges(pub, func(v ssa.Value) bool { return AllOrigins(v, ResultOfAny(dcalls, 1)) })
	dup, fresh := BoolEdges(pub, func(v ssa.Value) bool { return AllOrigins(v, ResultOfAny(dcalls, 0)) })
	c.Floor(P+".O2", "decorator: tests of the error and of the verdict", b2i(len(eOK) > 0)+b2i(len(dup) > 0), 2)
	// a duplicate ends the handling of that one message, not of the batch: from the 'duplicate' edge the wrapped Publish is
	// reached only round the loop (through the next IsDuplicate call or the loop's own exit), never straight out of it
	for _, e := range dup {
		for _, dc := range dcalls {
			if !InLoop(dc) {
				continue
			}
			hdr := loopHeaderOfInstr(dc)
			if hdr == nil {
				continue
			}
			re := ReachEdge(e, NewCut().AddInstrs(firstInstr(hdr)))
			okL := true
			for _, ip := range inner {
				if re[ip] {
					okL = false
				}
			}
			c.Report(okL, P+".O2", "DUPLICATE-SKIPS-ONE-MESSAGE-ONLY", pub, e.From.Instrs[len(e.From.Instrs)-1].Pos(), "duplicate edge", "after a duplicate the loop goes on with the next message of the batch (a `break` would drop the rest of the batch while Publish reports success)")
		}
	}
	{
		var srcs []ErrSource
		for _, d := range dcalls {
			srcs = append(srcs, ErrSource{d, 1})
		}
		for _, ip := range inner {
			srcs = append(srcs, ErrSource{ip, 0})
		}
		ErrorsOnlyFrom(c, P+".O2", "DECORATOR-FAILS-ONLY-ON-FAULT", pub, srcs, nil, "the deduplicating publisher fails only when the repository or the wrapped publisher failed")
	}
	// and it succeeds only through the wrapped publisher: a repository failure is handed on, never turned into a
	// success that leaves the rest of the batch unpublished
	{
		re := ReachEntry(pub, NewCut().AddInstrs(instrsOf(inner)...))
		for i, r := range Returns(pub) {
			if RetNil(r, 0) {
				c.Report(!re[r], P+".O2", "DECORATOR-SUCCEEDS-ONLY-THROUGH-PUBLISH", pub, r.Pos(), fmt.Sprintf("decorator return#%d", i), "the deduplicating publisher reports success only after the wrapped Publish was called (with whatever is new in the batch)")
			}
		}
	}
	acks := SettleSites(pub, nAck, func(v ssa.Value) bool { return AllOrigins(v, isElem) }, 0)
	c.Floor(P+".O2", "decorator: Ack of a duplicate", len(acks), 1)
	for _, a := range acks {
		c.Report(GuardedBy(pub, a, dup) && GuardedBy(pub, a, eOK), P+".O2", "DUPLICATE-ACKED", pub, a.Pos(), "decorator Ack", "only duplicates are acknowledged by the decorator")
	}
	for _, e := range dup {
		// on the duplicate edge the Ack happens before the next iteration
		ok := len(acks) > 0
		for _, a := range acks {
			if ReachEdge(e, NewCut().AddInstrs(a))[dc] {
				ok = false
			}
		}
		c.Report(ok, P+".O2", "DUPLICATE-ALWAYS-ACKED", pub, pub.Pos(), "decorator duplicate edge", "every duplicate is acknowledged before the next message is examined")
	}
	// appended elements
	var appends []*ssa.Call
	AllInstrs(pub, func(ins ssa.Instruction) {
		if call, ok := ins.(*ssa.Call); ok {
			if args, isA := IsBuiltinCall(call, "append"); isA && len(args) == 2 {
				appends = append(appends, call)
			}
		}
	})
	for _, ap := range appends {
		c.Report(GuardedBy(pub, ap, fresh) && GuardedBy(pub, ap, eOK), P+".O2", "FRESH-FORWARDED", pub, ap.Pos(), "decorator append", "only new messages are added to the forwarded batch")
		for _, e := range fresh {
			c.Report(!ReachEdge(e, NewCut().AddInstrs(ap))[dc], P+".O2", "FRESH-ALWAYS-FORWARDED", pub, ap.Pos(), "decorator append", "every new message is added before the next one is examined")
		}
	}
	c.Floor(P+".O2", "decorator: append of a new message", len(appends), 1)
	for _, ip := range inner {
		c.Report(len(inner) == 1 && !InLoop(ip), P+".O2", "DECORATOR-ONE-PUBLISH", pub, ip.Pos(), "decorator inner Publish", "the wrapped publisher is called once with the remaining messages")
		c.Report(FromParam(pub.Params[1])(Arg(ip, 0)), P+".O2", "DECORATOR-TOPIC", pub, ip.Pos(), "decorator inner Publish", "same topic")
		c.Report(sliceBuiltFrom(Arg(ip, 1), isElem), P+".O2", "DECORATOR-BATCH", pub, ip.Pos(), "decorator inner Publish", "the forwarded batch consists of the new messages in their original order")
		for _, e := range eFail {
			c.Report(!ReachEdge(e, nil)[ip], P+".O2", "DECORATOR-ERROR", pub, ip.Pos(), "decorator inner Publish", "a repository error aborts the publish")
		}
	}
}

func c14Hashers(c *Check, P string) {
	const rel = "message/router/middleware"
	minC, okMin := int64(0), false
	if tp := c.P.TypesPkg(rel); tp != nil {
		if k, ok := tp.Scope().Lookup("MessageHasherReadLimitMinimum").(*types.Const); ok {
			if v, exact := constInt(k); exact {
				minC, okMin = v, true
			}
		}
	}
	c.Floor(P+".O4", "constant MessageHasherReadLimitMinimum", b2i(okMin), 1)
	for _, name := range []string{"NewMessageHasherAdler32", "NewMessageHasherSHA256"} {
		outer := c.P.Func(rel, name)
		if !c.Use(P+".O4", outer, "middleware."+name) {
			continue
		}
		var inner *ssa.Function
		for _, r := range Returns(outer) {
			if f := FuncOfValue(firstOrigin(r.Results[0])); f != nil {
				inner = f
			}
		}
		if !c.Use(P+".O4", inner, name+" closure") {
			continue
		}
		msgP := ParamsOfType(inner, tMessagePtr)[0]
		// fields of the message read by the hasher
		onlyPayload, nread := true, 0
		AllInstrs(inner, func(ins ssa.Instruction) {
			var f *types.Var
			var base ssa.Value
			switch x := ins.(type) {
			case *ssa.FieldAddr:
				f, base = FieldOf(x)
			case *ssa.Field:
				f, base = FieldOf(x)
			}
			if f != nil && FromParam(msgP)(base) {
				nread++
				if f.Name() != "Payload" {
					onlyPayload = false
				}
			}
		})
		c.Report(onlyPayload && nread >= 1, P+".O4", "HASH-PAYLOAD-ONLY", inner, inner.Pos(), name, "the key depends on the payload only (equal payloads give equal keys)")
		// the closure may hand the work to a function of the package (shared by the hashers): then that function is
		// read with its parameters standing for the closure's arguments, and the closure must return its results as they are
		closure := inner
		bind := map[*ssa.Parameter]ssa.Value{}
		if len(CallsTo(inner, "io.CopyN"))+len(CallsTo(inner, "io.Copy")) == 0 {
			for _, cl := range CallsIn(inner) {
				cal := CalleeFn(cl.Common())
				if cal == nil || cal.Pkg != inner.Pkg || cal.Parent() != nil || len(CallsTo(cal, "io.CopyN"))+len(CallsTo(cal, "io.Copy")) == 0 {
					continue
				}
				tail := true
				for _, r := range Returns(inner) {
					for k := range r.Results {
						if !AllOrigins(r.Results[k], func(o ssa.Value) bool { return IsResultOf(o, cl, k) }) {
							tail = false
						}
					}
				}
				if tail {
					for i, prm := range cal.Params {
						if i < len(cl.Common().Args) {
							bind[prm] = cl.Common().Args[i]
						}
					}
					inner = cal
				}
			}
		}
		orig := func(v ssa.Value) []ssa.Value {
			var out []ssa.Value
			for _, o := range Origins(v) {
				if prm, isP := o.(*ssa.Parameter); isP && bind[prm] != nil {
					out = append(out, Origins(bind[prm])...)
				} else {
					out = append(out, o)
				}
			}
			return out
		}
		first := func(v ssa.Value) ssa.Value {
			if os := orig(v); len(os) > 0 {
				return os[0]
			}
			return v
		}
		cps := CallsTo(inner, "io.CopyN")
		var cpDst, cpSrc, cpLim ssa.Value
		if len(cps) > 0 {
			cpDst, cpSrc, cpLim = cps[0].Common().Args[0], cps[0].Common().Args[1], cps[0].Common().Args[2]
		} else {
			// io.Copy(dst, io.LimitReader(src, n)) is what io.CopyN does
			for _, cl := range CallsTo(inner, "io.Copy") {
				if lr, ok := firstOrigin(unwrapIface(cl.Common().Args[1])).(*ssa.Call); ok && CalleeName(lr) == "io.LimitReader" {
					cps = append(cps, cl)
					cpDst, cpSrc, cpLim = cl.Common().Args[0], lr.Call.Args[0], lr.Call.Args[1]
				}
			}
		}
		if !c.Floor(P+".O4", name+": io.CopyN", len(cps), 1) {
			continue
		}
		cp := cps[0]
		// limit: max(readLimit, minimum)
		lim := orig(cpLim)
		okLim, hasParam, hasMin := true, false, false
		for _, o := range lim {
			if p, ok := o.(*ssa.Parameter); ok && p.Parent() == outer {
				hasParam = true
			} else if n, ok := IntConst(o); ok && okMin && n == minC {
				hasMin = true
			} else {
				okLim = false
			}
		}
		// the minimum is substituted only when readLimit < minimum
		okClamp := false
		for _, t := range Tests(outer) {
			if t.Op == token.LSS {
				if n, ok := IntConst(t.Y); ok && okMin && n == minC && AllOrigins(t.X, func(v ssa.Value) bool {
					if z, isC := IntConst(v); isC && z == minC {
						return true // the captured variable may already hold the clamped value
					}
					p, ok := v.(*ssa.Parameter)
					return ok && p.Parent() == outer
				}) {
					okClamp = true
					AllInstrs(outer, func(ins ssa.Instruction) {
						if st, ok := ins.(*ssa.Store); ok {
							if n, isC := IntConst(st.Val); isC && n == minC && !GuardedBy(outer, st, []Edge{t.True}) {
								okClamp = false
							}
						}
					})
				}
			}
		}
		c.Report(okLim && hasParam && hasMin && okClamp, P+".O4", "HASH-READ-LIMIT", inner, cp.Pos(), name, "CopyN reads max(readLimit, MessageHasherReadLimitMinimum) bytes")
		// reader: bytes.NewReader(payload)
		rd, ok := firstOrigin(unwrapIface(cpSrc)).(*ssa.Call)
		okRd := ok && CalleeName(rd) == "bytes.NewReader"
		if okRd {
			srcs := orig(unwrapSliceConv(rd.Call.Args[0]))
			okRd = len(srcs) > 0
			for _, v := range srcs {
				if f := LoadedField(v); f == nil || f.Name() != "Payload" {
					okRd = false
				}
			}
		}
		c.Report(okRd, P+".O4", "HASH-READS-PAYLOAD", inner, cp.Pos(), name, "the hashed bytes are the payload")
		// fresh hash per message; the returned key is its Sum(nil)
		hv, ok := first(unwrapIface(cpDst)).(*ssa.Call)
		want := map[string]string{"NewMessageHasherAdler32": "hash/adler32.New", "NewMessageHasherSHA256": "crypto/sha256.New"}[name]
		okH := ok && CalleeName(hv) == want && hv.Parent() == closure
		c.Report(okH, P+".O4", "HASH-FRESH-STATE", inner, cp.Pos(), name, "a fresh "+want+"() state is used per message")
		okSum := false
		okOnly := true
		for ret, vals := range ReturnValues(inner, 0) {
			for _, v := range vals {
				isDigest := false
				if cv, isCv := v.(*ssa.Convert); isCv {
					if s, isS := cv.X.(*ssa.Call); isS && s.Call.IsInvoke() && s.Call.Method.Name() == "Sum" && sameValue(s.Call.Value, cpDst) && IsNilConst(s.Call.Args[0]) {
						okSum = true
						isDigest = true
					}
				}
				if !isDigest {
					// any other key value is allowed only together with an error
					if cst, isC := v.(*ssa.Const); !(isC && cst.Value != nil && cst.Value.ExactString() == `""` && len(ret.Results) > 1 && !RetNil(ret, 1)) {
						okOnly = false
					}
				}
			}
		}
		c.Report(okOnly, P+".O4", "HASH-KEY-ONLY-DIGEST", inner, inner.Pos(), name, "on success the key is always the digest, never another function of the payload (two ways of forming keys can collide with each other)")
		c.Report(okSum, P+".O4", "HASH-KEY-IS-DIGEST", inner, inner.Pos(), name, "the key is exactly the digest (Sum(nil)) of what was read")
	}
}

func constInt(k *types.Const) (int64, bool) {
	s := k.Val().ExactString()
	var n int64
	_, err := fmt.Sscan(s, &n)
	return n, err == nil
}

// stFieldStores lists the stores to struct fields in fn.
func stFieldStores(fn *ssa.Function) []*ssa.Store {
	var out []*ssa.Store
	AllInstrs(fn, func(in ssa.Instruction) {
		if st, ok := in.(*ssa.Store); ok {
			if f, _ := FieldOf(st.Addr); f != nil {
				out = append(out, st)
			}
		}
	})
	return out
}

// sameReceiverCalleesOf: the in-package functions fn calls in place (one level).
func sameReceiverCalleesOf(fn *ssa.Function) []*ssa.Function {
	var out []*ssa.Function
	seen := map[*ssa.Function]bool{}
	for _, cl := range rawCallsIn(fn) {
		if _, isCall := cl.(*ssa.Call); !isCall {
			continue
		}
		if cal := CalleeFn(cl.Common()); cal != nil && cal.Pkg == fn.Pkg && len(cal.Blocks) > 0 && !seen[cal] {
			seen[cal] = true
			out = append(out, cal)
		}
	}
	return out
}

// loopHeaderOfInstr: the innermost block that dominates in's block and is reachable again from in (a loop head), or nil.
func loopHeaderOfInstr(in ssa.Instruction) *ssa.BasicBlock {
	after := ReachAfter(in, nil)
	for b := in.Block(); b != nil; b = b.Idom() {
		if len(b.Instrs) > 0 && after[b.Instrs[0]] && len(b.Preds) > 1 {
			return b
		}
	}
	return nil
}
