package wm

import (
	"fmt"
	"go/token"
	"go/types"

	"golang.org/x/tools/go/ssa"
)

func init() {
	register(&PropDef{
		ID:  "C07",
		Run: runC07,
		Explanation: "Decides the structural core of 'Close and cancel always terminate safely' for GoChannel and Watermill's subscriber decorators: every blocking operation of the deliver function, the blocking-publish wait, and the per-subscription teardown is a select with a cancellation case (the subscription's or the Pub/Sub's closing signal, or ctx.Done()); sends on and the close of an output channel both hold the subscription's sending mutex, the closed flag is set under it before the close and re-tested under it before every send (no send on a closed channel); " +
			"Close and the subscription close are once-only (flag under lock; a single call site), the WaitGroup is incremented under the closed lock behind the closed check and decremented on every path of the teardown, Close waits for it; Publish/Subscribe reject on the closed edge; the persisted-message map is accessed under its lock; closing signals are raised before the closer takes the locks / waits that the signalled goroutines hold, and nothing blocks under the subscribers write lock; " +
			"the transform subscriber decorator's pump has only escapable blocking operations and its Close closes the inner subscriber and raises the signal before waiting. Not decided: absence of data races on fields not listed; that goroutines started by the fan-out are joined.",
		Assumptions: commonAssumptions,
	})
}

func runC07(c *Check) {
	P := "C07"
	r := c.gochannelRoles(P)
	if r == nil {
		return
	}
	c07Escapable(c, P, r)
	c07SendCloseExclusion(c, P, r)
	c07CloseOnce(c, P, r)
	c07WaitGroup(c, P, r)
	c07ClosedChecks(c, P, r)
	c07Persisted(c, P, r)
	c07LockHolders(c, P, r)
	c07RemoveExact(c, P+".O9", r)
	c07NoIndexTrap(c, P, r)
	c07ContainerInit(c, P+".O9", r)
	c07TeardownOrder(c, P+".O8", r)
	c07LockOrder(c, P+".O8", r)
	r.LA.ReportLeaks(c, P+".O8", r.Funcs)
	c04LookupCopy(c, P+".O2", r)
	c07Decorator(c, P)
	c04NoSharedWrites(c, P+".O6", r)
}

// isCancelCase: receive from ctx.Done() or from one of the given signal fields.
func isCancelCase(cs SelCase, signals ...*types.Var) (bool, string) {
	if cs.Send {
		return false, ""
	}
	ck := ClassifyChan(cs.Chan)
	if ck.Kind == "ctx.Done" {
		return true, "ctx.Done()"
	}
	if ck.Kind == "field" {
		for _, s := range signals {
			if ck.Field == s {
				return true, "closing signal " + s.Name()
			}
		}
	}
	return false, ""
}

func c07Escapable(c *Check, P string, r *GCRoles) {
	type scope struct {
		fn      *ssa.Function
		what    string
		signals []*types.Var
		need    []*types.Var // signals of which at least one must be present
	}
	scopes := []scope{
		{r.Deliver, "deliver function", []*types.Var{r.SClosing}, []*types.Var{r.SClosing}},
		{r.Wait, "blocking-publish wait", []*types.Var{r.Closing}, []*types.Var{r.Closing}},
		{r.Teardown, "subscription teardown", []*types.Var{r.Closing}, nil},
	}
	nsel := 0
	for _, sc := range scopes {
		for i, op := range BlockingOps(sc.fn) {
			k := fmt.Sprintf("%s op#%d (%s)", sc.what, i, op.Kind)
			switch op.Kind {
			case "select":
				nsel++
				var found []string
				for _, cs := range op.Sel.Cases {
					if ok, w := isCancelCase(cs, sc.signals...); ok {
						found = append(found, w)
					}
				}
				c.Report(len(found) > 0, P+".O1", "ESCAPABLE", sc.fn, op.Ins.Pos(), k, "this blocking select has a cancellation case", "cases: "+fmt.Sprint(found))
			case "lock", "wg.Wait":
				// lock acquisition: the holders' blocking operations are checked in O8
			default:
				c.Report(false, P+".O1", "ESCAPABLE", sc.fn, op.Ins.Pos(), k, "a bare "+op.Kind+" cannot be cancelled by Close or by the subscription's context")
			}
		}
	}
	c.Floor(P+".O1", "blocking selects with a cancellation case (2 in deliver, wait helper, teardown)", nsel, 4)
	// teardown: both ctx.Done() and the Pub/Sub closing signal
	for _, si := range Selects(r.Teardown) {
		hasCtx, hasClosing := false, false
		for _, cs := range si.Cases {
			if ok, w := isCancelCase(cs, r.Closing); ok {
				if w == "ctx.Done()" {
					// the Subscribe context
					call := ClassifyChan(cs.Chan).Call
					hasCtx = call != nil && AllOrigins(call.Call.Value, func(v ssa.Value) bool {
						p, ok := v.(*ssa.Parameter)
						return ok && p.Parent() == r.Subscribe && p.Type().String() == "context.Context"
					})
				} else {
					hasClosing = true
				}
			}
		}
		c.Report(hasCtx && hasClosing, P+".O1", "TEARDOWN-TRIGGERS", r.Teardown, si.Sel.Pos(), "teardown select", "the teardown starts when the Subscribe context ends or the Pub/Sub is closing")
	}
	// both selects of the deliver function include the subscription's closing signal; its edge leaves the function
	for i, si := range Selects(r.Deliver) {
		for _, cs := range si.Cases {
			if ok, _ := isCancelCase(cs, r.SClosing); ok && cs.Edge != nil {
				re := ReachEdge(*cs.Edge, nil)
				bad := false
				for _, s := range r.Sends {
					if re[s.Ins] {
						bad = true
					}
				}
				c.Report(!bad, P+".O1", "CLOSING-LEAVES", r.Deliver, si.Sel.Pos(), fmt.Sprintf("deliver select#%d", i), "on the closing case the deliver function stops (no further send)")
			}
		}
	}
}

func c07SendCloseExclusion(c *Check, P string, r *GCRoles) {
	D, SC := r.Deliver, r.SubClose
	closes := CloseSites(SC, r.isOut)
	if !c.Floor(P+".O2", "close(output channel) in the subscription close function", len(closes), 1) {
		return
	}
	for _, cl := range closes {
		held := r.LA.Held(cl)
		c.Report(held[r.idSending] == 'W', P+".O2", "CLOSE-UNDER-SENDING", SC, cl.Pos(), "close(output channel)", "the output channel is closed with the sending mutex held (never concurrently with a send)", "held: "+held.String())
		// closed = true stored under the lock on every path to the close
		okSt := false
		for _, st := range FieldStores(SC, r.SClosed) {
			cst, isC := st.Val.(*ssa.Const)
			if isC && cst.Value != nil && cst.Value.String() == "true" && Dominates(SC, st, cl) && r.LA.Held(st)[r.idSending] == 'W' {
				okSt = true
			}
		}
		c.Report(okSt, P+".O2", "CLOSED-FLAG-BEFORE-CLOSE", SC, cl.Pos(), "close(output channel)", "the closed flag is set under the sending mutex on every path before the channel is closed")
		_, isDefer := cl.(*ssa.Defer)
		c.Report(!isDefer && !InLoop(cl), P+".O2", "CLOSE-SITE", SC, cl.Pos(), "close(output channel)", "a single, non-deferred close")
	}
	// all close sites of output channels in the package are in SC
	n := 0
	for _, fn := range r.Funcs {
		n += len(CloseSites(fn, r.isOut))
	}
	c.Report(n == len(closes), P+".O3", "WHO-MAY-CLOSE", SC, SC.Pos(), "output channel", "only the subscription close function closes an output channel")
	// the subscription's closed flag is read and written under its sending mutex only
	for _, a := range r.LA.Accesses(r.SClosed) {
		fn := HomeFn(a.Ins.Parent())
		if fn == r.Subscribe {
			continue // construction
		}
		if fn == r.SubClose && !a.Write {
			continue // the close function is the only writer and runs once per subscription (SUBSCRIPTION-CLOSED-ONCE): its own early read cannot race
		}
		held := r.LA.Held(a.Ins)
		c.Report(held[r.idSending] == 'W', P+".O2", "SUBSCRIPTION-CLOSED-FLAG-GUARDED", fn, a.Ins.Pos(), a.What+" of the subscription's closed flag", "the subscription's closed flag is accessed with its sending mutex held (it is written by the close function under that mutex)", "held: "+held.String())
	}
	// the send re-tests the flag in the same critical section, every iteration
	_, notClosed := BoolEdges(D, func(v ssa.Value) bool { return AllOrigins(v, IsFieldLoad(r.SClosed)) })
	var closedTests []ssa.Instruction
	for _, e := range notClosed {
		closedTests = append(closedTests, e.From.Instrs[len(e.From.Instrs)-1])
	}
	c.Floor(P+".O2", "test of the closed flag in the deliver function", len(notClosed), 1)
	for i, s := range r.Sends {
		k := fmt.Sprintf("send#%d", i)
		ok := GuardedBy(D, s.Ins, notClosed)
		if InLoop(s.Ins) {
			// the flag is written only under the sending mutex: while the deliver function keeps that mutex (no unlock but
			// the deferred one) one test before the loop covers every iteration; otherwise it is re-tested per iteration
			earlyUnlock := false
			for _, cl := range CallsIn(D) {
				if op, isOp := r.LA.opOf(cl); isOp && op.mode == 'w' && op.id == r.idSending {
					if _, isDefer := cl.(*ssa.Defer); !isDefer {
						earlyUnlock = true
					}
				}
			}
			if earlyUnlock {
				ok = ok && !ReachWithout(s.Ins, s.Ins, closedTests...)
			}
		}
		c.Report(ok, P+".O2", "SEND-ONLY-IF-OPEN", D, s.Ins.Pos(), k, "every send is preceded by the not-closed edge of a test of the closed flag made in the same critical section of the sending mutex")
		for _, t := range closedTests {
			// flag loaded under the mutex, and the mutex is not released between the test and the send
			okHeld := r.LA.Held(t)[r.idSending] == 'W'
			for _, ld := range FieldLoads(D, r.SClosed) {
				if r.LA.Held(ld)[r.idSending] != 'W' {
					okHeld = false
				}
			}
			released := false
			for _, cl := range CallsIn(D) {
				if op, isOp := r.LA.opOf(cl); isOp && op.mode == 'w' && op.id == r.idSending {
					if _, isDefer := cl.(*ssa.Defer); !isDefer && ReachAfter(t, nil)[cl] && ReachAfter(cl, nil)[s.Ins] {
						released = true
					}
				}
			}
			c.Report(okHeld && !released, P+".O2", "TEST-AND-SEND-ONE-SECTION", D, t.Pos(), k, "the closed flag is read under the sending mutex, which stays held until the send")
		}
	}
}

func c07CloseOnce(c *Check, P string, r *GCRoles) {
	Cl := r.Close
	sig := CloseSites(Cl, func(v ssa.Value) bool { return AllOrigins(v, IsFieldLoad(r.Closing)) })
	if !c.Floor(P+".O3", "close(closing signal) in GoChannel.Close", len(sig), 1) {
		return
	}
	_, notClosed := BoolEdges(Cl, func(v ssa.Value) bool { return AllOrigins(v, IsFieldLoad(r.Closed)) })
	c.Floor(P+".O3", "test of the closed flag in Close", len(notClosed), 1)
	for _, s := range sig {
		held := r.LA.Held(s)
		c.Report(held[r.idClosedLock] == 'W' && GuardedBy(Cl, s, notClosed) && !InLoop(s), P+".O3", "CLOSE-ONCE", Cl, s.Pos(), "close(closing signal)",
			"the closing signal is closed under the closed lock, only on the not-yet-closed edge (repeated or concurrent Close never double-closes)", "held: "+held.String())
		okSt := false
		for _, st := range FieldStores(Cl, r.Closed) {
			cst, isC := st.Val.(*ssa.Const)
			if isC && cst.Value != nil && cst.Value.String() == "true" && r.LA.Held(st)[r.idClosedLock] == 'W' && GuardedBy(Cl, st, notClosed) {
				okSt = true
			}
		}
		c.Report(okSt, P+".O3", "CLOSED-FLAG-SET", Cl, s.Pos(), "closed flag", "Close sets the closed flag under the closed lock")
	}
	// who may close the signal
	n := 0
	for _, fn := range r.Funcs {
		n += len(CloseSites(fn, func(v ssa.Value) bool { return AllOrigins(v, IsFieldLoad(r.Closing)) }))
	}
	c.Report(n == len(sig), P+".O3", "WHO-MAY-CLOSE-SIGNAL", Cl, Cl.Pos(), "closing signal", "only GoChannel.Close closes the Pub/Sub's closing signal")
	// every flag access is under the lock (except the constructor)
	for _, a := range r.LA.Accesses(r.Closed) {
		if HomeFn(a.Ins.Parent()) == r.New {
			continue
		}
		held := r.LA.Held(a.Ins)
		c.Report(held[r.idClosedLock] == 'W', P+".O3", "CLOSED-FLAG-GUARDED", a.Ins.Parent(), a.Ins.Pos(), a.What+" of closed flag", "the closed flag is accessed under the closed lock", "held: "+held.String())
	}
	// subscription close: one call site, not in a loop
	sites := Callers(r.Funcs, r.SubClose)
	c.Report(len(sites) == 1 && HomeFn(sites[0].Parent()) == r.Teardown && !InLoop(sites[0]), P+".O3", "SUBSCRIPTION-CLOSED-ONCE", r.Teardown, r.Teardown.Pos(), "subscription close call",
		fmt.Sprintf("the subscription close function is called from exactly one site (the teardown, once): %d call sites", len(sites)))
	// one teardown per subscription
	var gos []*ssa.Go
	AllInstrs(r.Subscribe, func(in ssa.Instruction) {
		if g, ok := in.(*ssa.Go); ok && FuncOfValue(g.Call.Value) == r.Teardown {
			gos = append(gos, g)
		}
	})
	c.Report(len(gos) == 1 && !InLoop(gos[0]), P+".O3", "ONE-TEARDOWN", r.Subscribe, r.Subscribe.Pos(), "go teardown", "exactly one teardown goroutine per subscription")
	// the signal the subscription raises
	ssig := CloseSites(r.SubClose, func(v ssa.Value) bool { return AllOrigins(v, IsFieldLoad(r.SClosing)) })
	c.Report(len(ssig) == 1 && !InLoop(ssig[0]), P+".O3", "SUBSCRIPTION-SIGNAL-ONCE", r.SubClose, r.SubClose.Pos(), "close(subscription closing)", "the subscription's closing signal is closed at one site")
	// the subscription close function does its work unless the subscription is closed already: the only way past
	// the signal and the close of the output channel is the edge on which the closed flag was found set
	alreadyClosed, _ := BoolEdges(r.SubClose, func(v ssa.Value) bool { return AllOrigins(v, IsFieldLoad(r.SClosed)) })
	outs := CloseSites(r.SubClose, r.isOut)
	for k, sites := range [][]ssa.Instruction{instrsOf(ssig), instrsOf(outs)} {
		what := []string{"closing signal", "output channel"}[k]
		if len(sites) == 0 {
			continue
		}
		re := ReachEntry(r.SubClose, NewCut().AddInstrs(sites...).AddEdges(alreadyClosed...))
		for i, ret := range Returns(r.SubClose) {
			c.Report(!re[ret], P+".O3", "SUBSCRIPTION-CLOSE-TOTAL", r.SubClose, ret.Pos(), fmt.Sprintf("return#%d vs close(%s)", i, what),
				"the subscription close function returns without having closed the "+what+" only when the subscription was closed before")
		}
	}
}

func c07WaitGroup(c *Check, P string, r *GCRoles) {
	isWg := func(v ssa.Value) bool { f, _ := FieldOf(v); return f == r.Wg }
	S := r.Subscribe
	var adds []ssa.CallInstruction
	for _, cl := range CallsTo(S, nWGAdd) {
		if isWg(Receiver(cl)) {
			adds = append(adds, cl)
		}
	}
	_, notClosed := BoolEdges(S, func(v ssa.Value) bool { return AllOrigins(v, IsFieldLoad(r.Closed)) })
	if c.Floor(P+".O4", "subscribersWg.Add in Subscribe", len(adds), 1) {
		for _, a := range adds {
			held := r.LA.Held(a)
			n, isC := IntConst(a.Common().Args[1])
			c.Report(held[r.idClosedLock] == 'W' && GuardedBy(S, a, notClosed) && isC && n == 1 && !InLoop(a), P+".O4", "WG-ADD-UNDER-CLOSED-LOCK", S, a.Pos(), "Add(1)",
				"the wait group is incremented under the closed lock, behind the not-closed check (no Add can follow Close's Wait)", "held: "+held.String())
		}
		// all adds in the package
		n := 0
		for _, fn := range r.Funcs {
			for _, cl := range CallsTo(fn, nWGAdd) {
				if isWg(Receiver(cl)) {
					n++
				}
			}
		}
		c.Report(n == len(adds), P+".O4", "WG-ADD-SITES", S, S.Pos(), "Add", "the wait group is incremented only in Subscribe")
		// the teardown is started after the Add on every path that incremented
		AllInstrs(S, func(in ssa.Instruction) {
			if g, ok := in.(*ssa.Go); ok && FuncOfValue(g.Call.Value) == r.Teardown {
				okD := true
				for _, a := range adds {
					if !Dominates(S, a, g) {
						okD = false
					}
					// after the Add every return path has started the teardown
					re := ReachAfter(a, NewCut().AddInstrs(g))
					for _, ret := range Returns(S) {
						if re[ret] {
							okD = false
						}
					}
				}
				c.Report(okD, P+".O4", "WG-ADD-PAIRS-TEARDOWN", S, g.Pos(), "go teardown", "every increment is paired with a teardown goroutine (which will decrement)")
				held := r.LA.Held(g)
				_, hs := held[r.idSubs]
				_, ht := held[r.idTopic]
				c.Report(hs && ht, P+".O4", "TEARDOWN-STARTED-UNDER-LOCKS", S, g.Pos(), "go teardown", "the teardown goroutine is started while Subscribe holds the subscribers lock and the topic mutex (it looks the topic's mutex up and removes the subscription: before Subscribe created the mutex and registered the subscription there is nothing to find)", "held: "+held.String())
			}
		})
	}
	T := r.Teardown
	var dones []ssa.CallInstruction
	for _, cl := range CallsTo(T, nWGDone) {
		if isWg(Receiver(cl)) {
			dones = append(dones, cl)
		}
	}
	if c.Floor(P+".O4", "subscribersWg.Done in the teardown", len(dones), 1) {
		d := dones[0]
		ok := len(dones) == 1 && !InLoop(d)
		if _, isDefer := d.(*ssa.Defer); !isDefer {
			for _, ret := range Returns(T) {
				if !Dominates(T, d, ret) {
					ok = false
				}
			}
		}
		c.Report(ok, P+".O4", "WG-DONE-ALWAYS", T, d.Pos(), "Done", "the teardown decrements the wait group exactly once on every path")
		for _, sc := range Callers([]*ssa.Function{T}, r.SubClose) {
			c.Report(Dominates(T, sc, d), P+".O4", "WG-DONE-AFTER-CLOSE", T, d.Pos(), "Done", "the decrement happens after the subscription's output channel was closed")
		}
		for _, rm := range Callers([]*ssa.Function{T}, r.RemoveSub) {
			c.Report(Dominates(T, rm, d), P+".O4", "WG-DONE-AFTER-REMOVE", T, d.Pos(), "Done", "… and after the subscription was removed from the map")
			held := r.LA.Held(rm)
			_, t := held[r.idTopic]
			c.Report(held[r.idSubs] == 'W' && t, P+".O4", "REMOVE-UNDER-WRITE-LOCK", T, rm.Pos(), "removal", "the subscription is removed under the subscribers write lock and the topic mutex", "held: "+held.String())
		}
		c.Floor(P+".O4", "removal of the subscription in the teardown", len(Callers([]*ssa.Function{T}, r.RemoveSub)), 1)
	}
	Cl := r.Close
	var waits []ssa.CallInstruction
	for _, cl := range CallsTo(Cl, nWGWait) {
		if isWg(Receiver(cl)) {
			waits = append(waits, cl)
		}
	}
	if c.Floor(P+".O4", "subscribersWg.Wait in Close", len(waits), 1) {
		sig := CloseSites(Cl, func(v ssa.Value) bool { return AllOrigins(v, IsFieldLoad(r.Closing)) })
		for _, s := range sig {
			re := ReachAfter(s, NewCut().AddInstrs(instrsOf(waits)...))
			ok := true
			for _, ret := range Returns(Cl) {
				if re[ret] {
					ok = false
				}
			}
			c.Report(ok, P+".O4", "CLOSE-WAITS", Cl, s.Pos(), "Wait", "after raising the closing signal Close waits for every subscription's teardown before it returns (all output channels are closed when Close returns)")
			for _, w := range waits {
				c.Report(Dominates(Cl, s, w), P+".O8", "SIGNAL-BEFORE-WAIT", Cl, w.Pos(), "Wait", "the closing signal is raised before Close starts waiting (the waited-for goroutines can see it)")
			}
		}
		for _, fn := range r.Funcs {
			for _, st := range FieldStores(fn, r.Persisted) {
				c.Report(AllOrigins(st.Val, func(o ssa.Value) bool { _, ok := o.(*ssa.MakeMap); return ok }), P+".O6", "PERSISTED-MAP-NEVER-NIL", fn, st.Pos(), "store to the persisted messages", "the persisted-message map is only ever replaced by a new, empty map (a Publish that passed the closed check may still assign into it: a nil map would panic)")
			}
		}
		// the persisted log is dropped only after every subscription goroutine ended: a replay in progress indexes it under the subscribers lock only
		for _, st := range FieldStores(Cl, r.Persisted) {
			ok := false
			for _, w := range waits {
				if Dominates(Cl, w, st) {
					ok = true
				}
			}
			c.Report(ok, P+".O6", "RESET-AFTER-WAIT", Cl, st.Pos(), "reset of the persisted messages", "Close replaces the persisted-message map only after it waited for all subscription goroutines (a replay still running reads the log by index without the persisted-messages lock)")
		}
	}
}

func c07ClosedChecks(c *Check, P string, r *GCRoles) {
	Pub := r.Publish
	chk := Callers([]*ssa.Function{Pub}, r.IsClosed)
	if c.Floor(P+".O5", "closed check in Publish", len(chk), 1) {
		closedTrue, closedFalse := r.closedVerdictEdges(Pub, chk)
		c.Floor(P+".O5", "test of the closed check's result in Publish", len(closedFalse), 1)
		for _, e := range closedTrue {
			re := ReachEdge(e, NewCut().AddEdges(closedFalse...))
			ok := true
			for _, ret := range Returns(Pub) {
				if re[ret] {
					for _, v := range RetOrigins(ret, 0) {
						if IsNilConst(v) {
							ok = false
						}
					}
				}
			}
			c.Report(ok, P+".O5", "PUBLISH-REJECTS-WHEN-CLOSED", Pub, e.From.Instrs[len(e.From.Instrs)-1].Pos(), "closed edge", "on the closed edge Publish returns an error")
		}
		for _, f := range Callers([]*ssa.Function{Pub}, r.Fan) {
			c.Report(GuardedBy(Pub, f, closedFalse), P+".O5", "PUBLISH-NOTHING-WHEN-CLOSED", Pub, f.Pos(), "fan-out", "nothing is sent unless the closed check answered 'open'")
		}
		for i, ret := range Returns(Pub) {
			mayNil := false
			for _, v := range RetOrigins(ret, 0) {
				if IsNilConst(v) {
					mayNil = true
				}
			}
			if mayNil && !KnownNonNilAt(Pub, ret, ret.Results[0]) {
				c.Report(GuardedBy(Pub, ret, closedFalse), P+".O5", "PUBLISH-SUCCEEDS-ONLY-WHEN-OPEN", Pub, ret.Pos(), fmt.Sprintf("Publish return#%d", i), "every return without an error lies behind the edge on which the closed check answered 'open' (no shortcut — an empty batch, a topic without subscribers — answers for a closed Pub/Sub)")
			}
		}
		var srcs []ErrSource
		for _, f := range Callers([]*ssa.Function{Pub}, r.Fan) {
			if n := f.Common().Signature().Results().Len(); n > 0 {
				srcs = append(srcs, ErrSource{f, n - 1})
			}
		}
		if IsErrorType(r.IsClosed.Signature.Results().At(0).Type()) {
			for _, ck := range chk {
				srcs = append(srcs, ErrSource{ck, 0})
			}
		}
		ErrorsOnlyFrom(c, P+".O5", "PUBLISH-FAILS-ONLY-WHEN-CLOSED", Pub, srcs, closedTrue, "Publish refuses a batch only when the Pub/Sub is closed (or the fan-out reports an error): no other condition — no subscribers, an option, the size of the batch — makes it fail or skip")
		// Close keeps the closed lock while it waits for the teardown goroutines, and those take the subscribers lock and
		// the topic mutex: whoever holds one of these must not ask for the closed lock
		for _, ck := range chk {
			held := r.LA.Held(ck)
			_, s := held[r.idSubs]
			_, t := held[r.idTopic]
			c.Report(!s && !t, P+".O5", "CLOSED-CHECK-BEFORE-LOCKS", Pub, ck.Pos(), "closed check in Publish", "Publish asks whether the Pub/Sub is closed before it takes the subscribers lock and the topic mutex (asked while holding them it waits for Close, which waits for the teardowns, which wait for these locks)", "held: "+held.String())
		}
		// the same holds anywhere in the package, not only in Publish
		for _, fn := range r.Funcs {
			if fn == Pub {
				continue
			}
			for _, cl := range CallsIn(fn) {
				isAsk := CalleeFn(cl.Common()) == r.IsClosed
				if op, isOp := r.LA.opOf(cl); isOp && (op.mode == 'W' || op.mode == 'R') && op.id == r.idClosedLock {
					isAsk = true
				}
				if !isAsk {
					continue
				}
				held := r.LA.Held(cl)
				_, s := held[r.idSubs]
				_, t := held[r.idTopic]
				c.Report(!s && !t, P+".O5", "CLOSED-LOCK-NOT-UNDER-SUBSCRIBER-LOCKS", fn, cl.Pos(), "closed check / closed lock", "the closed lock is never asked for while the subscribers lock or a topic mutex is held (Close keeps it while waiting for the teardowns, which need those locks)", "held: "+held.String())
			}
		}
		// and the other way round: whoever holds the closed lock must not wait for the subscribers lock or a topic mutex —
		// a blocked Publish keeps those until Close raises the closing signal, and Close needs the closed lock for that
		nAcq := 0
		for _, fn := range r.Funcs {
			for _, cl := range rawCallsIn(fn) {
				op, isOp := r.LA.opOf(cl)
				if !isOp || (op.mode != 'W' && op.mode != 'R') || (op.id != r.idSubs && op.id != r.idTopic) {
					continue
				}
				if _, isDefer := cl.(*ssa.Defer); isDefer {
					continue
				}
				nAcq++
				held := LockSet{}
				for k, m := range r.LA.Held(cl) {
					held[k] = m
				}
				for k, m := range r.LA.MayHoldAt(cl) {
					held[k] = m
				}
				_, has := held[r.idClosedLock]
				c.Report(!has, P+".O5", "SUBSCRIBER-LOCKS-NOT-UNDER-CLOSED-LOCK", fn, cl.Pos(), "acquisition of the subscribers lock / a topic mutex", "the subscribers lock and the topic mutexes are never waited for while the closed lock is held (a blocked Publish keeps them until Close raises the closing signal, for which Close needs the closed lock)", "held: "+held.String())
			}
		}
		c.Floor(P+".O5", "acquisitions of the subscribers lock / topic mutex", nAcq, 2)
		// the reader takes the lock
		for _, ld := range FieldLoads(r.IsClosed, r.Closed) {
			c.Report(r.LA.Held(ld)[r.idClosedLock] == 'W', P+".O5", "CLOSED-CHECK-LOCKED", r.IsClosed, ld.Pos(), "closed flag read", "the closed check reads the flag under the closed lock")
		}
		if IsErrorType(r.IsClosed.Signature.Results().At(0).Type()) {
			fT, fF := BoolEdges(r.IsClosed, func(v ssa.Value) bool { return AllOrigins(v, IsFieldLoad(r.Closed)) })
			for _, ret := range Returns(r.IsClosed) {
				if RetNil(ret, 0) {
					c.Report(len(fF) > 0 && GuardedBy(r.IsClosed, ret, fF), P+".O5", "CLOSED-CHECK-RESULT", r.IsClosed, ret.Pos(), "return nil", "the closed check answers nil only when the flag is not set")
				} else {
					os := RetOrigins(ret, 0)
					c.Report(len(fT) > 0 && GuardedBy(r.IsClosed, ret, fT) && len(os) > 0 && allOf(os, func(v ssa.Value) bool { return ProvablyNonNil(v, func(ssa.Value) bool { return false }) }), P+".O5", "CLOSED-CHECK-RESULT", r.IsClosed, ret.Pos(), "return error", "the closed check answers with a non-nil error exactly when the flag is set")
				}
			}
		} else {
			for ret, vals := range ReturnValues(r.IsClosed, 0) {
				c.Report(len(vals) == 1 && LoadedField(vals[0]) == r.Closed, P+".O5", "CLOSED-CHECK-RESULT", r.IsClosed, ret.Pos(), "return", "the closed check returns the flag")
			}
		}
	}
	S := r.Subscribe
	closedTrue, openEdges := BoolEdges(S, func(v ssa.Value) bool { return AllOrigins(v, IsFieldLoad(r.Closed)) })
	ErrorsOnlyFrom(c, P+".O5", "SUBSCRIBE-FAILS-ONLY-WHEN-CLOSED", S, nil, closedTrue, "Subscribe fails only when the Pub/Sub is closed")
	// … and succeeds only after it has looked: no return without an error in front of (or around) the closed test
	for i, ret := range Returns(S) {
		mayNil := false
		for _, v := range RetOrigins(ret, 1) {
			if IsNilConst(v) {
				mayNil = true
			}
		}
		if mayNil && !KnownNonNilAt(S, ret, ret.Results[1]) {
			c.Report(len(openEdges) > 0 && GuardedBy(S, ret, openEdges), P+".O5", "SUBSCRIBE-SUCCEEDS-ONLY-WHEN-OPEN", S, ret.Pos(), fmt.Sprintf("Subscribe return#%d", i), "every return without an error lies behind the edge on which the closed flag was read as not set (no shortcut — an already ended context, an unknown topic — answers for a closed Pub/Sub)")
		}
	}
	// every subscription Subscribe hands out is registered — by Subscribe or by the replay goroutine it starts — whatever its
	// context says: the teardown started for it removes it from the map and does not expect it to be missing
	if r.AddSub != nil {
		regs := Callers([]*ssa.Function{S}, r.AddSub)
		var gos []ssa.Instruction
		if r.Replay != nil {
			okReplay := false
			for _, a := range Callers(WithAnon(r.Replay), r.AddSub) {
				okA := a.Parent() == r.Replay
				for _, ret := range Returns(r.Replay) {
					if !Dominates(r.Replay, a, ret) {
						okA = false
					}
				}
				if okA {
					okReplay = true
				}
			}
			if okReplay {
				AllInstrs(S, func(in ssa.Instruction) {
					if g, isGo := in.(*ssa.Go); isGo && (FuncOfValue(g.Call.Value) == r.Replay || CalleeFn(&g.Call) == r.Replay) {
						gos = append(gos, g)
					}
				})
			}
		}
		for i, ret := range Returns(S) {
			if !RetNil(ret, 1) {
				continue
			}
			okReg := false
			for _, a := range regs {
				if a.Parent() == S && Dominates(S, a, ret) {
					okReg = true
				}
			}
			for _, g := range gos {
				if Dominates(S, g, ret) {
					okReg = true
				}
			}
			c.Report(okReg, P+".O5", "SUBSCRIBE-REGISTERS-ALWAYS", S, ret.Pos(), fmt.Sprintf("Subscribe return#%d", i), "every successful return of Subscribe has registered the subscription (or started the replay goroutine, which registers it on every path): no condition — an ended context, an empty topic — leaves a subscription unregistered whose teardown will look for it")
		}
	}
	if c.Floor(P+".O5", "closed check in Subscribe", len(closedTrue), 1) {
		for _, e := range closedTrue {
			re := ReachEdge(e, nil)
			ok := true
			for _, ret := range Returns(S) {
				if re[ret] && !KnownNonNilAt(S, ret, ret.Results[1]) {
					for _, v := range RetOrigins(ret, 1) {
						if IsNilConst(v) {
							ok = false
						}
					}
				}
			}
			for _, ad := range Callers([]*ssa.Function{S}, r.AddSub) {
				if re[ad] {
					ok = false
				}
			}
			// the closed lock is released on the error path (explicitly, or by an unlock deferred in the function that tests the flag)
			rel := false
			for _, cl := range CallsIn(S) {
				if op, isOp := r.LA.opOf(cl); isOp && op.mode == 'w' && op.id == r.idClosedLock {
					if _, isDefer := cl.(*ssa.Defer); isDefer && cl.Parent() == e.From.Parent() && Dominates(cl.Parent(), cl, e.From.Instrs[len(e.From.Instrs)-1]) {
						rel = true
					} else if !isDefer && re[cl] {
						rel = true
					}
				}
			}
			c.Report(ok && rel, P+".O5", "SUBSCRIBE-REJECTS-WHEN-CLOSED", S, e.From.Instrs[len(e.From.Instrs)-1].Pos(), "closed edge", "on the closed edge Subscribe releases the closed lock, registers nothing and returns an error")
		}
	}
}

func c07Persisted(c *Check, P string, r *GCRoles) {
	c07PersistedGuard(c, P+".O6", r)
	c07PersistedRest(c, P, r)
}

// c07PersistedGuard: every access to the persisted-message map happens under
// its lock (or under the subscribers write lock). Shared with C11.
func c07PersistedGuard(c *Check, id string, r *GCRoles) {
	n := 0
	for _, a := range r.LA.Accesses(r.Persisted) {
		fn := HomeFn(a.Ins.Parent())
		if fn == r.New {
			continue
		}
		n++
		held := r.LA.Held(a.Ins)
		ok := false
		if a.Write {
			ok = held[r.idPersist] == 'W' || held[r.idSubs] == 'W'
		} else {
			_, p := held[r.idPersist]
			ok = p || held[r.idSubs] == 'W'
		}
		c.Report(ok, id, "GUARDED-BY/persisted", fn, a.Ins.Pos(), a.What+" of persisted messages",
			"the persisted-message map is written under its write lock and read under its lock (or under the subscribers write lock)", "held: "+held.String())
	}
	c.Floor(id, "accesses to the persisted-message map", n, 6)
}

func c07PersistedRest(c *Check, P string, r *GCRoles) {
	// the subscriber map: reads under the subscribers lock (any mode), writes under its write mode
	ns := 0
	for _, a := range r.LA.Accesses(r.Subs) {
		fn := HomeFn(a.Ins.Parent())
		if fn == r.New {
			continue
		}
		ns++
		held := r.LA.Held(a.Ins)
		m, has := held[r.idSubs]
		ok := has && (!a.Write || m == 'W')
		c.Report(ok, P+".O6", "GUARDED-BY/subscribers", fn, a.Ins.Pos(), a.What+" of subscriber map", "the subscriber map is read under the subscribers lock and written under its write mode", "held: "+held.String())
	}
	c.Floor(P+".O6", "accesses to the subscriber map", ns, 8)
	// a subscription's channel, closing signal and context are assigned once, when it is built in Subscribe
	for _, f := range []*types.Var{r.SOut, r.SClosing, r.SCtx} {
		for _, fn := range r.Funcs {
			for _, st := range FieldStores(fn, f) {
				c.Report(HomeFn(fn) == r.Subscribe, P+".O6", "WHO-MAY-WRITE/subscription", fn, st.Pos(), "store to subscription field", "a subscription's output channel, closing signal and context are assigned only while it is built in Subscribe (immutable afterwards, so unsynchronised reads are safe)")
			}
		}
	}
	// the closed flag of a subscription is written only by its close function
	for _, fn := range r.Funcs {
		for _, st := range FieldStores(fn, r.SClosed) {
			c.Report(HomeFn(fn) == r.SubClose, P+".O6", "WHO-MAY-WRITE/subscription-closed", fn, st.Pos(), "store to the subscription's closed flag", "only the subscription close function sets the closed flag")
		}
	}
}

func c07LockHolders(c *Check, P string, r *GCRoles) {
	SC := r.SubClose
	// the subscription's signal is raised before the closer takes the sending mutex
	ssig := CloseSites(SC, func(v ssa.Value) bool { return AllOrigins(v, IsFieldLoad(r.SClosing)) })
	for _, cl := range CallsIn(SC) {
		if op, ok := r.LA.opOf(cl); ok && op.mode == 'W' && op.id == r.idSending {
			okD := len(ssig) > 0
			for _, s := range ssig {
				if !Dominates(SC, s, cl) {
					okD = false
				}
			}
			c.Report(okD, P+".O8", "SIGNAL-BEFORE-LOCK", SC, cl.Pos(), "sending.Lock in close", "the subscription's closing signal is raised before the closer waits for the sending mutex (a blocked deliver call sees it and releases the mutex)")
		}
	}
	// nothing blocks under the subscribers WRITE lock, nor under the closed lock (except Close's Wait)
	for _, fn := range r.Funcs {
		for i, op := range BlockingOps(fn) {
			held := r.LA.Held(op.Ins)
			k := fmt.Sprintf("%s#%d", op.Kind, i)
			if op.Kind == "lock" {
				continue
			}
			if held[r.idSubs] == 'W' {
				c.Report(false, P+".O8", "NO-BLOCK-UNDER-WRITE-LOCK", fn, op.Ins.Pos(), k, "a blocking "+op.Kind+" is executed while the subscribers write lock is held: Close and every Publish/Subscribe would wait for it", "held: "+held.String())
			}
			if _, has := held[r.idClosedLock]; has && !(fn == r.Close && op.Kind == "wg.Wait") {
				c.Report(false, P+".O8", "NO-BLOCK-UNDER-CLOSED-LOCK", fn, op.Ins.Pos(), k, "a blocking "+op.Kind+" is executed while the closed lock is held", "held: "+held.String())
			}
			if held[r.idSending] == 'W' && fn != r.Deliver {
				c.Report(false, P+".O8", "NO-BLOCK-UNDER-SENDING", fn, op.Ins.Pos(), k, "only the deliver function's escapable selects may block under the sending mutex", "held: "+held.String())
			}
		}
	}
	// a blocking Publish keeps the subscribers lock in read mode until its subscribers have acked, and a subscriber may itself
	// publish before it acks: a waiting writer stops that second reader (sync.RWMutex lets no new reader pass a waiting writer).
	// The writers are the ones a subscription's own life needs — Subscribe, its replay and its teardown — nothing periodic or
	// background (a clean-up goroutine, a statistics collector) asks for the write lock
	allowedW := map[*ssa.Function]bool{r.Subscribe: true}
	for _, f := range []*ssa.Function{r.Teardown, r.Replay} {
		if f != nil {
			allowedW[outermost(f)] = true
			allowedW[f] = true
		}
	}
	nW := 0
	for _, fn := range r.Funcs {
		for _, cl := range CallsIn(fn) {
			op, isOp := r.LA.opOf(cl)
			if !isOp || op.mode != 'W' || op.id != r.idSubs {
				continue
			}
			nW++
			home := HomeFn(fn)
			c.Report(allowedW[fn] || allowedW[outermost(fn)] || allowedW[home] || allowedW[outermost(home)], P+".O8", "WHO-TAKES-THE-SUBSCRIBERS-WRITE-LOCK", fn, cl.Pos(), "subscribersLock.Lock", "the subscribers lock is taken in write mode only by Subscribe, the replay goroutine and the teardown of a subscription (a further writer — periodic clean-up, statistics — queues behind a blocking Publish and stops every Publish behind it, including the one the blocked Publish waits for)")
		}
	}
	c.Floor(P+".O8", "write acquisitions of the subscribers lock", nW, 2)
	c.Report(true, P+".O8", "LOCK-HOLDERS-SCANNED", r.Close, r.Close.Pos(), "package scan", fmt.Sprintf("scanned %d functions for blocking operations under the subscribers write lock, the closed lock and the sending mutex", len(r.Funcs)))
}

// c07ContainerInit: the per-topic entries of the subscriber map and of the persisted log are (re)initialised with an
// empty slice only when the topic has no entry yet — initialising an existing entry forgets its subscribers / history.
func c07ContainerInit(c *Check, id string, r *GCRoles) {
	n := 0
	for _, fn := range r.Funcs {
		AllInstrs(fn, func(in ssa.Instruction) {
			mu, ok := in.(*ssa.MapUpdate)
			if !ok {
				return
			}
			var isMap func(ssa.Value) bool
			what := ""
			switch {
			case r.isPers(mu.Map):
				isMap, what = r.isPers, "persisted log"
			case r.isSubs(mu.Map):
				isMap, what = r.isSubs, "subscriber map"
			default:
				return
			}
			fresh, empty := false, false
			switch v := firstOrigin(mu.Value).(type) {
			case *ssa.MakeSlice:
				fresh = true
				if k, isC := IntConst(v.Len); isC && k == 0 {
					empty = true
				}
			case *ssa.Slice:
				if a, isA := v.X.(*ssa.Alloc); isA {
					fresh = true
					if p, isP := a.Type().Underlying().(*types.Pointer); isP {
						if arr, isArr := p.Elem().Underlying().(*types.Array); isArr && arr.Len() == 0 {
							empty = true
						}
					}
				}
			case *ssa.Const:
				if v.IsNil() {
					fresh, empty = true, true
				}
			}
			if !fresh {
				return
			}
			n++
			_, absent := BoolEdges(fn, func(x ssa.Value) bool {
				e, isE := x.(*ssa.Extract)
				if !isE || e.Index != 1 {
					return false
				}
				lk, isLk := e.Tuple.(*ssa.Lookup)
				return isLk && lk.CommaOk && isMap(lk.X) && sameValue(lk.Index, mu.Key)
			})
			c.Report(empty && len(absent) > 0 && GuardedBy(fn, mu, absent), id, "ENTRY-INITIALISED-ONLY-IF-ABSENT", fn, mu.Pos(), "initialisation of a topic's entry in the "+what,
				"a topic's entry is set to a new empty slice only on the edge on which the lookup found no entry for that topic (never over an existing entry, never with pre-filled elements)")
		})
	}
	c.Report(true, id, "ENTRY-INITIALISATIONS-SCANNED", nil, token.NoPos, "package scan", fmt.Sprintf("%d initialisations of per-topic entries examined", n))
}

// c07NoIndexTrap: the Pub/Sub's functions run under its locks (Publish, Subscribe, the replay and teardown goroutines); an
// index that can be out of range panics with the locks held and takes the whole Pub/Sub (or the process) down. Elements
// are taken by the counter of a range loop over the same slice, or behind a test of its length.
func c07NoIndexTrap(c *Check, id string, r *GCRoles) {
	n := 0
	for _, fn := range r.Funcs {
		AllInstrs(fn, func(in ssa.Instruction) {
			ia, ok := in.(*ssa.IndexAddr)
			if !ok {
				return
			}
			if _, isSl := ia.X.Type().Underlying().(*types.Slice); !isSl {
				return
			}
			n++
			okIdx := false
			if bo, isB := ia.Index.(*ssa.BinOp); isB && isRangeCounter(bo) {
				okIdx = true
			}
			if !okIdx {
				// behind a test that the slice is not empty / long enough
				for _, t := range Tests(fn) {
					args, isLen := IsBuiltinCall(t.X, "len")
					if !isLen || len(args) != 1 || !sameValue(args[0], ia.X) {
						continue
					}
					var safe []Edge
					switch t.Op {
					case token.GTR, token.NEQ:
						safe = append(safe, t.True)
					case token.EQL, token.LEQ, token.LSS:
						safe = append(safe, t.False)
					case token.GEQ:
						safe = append(safe, t.True)
					}
					if GuardedBy(fn, ia, safe) {
						okIdx = true
					}
				}
			}
			c.Report(okIdx, id+".O8", "NO-INDEX-TRAP", fn, ia.Pos(), "slice element access", "a slice element is taken by the counter of a range loop or behind a test of the slice's length (an index out of range panics with the Pub/Sub's locks held)")
		})
	}
	c.Floor(id+".O8", "slice element accesses in package gochannel", n, 1)
}

// c07RemoveExact: unsubscribing removes exactly the given subscription from
// its topic's list ("cancelling one subscription leaves the others working").
func c07RemoveExact(c *Check, id string, r *GCRoles) {
	R := r.RemoveSub
	var target *ssa.Parameter
	for _, p := range R.Params {
		if NamedOf(p.Type()) == r.S {
			target = p
		}
	}
	var upd *ssa.MapUpdate
	AllInstrs(R, func(in ssa.Instruction) {
		if mu, ok := in.(*ssa.MapUpdate); ok && r.isSubs(mu.Map) {
			upd = mu
		}
	})
	if !c.Floor(id, "subscriber-map update in the removal function", b2i(upd != nil && target != nil), 1) {
		return
	}
	// equality test on the loop element
	var eq []Edge
	var idx ssa.Value
	for _, t := range Tests(R) {
		if t.Op != token.EQL || t.Y == nil {
			continue
		}
		x, y := t.X, t.Y
		if FromParam(target)(x) {
			x, y = y, x
		}
		if !FromParam(target)(y) {
			continue
		}
		if u, ok := firstOrigin(x).(*ssa.UnOp); ok {
			if ia, ok := u.X.(*ssa.IndexAddr); ok && IsFullRangeIndex(ia.Index, ia.X) {
				eq = append(eq, t.True)
				idx = ia.Index
			}
		}
	}
	if !c.Floor(id, "comparison of the list element with the subscription to remove", len(eq), 1) {
		return
	}
	c.Report(GuardedBy(R, upd, eq), id, "REMOVE-ONLY-THE-GIVEN", R, upd.Pos(), "list update", "the list is rewritten only on the edge where the visited element is the subscription to remove")
	// new list = append(list[:i], list[i+1:]...) with the loop index i
	okShape := false
	if call, ok := firstOrigin(upd.Value).(*ssa.Call); ok {
		if args, isApp := IsBuiltinCall(call, "append"); isApp && len(args) == 2 {
			lo, okLo := firstOrigin(args[0]).(*ssa.Slice)
			hi, okHi := firstOrigin(args[1]).(*ssa.Slice)
			if okLo && okHi && lo.Low == nil && lo.High == idx && hi.High == nil {
				if bo, isB := hi.Low.(*ssa.BinOp); isB && bo.Op == token.ADD && bo.X == idx {
					if n, isC := IntConst(bo.Y); isC && n == 1 {
						isList := func(v ssa.Value) bool {
							lk, ok := firstOrigin(v).(*ssa.Lookup)
							return ok && r.isSubs(lk.X) && sameValue(lk.Index, upd.Key)
						}
						okShape = isList(lo.X) && isList(hi.X)
					}
				}
			}
		}
	}
	c.Report(okShape, id, "REMOVE-EXACT", R, upd.Pos(), "list update", "the new list is list[:i] ++ list[i+1:] for the matching index i of the same topic (exactly one element dropped, order kept)")
	// at most one removal per call: after the update the loop is left
	c.Report(!ReachAfter(upd, nil)[upd], id, "REMOVE-ONCE", R, upd.Pos(), "list update", "the search stops after the removal")
}

// c07TeardownOrder: the teardown raises the subscription's closing signal
// (by calling the subscription close function) before it takes the locks that
// goroutines blocked on that subscription may hold. Shared with C05.
func c07TeardownOrder(c *Check, id string, r *GCRoles) {
	T := r.Teardown
	for _, sc := range Callers([]*ssa.Function{T}, r.SubClose) {
		held := r.LA.Held(sc)
		_, s := held[r.idSubs]
		_, t := held[r.idTopic]
		c.Report(!s && !t, id, "CLOSE-SUBSCRIPTION-BEFORE-LOCKS", T, sc.Pos(), "subscription close call in the teardown",
			"the subscription is closed (its closing signal raised) before the teardown takes the subscribers lock / topic mutex: a blocking Publish that holds them while waiting for this subscription's ack can only be released by that signal", "held: "+held.String())
		// "before", not merely "outside": no acquisition of these locks precedes the close call
		for _, cl := range CallsIn(T) {
			if op, isOp := r.LA.opOf(cl); isOp && (op.mode == 'W' || op.mode == 'R') && (op.id == r.idSubs || op.id == r.idTopic) {
				c.Report(!ReachAfter(cl, nil)[sc], id, "CLOSE-SUBSCRIPTION-BEFORE-LOCKS", T, cl.Pos(), "lock acquisition in the teardown ("+op.id+")",
					"the teardown asks for this lock only after it closed the subscription (asking first, it can wait forever for a blocking Publish that waits for this subscription)")
			}
		}
	}
	// GoChannel.Close: a concurrent second Close must not return while the first still waits
	Cl := r.Close
	isWg := func(v ssa.Value) bool { f, _ := FieldOf(v); return f == r.Wg }
	closedTrue, _ := BoolEdges(Cl, func(v ssa.Value) bool { return AllOrigins(v, IsFieldLoad(r.Closed)) })
	for _, w := range CallsTo(Cl, nWGWait) {
		if !isWg(Receiver(w)) {
			continue
		}
		held := r.LA.Held(w)
		serial := held[r.idClosedLock] == 'W'
		if !serial && len(closedTrue) > 0 {
			// alternative: the already-closed path waits too
			serial = true
			for _, e := range closedTrue {
				re := ReachEdge(e, NewCut().AddInstrs(w))
				for _, ret := range Returns(Cl) {
					if re[ret] {
						serial = false
					}
				}
			}
		}
		c.Report(serial, id, "CLOSE-SERIALISED", Cl, w.Pos(), "wait for subscriptions in Close",
			"while one Close waits for the subscriptions a concurrent Close cannot return: the closed lock is held across the wait (after Close has returned every output channel is closed)", "held: "+held.String())
	}
}

// c07LockOrder: no two locks of the package are ever acquired in both orders.
func c07LockOrder(c *Check, id string, r *GCRoles) {
	es := r.LA.LockOrder()
	conf := OrderConflicts(es)
	for _, p := range conf {
		c.Report(false, id, "LOCK-ORDER", p[0].Site.Parent(), p[0].Site.Pos(), "acquire "+p[0].To+" while holding "+p[0].From,
			"two locks are acquired in both orders (deadlock when the two paths interleave)",
			fmt.Sprintf("%s: %s held, %s acquired", c.P.Pos(p[0].Site.Pos()), p[0].From, p[0].To),
			fmt.Sprintf("%s: %s held, %s acquired", c.P.Pos(p[1].Site.Pos()), p[1].From, p[1].To))
	}
	c.Report(len(conf) == 0, id, "LOCK-ORDER-ACYCLIC", r.Publish, r.Publish.Pos(), "package lock order", fmt.Sprintf("%d nested lock acquisitions examined; no pair of locks is taken in both orders", len(es)))
	c.Floor(id, "nested lock acquisitions in package gochannel", len(es), 4)
}

// ---------------------------------------------------------------------------
// Subscriber decorators (message/decorator.go)

func c07Decorator(c *Check, P string) {
	ctor := c.P.Func("message", "MessageTransformSubscriberDecorator")
	if !c.Use(P+".O7", ctor, "message.MessageTransformSubscriberDecorator") {
		return
	}
	var T *types.Named
	for _, f := range WithAnon(ctor) {
		for _, r := range Returns(f) {
			for _, o := range RetOrigins(r, 0) {
				if mi, ok := o.(*ssa.MakeInterface); ok && mi.Type().String() == msgPkg+".Subscriber" {
					T = NamedOf(mi.X.Type())
				}
			}
		}
	}
	if !c.Floor(P+".O7", "subscriber type built by MessageTransformSubscriberDecorator", b2i(T != nil), 1) {
		return
	}
	sub, cls := c.P.MethodOf(T, "Subscribe"), c.P.MethodOf(T, "Close")
	if !c.Use(P+".O7", sub, "decorator Subscribe") || !c.Use(P+".O7", cls, "decorator Close") {
		return
	}
	wgF := oneField(T, TypeIs("sync.WaitGroup"))
	sigs := FieldsByType(T, TypeIs("chan struct{}"))
	if !c.Floor(P+".O7", "decorator wait group", b2i(wgF != nil), 1) {
		return
	}
	// the decorator's signals belong to one decorated subscriber: made where the subscriber value is built
	for _, f := range WithAnon(ctor) {
		AllInstrs(f, func(in ssa.Instruction) {
			st, ok := in.(*ssa.Store)
			if !ok {
				return
			}
			fld, base := FieldOf(st.Addr)
			isSig := false
			for _, sf := range sigs {
				if sf == fld {
					isSig = true
				}
			}
			if !isSig {
				return
			}
			okFresh := AllOrigins(st.Val, func(o ssa.Value) bool {
				mk, isMk := o.(*ssa.MakeChan)
				al, isAl := base.(*ssa.Alloc)
				return isMk && isAl && mk.Parent() == al.Parent()
			})
			c.Report(okFresh, P+".O7", "SIGNAL-PER-SUBSCRIBER", f, st.Pos(), "store to "+fld.Name(), "each decorated subscriber gets its own closing signal, made together with it (one decorator value is applied to every handler's subscriber: a shared signal would stop the others and be closed twice)")
		})
	}
	// pump goroutines
	var pumps []*ssa.Function
	AllInstrs(sub, func(in ssa.Instruction) {
		if g, ok := in.(*ssa.Go); ok {
			if f := FuncOfValue(g.Call.Value); f != nil {
				pumps = append(pumps, f)
				// Add(1) before go
				okAdd := false
				for _, a := range CallsTo(sub, nWGAdd) {
					if f2, _ := FieldOf(Receiver(a)); f2 == wgF && Dominates(sub, a, g) {
						okAdd = true
					}
				}
				c.Report(okAdd, P+".O7", "PUMP-COUNTED", sub, g.Pos(), "go pump", "the pump goroutine is counted in the decorator's wait group before it starts")
				// … and nothing is counted without a pump that will signal Done
				for _, a := range CallsTo(sub, nWGAdd) {
					if f2, _ := FieldOf(Receiver(a)); f2 != wgF {
						continue
					}
					re := ReachAfter(a, NewCut().AddInstrs(g))
					for _, ret := range Returns(sub) {
						c.Report(!re[ret], P+".O7", "PUMP-COUNT-MATCHED", sub, a.Pos(), "wait group Add", "every path from the Add to a return of Subscribe starts the pump (an Add without a pump, e.g. on the error return of the inner Subscribe, makes Close wait forever)")
					}
				}
			}
		}
	})
	if !c.Floor(P+".O7", "pump goroutine in the decorator's Subscribe", len(pumps), 1) {
		return
	}
	// Close: inner Close, then signal, then Wait
	inner := CallsTo(cls, nSubClose)
	var waits []ssa.CallInstruction
	for _, w := range CallsTo(cls, nWGWait) {
		if f, _ := FieldOf(Receiver(w)); f == wgF {
			waits = append(waits, w)
		}
	}
	if !c.Floor(P+".O7", "inner Subscriber.Close and wait-group Wait in the decorator's Close", b2i(len(inner) > 0)+b2i(len(waits) > 0), 2) {
		return
	}
	for _, w := range waits {
		for _, ic := range inner {
			c.Report(Dominates(cls, ic, w), P+".O7", "INNER-CLOSE-BEFORE-WAIT", cls, w.Pos(), "Wait", "the inner subscriber is closed before the decorator waits for its pumps (their input channels get closed)")
		}
	}
	{
		re := ReachEntry(cls, NewCut().AddInstrs(instrsOf(waits)...))
		for i, ret := range Returns(cls) {
			c.Report(!re[ret], P+".O7", "DECORATOR-CLOSE-WAITS", cls, ret.Pos(), fmt.Sprintf("Close return#%d", i), "every Close call returns only after the pumps ended, also a second Close that overlaps the first (no 'already closing' shortcut)")
		}
	}
	// signals raised in Close before Wait (directly or through sync.Once.Do)
	raised := map[*types.Var]bool{}
	raisers := WithAnon(cls)
	for _, oc := range CallsIn(cls) {
		if CalleeName(oc) == "(*sync.Once).Do" {
			for _, a := range oc.Common().Args {
				if bt := c.P.BoundMethodTarget(firstOrigin(a)); bt != nil && bt.Pkg == cls.Pkg {
					raisers = append(raisers, bt) // `once.Do(t.method)`
				}
			}
		}
	}
	for _, f := range raisers {
		for _, sf := range sigs {
			sf := sf
			for _, cl := range CloseSites(f, func(v ssa.Value) bool { return AllOrigins(v, IsFieldLoad(sf)) }) {
				var site ssa.Instruction = cl
				if f != cls {
					// the literal must be handed to a synchronous call in Close (sync.Once.Do)
					site = nil
					for _, oc := range CallsIn(cls) {
						for _, a := range oc.Common().Args {
							if (FuncOfValue(firstOrigin(a)) == f || c.P.BoundMethodTarget(firstOrigin(a)) == f) && CalleeName(oc) == "(*sync.Once).Do" {
								site = oc
							}
						}
					}
				}
				if site == nil {
					continue
				}
				// Close may be called twice (the router closes a handler's subscriber, the user closes the Pub/Sub): the signal is
				// closed through a sync.Once, or behind the test of a flag of the decorator
				okOnce := f != cls
				if f == cls {
					for _, t := range Tests(cls) {
						if t.Y == nil && t.Op == token.ILLEGAL {
							if fl := LoadedField(firstOrigin(t.X)); fl != nil && fl.Type().String() == "bool" && (GuardedBy(cls, cl, []Edge{t.False}) || GuardedBy(cls, cl, []Edge{t.True})) {
								okOnce = true
							}
						}
					}
				}
				c.Report(okOnce, P+".O7", "DECORATOR-SIGNAL-CLOSED-ONCE", cls, site.Pos(), "close of the decorator's closing signal", "the decorator's closing signal is closed at most once however often Close is called (sync.Once, or a flag tested before): a second Close must not panic")
				ok := true
				for _, w := range waits {
					if !Dominates(cls, site, w) {
						ok = false
					}
				}
				if ok {
					raised[sf] = true
				}
				// the pumps may give up forwarding only once the inner subscriber is closed: while it is
				// still closing it may hand over messages that a reading consumer must still receive
				okAfter := len(inner) > 0
				for _, ic := range inner {
					if !Dominates(cls, ic, site) {
						okAfter = false
					}
				}
				c.Report(okAfter, P+".O7", "SIGNAL-AFTER-INNER-CLOSE", cls, site.Pos(), "closing signal of the decorator", "the decorator tells its pumps to stop forwarding only after the inner subscriber's Close returned (no message handed over during the inner Close is dropped)")
			}
		}
	}
	for _, pump := range pumps {
		c.Use(P+".O7", pump, "decorator pump")
		nb := 0
		for i, op := range BlockingOps(pump) {
			k := fmt.Sprintf("pump op#%d (%s)", i, op.Kind)
			switch op.Kind {
			case "recv":
				// receiving from the inner subscription: ends when the inner subscriber closes it
				nb++
				okIn := AllOrigins(op.Chan, func(v ssa.Value) bool {
					e, ok := v.(*ssa.Extract)
					if !ok || e.Index != 0 {
						return false
					}
					call, ok := e.Tuple.(*ssa.Call)
					return ok && CalleeName(call) == nSubscribe
				})
				c.Report(okIn, P+".O7", "PUMP-ESCAPABLE", pump, op.Ins.Pos(), k, "the pump receives from the inner subscription's channel, which the inner Close (called before Wait) closes")
			case "select":
				nb++
				found := false
				for _, cs := range op.Sel.Cases {
					ck := ClassifyChan(cs.Chan)
					if !cs.Send && ck.Kind == "field" && raised[ck.Field] {
						found = true
					}
					if !cs.Send && !(ck.Kind == "field" && raised[ck.Field]) {
						c.Report(false, P+".O7", "PUMP-DROPS-ONLY-AFTER-CLOSE", pump, op.Ins.Pos(), k, "the pump gives up handing over a message it took from the inner subscription only on the decorator's own closing signal, which Close raises after the inner Close returned — not on a context or timer (the message would be dropped, neither handled nor settled, while its subscription is still open)")
					}
				}
				c.Report(found, P+".O7", "PUMP-ESCAPABLE", pump, op.Ins.Pos(), k, "the pump's blocking select has a case on a signal that Close raises before it waits")
			default:
				nb++
				c.Report(false, P+".O7", "PUMP-ESCAPABLE", pump, op.Ins.Pos(), k, "a bare "+op.Kind+" in the pump blocks forever when the consumer stopped reading: Close, which waits for the pump, then hangs")
			}
		}
		c.Floor(P+".O7", "blocking operations of the pump (receive, forward)", nb, 2)
		// Done and close(out) on exit
		okDone := false
		for _, d := range CallsTo(pump, nWGDone) {
			if f, _ := FieldOf(Receiver(d)); f == wgF {
				okDone = true
				if _, isDefer := d.(*ssa.Defer); !isDefer {
					for _, ret := range Returns(pump) {
						if !Dominates(pump, d, ret) {
							okDone = false
						}
					}
				}
			}
		}
		c.Report(okDone, P+".O7", "PUMP-DONE", pump, pump.Pos(), "pump exit", "the pump signals Done on every exit")
		// the output channel is closed on every exit, and before Done: Close waits for Done, and after Close every output is closed
		isOut := func(v ssa.Value) bool {
			return AllOrigins(v, func(o ssa.Value) bool { mk, ok := o.(*ssa.MakeChan); return ok && mk.Parent() == sub })
		}
		closes := CloseSites(pump, isOut)
		if c.Floor(P+".O7", "close of the decorated output channel in the pump", len(closes), 1) {
			var dones []ssa.CallInstruction
			for _, d := range CallsTo(pump, nWGDone) {
				if f, _ := FieldOf(Receiver(d)); f == wgF {
					dones = append(dones, d)
				}
			}
			for _, cl := range closes {
				_, clDefer := cl.(*ssa.Defer)
				okExit := clDefer && cl.Parent() == pump && !InLoop(cl)
				if !clDefer {
					okExit = cl.Parent() == pump && !InLoop(cl)
					for _, ret := range Returns(pump) {
						if !Dominates(pump, cl, ret) {
							okExit = false
						}
					}
				} else {
					for _, ret := range Returns(pump) {
						if !Dominates(pump, cl, ret) {
							okExit = false
						}
					}
				}
				c.Report(okExit && len(closes) == 1, P+".O7", "PUMP-CLOSES-OUTPUT", pump, cl.Pos(), "close(out)", "the pump closes the channel Subscribe returned exactly once, on every exit")
				for _, d := range dones {
					_, dDefer := d.(*ssa.Defer)
					okOrder := false
					switch {
					case !clDefer && !dDefer:
						okOrder = Dominates(pump, cl, d)
					case !clDefer && dDefer:
						okOrder = true
					case clDefer && dDefer:
						// deferred calls run last-in-first-out: the Done must be registered first
						okOrder = d.Parent() == pump && cl.Parent() == pump && Dominates(pump, d, cl)
					}
					c.Report(okOrder, P+".O7", "PUMP-CLOSES-OUTPUT-BEFORE-DONE", pump, d.Pos(), "subscribeWg.Done vs close(out)", "the output channel is closed before the pump reports Done (deferred calls run last-in-first-out): when Close's Wait returns every decorated output is closed")
				}
			}
		}
	}
}
