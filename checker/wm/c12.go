package wm

import (
	"fmt"
	"go/token"
	"go/types"

	"golang.org/x/tools/go/ssa"
)

const backoffPkg = "github.com/cenkalti/backoff/v3"

func init() {
	register(&PropDef{
		ID:  "C12",
		Run: runC12,
		Explanation: "Decides for the closure returned by Retry.Middleware: a nil error is returned only on the edge where some handler call's error is nil, together with that call's outputs; every other return yields a handler error (never nil); no handler call is reachable after a success; " +
			"the retry loop has a +1 counter starting at 1 compared with MaxRetries whose closed-form number of in-loop handler calls is ≤ MaxRetries; every in-loop call is preceded in its iteration by a blocking select over exactly {ctx.Done(), time.After(NextBackOff())} on a back-off object whose five parameters are copied field-by-name from the Retry value, with ctx derived from the message context (WithTimeout(MaxElapsedTime) on the >0 edge); OnRetryHook receives the counter. " +
			"Not decided: real elapsed time vs. back-off (timers, backoff library arithmetic), the randomisation interval.",
		Assumptions: append([]string{"github.com/cenkalti/backoff/v3 ExponentialBackOff.NextBackOff implements the documented exponential schedule from its exported fields"}, commonAssumptions...),
	})
}

// LoopCounter describes `c := init; for { … c++ … }`.
type LoopCounter struct {
	Phi  *ssa.Phi
	Init int64
	Next *ssa.BinOp // Phi + 1
}

// FindCounters finds phi(init const, phi+1) induction variables in fn.
func FindCounters(fn *ssa.Function) []LoopCounter {
	var out []LoopCounter
	AllInstrs(fn, func(in ssa.Instruction) {
		phi, ok := in.(*ssa.Phi)
		if !ok {
			return
		}
		lc := LoopCounter{Phi: phi}
		hasInit := false
		for _, e := range phi.Edges {
			if n, ok := IntConst(e); ok {
				if hasInit && n != lc.Init {
					return
				}
				lc.Init, hasInit = n, true
				continue
			}
			bo, ok := e.(*ssa.BinOp)
			if !ok || bo.Op != token.ADD || bo.X != ssa.Value(phi) {
				return
			}
			if n, ok := IntConst(bo.Y); !ok || n != 1 {
				return
			}
			if lc.Next != nil && lc.Next != bo {
				return
			}
			lc.Next = bo
		}
		if hasInit && lc.Next != nil {
			out = append(out, lc)
		}
	})
	return out
}

func runC12(c *Check) {
	LostReceiverStores(c, "C12.CFG", "message/router/middleware")
	DefaultsApplied(c, "C12.CFG", "message/router/middleware")
	c12All(c, "C12")
}

// c12All holds the C12 obligations (also decided under C01: a middleware of the library that turns a failed
// attempt into a success makes the router Ack a message whose outputs were never published).
func c12All(c *Check, P string) {
	m := c.middleware(P, c.P.Method("message/router/middleware", "Retry", "Middleware"), "Retry.Middleware")
	if m == nil {
		return
	}
	I := m.Inner
	if !c.Floor(P+".O1", "handler calls in the retry closure (first attempt + retry)", len(m.HCalls), 2) {
		return
	}
	// Retry leaves the consumed message as it is: it sets no context on it (the time-limit context is Retry's own and is
	// cancelled when Retry returns — a message that carries it is dead for whoever handles it next)
	for _, f := range WithAnon(I) {
		for _, s := range CallsTo(f, nSetContext) {
			c.Report(false, P+".O4", "RETRY-SETS-NO-MESSAGE-CONTEXT", f, s.Pos(), "SetContext", "Retry never replaces the context of a message: its MaxElapsedTime context bounds its own waiting only")
		}
	}
	MiddlewareStatePerCall(c, P+".O1", "Retry", m)
	var inLoop, outLoop []ssa.CallInstruction
	for _, hc := range m.HCalls {
		c.Report(hc.Parent() == I && len(hc.Common().Args) == 1 && m.IsMsg(hc.Common().Args[0]), P+".O1", "HANDLER-ARG", I, hc.Pos(), "handler call", "the handler is (re-)invoked on the consumed message, in the middleware's own goroutine")
		if InLoop(hc) {
			inLoop = append(inLoop, hc)
		} else {
			outLoop = append(outLoop, hc)
		}
	}
	c.Floor(P+".O3", "handler call inside the retry loop", len(inLoop), 1)
	anyErr := ResultOfAny(m.HCalls, 1)

	// O1 error discipline
	for i, r := range Returns(I) {
		k := fmt.Sprintf("return#%d", i)
		errs := RetOrigins(r, 1)
		outs := RetOrigins(r, 0)
		nilErr, nonNil := false, false
		for _, e := range errs {
			if IsNilConst(e) {
				nilErr = true
			} else {
				nonNil = true
			}
		}
		switch {
		case nilErr && nonNil:
			c.Undecided(P+".O1", "ERROR-DISCIPLINE", I, r.Pos(), k, "cannot establish whether this return yields nil or an error")
		case nilErr:
			// which call succeeded?
			ok := false
			for _, hc := range m.HCalls {
				eq, _ := NilEdges(I, ResultOfAny([]ssa.CallInstruction{hc}, 1))
				if len(eq) > 0 && GuardedBy(I, r, eq) {
					same := len(outs) > 0
					for _, o := range outs {
						if !IsResultOf(o, hc, 0) {
							same = false
						}
					}
					if same {
						ok = true
					}
				}
			}
			c.Report(ok, P+".O1", "SUCCESS-ONLY-IF-HANDLER-SUCCEEDED", I, r.Pos(), k, "nil is returned only on the edge where a handler call returned nil, with that same call's outputs (a failure is never turned into success)")
		default:
			ok := len(errs) > 0
			for _, e := range errs {
				if !anyErr(e) {
					ok = false
				}
			}
			c.Report(ok, P+".O1", "ERROR-KEPT", I, r.Pos(), k, "a non-success return yields a handler call's error")
			// most recent: the error must not come only from a call that is followed by another call on the way here
		}
	}
	// path-sensitive: what is returned belongs to the LAST attempt made on that path
	for i, f := range ReturnFacts(I, m.HCalls) {
		k := fmt.Sprintf("path-class#%d to return at %s", i, c.P.Pos(f.Ret.Pos()))
		if f.Last == nil {
			c.Report(false, P+".O1", "RESULT-OF-LAST-ATTEMPT", I, f.Ret.Pos(), k, "a return is reachable without any attempt")
			continue
		}
		errV, outV := f.Vals[1], f.Vals[0]
		okErr := IsNilConst(errV) || IsResultOf(errV, f.Last, 1)
		okOut := IsNilConst(outV) || IsResultOf(outV, f.Last, 0)
		if IsNilConst(errV) {
			okOut = IsResultOf(outV, f.Last, 0)
		}
		c.Report(okErr && okOut, P+".O1", "RESULT-OF-LAST-ATTEMPT", I, f.Ret.Pos(), k,
			"on this class of paths the returned error (and messages) are the results of the most recent handler call, not of an earlier attempt",
			fmt.Sprintf("last attempt at %s; returned messages=%s error=%s", c.P.Pos(f.Last.Pos()), outV.Name(), errV.Name()))
	}
	// O2 stop on success
	for i, hc := range m.HCalls {
		eq, _ := NilEdges(I, ResultOfAny([]ssa.CallInstruction{hc}, 1))
		if !c.Floor(P+".O2", fmt.Sprintf("test `err == nil` after handler call #%d", i), len(eq), 1) {
			continue
		}
		for _, e := range eq {
			re := ReachEdge(e, nil)
			bad := false
			for _, h2 := range m.HCalls {
				if re[h2] {
					bad = true
				}
			}
			c.Report(!bad, P+".O2", "STOP-ON-SUCCESS", I, hc.Pos(), fmt.Sprintf("handler call#%d", i), "after a successful attempt no further handler call is reachable")
		}
	}

	for i, hc := range m.HCalls {
		eq, _ := NilEdges(I, ResultOfAny([]ssa.CallInstruction{hc}, 1))
		for _, e := range eq {
			re := ReachEdge(e, NewCut().AddInstrs(instrsOf(m.HCalls)...))
			for _, ret := range Returns(I) {
				if !re[ret] {
					continue
				}
				ok := true
				for _, o := range RetOrigins(ret, 0) {
					if !IsResultOf(o, hc, 0) {
						ok = false
					}
				}
				c.Report(ok, P+".O1", "SUCCESS-KEEPS-OUTPUTS", I, ret.Pos(), fmt.Sprintf("return reachable from the success edge of handler call#%d", i), "after a successful attempt the returned messages are that attempt's outputs (the result of the first successful attempt is returned, not dropped)")
			}
		}
	}
	// O3 bound
	counters := FindCounters(I)
	isMax := func(v ssa.Value) bool { return AllOrigins(v, exportedFieldLoad("MaxRetries")) }
	var ctr *LoopCounter
	decided := 0
	var giveUp []Edge // edges on which Retry legitimately stops retrying: retries exhausted, context ended
	for ci := range counters {
		lc := &counters[ci]
		for _, t := range Tests(I) {
			if t.Y == nil {
				continue
			}
			x, y, op := t.X, t.Y, t.Op
			if isMax(x) {
				x, y = y, x
				op = flipOp(op)
			}
			if !isMax(y) {
				continue
			}
			d := int64(-1)
			if x == ssa.Value(lc.Phi) {
				d = 0
			} else if x == ssa.Value(lc.Next) {
				d = 1
			}
			if d < 0 {
				continue
			}
			ctr = lc
			// exit edge: the one from which no in-loop handler call is reachable
			exitTrue := !reachesAny(ReachEdge(t.True, nil), inLoop)
			exitFalse := !reachesAny(ReachEdge(t.False, nil), inLoop)
			if exitTrue == exitFalse {
				c.Undecided(P+".O3", "RETRY-BOUND", I, t.If.Pos(), "MaxRetries test", "cannot tell which edge of the MaxRetries test leaves the retry loop")
				continue
			}
			if exitTrue {
				giveUp = append(giveUp, t.True)
			} else {
				giveUp = append(giveUp, t.False)
			}
			rel := op // relation that holds on the exit edge: T rel M
			if exitFalse {
				rel = negOp(op)
			}
			// first iteration i (1-based) at which the exit relation holds: T_i = init + (i-1) + d
			var iExit int64 // as offset k: i = M + k
			switch rel {
			case token.GTR:
				iExit = -lc.Init - d + 2
			case token.GEQ, token.EQL:
				iExit = -lc.Init - d + 1
			default:
				c.Undecided(P+".O3", "RETRY-BOUND", I, t.If.Pos(), "MaxRetries test", "the loop leaves on a relation other than counter >/>=/== MaxRetries; closed form not available")
				continue
			}
			// is the test after the in-loop call within an iteration?
			after := true
			for _, hc := range inLoop {
				if ReachWithout(lc.Phi, t.If, hc) {
					after = false
				}
			}
			calls := iExit // calls = M + calls
			if !after {
				calls--
			}
			decided++
			c.Report(calls <= 0, P+".O3", "RETRY-BOUND", I, t.If.Pos(), "MaxRetries test",
				fmt.Sprintf("closed form: with all attempts failing the loop re-invokes the handler MaxRetries%+d times (counter starts at %d, compares counter%+d %s MaxRetries, test %s the call); must be ≤ MaxRetries",
					calls, lc.Init, d, rel, map[bool]string{true: "after", false: "before"}[after]))
			if calls < 0 {
				c.Note(P+".O3", "RETRY-BOUND", I, t.If.Pos(), "MaxRetries test", fmt.Sprintf("fewer retries than MaxRetries (%+d): allowed by 'at most', reported for information", calls))
			}
			// every iteration passes the test (no path from the in-loop call back to itself that avoids the test)
			for _, hc := range inLoop {
				c.Report(!ReachWithout(hc, hc, t.If), P+".O3", "RETRY-BOUND-EVERY-ITERATION", I, hc.Pos(), "in-loop handler call", "every iteration passes the MaxRetries test (and the counter increment) before the next attempt")
			}
		}
	}
	c.Floor(P+".O3", "retry counter compared with MaxRetries", decided, 1)

	// O4 wait before retry
	var nextBackoff ssa.Value
	waits := c12FindWaits(I)
	for _, w := range waits {
		k := "retry wait"
		s := w.site
		nTimeout := 0
		okCtx := AllOrigins(w.ctx, func(v ssa.Value) bool {
			if cl, ok := v.(*ssa.Call); ok && CalleeName(cl) == nContext && m.IsMsg(Receiver(cl)) {
				return true
			}
			if e, ok := v.(*ssa.Extract); ok && e.Index == 0 {
				if wt, ok := e.Tuple.(*ssa.Call); ok && CalleeName(wt) == nWithTimeout {
					p0, isC := firstOrigin(wt.Call.Args[0]).(*ssa.Call)
					okP := isC && CalleeName(p0) == nContext && m.IsMsg(Receiver(p0))
					okD := AllOrigins(wt.Call.Args[1], exportedFieldLoad("MaxElapsedTime"))
					// only on the MaxElapsedTime > 0 edge
					var gt []Edge
					for _, t := range Tests(I) {
						if !AllOrigins(t.X, exportedFieldLoad("MaxElapsedTime")) {
							continue
						}
						if z, ok := IntConst(t.Y); ok && z == 0 {
							switch t.Op {
							case token.GTR:
								gt = append(gt, t.True)
							case token.LEQ:
								gt = append(gt, t.False) // `if x <= 0 { … }`: the other edge is x > 0
							}
						}
					}
					if okP && okD && len(gt) > 0 && GuardedBy(I, wt, gt) && Reachable(I, wt) {
						nTimeout++
						return true
					}
					return false
				}
			}
			return false
		})
		c.Report(nTimeout > 0, P+".O4", "WAIT-MAX-ELAPSED", I, s.Pos(), k, "MaxElapsedTime (when > 0) bounds the waiting through WithTimeout on the context the wait listens on")
		// … on every path of that edge: nothing else (a deadline the message already has, another option) decides whether the bound applies
		{
			var gtAll []Edge
			for _, t := range Tests(I) {
				if !AllOrigins(t.X, exportedFieldLoad("MaxElapsedTime")) {
					continue
				}
				if z, ok := IntConst(t.Y); ok && z == 0 {
					switch t.Op {
					case token.GTR:
						gtAll = append(gtAll, t.True)
					case token.LEQ:
						gtAll = append(gtAll, t.False)
					}
				}
			}
			var wts []ssa.Instruction
			for _, cl := range CallsTo(I, nWithTimeout) {
				wts = append(wts, cl)
			}
			okAlways := len(gtAll) > 0
			for _, e := range gtAll {
				if ReachEdge(e, NewCut().AddInstrs(wts...))[s] {
					okAlways = false
				}
			}
			c.Report(okAlways, P+".O4", "WAIT-MAX-ELAPSED-ALWAYS", I, s.Pos(), k, "whenever MaxElapsedTime > 0 the wait's context goes through WithTimeout (no further condition switches the bound off)")
		}
		c.Report(okCtx, P+".O4", "WAIT-CTX", I, s.Pos(), k, "the wait ends early on the message context, or on WithTimeout(message context, MaxElapsedTime) taken only when MaxElapsedTime > 0")
		nb, okNB := firstOrigin(w.dur).(*ssa.Call)
		okNB = okNB && CalleeName(nb) == "(*"+backoffPkg+".ExponentialBackOff).NextBackOff"
		c.Report(okNB, P+".O4", "WAIT-DURATION", I, s.Pos(), k, "the wait lasts the back-off object's NextBackOff()")
		if okNB {
			nextBackoff = nb
			c.Report(nb.Block() == s.Block() || !ReachWithout(s, s, nb), P+".O4", "WAIT-FRESH-DURATION", I, nb.Pos(), k, "NextBackOff() is taken anew for every wait")
			c12Backoff(c, P, I, Receiver(nb))
		}
		for _, hc := range inLoop {
			c.Report(len(w.timeEdges) > 0 && GuardedBy(I, hc, w.timeEdges), P+".O4", "RETRY-ONLY-AFTER-WAIT", I, hc.Pos(), "in-loop handler call", "a retry happens only after the back-off timer fired")
			c.Report(!ReachWithout(hc, hc, s), P+".O4", "WAIT-EVERY-ITERATION", I, hc.Pos(), "in-loop handler call", "between two retries the wait is always executed")
		}
		for _, e := range w.doneEdges {
			re := ReachEdge(e, nil)
			c.Report(!reachesAny(re, m.HCalls), P+".O4", "GIVE-UP-ON-CTX", I, s.Pos(), k, "when the context ends no further attempt is made")
		}
		giveUp = append(giveUp, w.doneEdges...)
		c.Floor(P+".O4", "edge of the timer case", len(w.timeEdges), 1)
		c.Floor(P+".O4", "edge of the ctx.Done() case", len(w.doneEdges), 1)
		if w.helper != nil {
			c.Use(P+".O4", w.helper, "wait helper")
			c.Report(w.helperOK, P+".O4", "WAIT-HELPER-SHAPE", w.helper, w.helper.Pos(), "wait helper", "the wait helper is a blocking select over exactly {its context's Done(), a timer of its duration} that reports the timer case as nil and the context case as non-nil")
		}
	}
	if len(waits) == 0 {
		c.Floor(P+".O4", "blocking wait over exactly {ctx.Done(), timer(back-off)} in the retry loop (inline select or helper)", 0, 1)
	}
	// every step of the back-off is a wait: NextBackOff() is called for the wait's duration and for nothing else (a
	// call made for a log field or a metric consumes an interval, and the next wait is one step too long)
	nNB := 0
	for _, f := range WithStarted(I) {
		for _, cl := range CallsIn(f) {
			if CalleeName(cl) != "(*github.com/cenkalti/backoff/v3.ExponentialBackOff).NextBackOff" {
				continue
			}
			nNB++
			feeds := false
			for _, w := range waits {
				if AnyOrigin(w.dur, func(o ssa.Value) bool { return o == CallValue(cl) }) {
					feeds = true
				}
			}
			c.Report(feeds, P+".O4", "BACKOFF-STEP-ONLY-FOR-THE-WAIT", f, cl.Pos(), "NextBackOff()", "every NextBackOff() call yields the duration of a wait (none is made for logging or reporting: each call advances the back-off)")
		}
	}
	c.Floor(P+".O4", "NextBackOff() calls", nNB, 1)
	// the MaxElapsedTime budget starts with the first failure, like the back-off clock: the first attempt is made
	// outside it (a first attempt longer than the budget is still followed by retries)
	for _, cl := range CallsTo(I, nWithTimeout) {
		okAfter := len(outLoop) > 0
		for _, hc := range outLoop {
			if !Dominates(I, hc, cl) {
				okAfter = false
			}
		}
		c.Report(okAfter, P+".O4", "ELAPSED-TIME-STARTS-AFTER-THE-FIRST-ATTEMPT", I, cl.Pos(), "WithTimeout(MaxElapsedTime)", "the context that bounds the retrying is created after the first attempt has failed (MaxElapsedTime limits the time spent retrying, not the first attempt)")
	}
	// the MaxElapsedTime context stays alive while Retry waits: its cancel function is only ever deferred (called in
	// place before the loop it ends the waiting at once, and Retry gives up after the first failure)
	for _, cl := range CallsTo(I, nWithTimeout) {
		call, isCall := cl.(*ssa.Call)
		if !isCall {
			continue
		}
		for _, ref := range *call.Referrers() {
			e, isE := ref.(*ssa.Extract)
			if !isE || e.Index != 1 {
				continue
			}
			isCancel := func(v ssa.Value) bool { return AnyOrigin(v, func(o ssa.Value) bool { return o == ssa.Value(e) }) }
			for _, f := range WithStarted(I) {
				for _, use := range CallsIn(f) {
					if use.Common().IsInvoke() || CalleeFn(use.Common()) != nil || !isCancel(use.Common().Value) {
						continue
					}
					_, isDefer := use.(*ssa.Defer)
					// deferred in the middleware's own frame (a defer inside a helper runs when the helper returns)
					okLate := isDefer && use.Parent() == f
					if !okLate && f == I {
						// a call in place is fine once no wait can follow
						okLate = true
						for _, w := range waits {
							if ReachAfter(use, nil)[w.site] {
								okLate = false
							}
						}
					}
					c.Report(okLate, P+".O4", "TIMEOUT-CONTEXT-LIVES", f, use.Pos(), "cancel of the MaxElapsedTime context", "the context that bounds the waiting is cancelled only when Retry is done (deferred, or after the last wait) — not before the waits it is meant to bound")
				}
			}
		}
	}
	// a failed attempt is given up only because the retries are used up or the context ended: no property of the
	// error (its kind, its text) and no other condition ends the retrying early
	if len(giveUp) > 0 {
		for i, ret := range Returns(I) {
			if RetNil(ret, 1) {
				continue
			}
			c.Report(GuardedBy(I, ret, giveUp), P+".O3", "GIVE-UP-ONLY-WHEN-EXHAUSTED-OR-CONTEXT-ENDED", I, ret.Pos(), fmt.Sprintf("failing return#%d", i),
				"Retry hands the handler's error on only behind the exhausted edge of the MaxRetries test or the ctx.Done() case of the wait (every failed attempt before that is retried, whatever the error is)")
		}
	}

	// O5 hook
	nh := 0
	for _, cl := range CallsIn(I) {
		if cl.Common().IsInvoke() || CalleeFn(cl.Common()) != nil || !AllOrigins(cl.Common().Value, exportedFieldLoad("OnRetryHook")) {
			continue
		}
		nh++
		isV := func(v, want ssa.Value) bool { return AllOrigins(v, func(o ssa.Value) bool { return o == want }) }
		okArg := ctr != nil && (isV(cl.Common().Args[0], ctr.Phi) && ctr.Init == 1 || isV(cl.Common().Args[0], ctr.Next) && ctr.Init == 0)
		c.Report(okArg, P+".O5", "HOOK-COUNTER", I, cl.Pos(), "OnRetryHook call", "the hook receives the retry counter, which runs 1,2,…")
		_, fail := NilEdges(I, ResultOfAny(inLoop, 1))
		c.Report(InLoop(cl) && GuardedBy(I, cl, fail) && !ReachWithout(cl, cl, instrsOf(inLoop)...), P+".O5", "HOOK-PER-FAILED-RETRY", I, cl.Pos(), "OnRetryHook call", "the hook is called once per failed retry")
		if nextBackoff != nil {
			c.Report(AllOrigins(cl.Common().Args[1], func(v ssa.Value) bool { return v == nextBackoff }), P+".O5", "HOOK-DELAY", I, cl.Pos(), "OnRetryHook call", "the hook receives the delay that was waited")
		}
	}
	c.Floor(P+".O5", "OnRetryHook call", nh, 1)
	// … whenever it is set: between a failed attempt and the next one the hook is called unless it is nil — no other
	// condition (a Logger being configured, the kind of error) decides about it
	{
		var hookCalls []ssa.Instruction
		for _, cl := range CallsIn(I) {
			if !cl.Common().IsInvoke() && CalleeFn(cl.Common()) == nil && AllOrigins(cl.Common().Value, exportedFieldLoad("OnRetryHook")) {
				hookCalls = append(hookCalls, cl)
			}
		}
		hookNil, _ := NilEdges(I, func(v ssa.Value) bool { return AllOrigins(v, exportedFieldLoad("OnRetryHook")) })
		_, fail := NilEdges(I, ResultOfAny(inLoop, 1))
		for _, e := range fail {
			re := ReachEdge(e, NewCut().AddInstrs(hookCalls...).AddEdges(hookNil...))
			okH := true
			for _, hc := range inLoop {
				if re[hc] {
					okH = false
				}
			}
			c.Report(okH && len(hookCalls) > 0, P+".O5", "HOOK-WHENEVER-SET", I, e.From.Instrs[len(e.From.Instrs)-1].Pos(), "failed-retry edge", "from a failed retry the next attempt is reached only past the hook call or the edge on which the hook is nil")
		}
	}
}

func c12Backoff(c *Check, P string, I *ssa.Function, b ssa.Value) {
	nb, ok := firstOrigin(b).(*ssa.Call)
	// the object may be built by an in-package helper from the Retry fields
	var helper *ssa.Function
	var helperCall *ssa.Call
	if ok && CalleeName(nb) != backoffPkg+".NewExponentialBackOff" {
		if H := CalleeFn(&nb.Call); H != nil && H.Pkg == I.Pkg && len(H.Blocks) > 0 {
			for _, vals := range ReturnValues(H, 0) {
				for _, v := range vals {
					if inner, isC := v.(*ssa.Call); isC && CalleeName(inner) == backoffPkg+".NewExponentialBackOff" {
						helper, helperCall = H, nb
						nb = inner
					}
				}
			}
		}
	}
	if !ok || CalleeName(nb) != backoffPkg+".NewExponentialBackOff" {
		c.Report(false, P+".O4", "BACKOFF-OBJECT", I, b.Pos(), "back-off object", "the back-off object is a fresh backoff.NewExponentialBackOff() per invocation")
		return
	}
	site := ssa.Instruction(nb)
	if helperCall != nil {
		site = helperCall
		c.Use(P+".O4", helper, "back-off construction helper")
	}
	c.Report(!InLoop(site) && site.Parent() == I, P+".O4", "BACKOFF-OBJECT", I, site.Pos(), "back-off object", "one back-off object per invocation, created inside the per-message closure (intervals grow across retries, nothing is shared between messages)")
	for _, f := range WithStarted(I) {
		for _, cl := range CallsIn(f) {
			if CalleeName(cl) == "(*github.com/cenkalti/backoff/v3.ExponentialBackOff).Reset" {
				c.Report(!InLoop(cl), P+".O4", "BACKOFF-RESET-ONCE", f, cl.Pos(), "back-off Reset", "the back-off is reset once, before the retry loop (a Reset inside the loop makes every wait the initial interval: the back-off never grows)")
			}
		}
	}
	want := map[string]bool{"InitialInterval": false, "MaxInterval": false, "Multiplier": false, "MaxElapsedTime": false, "RandomizationFactor": false}
	for _, ref := range *nb.Referrers() {
		fa, ok := ref.(*ssa.FieldAddr)
		if !ok {
			continue
		}
		f, _ := FieldOf(fa)
		for _, r2 := range *fa.Referrers() {
			st, ok := r2.(*ssa.Store)
			if !ok || st.Addr != ssa.Value(fa) {
				continue
			}
			val := st.Val
			if helper != nil {
				// a parameter of the helper: take the argument at the call site
				for i, p := range helper.Params {
					if AllOrigins(st.Val, IsParam(p)) && i < len(helperCall.Call.Args) {
						val = helperCall.Call.Args[i]
					}
				}
			}
			src := LoadedField(firstOrigin(val))
			okCopy := src != nil && src.Name() == f.Name() && src.Exported()
			c.Report(okCopy, P+".O4", "BACKOFF-FIELD", st.Parent(), st.Pos(), "backoff."+f.Name(), "the back-off parameter "+f.Name()+" is copied from the Retry field of the same name")
			// unconditionally: no path from the object's creation to an exit of that function goes around the assignment
			if nb.Parent() == st.Parent() {
				re := ReachAfter(nb, NewCut().AddInstrs(st))
				okAlways := true
				for _, ret := range Returns(st.Parent()) {
					if re[ret] {
						okAlways = false
					}
				}
				c.Report(okAlways, P+".O4", "BACKOFF-FIELD-ALWAYS", st.Parent(), st.Pos(), "backoff."+f.Name(), "the configured "+f.Name()+" is applied whatever its value (a value-dependent assignment silently replaces legal settings, e.g. Multiplier 1 = constant interval, by the library default)")
			}
			if okCopy {
				want[f.Name()] = true
			}
		}
	}
	for n, ok := range want {
		if !ok {
			c.Report(false, P+".O4", "BACKOFF-FIELD", I, site.Pos(), "backoff."+n, "the back-off parameter "+n+" is configured from the Retry value")
		}
	}
}

func reachesAny(set InstrSet, cs []ssa.CallInstruction) bool {
	for _, c := range cs {
		if set[c] {
			return true
		}
	}
	return false
}

func flipOp(op token.Token) token.Token {
	switch op {
	case token.LSS:
		return token.GTR
	case token.GTR:
		return token.LSS
	case token.LEQ:
		return token.GEQ
	case token.GEQ:
		return token.LEQ
	}
	return op
}

func negOp(op token.Token) token.Token {
	switch op {
	case token.LSS:
		return token.GEQ
	case token.GTR:
		return token.LEQ
	case token.LEQ:
		return token.GTR
	case token.GEQ:
		return token.LSS
	case token.EQL:
		return token.NEQ
	}
	return op
}

// c12Wait describes the wait between retries: an inline select in the
// middleware closure, or a call of an in-package helper wait(ctx, d) error.
type c12Wait struct {
	site      ssa.Instruction
	ctx, dur  ssa.Value
	timeEdges []Edge
	doneEdges []Edge
	helper    *ssa.Function
	helperOK  bool
}

// selectOverCtxAndTimer recognises `select { case <-ctx.Done(): … case <-time.After(d) | timer.C: … }`.
func selectOverCtxAndTimer(s *ssa.Select) (ctx, dur ssa.Value, doneIdx, timeIdx int, ok bool) {
	doneIdx, timeIdx = -1, -1
	if !s.Blocking || len(s.States) != 2 {
		return
	}
	for i, st := range s.States {
		if st.Dir != types.RecvOnly {
			return
		}
		o := firstOrigin(st.Chan)
		if cl, isCall := o.(*ssa.Call); isCall {
			switch CalleeName(cl) {
			case nCtxDone:
				doneIdx, ctx = i, cl.Call.Value
			case nTimeAfter:
				timeIdx, dur = i, cl.Call.Args[0]
			}
			continue
		}
		// timer.C of time.NewTimer(d)
		if f := LoadedField(o); f != nil && f.Name() == "C" && f.Pkg() != nil && f.Pkg().Path() == "time" {
			if u, isU := o.(*ssa.UnOp); isU {
				if _, base := FieldOf(u.X); base != nil {
					if nt, isNT := firstOrigin(base).(*ssa.Call); isNT && CalleeName(nt) == "time.NewTimer" {
						timeIdx, dur = i, nt.Call.Args[0]
					}
				}
			}
		}
	}
	ok = doneIdx >= 0 && timeIdx >= 0
	return
}

func selectCaseEdges(fn *ssa.Function, s *ssa.Select, idx int) []Edge {
	var out []Edge
	for _, t := range Tests(fn) {
		e, ok := t.X.(*ssa.Extract)
		if !ok || e.Tuple != ssa.Value(s) || e.Index != 0 || t.Op != token.EQL {
			continue
		}
		if n, ok := IntConst(t.Y); ok && int(n) == idx {
			out = append(out, t.True)
		}
	}
	return out
}

func c12FindWaits(I *ssa.Function) []c12Wait {
	var out []c12Wait
	AllInstrs(I, func(in ssa.Instruction) {
		switch x := in.(type) {
		case *ssa.Select:
			ctx, dur, di, ti, ok := selectOverCtxAndTimer(x)
			if !ok {
				return
			}
			out = append(out, c12Wait{site: x, ctx: ctx, dur: dur, timeEdges: selectCaseEdges(I, x, ti), doneEdges: selectCaseEdges(I, x, di)})
		case *ssa.Call:
			H := CalleeFn(&x.Call)
			if H == nil || H.Pkg != I.Pkg || len(H.Blocks) == 0 || H.Signature.Results().Len() != 1 || !IsErrorType(H.Signature.Results().At(0).Type()) {
				return
			}
			for _, si := range Selects(H) {
				ctx, dur, di, ti, ok := selectOverCtxAndTimer(si.Sel)
				if !ok {
					continue
				}
				// both operands are parameters of the helper
				var ctxArg, durArg ssa.Value
				for i, p := range H.Params {
					if i >= len(x.Call.Args) {
						break
					}
					if AllOrigins(ctx, IsParam(p)) {
						ctxArg = x.Call.Args[i]
					}
					if AllOrigins(dur, IsParam(p)) {
						durArg = x.Call.Args[i]
					}
				}
				if ctxArg == nil || durArg == nil {
					continue
				}
				// helper result: nil exactly on the timer case
				te, de := selectCaseEdges(H, si.Sel, ti), selectCaseEdges(H, si.Sel, di)
				okH := len(te) > 0 && len(de) > 0 && len(BlockingOps(H)) == 1
				for _, r := range Returns(H) {
					if RetNil(r, 0) {
						if !GuardedBy(H, r, te) {
							okH = false
						}
					} else if !GuardedBy(H, r, de) {
						okH = false
					} else {
						for _, o := range RetOrigins(r, 0) {
							if IsNilConst(o) {
								okH = false
							}
						}
					}
				}
				isRes := func(v ssa.Value) bool { return AllOrigins(v, func(o ssa.Value) bool { return o == ssa.Value(x) }) }
				timeE, doneE := NilEdges(I, isRes)
				out = append(out, c12Wait{site: x, ctx: ctxArg, dur: durArg, timeEdges: timeE, doneEdges: doneE, helper: H, helperOK: okH})
			}
		}
	})
	return out
}

// MiddlewareStatePerCall: what the per-message closure of a middleware writes is made by that call: it updates no map
// that was built once when the middleware was constructed and is captured by the closure (messages are handled concurrently,
// and each invocation of the closure would write the same map).
func MiddlewareStatePerCall(c *Check, id, name string, m *MW) {
	I := m.Inner
	nest := map[*ssa.Function]bool{}
	for _, f := range WithAnon(I) {
		nest[f] = true
	}
	n := 0
	for f := range nest {
		AllInstrs(f, func(in ssa.Instruction) {
			var mp ssa.Value
			switch x := in.(type) {
			case *ssa.MapUpdate:
				mp = x.Map
			case ssa.CallInstruction:
				for _, b := range []string{"delete", "clear"} {
					if args, ok := IsBuiltinCall(valueOfCall(x), b); ok && len(args) > 0 {
						mp = args[0]
					}
				}
			}
			if mp == nil {
				return
			}
			n++
			for _, o := range Origins(mp) {
				if mk, isMk := o.(*ssa.MakeMap); isMk && !nest[mk.Parent()] && !nest[HomeFn(mk.Parent())] && !nest[outermostLit(HomeFn(mk.Parent()), nest)] {
					c.Report(false, id, "MIDDLEWARE-STATE-PER-CALL", f, in.Pos(), name+": write to a map made outside the per-message closure", "the per-message closure writes no map that was made once when the middleware was built (concurrent messages would share it)")
				}
			}
		})
	}
	c.Report(true, id, "MIDDLEWARE-MAP-WRITES-SCANNED", I, I.Pos(), name, fmt.Sprintf("%d map writes in the per-message closure examined", n))
}

// outermostLit walks up the enclosing functions of f until one of them is in set (or the top is reached).
func outermostLit(f *ssa.Function, set map[*ssa.Function]bool) *ssa.Function {
	for f != nil && !set[f] && f.Parent() != nil {
		f = f.Parent()
	}
	return f
}
