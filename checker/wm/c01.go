package wm

import (
	"fmt"
	"go/token"

	"golang.org/x/tools/go/ssa"
)

func init() {
	register(&PropDef{
		ID:  "C01",
		Run: runC01,
		Explanation: "Decides the local facts whose conjunction is the textbook argument for at-least-once delivery through Router stages connected by GoChannel topics (the composition itself is a pen-and-paper argument in DESIGN §3, not mechanised): a stage Acks only behind chain-error==nil and publish-error==nil, every failure exit (handler error, publish error, recovered panic of handler or publisher) Nacks, outputs of a failed attempt are not published (the C02 obligations, re-decided here); " +
			"the broker re-sends a fresh copy after every Nack and stops only after an Ack or when the subscription is closed, and owns the subscription until settlement (C04.O2, C05.O1); nothing is invented: every value sent to a subscriber is Copy() of the deliver function's message, and every message handed to the deliver function is a copy of a message given to Publish or an element of the persisted log, which is only ever extended with such copies. " +
			"The router's registration and life-cycle obligations (C09, C10) are decided here too: a stage whose handler is dropped from the router or never started consumes nothing, and its input topic loses what was published to it. " +
			"The obligations of the metrics middleware (C20: an observation that panics after a successful handler call makes the stage Nack what it handled), of the Retry middleware (C12) and of the simple middlewares (C19) are decided here too, because a library middleware that turns a failed attempt into a success or drops outputs makes a stage Ack a message that never reached the next topic. Not decided: that redelivery eventually happens (scheduler), third-party Pub/Subs, the fault-free suffix assumption.",
		Assumptions: commonAssumptions,
	})
}

func runC01(c *Check) {
	P := "C01"
	if r := c.routerRoles(P); r != nil {
		c02Core(c, P, r)
		c02Dispatch(c, P, r)
	}
	g := c.gochannelRoles(P)
	if g == nil {
		return
	}
	c04FreshCopy(c, P, g)
	c04Resend(c, P, g)
	c05OneInFlight(c, P, g)
	c04PublishCopies(c, P, g)
	c04NoSharedWrites(c, P+".O4", g)
	gcSafety(c, P, g)
	c11PersistBeforeSend(c, P+".S", g, c11PublishSection(c, P+".S", g))
	c07Decorator(c, P+".S")
	// every hop hands a Copy() to the next stage: it must be a complete message (own, non-nil metadata; same UUID, payload, entries)
	c16Copy(c, P+".O4")
	// the library's own middlewares sit inside the stages: none of them turns a failure into a success or drops outputs
	c12All(c, P+".M12")
	c19All(c, P+".M19")
	// … and so does the metrics middleware, which observes after every handler call: an observation that panics makes the
	// stage Nack a message its handler had handled
	c20Metrics(c, P+".M20")
	// which middlewares and decorators wrap a stage is part of what the stage does with a message: a foreign handler's
	// InstantAck, or a deduplicating decorator applied twice, acks what was never published
	if r2 := c.routerRoles2(P + ".M09"); r2 != nil {
		c09All(c, P+".M09", r2)
		// a stage that is registered but never started, or dropped from the router, consumes nothing: its input is lost
		c10Lifecycle(c, P+".M10", r2)
	}
	// O5 NO-INVENTION: provenance of every message handed to the deliver function
	var fanMsg *ssa.Parameter
	if ps := ParamsOfType(g.Fan, tMessagePtr); len(ps) == 1 {
		fanMsg = ps[0]
	}
	n := 0
	for _, fn := range g.Funcs {
		for i, cl := range CallsIn(fn) {
			if CalleeFn(cl.Common()) != g.Deliver {
				continue
			}
			n++
			var arg ssa.Value
			for j, prm := range g.Deliver.Params {
				if prm == g.DeliverMsg && j < len(cl.Common().Args) {
					arg = cl.Common().Args[j]
				}
			}
			ok := arg != nil && AllOrigins(arg, func(o ssa.Value) bool {
				if fanMsg != nil && o == ssa.Value(fanMsg) {
					return true
				}
				// element of the persisted log
				if u, isU := o.(*ssa.UnOp); isU && u.Op == token.MUL {
					if ia, isIA := u.X.(*ssa.IndexAddr); isIA {
						base := firstOrigin(ia.X)
						if lk, isLk := base.(*ssa.Lookup); isLk && g.isPers(lk.X) {
							return true
						}
						if e, isE := base.(*ssa.Extract); isE {
							if lk, isLk := e.Tuple.(*ssa.Lookup); isLk && g.isPers(lk.X) {
								return true
							}
						}
					}
				}
				return false
			})
			c.Report(ok, P+".O5", "NO-INVENTION", fn, cl.Pos(), fmt.Sprintf("deliver call#%d in %s", i, fn.Name()),
				"what is delivered is the message being published (a copy made by Publish) or an element of the topic's persisted log — nothing else can reach a subscriber")
		}
	}
	c.Floor(P+".O5", "call sites of the deliver function (fan-out, replay)", n, 2)
	// who may write the persisted log: Publish (append of copies), Close (reset), constructor
	for _, a := range g.LA.Accesses(g.Persisted) {
		if !a.Write {
			continue
		}
		fn := HomeFn(a.Ins.Parent())
		ok := fn == g.Publish || fn == g.Close || fn == g.New
		c.Report(ok, P+".O5", "WHO-MAY-WRITE-LOG", fn, a.Ins.Pos(), a.What+" of the persisted log", "only Publish extends the persisted log (Close resets it, the constructor creates it)")
		if fn == g.Close {
			if st, isSt := a.Ins.(*ssa.Store); isSt {
				_, isMake := firstOrigin(st.Val).(*ssa.MakeMap)
				c.Report(isMake || IsNilConst(st.Val), P+".O5", "LOG-RESET-EMPTY", fn, a.Ins.Pos(), "reset of the persisted log", "Close replaces the log by an empty one (no foreign messages)")
			}
		}
	}
}
