package wm

import (
	"go/token"
	"go/types"

	"golang.org/x/tools/go/ssa"
)

const gcRel = "pubsub/gochannel"
const gcPkg = ModulePath + "/" + gcRel

// GCRoles locates GoChannel's private constructs by type and behaviour.
type GCRoles struct {
	G, S                                  *types.Named
	New, Publish, Subscribe, Close        *ssa.Function
	Deliver, Fan, Wait, SubClose          *ssa.Function
	Teardown, Replay, AddSub, RemoveSub   *ssa.Function
	LookupSubs, IsClosed                  *ssa.Function
	DeliverMsg                            *ssa.Parameter
	Subs, Persisted, SubsLock, PersistLk  *types.Var
	TopicLocks, Closed, ClosedLock        *types.Var
	Closing, Wg                           *types.Var
	SOut, SSending, SClosed, SClosing     *types.Var
	SCtx                                  *types.Var
	Sends                                 []SendSite
	WaitInline                            bool // the blocking-publish wait is a select inside Publish itself
	LA                                    *LockAn
	Funcs                                 []*ssa.Function
	idSubs, idPersist, idTopic, idSending string
	idClosedLock                          string
}

func oneField(n *types.Named, pred func(types.Type) bool) *types.Var {
	fs := FieldsByType(n, pred)
	if len(fs) == 1 {
		return fs[0]
	}
	return nil
}

func (c *Check) gochannelRoles(id string) *GCRoles {
	r := &GCRoles{G: c.P.Named(gcRel, "GoChannel")}
	if !c.Floor(id, "type gochannel.GoChannel", b2i(r.G != nil), 1) {
		return nil
	}
	r.New = c.P.Func(gcRel, "NewGoChannel")
	r.Publish, r.Subscribe, r.Close = c.P.MethodOf(r.G, "Publish"), c.P.MethodOf(r.G, "Subscribe"), c.P.MethodOf(r.G, "Close")
	for _, f := range []*ssa.Function{r.New, r.Publish, r.Subscribe, r.Close} {
		if !c.Use(id, f, "GoChannel API function") {
			return nil
		}
	}
	r.Funcs = c.P.SrcFuncs(gcRel)
	// fields of GoChannel by type
	r.Subs = oneField(r.G, func(t types.Type) bool {
		m, ok := t.(*types.Map)
		if !ok || m.Key().String() != "string" {
			return false
		}
		sl, ok := m.Elem().(*types.Slice)
		if !ok {
			return false
		}
		n := NamedOf(sl.Elem())
		if n == nil || n.Obj().Pkg() == nil || n.Obj().Pkg().Path() != gcPkg {
			return false
		}
		r.S = n
		return true
	})
	r.Persisted = oneField(r.G, TypeIs("map[string][]"+tMessagePtr))
	r.TopicLocks = oneField(r.G, TypeIs("sync.Map"))
	r.Closed = oneField(r.G, TypeIs("bool"))
	r.ClosedLock = oneField(r.G, TypeIs("sync.Mutex"))
	r.Closing = oneField(r.G, TypeIs("chan struct{}"))
	r.Wg = oneField(r.G, TypeIs("sync.WaitGroup"))
	n := 0
	for _, f := range []*types.Var{r.Subs, r.Persisted, r.TopicLocks, r.Closed, r.ClosedLock, r.Closing, r.Wg} {
		if f != nil {
			n++
		}
	}
	if !c.Floor(id, "GoChannel fields (subscriber map, persisted map, per-topic locks, closed flag, closed lock, closing signal, wait group)", n, 7) || r.S == nil {
		return nil
	}
	r.SOut = oneField(r.S, TypeIs(tMsgChan))
	r.SSending = oneField(r.S, func(t types.Type) bool { return t.String() == "sync.Mutex" || t.String() == "*sync.Mutex" })
	r.SClosed = oneField(r.S, TypeIs("bool"))
	r.SClosing = oneField(r.S, TypeIs("chan struct{}"))
	r.SCtx = oneField(r.S, TypeIs("context.Context"))
	n = 0
	for _, f := range []*types.Var{r.SOut, r.SSending, r.SClosed, r.SClosing, r.SCtx} {
		if f != nil {
			n++
		}
	}
	if !c.Floor(id, "subscription fields (output channel, sending mutex, closed flag, closing signal, context)", n, 5) {
		return nil
	}
	r.LA = NewLockAn(c.P, gcRel)
	r.idTopic = r.LA.canon(fieldID(r.TopicLocks)) + "[param:string]"
	r.idSending = r.LA.canon(fieldID(r.SSending))
	r.idClosedLock = r.LA.canon(fieldID(r.ClosedLock))

	isOut := func(v ssa.Value) bool { return AllOrigins(v, IsFieldLoad(r.SOut)) }
	// deliver function: the function with a send site on the output channel
	for _, fn := range r.Funcs {
		ss := SendSites(fn, isOut)
		if len(ss) > 0 {
			if r.Deliver != nil && r.Deliver != fn {
				c.Report(false, id, "WHO-MAY-SEND", fn, ss[0].Ins.Pos(), "send on the output channel", "a second function sends on subscriptions' output channels")
			}
			if r.Deliver == nil {
				r.Deliver = fn
			}
			if fn == r.Deliver {
				r.Sends = append(r.Sends, ss...)
			}
		}
		if cs := CloseSites(fn, isOut); len(cs) > 0 && fn.Signature.Recv() != nil && NamedOf(fn.Signature.Recv().Type()) == r.S {
			r.SubClose = fn
		}
	}
	if !c.Floor(id, "deliver function (send site on a subscription's output channel)", b2i(r.Deliver != nil), 1) {
		return nil
	}
	c.Use(id, r.Deliver, "deliver function")
	if ps := ParamsOfType(r.Deliver, tMessagePtr); len(ps) == 1 {
		r.DeliverMsg = ps[0]
	}
	if !c.Floor(id, "message parameter of the deliver function", b2i(r.DeliverMsg != nil), 1) {
		return nil
	}
	if !c.Use(id, r.SubClose, "subscription close function (closes the output channel)") {
		return nil
	}
	// subscriber lookup: unexported method returning []*S
	for _, fn := range r.Funcs {
		if fn.Parent() != nil || fn.Signature.Recv() == nil || NamedOf(fn.Signature.Recv().Type()) != r.G {
			continue
		}
		rs := fn.Signature.Results()
		if rs.Len() == 1 {
			if sl, ok := rs.At(0).Type().(*types.Slice); ok && NamedOf(sl.Elem()) == r.S {
				r.LookupSubs = fn
			}
			if (rs.At(0).Type().String() == "bool" || (IsErrorType(rs.At(0).Type()) && fn.Signature.Params().Len() == 0 && r.IsClosed == nil)) && len(FieldLoads(fn, r.Closed)) > 0 && fn != r.Close {
				// the reader of the closed flag: answers with the flag, or with an error that is non-nil iff the flag is set
				r.IsClosed = fn
			}
		}
		// add / remove: functions updating the subscriber map
		upd := false
		AllInstrs(fn, func(in ssa.Instruction) {
			if mu, ok := in.(*ssa.MapUpdate); ok && AllOrigins(mu.Map, IsFieldLoad(r.Subs)) {
				upd = true
			}
		})
		if upd && fn != r.Subscribe && fn != r.Publish && fn != r.Close {
			if comparesPointersOf(fn, r.S) {
				r.RemoveSub = fn
			} else {
				r.AddSub = fn
			}
		}
	}
	// fan-out function: called from Publish, spawns goroutines that reach Deliver
	for _, cl := range CallsIn(r.Publish) {
		cal := CalleeFn(cl.Common())
		if cal == nil || cal.Pkg != r.Publish.Pkg || cal.Signature.Recv() == nil {
			continue
		}
		reaches := false
		for _, f := range WithStarted(cal) {
			for _, c2 := range CallsIn(f) {
				if CalleeFn(c2.Common()) == r.Deliver {
					reaches = true
				}
			}
		}
		if reaches {
			r.Fan = cal
		}
		for _, si := range Selects(cal) {
			for _, cs := range si.Cases {
				if !cs.Send && AllOrigins(cs.Chan, IsFieldLoad(r.Closing)) && si.Blocking {
					r.Wait = cal
				}
			}
		}
	}
	if r.Wait == nil {
		// the wait may be written inline in Publish
		for _, si := range Selects(r.Publish) {
			for _, cs := range si.Cases {
				if !cs.Send && AllOrigins(cs.Chan, IsFieldLoad(r.Closing)) && si.Blocking {
					r.Wait, r.WaitInline = r.Publish, true
				}
			}
		}
	}
	// goroutines of Subscribe: literals, or private named methods started with `go` at their only call site
	started := append([]*ssa.Function{}, r.Subscribe.AnonFuncs...)
	AllInstrs(r.Subscribe, func(in ssa.Instruction) {
		if g, ok := in.(*ssa.Go); ok {
			if cal := CalleeFn(&g.Call); cal != nil && cal.Pkg == r.Subscribe.Pkg && cal.Parent() == nil && len(cal.Blocks) > 0 {
				if site := OnlySite(cal); site != nil && site == ssa.CallInstruction(g) {
					started = append(started, cal)
				}
			}
		}
	})
	for _, f := range started {
		for _, cl := range CallsIn(f) {
			if CalleeFn(cl.Common()) == r.SubClose {
				r.Teardown = f
			}
			if r.AddSub != nil && CalleeFn(cl.Common()) == r.AddSub {
				r.Replay = f
			}
		}
	}
	ok := true
	for what, f := range map[string]*ssa.Function{
		"subscriber lookup function":                       r.LookupSubs,
		"closed-flag reader":                               r.IsClosed,
		"function adding a subscription to the map":        r.AddSub,
		"function removing a subscription from the map":    r.RemoveSub,
		"fan-out function (spawns the deliver goroutines)": r.Fan,
		"blocking-publish wait helper":                     r.Wait,
		"per-subscription teardown literal":                r.Teardown,
		"persistent replay literal":                        r.Replay,
	} {
		if !c.Use(id, f, what) {
			ok = false
		}
	}
	if !ok {
		return nil
	}
	// the two RWMutex fields: the one write-locked around the persisted map update in Publish is the persisted lock
	rw := FieldsByType(r.G, TypeIs("sync.RWMutex"))
	if !c.Floor(id, "RWMutex fields of GoChannel (subscribers lock, persisted-messages lock)", len(rw), 2) {
		return nil
	}
	AllInstrs(r.Publish, func(in ssa.Instruction) {
		mu, isMU := in.(*ssa.MapUpdate)
		if !isMU || !AllOrigins(mu.Map, IsFieldLoad(r.Persisted)) {
			return
		}
		held := r.LA.Held(in)
		for _, f := range rw {
			if m, has := held[r.LA.canon(fieldID(f))]; has && m == 'W' {
				r.PersistLk = f
			}
		}
	})
	for _, f := range rw {
		if f != r.PersistLk {
			r.SubsLock = f
		}
	}
	if !c.Floor(id, "persisted-messages lock (write-held at the persisted map update in Publish)", b2i(r.PersistLk != nil && r.SubsLock != nil), 1) {
		return nil
	}
	r.idSubs = r.LA.canon(fieldID(r.SubsLock))
	r.idPersist = r.LA.canon(fieldID(r.PersistLk))
	return r
}

// comparesPointersOf: fn compares two values of type *n (the search for the
// subscription to remove).
func comparesPointersOf(fn *ssa.Function, n *types.Named) bool {
	found := false
	AllInstrs(fn, func(in ssa.Instruction) {
		if bo, ok := in.(*ssa.BinOp); ok && (bo.Op == token.EQL || bo.Op == token.NEQ) && NamedOf(bo.X.Type()) == n && NamedOf(bo.Y.Type()) == n {
			found = true
		}
	})
	return found
}

func (r *GCRoles) isOut(v ssa.Value) bool  { return AllOrigins(v, IsFieldLoad(r.SOut)) }
func (r *GCRoles) isSubs(v ssa.Value) bool { return AllOrigins(v, IsFieldLoad(r.Subs)) }
func (r *GCRoles) isPers(v ssa.Value) bool { return AllOrigins(v, IsFieldLoad(r.Persisted)) }

// topicOrigin: v originates only from the topic parameter of Publish or
// Subscribe, possibly through string parameters of unexported helpers whose
// every call site passes such a value.
func (r *GCRoles) topicOrigin(v ssa.Value, depth int) bool {
	return AllOrigins(v, func(o ssa.Value) bool {
		p, ok := o.(*ssa.Parameter)
		if !ok || p.Type().String() != "string" {
			return false
		}
		fn := p.Parent()
		if fn == r.Publish || fn == r.Subscribe {
			return true
		}
		if depth <= 0 {
			return false
		}
		idx := -1
		for i, q := range fn.Params {
			if q == p {
				idx = i
			}
		}
		sites := Callers(r.Funcs, fn)
		if len(sites) == 0 {
			return false
		}
		for _, s := range sites {
			if idx >= len(s.Common().Args) || !r.topicOrigin(s.Common().Args[idx], depth-1) {
				return false
			}
		}
		return true
	})
}

// waitSelects: the blocking selects (in the wait helper, or inline in Publish)
// that wait for the fan-out's completion or the Pub/Sub's closing signal.
func (r *GCRoles) waitSelects() []*SelInfo {
	var out []*SelInfo
	for _, si := range Selects(r.Wait) {
		for _, cs := range si.Cases {
			if !cs.Send && AllOrigins(cs.Chan, IsFieldLoad(r.Closing)) {
				out = append(out, si)
				break
			}
		}
	}
	return out
}

// waitSitesInPublish: the instructions of Publish at which the wait happens.
func (r *GCRoles) waitSitesInPublish() []ssa.Instruction {
	var out []ssa.Instruction
	if r.WaitInline {
		for _, si := range r.waitSelects() {
			out = append(out, si.Sel)
		}
		return out
	}
	return instrsOf(Callers([]*ssa.Function{r.Publish}, r.Wait))
}

// gcSafety runs the structural safety rules of the GoChannel (decided as
// C07 / C11 in their own right) under another property: a deadlock, a data
// race on the maps, a send on a closed channel or a lost hand-off breaks every
// property that is stated over GoChannel deliveries, so each of them decides
// these preconditions too. Instances already reported by the property's own
// rules are not repeated.
func gcSafety(c *Check, P string, r *GCRoles) {
	S := P + ".S"
	c04FreshCopy(c, S, r)
	c04HandsOff(c, S+".O1", r)
	c04SendersStart(c, S+".O1", r)
	c04Resend(c, S, r)
	c05OneInFlight(c, S, r)
	c07Escapable(c, S, r)
	c07SendCloseExclusion(c, S, r)
	c07CloseOnce(c, S, r)
	c07WaitGroup(c, S, r)
	c07ClosedChecks(c, S, r)
	c07Persisted(c, S, r)
	c07LockHolders(c, S, r)
	c07RemoveExact(c, S, r)
	c07ContainerInit(c, S, r)
	c07NoIndexTrap(c, S, r)
	c07TeardownOrder(c, S, r)
	c07LockOrder(c, S, r)
	r.LA.ReportLeaks(c, S, r.Funcs)
	c04LookupCopy(c, S, r)
	c11PublishSection(c, S, r)
	c11Handoff(c, S, r)
	c05NoOtherLockAcrossWait(c, S, r)
	// the deliver function runs once per subscription, concurrently: what is shared between those runs is not written
	c04NoSharedWrites(c, S+".O6", r)
	c04FanArgsHandedOver(c, S+".O6", r)
	// a blocking Publish holds the subscribers lock and the topic mutex while it waits for the completion signal of the
	// fan-out: that signal exists and is raised on every path, or the Pub/Sub (replays included) stands still
	c05AckedByAll(c, S, r)
}

// closedVerdictEdges: for calls of the closed-flag reader in fn, the edges on
// which the answer is "closed" and "open" (bool result, or error result vs nil).
func (r *GCRoles) closedVerdictEdges(fn *ssa.Function, calls []ssa.CallInstruction) (closed, open []Edge) {
	if r.IsClosed != nil && IsErrorType(r.IsClosed.Signature.Results().At(0).Type()) {
		open, closed = NilEdges(fn, ResultOfAny(calls, 0))
		return
	}
	return BoolEdges(fn, ResultOfAny(calls, 0))
}
