package wm

import (
	"fmt"
	"go/token"
	"go/types"
	"strings"

	"golang.org/x/tools/go/ssa"
)

const delayPkg = ModulePath + "/components/delay"

func init() {
	register(&PropDef{
		ID:  "C19",
		Run: runC19,
		Explanation: "Decides for Timeout, CorrelationID, Recoverer, IgnoreErrors, InstantAck, Throttle, DelayOnError and CircuitBreaker: the wrapped handler is called exactly once on the consumed message (CircuitBreaker: at most once, inside Execute's callback); returned messages and error are that call's results except for the one documented effect, whose guard is checked " +
			"(IgnoreErrors: nil only on the 'error text is listed' edge; Recoverer: the error is replaced only on the panicked edge, by a value carrying recover()'s result); Timeout derives the context with WithTimeout(msg.Context(), d) before the call; InstantAck acks before the call; Throttle receives from its ticker before the call; CorrelationID copies the consumed message's id to outputs only when they have none; DelayOnError applies the delay only on the error edge, multiplies as a float, caps with MaxInterval and starts with InitialInterval; " +
			"a middleware that sets a derived context on the consumed message restores the previous one on every exit. Not decided: Throttle's real rate, gobreaker's state machine, timer behaviour.",
		Assumptions: append([]string{"github.com/sony/gobreaker CircuitBreaker.Execute returns its callback's results while the breaker is closed"}, commonAssumptions...),
	})
}

func mwFunc(c *Check, rel, name string) *ssa.Function { return c.P.Func(rel, name) }

func runC19(c *Check) {
	LostReceiverStores(c, "C19.CFG", "message/router/middleware")
	DefaultsApplied(c, "C19.CFG", "message/router/middleware")
	c19All(c, "C19")
}

// c19All holds the C19 obligations (also decided under C01, see c12All).
func c19All(c *Check, P string) {
	const rel = "message/router/middleware"
	type entry struct {
		name  string
		outer *ssa.Function
	}
	var es []entry
	// Timeout(d) returns the middleware
	if to := c.P.Func(rel, "Timeout"); c.Use(P, to, "middleware.Timeout") {
		var outer *ssa.Function
		for _, r := range Returns(to) {
			if f := FuncOfValue(firstOrigin(r.Results[0])); f != nil {
				outer = f
			}
		}
		es = append(es, entry{"Timeout", outer})
	}
	es = append(es,
		entry{"CorrelationID", c.P.Func(rel, "CorrelationID")},
		entry{"Recoverer", c.P.Func(rel, "Recoverer")},
		entry{"IgnoreErrors", c.P.Method(rel, "IgnoreErrors", "Middleware")},
		entry{"InstantAck", c.P.Func(rel, "InstantAck")},
		entry{"Throttle", c.P.Method(rel, "Throttle", "Middleware")},
		entry{"DelayOnError", c.P.Method(rel, "DelayOnError", "Middleware")},
		entry{"CircuitBreaker", c.P.Method(rel, "CircuitBreaker", "Middleware")},
	)
	for _, e := range es {
		m := c.middleware(P+".O1", e.outer, e.name+" middleware")
		if m == nil {
			continue
		}
		c19Transparent(c, P, e.name, m)
		c19ContextRestored(c, P, e.name, m)
		c19MessageUntouched(c, P, e.name, m)
		MiddlewareStatePerCall(c, P+".O1", e.name, m)
		switch e.name {
		case "Timeout":
			c19Timeout(c, P, m)
		case "InstantAck":
			acks := SettleSites(m.Inner, nAck, m.IsMsg, 0)
			ok := len(acks) > 0
			for _, hc := range m.HCalls {
				d := false
				for _, a := range acks {
					if _, isCall := a.(*ssa.Call); isCall && Dominates(m.Inner, a, hc) {
						d = true
					}
				}
				ok = ok && d
			}
			c.Report(ok, P+".O2", "INSTANT-ACK-BEFORE-CALL", m.Inner, m.Inner.Pos(), "InstantAck", "the consumed message is acked on every path before the handler is called")
		case "Throttle":
			c19Throttle(c, P, m)
		case "CorrelationID":
			c19Correlation(c, P, m)
		case "DelayOnError":
			c19Delay(c, P, m)
		}
	}
}

// c19MessageUntouched: besides its documented effect a middleware leaves the consumed message as it is: the closure
// itself writes no metadata entry, payload or UUID of the consumed message (DelayOnError: only on the failure edge).
func c19MessageUntouched(c *Check, P, name string, m *MW) {
	I := m.Inner
	writes := MessageWrites(I, m.IsMsg)
	var fail []Edge
	if name == "DelayOnError" {
		_, fail = NilEdges(I, ResultOfAny(m.HCalls, 1))
	}
	for _, w := range writes {
		c.Report(len(fail) > 0 && GuardedBy(I, w, fail), P+".O1", "CONSUMED-MESSAGE-UNTOUCHED", I, w.Pos(), name+": write to the consumed message", "the middleware does not edit the consumed message (metadata, payload, UUID) outside its documented effect — successes pass through untouched")
	}
	c.Report(true, P+".O1", "CONSUMED-MESSAGE-WRITES-SCANNED", I, I.Pos(), name, fmt.Sprintf("%d direct writes to the consumed message examined", len(writes)))
}

// MessageWrites lists the instructions of fn (and its looked-through helpers) that edit a message isMsg accepts:
// stores to UUID / Payload / Metadata, map updates, delete, clear, Metadata.Set, and the maps package's in-place editors.
func MessageWrites(fn *ssa.Function, isMsg func(ssa.Value) bool) []ssa.Instruction {
	isMeta := func(v ssa.Value) bool {
		return AnyOrigin(v, func(o ssa.Value) bool {
			u, ok := o.(*ssa.UnOp)
			if !ok || u.Op != token.MUL {
				return false
			}
			f, base := FieldOf(u.X)
			return f != nil && f.Name() == "Metadata" && base != nil && isMsg(base)
		})
	}
	var writes []ssa.Instruction
	AllInstrs(fn, func(in ssa.Instruction) {
		switch x := in.(type) {
		case *ssa.MapUpdate:
			if isMeta(x.Map) {
				writes = append(writes, in)
			}
		case *ssa.Store:
			if f, base := FieldOf(x.Addr); f != nil && base != nil && isMsg(base) && (f.Name() == "Metadata" || f.Name() == "Payload" || f.Name() == "UUID") {
				writes = append(writes, in)
			}
		case ssa.CallInstruction:
			for _, b := range []string{"delete", "clear"} {
				if args, ok := IsBuiltinCall(valueOfCall(x), b); ok && len(args) > 0 && isMeta(args[0]) {
					writes = append(writes, in)
				}
			}
			if CalleeName(x) == nMetaSet && isMeta(Receiver(x)) {
				writes = append(writes, in)
			}
			if cal := CalleeFn(x.Common()); cal != nil && cal.Pkg != nil && cal.Pkg.Pkg.Path() == "maps" && len(x.Common().Args) > 0 && isMeta(x.Common().Args[0]) {
				if n := cal.Name(); strings.HasPrefix(n, "DeleteFunc") || strings.HasPrefix(n, "Copy") || strings.HasPrefix(n, "Insert") {
					writes = append(writes, in)
				}
			}
		}
	})
	return writes
}

// valueOfCall gives the call as a value when it is one (builtin calls used as statements are *ssa.Call too).
func valueOfCall(c ssa.CallInstruction) ssa.Value {
	if v, ok := c.(*ssa.Call); ok {
		return v
	}
	return nil
}

// c19Transparent: O1.
func c19Transparent(c *Check, P, name string, m *MW) {
	I := m.Inner
	if !c.Floor(P+".O1", name+": call of the wrapped handler", len(m.HCalls), 1) {
		return
	}
	hc := m.HCalls[0]
	okOnce := len(m.HCalls) == 1 && !InLoop(hc)
	c.Report(okOnce, P+".O1", "HANDLER-ONCE", hc.Parent(), hc.Pos(), name, "the wrapped handler has exactly one call site, outside any loop")
	c.Report(len(hc.Common().Args) == 1 && m.IsMsg(hc.Common().Args[0]), P+".O1", "HANDLER-ARG", hc.Parent(), hc.Pos(), name, "the handler receives the consumed message")
	_, isGo := hc.(*ssa.Go)
	c.Report(!isGo, P+".O1", "HANDLER-SYNC", hc.Parent(), hc.Pos(), name, "the handler is called synchronously")
	hOut := ResultOfAny(m.HCalls, 0)
	hErr := ResultOfAny(m.HCalls, 1)

	if name == "CircuitBreaker" {
		c19Breaker(c, P, m, hc)
		return
	}
	if hc.Parent() != I {
		c.Report(false, P+".O1", "HANDLER-ONCE", hc.Parent(), hc.Pos(), name, "the handler is called directly in the middleware closure")
		return
	}
	// every return is preceded by the call
	for i, r := range Returns(I) {
		k := fmt.Sprintf("%s return#%d", name, i)
		c.Report(Dominates(I, hc, r), P+".O1", "HANDLER-ALWAYS", I, r.Pos(), k, "every return path has called the handler")
		outs := RetOrigins(r, 0)
		okO := len(outs) > 0
		for _, o := range outs {
			if !hOut(o) {
				okO = false
			}
		}
		c.Report(okO, P+".O1", "OUTPUTS-UNCHANGED", I, r.Pos(), k, "the returned messages are the handler's outputs")
		for _, e := range RetOrigins(r, 1) {
			switch {
			case hErr(e):
				c.Report(true, P+".O1", "ERROR-UNCHANGED", I, r.Pos(), k, "the returned error is the handler's error")
			case IsNilConst(e) && name != "IgnoreErrors" && name != "Recoverer" && func() bool {
				hOK, _ := NilEdges(I, hErr)
				return len(hOK) > 0 && (GuardedBy(I, r, hOK) || nilOnlyOnEdges(r, e, hOK))
			}():
				// a literal nil on the edge where the handler's error was tested to be nil is the handler's error
				c.Report(true, P+".O1", "ERROR-UNCHANGED", I, r.Pos(), k, "the returned error is the handler's error (nil, on the edge where it was tested to be nil)")
			case IsNilConst(e) && name == "IgnoreErrors":
				// nil allowed where handler err == nil, or on the 'listed' edge
				hOK, _ := NilEdges(I, hErr)
				var listed []Edge
				for _, t := range Tests(I) {
					if t.Op != token.ILLEGAL {
						continue
					}
					// the tested flag: the lookup's `ok`, possibly handed back by a helper that answers false on its other paths
					var ex *ssa.Extract
					nOther := 0
					for _, o := range Origins(t.X) {
						if cst, isC := o.(*ssa.Const); isC && cst.Value != nil && cst.Value.String() == "false" {
							continue
						}
						if e2, isE := o.(*ssa.Extract); isE && e2.Index == 1 && ex == nil {
							ex = e2
							continue
						}
						nOther++
					}
					if ex == nil || nOther > 0 {
						continue
					}
					lk, ok := ex.Tuple.(*ssa.Lookup)
					if !ok || !lk.CommaOk {
						continue
					}
					// key: errors.Cause(err).Error()
					kc, ok := firstOrigin(lk.Index).(*ssa.Call)
					okKey := ok && kc.Call.IsInvoke() && kc.Call.Method.FullName() == "(error).Error"
					if okKey {
						cause, isC := firstOrigin(kc.Call.Value).(*ssa.Call)
						okKey = isC && CalleeName(cause) == "github.com/pkg/errors.Cause" && AllOrigins(cause.Call.Args[0], hErr)
					}
					if okKey && LoadedField(firstOrigin(lk.X)) != nil {
						listed = append(listed, t.True)
					}
				}
				c.Floor(P+".O1", "IgnoreErrors: lookup of the error's cause text in the configured set", len(listed), 1)
				g := append(append([]Edge{}, hOK...), listed...)
				c.Report(GuardedBy(I, r, g) || nilOnlyOnEdges(r, e, g), P+".O1", "IGNORE-ONLY-LISTED", I, r.Pos(), k, "nil replaces the handler's error only when the error's cause text is in the configured set")
			case name == "Recoverer":
				c19RecovererValue(c, P, m, e, r, k)
			default:
				c.Report(false, P+".O1", "ERROR-UNCHANGED", I, r.Pos(), k, "the returned error is not the handler's error: "+e.String())
			}
		}
	}
}

func c19RecovererValue(c *Check, P string, m *MW, e ssa.Value, r *ssa.Return, k string) {
	I := m.Inner
	// e must be built from recover()'s result inside a deferred closure, stored only on the panicked edge
	var recs []ssa.CallInstruction
	var dcl *ssa.Function
	for _, f := range m.Family {
		if f == I {
			continue
		}
		if rc := BuiltinCalls(f, "recover"); len(rc) > 0 {
			recs, dcl = rc, f
		}
	}
	if !c.Floor(P+".O1", "Recoverer: deferred closure calling recover()", len(recs), 1) {
		return
	}
	isRec := func(v ssa.Value) bool { return v == CallValue(recs[0]) }
	keeps := func(cl *ssa.Call) bool {
		switch CalleeName(cl) {
		case "github.com/pkg/errors.WithStack", "github.com/pkg/errors.Wrap", "github.com/pkg/errors.Wrapf", "github.com/pkg/errors.WithMessage", "github.com/pkg/errors.WithMessagef", "errors.Join":
			return true
		}
		return false
	}
	c.Report(WrapsThrough(e, isRec, keeps), P+".O1", "PANIC-VALUE-KEPT", dcl, e.Pos(), k, "the replacement error carries recover()'s value itself (in a field of the error, possibly wrapped) — not a rendering of it")
	errCell := ResultCell(I, 1)
	_, recNonNil := NilEdges(dcl, isRec)
	// flag set true before the call and false only after it returned
	var flagTrue []Edge
	for _, t := range Tests(dcl) {
		if t.Op != token.ILLEGAL {
			continue
		}
		u, ok := t.X.(*ssa.UnOp)
		if !ok || u.Op != token.MUL {
			continue
		}
		cell := cellOf(u.X)
		if cell == nil || cell.Parent() != I {
			continue
		}
		okFlag := true
		for _, st := range StoresToCellIn(I, cell) {
			cst, isC := st.Val.(*ssa.Const)
			if !isC || cst.Value == nil {
				okFlag = false
				continue
			}
			if cst.Value.String() == "true" {
				for _, hc := range m.HCalls {
					if !Dominates(I, st, hc) {
						okFlag = false
					}
				}
			} else {
				for _, hc := range m.HCalls {
					if !Dominates(I, hc, st) {
						okFlag = false
					}
				}
			}
		}
		if okFlag {
			flagTrue = append(flagTrue, t.True)
		}
	}
	g := append(append([]Edge{}, recNonNil...), flagTrue...)
	for i, st := range StoresToCellIn(dcl, errCell) {
		c.Report(len(g) > 0 && GuardedBy(dcl, st, g), P+".O1", "REPLACE-ONLY-IF-PANICKED", dcl, st.Pos(), fmt.Sprintf("Recoverer store#%d", i), "the error result is replaced only on the panicked edge (recover() != nil, or the 'handler did not return' flag)")
	}
	// recover() alone does not see every panic: panic(nil) makes it return nil when the program runs with the
	// pre-1.21 semantics (older main module, or GODEBUG=panicnil=1); only a 'handler did not return' flag covers it
	okNil := false
	for _, st := range StoresToCellIn(dcl, errCell) {
		for _, e := range flagTrue {
			if ReachEdge(e, NewCut().AddEdges(recNonNil...))[st] {
				okNil = true
			}
		}
	}
	c.Report(okNil, P+".O1", "RECOVER-COVERS-NIL-PANIC", dcl, dcl.Pos(), "Recoverer: did-not-return flag", "the error is also replaced when the handler did not return although recover() gave nil (a flag set before the handler call and cleared only after it returned)")
	// the defer is registered before the call and the closure recovers on every path
	AllInstrs(I, func(in ssa.Instruction) {
		if d, ok := in.(*ssa.Defer); ok && FuncOfValue(d.Call.Value) == dcl {
			okD := true
			for _, hc := range m.HCalls {
				if !Dominates(I, d, hc) {
					okD = false
				}
			}
			c.Report(okD, P+".O1", "RECOVER-DEFERRED-FIRST", I, d.Pos(), "Recoverer defer", "the recovering closure is deferred before the handler call (a panic never escapes)")
		}
	})
	for _, ret := range Returns(dcl) {
		c.Report(Dominates(dcl, recs[0], ret), P+".O1", "RECOVER-ALWAYS", dcl, ret.Pos(), "Recoverer recover()", "recover() is called on every path of the deferred closure")
	}
	// the error type that carries the panic value: its methods are called by errors.Is/As/Unwrap walks and by loggers on
	// whatever value was panicked with; none of them may trap on it
	var boxed []*ssa.MakeInterface
	var find func(v ssa.Value, d int)
	find = func(v ssa.Value, d int) {
		if v == nil || d > 4 {
			return
		}
		for _, o := range Origins(v) {
			switch x := o.(type) {
			case *ssa.MakeInterface:
				boxed = append(boxed, x)
			case *ssa.Call:
				for _, a := range x.Call.Args {
					find(a, d+1)
				}
			}
		}
	}
	find(e, 0)
	for _, mi := range boxed {
		{
			if named := NamedOf(mi.X.Type()); named != nil && named.Obj().Pkg() != nil && named.Obj().Pkg() == I.Pkg.Pkg {
				for i := 0; i < named.NumMethods(); i++ {
					mf := c.P.SSA.FuncValue(named.Method(i))
					if mf == nil || len(mf.Blocks) == 0 {
						continue
					}
					traps := 0
					AllInstrs(mf, func(in ssa.Instruction) {
						if what := trapOf(in); what != "" {
							traps++
							c.Report(false, P+".O1", "PANIC-ERROR-METHODS-TOTAL", mf, in.Pos(), named.Obj().Name()+"."+mf.Name()+": "+what, "a method of the recovered-panic error works for every panic value (an unchecked assertion on the value re-panics inside errors.Is/As: the panic escapes the Recoverer after all)")
						}
					})
					if traps == 0 {
						c.Report(true, P+".O1", "PANIC-ERROR-METHODS-TOTAL", mf, mf.Pos(), named.Obj().Name()+"."+mf.Name(), "a method of the recovered-panic error works for every panic value")
					}
				}
			}
		}
	}
}

func c19Breaker(c *Check, P string, m *MW, hc ssa.CallInstruction) {
	I := m.Inner
	cb := hc.Parent()
	c.Report(cb != I && cb.Parent() == I, P+".O1", "BREAKER-CALLBACK", cb, hc.Pos(), "CircuitBreaker", "the handler is called inside the callback handed to the breaker")
	var execs []ssa.CallInstruction
	for _, cl := range CallsIn(I) {
		if CalleeName(cl) == "(*github.com/sony/gobreaker.CircuitBreaker).Execute" && FuncOfValue(firstOrigin(Arg(cl, 0))) == cb {
			execs = append(execs, cl)
		}
	}
	if !c.Floor(P+".O1", "CircuitBreaker: Execute(callback)", len(execs), 1) {
		return
	}
	ex := execs[0]
	c.Report(len(execs) == 1 && !InLoop(ex), P+".O1", "BREAKER-EXECUTE-ONCE", I, ex.Pos(), "CircuitBreaker", "Execute is called once per invocation")
	for i, r := range Returns(cb) {
		k := fmt.Sprintf("callback return#%d", i)
		okO := AllOrigins(unwrapIface(firstOrigin(r.Results[0])), ResultOfAny(m.HCalls, 0))
		okE := AllOrigins(r.Results[1], ResultOfAny(m.HCalls, 1))
		c.Report(okO && okE, P+".O1", "BREAKER-CALLBACK-RESULTS", cb, r.Pos(), k, "the callback returns the handler's outputs and error")
	}
	for i, r := range Returns(I) {
		k := fmt.Sprintf("CircuitBreaker return#%d", i)
		okE := AllOrigins(r.Results[1], func(v ssa.Value) bool { return IsResultOf(v, ex, 1) })
		okO := AllOrigins(r.Results[0], func(v ssa.Value) bool {
			if IsNilConst(v) {
				return true
			}
			if e, isE := v.(*ssa.Extract); isE && e.Index == 0 {
				// comma-ok form: a failed assertion yields the zero value (nil slice)
				v = e.Tuple
			}
			ta, ok := v.(*ssa.TypeAssert)
			if !ok || !AllOrigins(ta.X, func(x ssa.Value) bool { return IsResultOf(x, ex, 0) }) {
				return false
			}
			// the asserted type is the dynamic type the callback boxes (a different named type never matches: all outputs would be dropped)
			for _, r2 := range Returns(cb) {
				if mi, isMI := firstOrigin(r2.Results[0]).(*ssa.MakeInterface); isMI && !types.Identical(mi.X.Type(), ta.AssertedType) {
					return false
				}
			}
			return true
		})
		c.Report(okE, P+".O1", "ERROR-UNCHANGED", I, r.Pos(), k, "the returned error is Execute's (the handler's, or the breaker's own)")
		c.Report(okO, P+".O1", "OUTPUTS-UNCHANGED", I, r.Pos(), k, "the returned messages are Execute's result")
	}
}

func c19Timeout(c *Check, P string, m *MW) {
	I := m.Inner
	sets := CallsTo(I, nSetContext)
	n := 0
	for _, s := range sets {
		if !m.IsMsg(Receiver(s)) {
			continue
		}
		e, ok := firstOrigin(Arg(s, 0)).(*ssa.Extract)
		if !ok || e.Index != 0 {
			continue
		}
		wt, ok := e.Tuple.(*ssa.Call)
		if !ok || CalleeName(wt) != nWithTimeout {
			continue
		}
		n++
		base, isC := firstOrigin(wt.Call.Args[0]).(*ssa.Call)
		okB := isC && CalleeName(base) == nContext && m.IsMsg(Receiver(base))
		okD := AllOrigins(wt.Call.Args[1], func(v ssa.Value) bool {
			prm, ok := v.(*ssa.Parameter)
			return ok && prm.Type().String() == "time.Duration"
		})
		c.Report(okB && okD, P+".O2", "TIMEOUT-CONTEXT", I, s.Pos(), "Timeout SetContext", "the handler sees WithTimeout(msg.Context(), <configured timeout>)")
		for _, hc := range m.HCalls {
			c.Report(Dominates(I, s, hc), P+".O2", "TIMEOUT-BEFORE-CALL", I, s.Pos(), "Timeout SetContext", "the deadline context is installed before the handler is called")
		}
		// cancel is released on exit
		okCancel := false
		for _, f := range m.Family {
			for _, cl := range CallsIn(f) {
				if AllOrigins(cl.Common().Value, func(v ssa.Value) bool {
					x, ok := v.(*ssa.Extract)
					return ok && x.Tuple == ssa.Value(wt) && x.Index == 1
				}) {
					okCancel = true
				}
			}
		}
		c.Report(okCancel, P+".O2", "TIMEOUT-CANCEL", I, wt.Pos(), "Timeout cancel", "the timeout's cancel function is called")
	}
	c.Floor(P+".O2", "Timeout: SetContext(WithTimeout(...)) on the consumed message", n, 1)
}

func c19Throttle(c *Check, P string, m *MW) {
	I := m.Inner
	var recvs []ssa.Instruction
	AllInstrs(I, func(in ssa.Instruction) {
		u, ok := in.(*ssa.UnOp)
		if !ok || u.Op != token.ARROW {
			return
		}
		f := LoadedField(firstOrigin(u.X))
		if f != nil && f.Name() == "C" && f.Pkg() != nil && f.Pkg().Path() == "time" {
			recvs = append(recvs, u)
		}
	})
	if !c.Floor(P+".O2", "Throttle: receive from the ticker's channel", len(recvs), 1) {
		return
	}
	for _, hc := range m.HCalls {
		ok := false
		for _, r := range recvs {
			if Dominates(I, r, hc) {
				ok = true
			}
		}
		c.Report(ok, P+".O2", "THROTTLE-TICK-BEFORE-CALL", I, hc.Pos(), "Throttle", "every handler start waits for a tick first")
	}
	// the ticker period is duration / count
	if nt := c.P.Func("message/router/middleware", "NewThrottle"); c.Use(P+".O2", nt, "middleware.NewThrottle") {
		tk := CallsTo(nt, "time.NewTicker")
		if c.Floor(P+".O2", "NewThrottle: time.NewTicker", len(tk), 1) {
			bo, ok := firstOrigin(tk[0].Common().Args[0]).(*ssa.BinOp)
			okP := ok && bo.Op == token.QUO
			if okP {
				okP = AllOrigins(bo.X, func(v ssa.Value) bool { p, ok := v.(*ssa.Parameter); return ok && p.Type().String() == "time.Duration" })
				y := firstOrigin(bo.Y)
				if cv, isC := y.(*ssa.Convert); isC {
					y = cv.X
				}
				okP = okP && AllOrigins(y, func(v ssa.Value) bool { p, ok := v.(*ssa.Parameter); return ok && p.Type().String() == "int64" })
			}
			c.Report(okP, P+".O2", "THROTTLE-PERIOD", nt, tk[0].Pos(), "NewThrottle", "the tick period is duration / count")
		}
	}
}

func c19Correlation(c *Check, P string, m *MW) {
	I := m.Inner
	const rel = "message/router/middleware"
	setF, getF := c.P.Func(rel, "SetCorrelationID"), c.P.Func(rel, "MessageCorrelationID")
	if !c.Use(P+".O2", setF, "middleware.SetCorrelationID") || !c.Use(P+".O2", getF, "middleware.MessageCorrelationID") {
		return
	}
	var sets, gets []ssa.CallInstruction
	for _, cl := range CallsIn(I) {
		if CalleeFn(cl.Common()) == setF {
			sets = append(sets, cl)
		}
		if CalleeFn(cl.Common()) == getF {
			gets = append(gets, cl)
		}
	}
	if !c.Floor(P+".O2", "CorrelationID: SetCorrelationID on outputs", len(sets), 1) {
		return
	}
	for _, s := range sets {
		idv, ok := firstOrigin(s.Common().Args[0]).(*ssa.Call)
		okID := ok && CalleeFn(&idv.Call) == getF && m.IsMsg(idv.Call.Args[0])
		c.Report(okID, P+".O2", "CORRELATION-SOURCE", I, s.Pos(), "CorrelationID", "the id is read from the consumed message")
		if okID {
			for _, hc := range m.HCalls {
				c.Report(Dominates(I, hc, idv), P+".O2", "CORRELATION-READ-AFTER-CALL", I, idv.Pos(), "CorrelationID", "the id is read after the handler returned (an id the handler or an inner middleware put on the consumed message is the one the outputs get)")
			}
		}
		out := firstOrigin(s.Common().Args[1])
		okOut := false
		if u, isU := out.(*ssa.UnOp); isU && u.Op == token.MUL {
			if ia, isIA := u.X.(*ssa.IndexAddr); isIA {
				okOut = AllOrigins(ia.X, ResultOfAny(m.HCalls, 0)) && IsFullRangeIndex(ia.Index, ia.X)
			}
		}
		c.Report(okOut, P+".O2", "CORRELATION-ALL-OUTPUTS", I, s.Pos(), "CorrelationID", "every output of the handler is visited (full range loop)")
		for _, hc := range m.HCalls {
			c.Report(Dominates(I, hc, s), P+".O2", "CORRELATION-AFTER-CALL", I, s.Pos(), "CorrelationID", "outputs are stamped after the handler returned")
		}
	}
	// SetCorrelationID: writes only when the message has none; same key as the reader
	key, _ := c.P.ExportedConstString(rel, "CorrelationIDMetadataKey")
	msgP := ParamsOfType(setF, tMessagePtr)
	idP := ParamsOfType(setF, "string")
	if len(msgP) != 1 || len(idP) != 1 {
		c.Floor(P+".O2", "SetCorrelationID(id string, msg *Message)", 0, 1)
		return
	}
	var cur []ssa.CallInstruction
	for _, cl := range CallsIn(setF) {
		if CalleeFn(cl.Common()) == getF && FromParam(msgP[0])(cl.Common().Args[0]) {
			cur = append(cur, cl)
		}
	}
	var empty []Edge
	for _, t := range Tests(setF) {
		if t.Op != token.EQL || t.Y == nil {
			continue
		}
		x, y := t.X, t.Y
		if s, ok := ConstString(x); ok && s == "" {
			x, y = y, x
		}
		if s, ok := ConstString(y); ok && s == "" && AllOrigins(x, ResultOfAny(cur, 0)) {
			empty = append(empty, t.True)
		}
	}
	c.Floor(P+".O2", "SetCorrelationID: test `existing id == \"\"`", len(empty), 1)
	ns := 0
	for _, s := range CallsTo(setF, nMetaSet) {
		ns++
		ks, isK := ConstString(Arg(s, 0))
		rf := LoadedField(firstOrigin(Receiver(s)))
		okW := isK && ks == key && key != "" && FromParam(idP[0])(Arg(s, 1)) && rf != nil && rf.Name() == "Metadata"
		c.Report(okW, P+".O2", "CORRELATION-WRITE", setF, s.Pos(), "SetCorrelationID", "the given id is written under CorrelationIDMetadataKey")
		c.Report(GuardedBy(setF, s, empty), P+".O2", "CORRELATION-NEVER-OVERWRITTEN", setF, s.Pos(), "SetCorrelationID", "the id is written only when the message has none")
	}
	c.Floor(P+".O2", "SetCorrelationID: Metadata.Set", ns, 1)
	ng := 0
	for _, g := range CallsTo(getF, nMetaGet) {
		ks, isK := ConstString(Arg(g, 0))
		if isK && ks == key {
			ng++
		}
	}
	c.Report(ng >= 1, P+".O2", "CORRELATION-READ", getF, getF.Pos(), "MessageCorrelationID", "the reader uses the same key")
}

func c19Delay(c *Check, P string, m *MW) {
	I := m.Inner
	// the helper applied on the error edge
	_, fail := NilEdges(I, ResultOfAny(m.HCalls, 1))
	var helpers []ssa.CallInstruction
	for _, cl := range CallsIn(I) {
		cal := CalleeFn(cl.Common())
		if cal != nil && cal.Pkg == I.Pkg && len(ReachesCall(cal, 1, delayPkg+".Message")) > 0 {
			helpers = append(helpers, cl)
		}
	}
	direct := false
	if len(helpers) == 0 {
		// no helper: the stamp is written in the middleware's own body
		helpers, direct = CallsTo(I, delayPkg+".Message"), true
	}
	if !c.Floor(P+".O2", "DelayOnError: call of the delay helper", len(helpers), 1) {
		return
	}
	// … and on every error: no property of the error (its kind, its text) lets a failure go without its delay step
	for _, e := range fail {
		re := ReachEdge(e, NewCut().AddInstrs(instrsOf(helpers)...))
		for i, r := range Returns(I) {
			if re[r] {
				c.Report(false, P+".O2", "DELAY-ON-EVERY-ERROR", I, r.Pos(), fmt.Sprintf("DelayOnError return#%d", i), "from the handler-error edge every path to the return passes the delay helper (every failure counts as a step of the back-off, whatever the error is)")
			}
		}
	}
	c.Report(true, P+".O2", "DELAY-ERROR-PATHS-SCANNED", I, I.Pos(), "DelayOnError", "paths from the handler-error edge to the returns examined")
	for _, h := range helpers {
		c.Report(len(fail) > 0 && GuardedBy(I, h, fail), P+".O2", "DELAY-ONLY-ON-ERROR", I, h.Pos(), "DelayOnError", "the delay is stamped only on the handler-error edge (successes untouched)")
		okM := false
		for _, a := range h.Common().Args {
			if m.IsMsg(a) {
				okM = true
			}
		}
		c.Report(okM, P+".O2", "DELAY-ON-CONSUMED", I, h.Pos(), "DelayOnError", "the delay is stamped on the consumed message")
		c.Report(!InLoop(h), P+".O2", "DELAY-ONCE", I, h.Pos(), "DelayOnError", "one stamp per failure")
	}
	H := CalleeFn(helpers[0].Common())
	if direct {
		H = I
	}
	c.Use(P+".O4", H, "DelayOnError delay helper")
	isMul := func(v ssa.Value) bool { return AllOrigins(v, exportedFieldLoad("Multiplier")) }
	// O4: float→int conversions take the product
	nconv := 0
	var product ssa.Value
	AllInstrs(H, func(in ssa.Instruction) {
		cv, ok := in.(*ssa.Convert)
		if !ok {
			return
		}
		src, sok := cv.X.Type().Underlying().(*types.Basic)
		dst, dok := cv.Type().Underlying().(*types.Basic)
		if !sok || !dok || src.Info()&types.IsFloat == 0 || dst.Info()&types.IsInteger == 0 {
			return
		}
		nconv++
		bo, isB := cv.X.(*ssa.BinOp)
		okP := isB && bo.Op == token.MUL && (isMul(bo.X) || isMul(bo.Y))
		if okP {
			other := bo.X
			if isMul(bo.X) {
				other = bo.Y
			}
			oc, isC := other.(*ssa.Convert)
			okP = isC && AllOrigins(oc.X, func(v ssa.Value) bool {
				e, ok := v.(*ssa.Extract)
				if !ok || e.Index != 0 {
					return false
				}
				pd, ok := e.Tuple.(*ssa.Call)
				return ok && CalleeName(pd) == "time.ParseDuration"
			})
			product = cv
		}
		c.Report(okP, P+".O4", "REAL-VALUED-FACTOR", H, cv.Pos(), "float→integer conversion", "the value converted to a duration is (previous delay × Multiplier) computed in floating point, not a truncated factor")
	})
	c.Floor(P+".O4", "DelayOnError: float→duration conversion of the product", nconv, 1)
	// any integer conversion of the bare factor is the defect
	AllInstrs(H, func(in ssa.Instruction) {
		if cv, ok := in.(*ssa.Convert); ok && isMul(cv.X) {
			c.Report(false, P+".O4", "REAL-VALUED-FACTOR", H, cv.Pos(), "conversion of Multiplier", "the real-valued Multiplier is converted (truncated) before multiplying")
		}
	})
	// For() arguments
	fors := CallsTo(H, delayPkg+".For")
	if !c.Floor(P+".O4", "DelayOnError: delay.For calls (first failure, later failures)", len(fors), 1) {
		return
	}
	isMax := func(v ssa.Value) bool { return exportedFieldLoad("MaxInterval")(v) }
	isInit := func(v ssa.Value) bool { return exportedFieldLoad("InitialInterval")(v) }
	nInit, nGrow := 0, 0
	for _, f := range fors {
		// one call per case, or one call whose argument is chosen before (InitialInterval on one path, the grown delay on the other)
		var os []ssa.Value
		hasInit := false
		for _, o := range Origins(f.Common().Args[0]) {
			if isInit(o) {
				hasInit = true
			} else {
				os = append(os, o)
			}
		}
		if hasInit {
			nInit++
		}
		if len(os) == 0 {
			continue
		}
		okSet := true
		hasProd, hasMax := false, false
		for _, o := range os {
			switch {
			case product != nil && o == product:
				hasProd = true
			case isMax(o):
				hasMax = true
			default:
				okSet = false
			}
		}
		// cap: test product > MaxInterval, MaxInterval chosen on its true edge
		okCap := false
		var phi *ssa.Phi
		AnyOrigin(f.Common().Args[0], func(o ssa.Value) bool {
			if p, isPhi := o.(*ssa.Phi); isPhi && phi == nil {
				np, nm := 0, 0
				for _, e := range p.Edges {
					if product != nil && AllOrigins(e, func(x ssa.Value) bool { return x == product }) {
						np++
					} else if AllOrigins(e, isMax) {
						nm++
					}
				}
				if np > 0 && nm > 0 && np+nm == len(p.Edges) {
					phi = p
				}
			}
			return false
		})
		// the builtin: min(product, MaxInterval)
		if !okCap {
			if args, isMin := IsBuiltinCall(firstOrigin(f.Common().Args[0]), "min"); isMin && len(args) == 2 && product != nil {
				p0, p1 := AllOrigins(args[0], func(x ssa.Value) bool { return x == product }), AllOrigins(args[1], func(x ssa.Value) bool { return x == product })
				m0, m1 := AllOrigins(args[0], isMax), AllOrigins(args[1], isMax)
				if (p0 && m1) || (p1 && m0) {
					okSet, hasProd, hasMax, okCap = true, true, true, true
				}
			}
		}
		if phi != nil && hasProd && hasMax {
			PH := phi.Parent()
			for _, t := range Tests(PH) {
				if !(t.Op == token.GTR && t.X == product && AllOrigins(t.Y, isMax)) && !(t.Op == token.GEQ && t.X == product && AllOrigins(t.Y, isMax)) {
					continue
				}
				okCap = true
				for i, e := range phi.Edges {
					pred := phi.Block().Preds[i]
					term := pred.Instrs[len(pred.Instrs)-1]
					if AllOrigins(e, isMax) {
						if !GuardedBy(PH, term, []Edge{t.True}) {
							okCap = false
						}
					} else if GuardedBy(PH, term, []Edge{t.True}) {
						okCap = false
					}
				}
			}
		}
		nGrow++
		// the previous delay is grown only when it could be read: behind the edge on which ParseDuration reported no error
		// (a malformed value counts as "no previous delay": the first step again, not a product with zero)
		{
			parseOK, _ := NilEdges(H, func(v ssa.Value) bool {
				e, ok := v.(*ssa.Extract)
				if !ok || e.Index != 1 {
					return false
				}
				pd, ok := e.Tuple.(*ssa.Call)
				return ok && CalleeName(pd) == "time.ParseDuration"
			})
			isParseErr := func(v ssa.Value) bool {
				e, ok := v.(*ssa.Extract)
				if !ok || e.Index != 1 {
					return false
				}
				pd, ok := e.Tuple.(*ssa.Call)
				return ok && CalleeName(pd) == "time.ParseDuration"
			}
			if !hasInit {
				c.Report((len(parseOK) > 0 && GuardedBy(f.Parent(), f, parseOK)) || behindConjunctWith(f, func(bo *ssa.BinOp) bool {
					return bo.Op == token.EQL && ((isParseErr(bo.X) && IsNilConst(bo.Y)) || (isParseErr(bo.Y) && IsNilConst(bo.X)))
				}), P+".O4", "DELAY-GROWTH-ONLY-FROM-A-READABLE-DELAY", H, f.Pos(), "delay.For(next)", "the grown delay is used only on the edge where the previous delay parsed")
			}
		}
		c.Report(okSet && hasProd && hasMax && okCap, P+".O4", "DELAY-GROWTH-CAPPED", H, f.Pos(), "delay.For(next)", "the next delay is min(previous × Multiplier, MaxInterval), the cap applied after the multiplication")
		// and it is written to the message
	}
	c.Report(nInit >= 1, P+".O4", "DELAY-FIRST-IS-INITIAL", H, H.Pos(), "delay.For(InitialInterval)", "the first failure uses InitialInterval")
	c.Report(nGrow >= 1, P+".O4", "DELAY-GROWTH-PRESENT", H, H.Pos(), "delay.For(next)", "later failures grow the previous delay")
	for _, dm := range CallsTo(H, delayPkg+".Message") {
		okA := FromParam(ParamsOfType(H, tMessagePtr)[0])(dm.Common().Args[0]) && AllOrigins(dm.Common().Args[1], ResultOfAny(fors, 0))
		c.Report(okA, P+".O4", "DELAY-STAMPED", H, dm.Pos(), "delay.Message", "the computed delay is stamped on the consumed message")
	}
	c20DelayMessage(c, P+".O4")
	// the previous delay is read from DelayedForKey
	key, _ := c.P.ExportedConstString("components/delay", "DelayedForKey")
	ng := 0
	for _, g := range CallsTo(H, nMetaGet) {
		if ks, ok := ConstString(Arg(g, 0)); ok && ks == key && key != "" {
			ng++
		}
	}
	c.Report(ng >= 1, P+".O4", "DELAY-PREVIOUS-KEY", H, H.Pos(), "Metadata.Get(DelayedForKey)", "the previous delay is read from the key delay.Message writes")
}

// c19ContextRestored: O3.
func c19ContextRestored(c *Check, P, name string, m *MW) {
	I := m.Inner
	// whatever the middleware does with contexts it does to the consumed message: the messages the handler produced keep
	// the context the handler (and the router) gave them
	for _, f := range WithAnon(I) {
		for _, s := range CallsTo(f, nSetContext) {
			if !m.IsMsg(Receiver(s)) {
				c.Report(false, P+".O3", "PRODUCED-MESSAGES-KEEP-THEIR-CONTEXT", f, s.Pos(), name+": SetContext on another message", "the middleware sets a context on the consumed message only — not on the messages the handler returned (they would carry the middleware's context, cancelled by the time they are published)")
			}
		}
	}
	var body []ssa.CallInstruction
	for _, s := range CallsTo(I, nSetContext) {
		if m.IsMsg(Receiver(s)) {
			if _, isDefer := s.(*ssa.Defer); !isDefer {
				body = append(body, s)
			}
		}
	}
	if len(body) == 0 {
		c.Report(true, P+".O3", "CONTEXT-UNTOUCHED", I, I.Pos(), name, "the middleware never replaces the consumed message's context")
		return
	}
	// candidates for "the previous context": msg.Context() calls executed before the first SetContext
	isPrev := func(v ssa.Value) bool {
		return AllOrigins(v, func(o ssa.Value) bool {
			cl, ok := o.(*ssa.Call)
			if !ok || CalleeName(cl) != nContext || !m.IsMsg(Receiver(cl)) || cl.Parent() != I {
				return false
			}
			for _, s := range body {
				if !Dominates(I, cl, s) || ReachAfter(s, nil)[cl] {
					return false
				}
			}
			return true
		})
	}
	restored := false
	// (a) deferred restore
	AllInstrs(I, func(in ssa.Instruction) {
		d, ok := in.(*ssa.Defer)
		if !ok {
			return
		}
		if IsCallTo(d, nSetContext) && m.IsMsg(Receiver(d)) && isPrev(Arg(d, 0)) {
			restored = true
			return
		}
		f := FuncOfValue(d.Call.Value)
		if f == nil {
			return
		}
		var rs []ssa.CallInstruction
		for _, s := range CallsTo(f, nSetContext) {
			if m.IsMsg(Receiver(s)) {
				rs = append(rs, s)
			}
		}
		if len(rs) == 0 {
			return
		}
		ok2 := true
		for _, ret := range Returns(f) {
			// the last SetContext on every path restores
			last := false
			for _, s := range rs {
				if isPrev(Arg(s, 0)) && Dominates(f, s, ret) && !reachesAny(ReachAfter(s, nil), rs) {
					last = true
				}
			}
			if !last {
				ok2 = false
			}
		}
		// deferred before the body changes the context
		for _, s := range body {
			if !Dominates(I, d, s) {
				ok2 = false
			}
		}
		if ok2 {
			restored = true
		}
	})
	// an inline restore after the call is not enough: it is skipped when the handler panics, and a
	// Recoverer further out then hands a message with a cancelled context to Retry
	c.Report(restored, P+".O3", "CONTEXT-RESTORED", I, body[0].Pos(), name, "the middleware installs a derived context on the consumed message and restores the previous one in a defer, i.e. on every exit including a panic of the handler (the message is not left with a cancelled context)")
}

// behindConjunctWith: in lies on the true side of a branch whose condition is a conjunction materialised as a value
// (`switch { case a && b: }` builds phi(false, b)) one of whose conjuncts satisfies isC; every other way into the phi
// is the constant false.
func behindConjunctWith(in ssa.Instruction, isC func(*ssa.BinOp) bool) bool {
	for d := in.Block().Idom(); d != nil; d = d.Idom() {
		if len(d.Instrs) == 0 {
			continue
		}
		iff, ok := d.Instrs[len(d.Instrs)-1].(*ssa.If)
		if !ok || len(d.Succs) != 2 || !(d.Succs[0] == in.Block() || d.Succs[0].Dominates(in.Block())) {
			continue
		}
		phi, ok := iff.Cond.(*ssa.Phi)
		if !ok {
			continue
		}
		found := false
		okAll := true
		for _, e := range phi.Edges {
			if k, isK := e.(*ssa.Const); isK && k.Value != nil && k.Value.String() == "false" {
				continue
			}
			if bo, isBO := e.(*ssa.BinOp); isBO && isC(bo) {
				found = true
				continue
			}
			okAll = false
		}
		if found && okAll {
			return true
		}
	}
	return false
}
