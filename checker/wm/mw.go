package wm

import (
	"go/constant"
	"go/token"
	"go/types"

	"golang.org/x/tools/go/ssa"
)

// MW describes a handler middleware: Outer(h HandlerFunc) returns Inner(msg).
type MW struct {
	Outer  *ssa.Function
	H      *ssa.Parameter // the wrapped handler
	Inner  *ssa.Function  // the returned closure
	Msg    *ssa.Parameter // Inner's consumed message
	Family []*ssa.Function
	HCalls []ssa.CallInstruction // calls of h anywhere in Inner's family
}

// middleware locates the closure returned by outer and the calls of the
// wrapped handler inside it.
func (c *Check) middleware(id string, outer *ssa.Function, what string) *MW {
	if !c.Use(id, outer, what) {
		return nil
	}
	hs := ParamsOfType(outer, tHandlerFunc)
	if len(hs) != 1 {
		c.Floor(id, what+": HandlerFunc parameter", len(hs), 1)
		return nil
	}
	m := &MW{Outer: outer, H: hs[0]}
	for _, r := range Returns(outer) {
		for _, o := range Origins(r.Results[0]) {
			if f := FuncOfValue(o); f != nil && f.Parent() == outer {
				m.Inner = f
			}
		}
	}
	if !c.Use(id, m.Inner, what+": returned closure") {
		return nil
	}
	ms := ParamsOfType(m.Inner, tMessagePtr)
	if len(ms) != 1 {
		c.Floor(id, what+": message parameter of the returned closure", len(ms), 1)
		return nil
	}
	m.Msg = ms[0]
	m.Family = WithAnon(m.Inner)
	// private named functions that the middleware defers or starts at their only call site belong to it like literals do
	for _, f := range WithAnon(m.Inner) {
		rawInstrs(f, func(in ssa.Instruction) {
			var cc *ssa.CallCommon
			switch x := in.(type) {
			case *ssa.Defer:
				cc = &x.Call
			case *ssa.Go:
				cc = &x.Call
			}
			if cc == nil {
				return
			}
			if cal := CalleeFn(cc); cal != nil && cal.Pkg == f.Pkg && cal.Parent() == nil && len(cal.Blocks) > 0 {
				if site := OnlySite(cal); site != nil && site == in.(ssa.CallInstruction) {
					m.Family = append(m.Family, WithAnon(cal)...)
				}
			}
		})
	}
	for _, f := range m.Family {
		for _, cl := range CallsIn(f) {
			if cl.Common().IsInvoke() || CalleeFn(cl.Common()) != nil {
				continue
			}
			if AllOrigins(cl.Common().Value, IsParam(m.H)) {
				m.HCalls = append(m.HCalls, cl)
			}
		}
	}
	return m
}

// IsMsg: every origin of v is the consumed message parameter.
func (m *MW) IsMsg(v ssa.Value) bool { return AllOrigins(v, IsParam(m.Msg)) }

// HCallsIn returns the handler calls located directly in fn.
func (m *MW) HCallsIn(fn *ssa.Function) []ssa.CallInstruction {
	var out []ssa.CallInstruction
	for _, c := range m.HCalls {
		if c.Parent() == fn {
			out = append(out, c)
		}
	}
	return out
}

// ResultCell returns the local variable cell that holds named result k of fn
// (present when the result is captured by a deferred closure), or nil.
func ResultCell(fn *ssa.Function, k int) *ssa.Alloc {
	var cell *ssa.Alloc
	for _, r := range Returns(fn) {
		if k >= len(r.Results) {
			return nil
		}
		u, ok := r.Results[k].(*ssa.UnOp)
		if !ok || u.Op != token.MUL {
			return nil
		}
		a := cellOf(u.X)
		if a == nil || (cell != nil && cell != a) {
			return nil
		}
		cell = a
	}
	return cell
}

// IsLoadOfCell returns a predicate: v is a load of the given variable cell
// (from the declaring function or a closure capturing it).
func IsLoadOfCell(cell *ssa.Alloc) func(ssa.Value) bool {
	var is func(v ssa.Value, d int) bool
	is = func(v ssa.Value, d int) bool {
		if p, isP := v.(*ssa.Parameter); isP && d < 3 {
			// handed on, by value, to a private helper at its only call site: what the helper sees is that load
			// (not when the helper is deferred or started with go: its arguments are evaluated at that statement, and
			// what the helper sees later is the cell's value of then, not a load of now)
			if site := OnlySite(p.Parent()); site != nil {
				if _, isCall := site.(*ssa.Call); !isCall {
					return false
				}
			}
			if a := BoundArg(p); a != nil {
				return is(a, d+1)
			}
			return false
		}
		u, ok := v.(*ssa.UnOp)
		return ok && cell != nil && u.Op == token.MUL && cellOf(u.X) == cell
	}
	return func(v ssa.Value) bool { return is(v, 0) }
}

// StoresToCellIn lists the stores into cell located in fn.
func StoresToCellIn(fn *ssa.Function, cell *ssa.Alloc) []*ssa.Store {
	var out []*ssa.Store
	AllInstrs(fn, func(in ssa.Instruction) {
		if st, ok := in.(*ssa.Store); ok && cellOf(st.Addr) == cell {
			out = append(out, st)
		}
	})
	return out
}

// Wraps reports whether v is built from a value satisfying pred by calls and
// conversions only (error wrapping, multierror.Append, fmt.Errorf, struct
// literals converted to interfaces).
func Wraps(v ssa.Value, pred func(ssa.Value) bool) bool { return WrapsThrough(v, pred, nil) }

// WrapsThrough is Wraps where a call is looked through only if allow says so
// (nil: every call): with allow = error wrappers only, a value that was
// formatted into a string on the way no longer counts as carried.
func WrapsThrough(v ssa.Value, pred func(ssa.Value) bool, allow func(*ssa.Call) bool) bool {
	seen := map[ssa.Value]bool{}
	var rec func(v ssa.Value, d int) bool
	rec = func(v ssa.Value, d int) bool {
		if v == nil || d > 8 || seen[v] {
			return false
		}
		seen[v] = true
		if pred(v) {
			return true
		}
		switch x := v.(type) {
		case *ssa.MakeInterface:
			return rec(x.X, d+1)
		case *ssa.ChangeType:
			return rec(x.X, d+1)
		case *ssa.ChangeInterface:
			return rec(x.X, d+1)
		case *ssa.Extract:
			return rec(x.Tuple, d+1)
		case *ssa.Phi:
			for _, e := range x.Edges {
				if rec(e, d+1) {
					return true
				}
			}
		case *ssa.Call:
			if allow != nil && !allow(x) {
				return false
			}
			for _, a := range x.Call.Args {
				if rec(a, d+1) {
					return true
				}
			}
		case *ssa.Slice:
			return rec(x.X, d+1)
		case *ssa.Alloc:
			// array/struct literal: look at the element/field stores
			for _, ref := range *x.Referrers() {
				switch r := ref.(type) {
				case *ssa.IndexAddr:
					for _, r2 := range *r.Referrers() {
						if st, ok := r2.(*ssa.Store); ok && rec(st.Val, d+1) {
							return true
						}
					}
				case *ssa.FieldAddr:
					for _, r2 := range *r.Referrers() {
						if st, ok := r2.(*ssa.Store); ok && rec(st.Val, d+1) {
							return true
						}
					}
				case *ssa.Store:
					if r.Addr == ssa.Value(x) && rec(r.Val, d+1) {
						return true
					}
				}
			}
		case *ssa.UnOp:
			if x.Op == token.MUL {
				if a, ok := x.X.(*ssa.Alloc); ok {
					return rec(a, d+1)
				}
			}
		}
		return false
	}
	return rec(v, 0)
}

// ExportedConstString returns the value of the exported string constant
// pkg.name.
func (p *Prog) ExportedConstString(rel, name string) (string, bool) {
	tp := p.TypesPkg(rel)
	if tp == nil {
		return "", false
	}
	c, ok := tp.Scope().Lookup(name).(*types.Const)
	if !ok || c.Val().Kind() != constant.String {
		return "", false
	}
	return constant.StringVal(c.Val()), true
}

// VariadicElems returns the values stored into the implicit slice of a
// variadic argument (v is the slice passed), or nil if v is not such a slice.
func VariadicElems(v ssa.Value) []ssa.Value {
	sl, ok := v.(*ssa.Slice)
	if !ok {
		return nil
	}
	al, ok := sl.X.(*ssa.Alloc)
	if !ok {
		return nil
	}
	var out []ssa.Value
	for _, ref := range *al.Referrers() {
		if ia, ok := ref.(*ssa.IndexAddr); ok {
			for _, r2 := range *ia.Referrers() {
				if st, ok := r2.(*ssa.Store); ok {
					out = append(out, st.Val)
				}
			}
		}
	}
	return out
}

// NoneReachableAfter: none of targets is reachable after `from`.
func NoneReachableAfter(from ssa.Instruction, targets []ssa.CallInstruction) bool {
	after := ReachAfter(from, nil)
	for _, t := range targets {
		if after[t] {
			return false
		}
	}
	return true
}

// Dominates: every entry→site path passes through instruction d.
func Dominates(fn *ssa.Function, d, site ssa.Instruction) bool {
	return !ReachEntry(fn, NewCut().AddInstrs(d))[site] || d == site
}
