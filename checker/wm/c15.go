package wm

import (
	"fmt"
	"go/token"
	"go/types"

	"golang.org/x/tools/go/ssa"
)

const cqrsPkg = ModulePath + "/components/cqrs"

const (
	nMarshal     = "(" + cqrsPkg + ".CommandEventMarshaler).Marshal"
	nUnmarshal   = "(" + cqrsPkg + ".CommandEventMarshaler).Unmarshal"
	nName        = "(" + cqrsPkg + ".CommandEventMarshaler).Name"
	nNameFromMsg = "(" + cqrsPkg + ".CommandEventMarshaler).NameFromMessage"
	nCtxWithOrig = cqrsPkg + ".CtxWithOriginalMessage"
)

func init() {
	register(&PropDef{
		ID:  "C15",
		Run: runC15,
		Explanation: "Decides for the three CQRS processor closures, both buses, the marshalers and the context helpers: Unmarshal and the handler are reachable only on the edge NameFromMessage(msg) == Name(handler.NewX()); on the mismatch path the command processor returns nil, the event processors return nil only on the AckOnUnknownEvent edge (group: only when no handler matched); " +
			"handler and Unmarshal errors are returned unchanged (command processor: nil only on the AckCommandHandlingErrors edge); the group loop is a full ascending range and a handler error leaves the loop; buses publish exactly once, after every fallible step succeeded, to the generated topic with the marshaled message; marshalers write and read the name under the same key; the handler context is CtxWithOriginalMessage(msg.Context(), msg) with accessor and setter sharing one key. " +
			"Not decided: serialisation round trips (C16), Router acking (C02).",
		Assumptions: commonAssumptions,
	})
}

// c15Names: the exported name generators the marshalers are configured with.
// Routing is by name, so two different types must get different names and one
// value must get the name it reports: the type-derived names use the whole
// %T text (pointer marker and package prefix aside — nothing else is cut off),
// and NamedStruct asks the value every time.
func c15Names(c *Check, P string) {
	const rel = "components/cqrs"
	for _, name := range []string{"StructName", "FullyQualifiedStructName"} {
		fn := c.P.Func(rel, name)
		if !c.Use(P+".O6", fn, "cqrs."+name) || len(fn.Params) != 1 {
			continue
		}
		n := 0
		for _, cl := range CallsTo(fn, "fmt.Sprintf") {
			f, isS := ConstString(cl.Common().Args[0])
			els := VariadicElems(cl.Common().Args[1])
			if isS && f == "%T" && len(els) == 1 && FromParam(fn.Params[0])(unwrapIface(els[0])) {
				n++
			}
		}
		c.Floor(P+".O6", name+`: fmt.Sprintf("%T", v)`, n, 1)
		// "it ignores if the value is a pointer or not": every leading pointer marker goes (TrimLeft with the cutset "*"),
		// not just one (TrimPrefix) — **T and *T and T must name the same type
		for _, cl := range CallsIn(fn) {
			switch CalleeName(cl) {
			case "strings.TrimPrefix", "strings.CutPrefix":
				// (in a loop that goes on while there is a '*' to remove it is the same as TrimLeft)
				if sep, isC := ConstString(cl.Common().Args[1]); isC && sep == "*" && !InLoop(cl) {
					c.Report(false, P+".O6", "NAME-DROPS-EVERY-POINTER-MARKER", fn, cl.Pos(), name, "all leading '*' of the %T text are removed (a name that keeps one differs between a value and a pointer to a pointer to it)")
				}
			case "strings.TrimLeft":
				sep, isC := ConstString(cl.Common().Args[1])
				c.Report(isC && sep == "*", P+".O6", "NAME-DROPS-EVERY-POINTER-MARKER", fn, cl.Pos(), name, "all leading '*' of the %T text are removed (a name that keeps one differs between a value and a pointer to a pointer to it)")
			}
		}
		cut := false
		AllInstrs(fn, func(in ssa.Instruction) {
			if sl, ok := in.(*ssa.Slice); ok {
				if b, isB := sl.X.Type().Underlying().(*types.Basic); isB && b.Kind() == types.String {
					// s[strings.LastIndex(s, ".")+1:] is the last segment of strings.Split(s, "."): the package prefix is
					// dropped (documented for StructName), nothing is cut off at the end
					if name == "StructName" && sl.High == nil {
						if bo, isBO := sl.Low.(*ssa.BinOp); isBO && bo.Op == token.ADD {
							one, isOne := IntConst(bo.Y)
							li, isLI := bo.X.(*ssa.Call)
							if isOne && one == 1 && isLI && CalleeName(li) == "strings.LastIndex" && li.Call.Args[0] == sl.X {
								if sep, isC := ConstString(li.Call.Args[1]); isC && sep == "." {
									return
								}
							}
						}
					}
					cut = true
					c.Report(false, P+".O6", "NAME-KEEPS-TYPE-TEXT", fn, sl.Pos(), name+": string slicing", "the type name is not truncated at a position found in the text (type arguments of generic types, for instance, are part of what tells two types apart)")
				}
			}
		})
		if !cut {
			c.Report(true, P+".O6", "NAME-KEEPS-TYPE-TEXT", fn, fn.Pos(), name, "the type name is not truncated at a position found in the text")
		}
	}
	ns := c.P.Func(rel, "NamedStruct")
	if !c.Use(P+".O6", ns, "cqrs.NamedStruct") || len(ns.AnonFuncs) != 1 || len(ns.Params) != 1 {
		return
	}
	lit := ns.AnonFuncs[0]
	for i, r := range Returns(lit) {
		ok := AllOrigins(r.Results[0], func(v ssa.Value) bool {
			call, isCall := v.(*ssa.Call)
			if !isCall {
				return false
			}
			if call.Call.IsInvoke() && call.Call.Method.Name() == "Name" {
				// asked of the value itself
				return AllOrigins(call.Call.Value, func(x ssa.Value) bool {
					e, isE := x.(*ssa.Extract)
					if !isE {
						return false
					}
					ta, isTA := e.Tuple.(*ssa.TypeAssert)
					return isTA && len(lit.Params) == 1 && FromParam(lit.Params[0])(ta.X)
				})
			}
			// or the fallback generator applied to the value
			return !call.Call.IsInvoke() && CalleeFn(&call.Call) == nil && AllOrigins(call.Call.Value, IsParam(ns.Params[0])) && len(call.Call.Args) == 1 && FromParam(lit.Params[0])(call.Call.Args[0])
		})
		c.Report(ok, P+".O6", "NAMED-STRUCT-ASKS-THE-VALUE", lit, r.Pos(), fmt.Sprintf("NamedStruct return#%d", i), "the name is what this value's Name() reports, or the fallback generator's answer for this value — computed on every call (a name remembered per Go type is wrong for types whose Name() depends on the value)")
	}
}

func runC15(c *Check) {
	LostReceiverStores(c, "C15.CFG", "components/cqrs")
	DefaultsApplied(c, "C15.CFG", "components/cqrs")
	OptionalHooksGuarded(c, "C15.CFG", "components/cqrs")
	StepFailuresReported(c, "C15.CFG", "components/cqrs")
	P := "C15"
	c15Names(c, P)
	// the codecs the processors and buses rely on (decided as C16.O5): Unmarshal always runs the decoder
	c16Codecs(c, P+".S")
	// processor closures: functions of package cqrs returning (NoPublishHandlerFunc, error)
	type proc struct {
		outer, inner *ssa.Function
		kind         string // command | event | group
	}
	var procs []proc
	for _, fn := range c.P.SrcFuncs("components/cqrs") {
		rs := fn.Signature.Results()
		if fn.Parent() != nil || rs.Len() != 2 || rs.At(0).Type().String() != msgPkg+".NoPublishHandlerFunc" {
			continue
		}
		var inner *ssa.Function
		for _, r := range Returns(fn) {
			for _, o := range RetOrigins(r, 0) {
				if f := FuncOfValue(o); f != nil && f.Parent() == fn {
					inner = f
				}
			}
		}
		if inner == nil {
			continue
		}
		kind := "event"
		recv := fn.Signature.Recv()
		if recv != nil {
			switch NamedOf(recv.Type()).Obj().Name() {
			case "CommandProcessor":
				kind = "command"
			case "EventGroupProcessor":
				kind = "group"
			case "EventProcessor":
				kind = "event"
			default:
				continue
			}
		}
		procs = append(procs, proc{fn, inner, kind})
	}
	if c.Floor(P+".O1", "processor handler closures (command, event, group)", len(procs), 3) {
		for _, pr := range procs {
			c15Processor(c, P, pr.outer, pr.inner, pr.kind)
		}
	}
	c15Bus(c, P, c.P.Method("components/cqrs", "CommandBus", "SendWithModifiedMessage"), "GeneratePublishTopic", []string{"OnSend"})
	c15Bus(c, P, c.P.Method("components/cqrs", "EventBus", "Publish"), "GeneratePublishTopic", []string{"OnPublish"})
	c15NameKey(c, P)
	c15Ctx(c, P)
	c15GenericHandlers(c, P)
	c15Registration(c, P)
	c15UnsetConfigFields(c, P+".O5")
	// the library's own, older entry points (NewEventProcessor, the Facade) promise "events of other types are acked":
	// an event-processor configuration the library writes itself says so
	nlit := 0
	for _, fn := range c.P.SrcFuncs("components/cqrs") {
		AllInstrs(fn, func(in ssa.Instruction) {
			al, ok := in.(*ssa.Alloc)
			if !ok {
				return
			}
			T := NamedOf(al.Type())
			if T == nil || T.Obj().Name() != "EventProcessorConfig" || T.Obj().Pkg().Path() != cqrsPkg {
				return
			}
			if _, isPtr := al.Type().Underlying().(*types.Pointer); !isPtr {
				return
			}
			// a literal: fields are stored one by one (the spill of a parameter is one whole store)
			lit, set := false, false
			for _, ref := range *al.Referrers() {
				if fa, isFA := ref.(*ssa.FieldAddr); isFA {
					for _, r2 := range *fa.Referrers() {
						if st, isSt := r2.(*ssa.Store); isSt && st.Addr == ssa.Value(fa) {
							lit = true
							if f, _ := FieldOf(fa); f != nil && f.Name() == "AckOnUnknownEvent" {
								if cst, isC := st.Val.(*ssa.Const); isC && cst.Value != nil && cst.Value.String() == "true" {
									set = true
								}
							}
						}
					}
				}
			}
			if !lit {
				return
			}
			nlit++
			c.Report(set, P+".O3", "LEGACY-ENTRY-POINTS-ACK-UNKNOWN-EVENTS", fn, al.Pos(), "EventProcessorConfig literal in "+fn.Name(), "an event-processor configuration written by the library itself (deprecated constructor, Facade) sets AckOnUnknownEvent: events of other types on a shared topic are acknowledged there, as before")
		})
	}
	c.Report(true, P+".O3", "LEGACY-CONFIG-LITERALS-SCANNED", nil, token.NoPos, "package cqrs", fmt.Sprintf("%d EventProcessorConfig literals written by the library", nlit))
}

// c15Registration: what a processor registers on the router — the subscribe topic is what the configured
// GenerateSubscribeTopic answered, the subscriber what SubscriberConstructor built, the function the processor's own
// handler closure; followed through the parameters of a shared registration helper to each of its call sites.
func c15Registration(c *Check, P string) {
	const rel = "components/cqrs"
	sp := c.P.Pkg(rel)
	if sp == nil {
		return
	}
	sites, _ := pkgSites(sp)
	type actual struct {
		v  ssa.Value
		at ssa.CallInstruction
	}
	// resolve v (used in fn) to the values it stands for in the functions that compute it
	var resolve func(v ssa.Value, fn *ssa.Function, at ssa.CallInstruction, d int) []actual
	resolve = func(v ssa.Value, fn *ssa.Function, at ssa.CallInstruction, d int) []actual {
		if d < 3 {
			for i, prm := range fn.Params {
				if AllOrigins(v, IsParam(prm)) && len(sites[fn]) > 0 {
					var out []actual
					for _, s := range sites[fn] {
						if i < len(s.Common().Args) {
							out = append(out, resolve(s.Common().Args[i], s.Parent(), s, d+1)...)
						}
					}
					return out
				}
			}
		}
		return []actual{{v, at}}
	}
	fromConfigCall := func(field string) func(ssa.Value) bool {
		return func(v ssa.Value) bool {
			return AllOrigins(v, func(o ssa.Value) bool {
				var call *ssa.Call
				switch x := o.(type) {
				case *ssa.Call:
					call = x
				case *ssa.Extract:
					if cc, ok := x.Tuple.(*ssa.Call); ok && x.Index == 0 {
						call = cc
					}
				}
				if call == nil || call.Call.IsInvoke() || CalleeFn(&call.Call) != nil {
					return false
				}
				f := LoadedField(firstOrigin(call.Call.Value))
				return f != nil && f.Name() == field
			})
		}
	}
	n := 0
	for _, fn := range c.P.SrcFuncs(rel) {
		for _, ad := range CallsTo(fn, nAddNoPub) {
			n++
			for _, a := range resolve(Arg(ad, 1), fn, ad, 0) {
				c.Report(fromConfigCall("GenerateSubscribeTopic")(a.v), P+".O1", "REGISTERED-TOPIC", a.at.Parent(), a.at.Pos(), "subscribe topic of the processor's router handler", "the topic the handler subscribes to is the answer of the configured GenerateSubscribeTopic (not the handler's or the group's name, nor another string that happens to be in scope)")
			}
			for _, a := range resolve(Arg(ad, 2), fn, ad, 0) {
				c.Report(fromConfigCall("SubscriberConstructor")(a.v), P+".O1", "REGISTERED-SUBSCRIBER", a.at.Parent(), a.at.Pos(), "subscriber of the processor's router handler", "the subscriber is the one the configured SubscriberConstructor built for this handler")
			}
			for _, a := range resolve(Arg(ad, 3), fn, ad, 0) {
				okF := AllOrigins(a.v, func(o ssa.Value) bool {
					e, ok := o.(*ssa.Extract)
					if !ok || e.Index != 0 {
						return false
					}
					cl, ok := e.Tuple.(*ssa.Call)
					if !ok {
						return false
					}
					cal := CalleeFn(&cl.Call)
					return cal != nil && cal.Pkg == sp && cal.Signature.Results().Len() == 2 && cal.Signature.Results().At(0).Type().String() == msgPkg+".NoPublishHandlerFunc"
				})
				c.Report(okF, P+".O1", "REGISTERED-FUNCTION", a.at.Parent(), a.at.Pos(), "function of the processor's router handler", "the registered function is the closure the processor built for this handler (or group)")
			}
		}
	}
	c.Floor(P+".O1", "AddNoPublisherHandler registrations in package cqrs", n, 2)
	// the processors' own registration API: a handler that was accepted (nil error) was recorded in the processor's list
	// and — unless the processor was built by the deprecated constructor, which registers later, all at once — added
	// to the router; the deferred registration adds every recorded handler
	nreg := 0
	for _, tn := range []string{"CommandProcessor", "EventProcessor"} {
		T := c.P.Named(rel, tn)
		if T == nil {
			continue
		}
		var listF *types.Var
		if st, ok := T.Underlying().(*types.Struct); ok {
			for i := 0; i < st.NumFields(); i++ {
				if sl, isS := st.Field(i).Type().(*types.Slice); isS && (sl.Elem().String() == cqrsPkg+".CommandHandler" || sl.Elem().String() == cqrsPkg+".EventHandler") {
					listF = st.Field(i)
				}
			}
		}
		if listF == nil {
			continue
		}
		// the private method that reaches AddNoPublisherHandler for one handler
		var addOne *ssa.Function
		for i := 0; i < T.NumMethods(); i++ {
			f := c.P.SSA.FuncValue(T.Method(i).Origin())
			if f != nil && f.Object() != nil && !f.Object().Exported() && len(ReachesCall(f, 2, nAddNoPub)) > 0 && f.Signature.Results().Len() == 2 {
				addOne = f
			}
		}
		for _, mn := range []string{"AddHandler", "AddHandlers", "AddHandlersToRouter"} {
			fn := c.P.MethodOf(T, mn)
			if fn == nil || addOne == nil {
				continue
			}
			nreg++
			k := fn.Signature.Results().Len() - 1
			adds := Callers([]*ssa.Function{fn}, addOne)
			stores := FieldStores(fn, listF)
			deferredEdge, _ := BoolEdges(fn, func(v ssa.Value) bool {
				return AllOrigins(v, func(o ssa.Value) bool {
					f := LoadedField(o)
					return f != nil && !f.Exported() && f.Type().String() == "bool"
				})
			})
			for i, r := range Returns(fn) {
				if !RetNil(r, k) {
					continue
				}
				name := fmt.Sprintf("%s.%s return#%d", tn, mn, i)
				// where the method loops over its handlers, an iteration is what has to record / add (no handlers, nothing to do)
				var iters []ssa.Instruction
				AllInstrs(fn, func(in ssa.Instruction) {
					if bo, ok := in.(*ssa.BinOp); ok && isRangeCounter(bo) {
						for _, ad := range adds {
							if ReachAfter(bo, nil)[ad] && ReachAfter(ad, nil)[bo] {
								iters = append(iters, firstBodyInstr(bo))
							}
						}
					}
				})
				reachNoCut := func(cut *Cut) bool {
					if len(iters) == 0 {
						return ReachEntry(fn, cut)[r]
					}
					for _, it := range iters {
						if it != nil && ReachAfter(it, cut)[r] {
							return true
						}
					}
					return false
				}
				if mn != "AddHandlersToRouter" {
					// (the list may also be extended once, with the whole argument, before or after the loop)
					recorded := !reachNoCut(NewCut().AddInstrs(instrsOf2(stores)...)) || (len(iters) > 0 && !ReachEntry(fn, NewCut().AddInstrs(instrsOf2(stores)...))[r])
					c.Report(recorded, P+".O1", "ACCEPTED-HANDLER-RECORDED", fn, r.Pos(), name, "a handler that was accepted (nil error) was appended to the processor's handler list")
					okAdded := !reachNoCut(NewCut().AddInstrs(instrsOf(adds)...).AddEdges(deferredEdge...))
					c.Report(okAdded, P+".O1", "ACCEPTED-HANDLER-ADDED-TO-THE-ROUTER", fn, r.Pos(), name, "a handler that was accepted was added to the router, except on the edge of the deprecated constructor's flag (which registers later, through AddHandlersToRouter)")
				}
				// no success from inside the per-handler loop
				for _, ad := range adds {
					if !InLoop(ad) {
						continue
					}
					var incs []ssa.Instruction
					AllInstrs(fn, func(in ssa.Instruction) {
						if bo, ok := in.(*ssa.BinOp); ok && isRangeCounter(bo) && ReachAfter(bo, nil)[ad] && ReachAfter(ad, nil)[bo] {
							incs = append(incs, bo)
						}
					})
					c.Report(len(incs) > 0 && !ReachAfter(ad, NewCut().AddInstrs(incs...))[r], P+".O1", "EVERY-HANDLER-REGISTERED", fn, r.Pos(), name, "success is reported only after the loop went through every handler (no nil return from inside the per-handler loop)")
				}
			}
		}
	}
	c.Floor(P+".O1", "registration methods of the command and event processors", nreg, 4)
}

func instrsOf2(sts []*ssa.Store) []ssa.Instruction {
	out := make([]ssa.Instruction, len(sts))
	for i, s := range sts {
		out[i] = s
	}
	return out
}

// c15GenericHandlers: the handler adapters built by NewCommandHandler /
// NewEventHandler / NewGroupEventHandler hand out a fresh value per message and
// pass exactly the unmarshaled value and context to the user's function.
func c15GenericHandlers(c *Check, P string) {
	for _, spec := range []struct{ ctor, newM string }{{"NewCommandHandler", "NewCommand"}, {"NewEventHandler", "NewEvent"}, {"NewGroupEventHandler", "NewEvent"}} {
		ctor := c.P.Func("components/cqrs", spec.ctor)
		if !c.Use(P+".O8", ctor, "cqrs."+spec.ctor) {
			continue
		}
		var T *types.Named
		for _, r := range Returns(ctor) {
			for _, o := range RetOrigins(r, 0) {
				if mi, ok := o.(*ssa.MakeInterface); ok {
					T = NamedOf(mi.X.Type())
				}
			}
		}
		if !c.Floor(P+".O8", spec.ctor+": dynamic type of the returned handler", b2i(T != nil), 1) {
			continue
		}
		T = T.Origin()
		nm, hd, hn := c.P.MethodOf(T, spec.newM), c.P.MethodOf(T, "Handle"), c.P.MethodOf(T, "HandlerName")
		if !c.Use(P+".O8", nm, spec.ctor+"."+spec.newM) || !c.Use(P+".O8", hd, spec.ctor+".Handle") || !c.Use(P+".O8", hn, spec.ctor+".HandlerName") {
			continue
		}
		for r, vals := range ReturnValues(nm, 0) {
			ok := len(vals) > 0
			for _, v := range vals {
				mi, isMI := v.(*ssa.MakeInterface)
				if !isMI {
					ok = false
					continue
				}
				al, isAl := firstOrigin(mi.X).(*ssa.Alloc)
				if !isAl || !al.Heap || al.Parent() != nm {
					ok = false
				}
			}
			c.Report(ok, P+".O8", "FRESH-VALUE-PER-MESSAGE", nm, r.Pos(), spec.ctor+"."+spec.newM, "every call hands out a newly allocated value (concurrent or successive messages never share it)")
		}
		var ucalls []ssa.CallInstruction
		for _, cl := range CallsIn(hd) {
			if !cl.Common().IsInvoke() && CalleeFn(cl.Common()) == nil && LoadedField(firstOrigin(cl.Common().Value)) != nil {
				ucalls = append(ucalls, cl)
			}
		}
		if c.Floor(P+".O8", spec.ctor+".Handle: call of the user's function", len(ucalls), 1) {
			u := ucalls[0]
			okArgs := len(u.Common().Args) == 2 && FromParam(hd.Params[1])(u.Common().Args[0])
			if okArgs {
				ta, isTA := firstOrigin(u.Common().Args[1]).(*ssa.TypeAssert)
				okArgs = isTA && FromParam(hd.Params[2])(ta.X)
			}
			c.Report(okArgs && len(ucalls) == 1 && !InLoop(u), P+".O8", "HANDLE-PASSES-VALUE", hd, u.Pos(), spec.ctor+".Handle", "the user's function is called once with the given context and the given (type-asserted) value")
			for r, vals := range ReturnValues(hd, 0) {
				ok := len(vals) == 1 && IsResultOf(vals[0], u, 0)
				c.Report(ok, P+".O8", "HANDLE-RETURNS-ERROR", hd, r.Pos(), spec.ctor+".Handle", "the user's error is returned unchanged")
			}
			// the function field is the constructor's function parameter
			ff := LoadedField(firstOrigin(u.Common().Value))
			okF := false
			for _, prm := range ctor.Params {
				if _, isSig := prm.Type().Underlying().(*types.Signature); isSig {
					for _, f := range FieldsStoringParam(ctor, prm) {
						if f.Name() == ff.Name() || f == ff { // same field of the generic struct (instantiated vs. generic view)
							okF = true
						}
					}
				}
			}
			c.Report(okF, P+".O8", "HANDLE-USER-FUNCTION", ctor, ctor.Pos(), spec.ctor, "the called function is the one given to the constructor")
		}
		okN := false
		for _, vals := range ReturnValues(hn, 0) {
			for _, v := range vals {
				if f := LoadedField(v); f != nil {
					for _, prm := range ParamsOfType(ctor, "string") {
						for _, g := range FieldsStoringParam(ctor, prm) {
							if g.Name() == f.Name() {
								okN = true
							}
						}
					}
				}
			}
		}
		if len(ParamsOfType(ctor, "string")) == 0 {
			continue // group handlers have no name of their own
		}
		c.Report(okN, P+".O8", "HANDLER-NAME", hn, hn.Pos(), spec.ctor+".HandlerName", "HandlerName returns the name given to the constructor")
	}
}

func c15Processor(c *Check, P string, outer, C *ssa.Function, kind string) {
	c.Use(P+".O1", C, kind+" processor closure")
	msg := ParamsOfType(C, tMessagePtr)[0]
	isMsg := FromParam(msg)
	nfm := CallsTo(C, nNameFromMsg)
	isGot := func(v ssa.Value) bool { return AllOrigins(v, ResultOfAny(nfm, 0)) }
	// expected name: result of Marshaler.Name(handler.NewX()) in C or captured from outer
	isExpected := func(v ssa.Value) bool {
		return AllOrigins(v, func(o ssa.Value) bool {
			cl, ok := o.(*ssa.Call)
			if !ok || CalleeName(cl) != nName {
				return false
			}
			a, ok := firstOrigin(cl.Call.Args[0]).(*ssa.Call)
			return ok && a.Call.IsInvoke() && (a.Call.Method.Name() == "NewCommand" || a.Call.Method.Name() == "NewEvent")
		})
	}
	var match, mismatch []Edge
	for _, t := range Tests(C) {
		if t.Op != token.EQL || t.Y == nil {
			continue
		}
		if (isGot(t.X) && isExpected(t.Y)) || (isGot(t.Y) && isExpected(t.X)) {
			match = append(match, t.True)
			mismatch = append(mismatch, t.False)
		}
	}
	if !c.Floor(P+".O1", kind+": test NameFromMessage(msg) == Name(handler.NewX())", len(match), 1) {
		return
	}
	for _, n := range nfm {
		c.Report(len(n.Common().Args) == 1 && isMsg(n.Common().Args[0]), P+".O1", "NAME-OF-CONSUMED", C, n.Pos(), "NameFromMessage", "the name is read from the consumed message")
	}
	// handler calls: dynamic calls whose callee is OnHandle or a closure invoking .Handle
	var hcalls []ssa.CallInstruction
	for _, cl := range CallsIn(C) {
		if cl.Common().IsInvoke() {
			if cl.Common().Method.Name() == "Handle" {
				hcalls = append(hcalls, cl)
			}
			continue
		}
		if CalleeFn(cl.Common()) != nil {
			continue
		}
		isH := false
		for _, o := range Origins(cl.Common().Value) {
			if exportedFieldLoad("OnHandle")(o) {
				isH = true
			}
			if f := FuncOfValue(o); f != nil {
				for _, ic := range CallsIn(f) {
					if ic.Common().IsInvoke() && ic.Common().Method.Name() == "Handle" {
						isH = true
					}
				}
			}
		}
		if isH {
			hcalls = append(hcalls, cl)
		}
	}
	unm := CallsTo(C, nUnmarshal)
	if !c.Floor(P+".O1", kind+": handler invocation", len(hcalls), 1) || !c.Floor(P+".O1", kind+": Unmarshal call", len(unm), 1) {
		return
	}
	for _, h := range hcalls {
		c.Report(GuardedBy(C, h, match), P+".O1", "GATE/handler", C, h.Pos(), kind+" handler call", "the handler runs only on the edge where the message's name equals the handler's type name")
	}
	for _, u := range unm {
		c.Report(GuardedBy(C, u, match), P+".O1", "GATE/unmarshal", C, u.Pos(), kind+" Unmarshal", "Unmarshal runs only on the matching edge")
		c.Report(isMsg(Arg(u, 0)), P+".O1", "UNMARSHAL-CONSUMED", C, u.Pos(), kind+" Unmarshal", "the consumed message is unmarshaled")
		for _, h := range hcalls {
			c.Report(Dominates(C, u, h), P+".O1", "UNMARSHAL-BEFORE-HANDLE", C, h.Pos(), kind+" handler call", "the value is unmarshaled before the handler is called")
		}
	}
	c15FreshTarget(c, P+".O1", C, kind)
	// the handler gets the unmarshaled value and the handler of this iteration
	for _, h := range hcalls {
		if len(h.Common().Args) != 1 {
			continue
		}
		ok := true
		for _, u := range unm {
			target := Arg(u, 1)
			if !Wraps(h.Common().Args[0], func(v ssa.Value) bool { return v == target || sameValue(v, target) }) {
				ok = false
			}
		}
		c.Report(ok, P+".O1", "HANDLER-VALUE", C, h.Pos(), kind+" handler call", "the handler receives the value Unmarshal filled")
	}

	hErr := ResultOfAny(hcalls, 0)
	hOK, hFail := NilEdges(C, func(v ssa.Value) bool { return AllOrigins(v, hErr) })
	_, uFail := NilEdges(C, ResultOfAny(unm, 0))
	c.Floor(P+".O3", kind+": test of the handler's error", len(hFail), 1)
	c.Floor(P+".O3", kind+": test of the Unmarshal error", len(uFail), 1)
	ackErrTrue, _ := BoolEdges(C, exportedFieldLoad("AckCommandHandlingErrors"))
	ackUnkTrue, ackUnkFalse := BoolEdges(C, exportedFieldLoad("AckOnUnknownEvent"))

	// O3 error policy
	for _, e := range hFail {
		re := ReachEdge(e, nil)
		for i, r := range Returns(C) {
			if !re[r] {
				continue
			}
			k := fmt.Sprintf("%s return#%d", kind, i)
			v := r.Results[0]
			switch {
			case IsNilConst(v):
				if kind == "command" {
					c.Report(GuardedBy(C, r, ackErrTrue) && len(ackErrTrue) > 0, P+".O3", "HANDLER-ERROR-ACKED-ONLY-BY-OPTION", C, r.Pos(), k,
						"after a handler error nil is returned only on the AckCommandHandlingErrors edge")
				} else {
					// group: `return nil` after loop is reachable from a *previous* iteration's failure? no: failure returns
					c.Report(GuardedBy(C, r, hOK) || false, P+".O3", "HANDLER-ERROR-NOT-SWALLOWED", C, r.Pos(), k, "a handler error never ends in a nil return")
				}
			default:
				c.Report(AllOrigins(v, hErr) || GuardedBy(C, r, hOK), P+".O3", "HANDLER-ERROR-UNCHANGED", C, r.Pos(), k, "the handler's error is returned unchanged")
			}
		}
		// no later handler runs after a failure (group)
		bad := false
		for _, h := range hcalls {
			if re[h] {
				bad = true
			}
		}
		c.Report(!bad, P+".O4", "STOP-AT-FIRST-ERROR", C, e.From.Instrs[len(e.From.Instrs)-1].Pos(), kind+" handler error edge", "after a handler error no further handler is invoked")
	}
	for _, e := range uFail {
		re := ReachEdge(e, nil)
		ok := true
		for _, r := range Returns(C) {
			if re[r] && !AllOrigins(r.Results[0], ResultOfAny(unm, 0)) {
				ok = false
			}
		}
		for _, h := range hcalls {
			if re[h] {
				ok = false
			}
		}
		c.Report(ok, P+".O3", "UNMARSHAL-ERROR-RETURNED", C, e.From.Instrs[len(e.From.Instrs)-1].Pos(), kind+" Unmarshal error edge", "an Unmarshal error is returned and the handler is not called")
	}
	if kind == "command" {
		c.Floor(P+".O3", "command: test of AckCommandHandlingErrors", len(ackErrTrue), 1)
	}
	// the processor refuses a message only for a reason of the message's own handling: Unmarshal, the handler (or the
	// hook around it) failed, or — for events — nobody handles it and AckOnUnknownEvent is off
	{
		var srcs []ErrSource
		for _, cl := range CallsIn(C) {
			if _, isCall := cl.(*ssa.Call); !isCall {
				continue
			}
			sig := cl.Common().Signature()
			if n := sig.Results().Len(); n > 0 && IsErrorType(sig.Results().At(n-1).Type()) {
				if cal := CalleeFn(cl.Common()); cal == nil || cal.Pkg == C.Pkg {
					srcs = append(srcs, ErrSource{cl, n - 1})
				}
			}
		}
		ErrorsOnlyFrom(c, P+".O3", "PROCESSOR-FAILS-ONLY-ON-HANDLING-FAILURE", C, srcs, ackUnkFalse, "the "+kind+" processor returns an error (⇒ Nack) only when decoding or handling this message failed, or for an unhandled event with AckOnUnknownEvent off — a message of another kind (other name, no name) is not an error")
	}

	// a message is acknowledged (nil) only after the name comparison decided: nothing in front of it — an empty payload, a
	// missing header — answers for the handler
	if kind == "command" || kind == "event" {
		decided := append(append([]Edge{}, match...), mismatch...)
		for i, r := range Returns(C) {
			if RetNil(r, 0) {
				c.Report(GuardedBy(C, r, decided), P+".O2", "ACK-ONLY-AFTER-THE-NAME-WAS-COMPARED", C, r.Pos(), fmt.Sprintf("%s return#%d", kind, i), "every nil return (⇒ Ack) lies behind the comparison of the message's name with the handler's: no earlier shortcut acknowledges a message the handler never saw (a zero-length payload is a valid encoding)")
			}
		}
	}
	// O2 unknown policy
	switch kind {
	case "command", "event":
		for _, e := range mismatch {
			re := ReachEdge(e, nil)
			for i, r := range Returns(C) {
				if !re[r] {
					continue
				}
				k := fmt.Sprintf("%s return#%d", kind, i)
				isNil := RetNil(r, 0)
				if kind == "command" {
					c.Report(isNil, P+".O2", "UNKNOWN-COMMAND-ACKED", C, r.Pos(), k, "a command of another type is acknowledged (nil)")
				} else if isNil {
					c.Report(GuardedBy(C, r, ackUnkTrue) && len(ackUnkTrue) > 0, P+".O2", "UNKNOWN-EVENT-POLICY", C, r.Pos(), k, "an unknown event is acknowledged only on the AckOnUnknownEvent edge")
				} else {
					c.Report(GuardedBy(C, r, ackUnkFalse) && len(ackUnkFalse) > 0, P+".O2", "UNKNOWN-EVENT-POLICY", C, r.Pos(), k, "an unknown event is rejected only on the !AckOnUnknownEvent edge")
				}
			}
		}
		if kind == "event" {
			c.Floor(P+".O2", "event: test of AckOnUnknownEvent", len(ackUnkTrue), 1)
		}
	case "group":
		c.Floor(P+".O2", "group: test of AckOnUnknownEvent", len(ackUnkTrue), 1)
		// handledAny: a bool phi of constants, true only after a successful handler call
		var handled []*ssa.Phi
		AllInstrs(C, func(in ssa.Instruction) {
			phi, ok := in.(*ssa.Phi)
			if !ok || phi.Type().String() != "bool" {
				return
			}
			for _, e := range phi.Edges {
				if e == ssa.Value(phi) {
					continue
				}
				if cst, ok := e.(*ssa.Const); !ok || cst.Value == nil {
					return
				}
			}
			handled = append(handled, phi)
		})
		isHandled := func(v ssa.Value) bool {
			for _, h := range handled {
				if v == ssa.Value(h) {
					return true
				}
			}
			return false
		}
		hTrue, hFalse := BoolEdges(C, isHandled)
		if !c.Floor(P+".O2", "group: 'some handler matched' flag and its test", len(hTrue), 1) {
			return
		}
		for _, phi := range handled {
			for i, e := range phi.Edges {
				cst, ok := e.(*ssa.Const)
				if !ok || cst.Value == nil || cst.Value.String() != "true" {
					continue
				}
				pred := phi.Block().Preds[i]
				term := pred.Instrs[len(pred.Instrs)-1]
				c.Report(GuardedBy(C, term, hOK) && GuardedBy(C, term, match), P+".O2", "HANDLED-FLAG", C, phi.Pos(), "handled flag", "the flag becomes true only after a matching handler returned nil")
			}
		}
		for _, e := range ackUnkTrue {
			c.Report(GuardedBy(C, e.From.Instrs[len(e.From.Instrs)-1], hFalse), P+".O2", "UNKNOWN-ONLY-IF-NONE-MATCHED", C, e.From.Instrs[len(e.From.Instrs)-1].Pos(), "AckOnUnknownEvent test", "the unknown-event policy applies only when no handler matched")
		}
		for i, r := range Returns(C) {
			k := fmt.Sprintf("group return#%d", i)
			v := r.Results[0]
			if IsNilConst(v) {
				c.Report(GuardedBy(C, r, append(append([]Edge{}, hTrue...), ackUnkTrue...)), P+".O2", "GROUP-NIL", C, r.Pos(), k, "nil is returned only when a handler matched or on the AckOnUnknownEvent edge")
			} else if !AllOrigins(v, hErr) && !AllOrigins(v, ResultOfAny(unm, 0)) {
				c.Report(GuardedBy(C, r, ackUnkFalse) && GuardedBy(C, r, hFalse), P+".O2", "GROUP-REJECT", C, r.Pos(), k, "the 'no handler' error is returned only when none matched and !AckOnUnknownEvent")
			}
		}
		// O4 ascending full range over the registered handlers
		for _, h := range hcalls {
			ok := Wraps(h.Common().Args[0], func(v ssa.Value) bool {
				u, isU := v.(*ssa.UnOp)
				if !isU || u.Op != token.MUL {
					return false
				}
				ia, isIA := u.X.(*ssa.IndexAddr)
				return isIA && IsFullRangeIndex(ia.Index, ia.X)
			})
			c.Report(ok, P+".O4", "GROUP-ORDER", C, h.Pos(), "group handler call", "handlers are taken from the registered slice by a full ascending range loop (registration order)")
			own := Wraps(h.Common().Args[0], func(v ssa.Value) bool {
				u, isU := v.(*ssa.UnOp)
				if !isU || u.Op != token.MUL {
					return false
				}
				ia, isIA := u.X.(*ssa.IndexAddr)
				return isIA && AllOrigins(ia.X, func(o ssa.Value) bool {
					p, isP := o.(*ssa.Parameter)
					return isP && C.Parent() != nil && p.Parent() == C.Parent()
				})
			})
			c.Report(own, P+".O4", "GROUP-OWN-HANDLERS", C, h.Pos(), "group handler call", "the slice ranged over is the handler list this group's router handler was built with (not an index shared between groups: another group's handlers of the same event type must not run)")
		}
		// mismatch ⇒ next handler, nothing else
		for _, e := range mismatch {
			re := ReachEdge(e, NewCut().AddInstrs(firstInstr(e.From)))
			_ = re
		}
	}

	// O7 original message in context
	c15OriginalMessageCtx(c, P+".O7", C, kind)
}

// c15FreshTarget: the value that is filled and handed to the handler is created anew for this message (inside the closure).
// Shared with C18: a reply computed from a command object shared between requests carries another request's data.
func c15FreshTarget(c *Check, id string, C *ssa.Function, kind string) {
	for _, u := range CallsTo(C, nUnmarshal) {
		okFresh := AllOrigins(Arg(u, 1), func(o ssa.Value) bool {
			call, ok := o.(*ssa.Call)
			if !ok || !call.Call.IsInvoke() || (call.Call.Method.Name() != "NewCommand" && call.Call.Method.Name() != "NewEvent") {
				return false
			}
			return call.Parent() == C
		})
		c.Report(okFresh, id, "FRESH-VALUE-PER-MESSAGE", C, u.Pos(), kind+" Unmarshal target", "the value Unmarshal fills is a NewCommand()/NewEvent() result created inside the per-message closure (never one captured from the set-up code and shared between messages)")
	}
}

// c15OriginalMessageCtx: the processor closure puts the consumed message into the context it hands to the handler
// and to the message itself (request-reply's OnHandle hook finds the command message there). Also decided under C18.
func c15OriginalMessageCtx(c *Check, id string, C *ssa.Function, kind string) {
	isMsg := FromParam(ParamsOfType(C, tMessagePtr)[0])
	cw := CallsTo(C, nCtxWithOrig)
	if c.Floor(id, kind+": CtxWithOriginalMessage call", len(cw), 1) {
		for _, w := range cw {
			a0, ok := firstOrigin(w.Common().Args[0]).(*ssa.Call)
			okA := ok && CalleeName(a0) == nContext && isMsg(Receiver(a0)) && isMsg(w.Common().Args[1])
			c.Report(okA, id, "ORIGINAL-MESSAGE-CTX", C, w.Pos(), kind+" ctx", "the handler context is CtxWithOriginalMessage(msg.Context(), msg) of the consumed message")
		}
		isCtx := func(v ssa.Value) bool { return AllOrigins(v, ResultOfAny(cw, 0)) }
		// default handle closure passes that ctx to Handle
		n := 0
		for _, f := range WithAnon(C) {
			for _, ic := range CallsIn(f) {
				if ic.Common().IsInvoke() && ic.Common().Method.Name() == "Handle" {
					n++
					c.Report(isCtx(ic.Common().Args[0]), id, "HANDLE-CTX", f, ic.Pos(), kind+" Handle", "Handle receives the context that carries the original message")
				}
			}
		}
		c.Floor(id, kind+": Handle invocation in the default handle closure", n, 1)
		ns := 0
		for _, s := range CallsTo(C, nSetContext) {
			if isMsg(Receiver(s)) && isCtx(Arg(s, 0)) {
				ns++
			}
		}
		c.Report(ns >= 1, id, "MESSAGE-CTX", C, C.Pos(), kind+" SetContext", "the consumed message's context is set to the same context (OnHandle hooks see it)")
	}
}

// c15Bus checks the publish pipeline of a bus method (with one level of
// in-package helper).
func c15Bus(c *Check, P string, fn *ssa.Function, genField string, hooks []string) {
	if !c.Use(P+".O5", fn, "bus send/publish method") {
		return
	}
	pubs := CallsTo(fn, nPublish)
	if !c.Floor(P+".O5", FnName(fn)+": Publisher.Publish", len(pubs), 1) {
		return
	}
	// functions that make up the pipeline: fn + in-package helpers it calls
	fns := []*ssa.Function{fn}
	for _, cl := range CallsIn(fn) {
		if cal := CalleeFn(cl.Common()); cal != nil && cal.Pkg == fn.Pkg && len(cal.Blocks) > 0 && cal.Signature.Recv() != nil {
			fns = append(fns, cal)
		}
	}
	var marshals, gens, names []ssa.CallInstruction
	for _, f := range fns {
		c.Use(P+".O5", f, "bus pipeline")
		marshals = append(marshals, CallsTo(f, nMarshal)...)
		names = append(names, CallsTo(f, nName)...)
		for _, cl := range CallsIn(f) {
			if !cl.Common().IsInvoke() && CalleeFn(cl.Common()) == nil && AllOrigins(cl.Common().Value, exportedFieldLoad(genField)) {
				gens = append(gens, cl)
			}
		}
	}
	c.Floor(P+".O5", FnName(fn)+": Marshaler.Marshal", len(marshals), 1)
	c.Floor(P+".O5", FnName(fn)+": topic generator call", len(gens), 1)
	c.Floor(P+".O5", FnName(fn)+": Marshaler.Name", len(names), 1)
	for _, f := range fns {
		// success sites of f: Publish calls, and returns whose error result is nil when f is a helper
		var success []ssa.Instruction
		for _, pb := range CallsTo(f, nPublish) {
			success = append(success, pb)
		}
		if f != fn {
			for _, r := range Returns(f) {
				if RetNil(r, len(r.Results)-1) {
					success = append(success, r)
				}
			}
		}
		// fallible steps in f
		for _, cl := range CallsIn(f) {
			sig := cl.Common().Signature()
			n := sig.Results().Len()
			if n == 0 || !IsErrorType(sig.Results().At(n-1).Type()) {
				continue
			}
			if IsCallTo(cl, nPublish) {
				continue
			}
			if _, isCall := cl.(*ssa.Call); !isCall {
				continue
			}
			step := CalleeName(cl)
			var absent []Edge
			if step == "" {
				// dynamic call of a hook / modify function: skipping it when nil is fine
				absent, _ = NilEdges(f, func(v ssa.Value) bool { return sameOriginSet(v, cl.Common().Value) })
				step = "hook " + cl.Common().Value.Name()
				for _, o := range Origins(cl.Common().Value) {
					if fl := LoadedField(o); fl != nil {
						step = "config." + fl.Name()
					}
				}
			}
			if cal := CalleeFn(cl.Common()); cal != nil && cal.Pkg != f.Pkg {
				continue // errors.Wrap etc. are not steps
			}
			okE, _ := NilEdges(f, func(v ssa.Value) bool { return AllOrigins(v, func(o ssa.Value) bool { return IsResultOf(o, cl, n-1) }) })
			guards := append(append([]Edge{}, okE...), absent...)
			for _, s := range success {
				if !ReachAfter(cl, nil)[s] && len(absent) == 0 {
					continue // step after the success site (none today)
				}
				c.Report(len(okE) > 0 && GuardedBy(f, s, guards) || !Dominates(f, cl, s) && len(absent) > 0 && GuardedBy(f, s, guards), P+".O5", "PUBLISH-AFTER-ALL-STEPS", f, s.Pos(), Short(step),
					"the message is published (or handed back for publishing) only after this step returned no error")
			}
		}
	}
	// the bus fails only when one of its steps failed: every error it returns is (a wrap of) a step's error
	for _, f := range fns {
		var srcs []ErrSource
		for _, cl := range CallsIn(f) {
			if _, isCall := cl.(*ssa.Call); !isCall {
				continue
			}
			sig := cl.Common().Signature()
			if n := sig.Results().Len(); n > 0 && IsErrorType(sig.Results().At(n-1).Type()) {
				if cal := CalleeFn(cl.Common()); cal == nil || cal.Pkg == f.Pkg || IsCallTo(cl, nPublish) {
					srcs = append(srcs, ErrSource{cl, n - 1})
				}
			}
		}
		ErrorsOnlyFrom(c, P+".O5", "BUS-FAILS-ONLY-WHEN-A-STEP-FAILED", f, srcs, nil, "sending fails only when marshalling, naming the topic, a hook or the Publish itself failed (no other condition refuses a command or event)")
	}
	// the caller's context travels with the message
	for _, m := range marshals {
		f := m.Parent()
		nctx := 0
		for _, sc := range CallsTo(f, nSetContext) {
			if !AllOrigins(Receiver(sc), ResultOfAny(marshals, 0)) {
				continue
			}
			isCtxParam := AllOrigins(Arg(sc, 0), func(o ssa.Value) bool {
				prm, ok := o.(*ssa.Parameter)
				return ok && prm.Type().String() == "context.Context"
			})
			okDom := true
			for _, pb := range CallsTo(f, nPublish) {
				if !Dominates(f, sc, pb) {
					okDom = false
				}
			}
			if f != fn {
				for _, r := range Returns(f) {
					if RetNil(r, len(r.Results)-1) && !Dominates(f, sc, r) {
						okDom = false
					}
				}
			}
			if isCtxParam && okDom {
				nctx++
			}
		}
		c.Report(nctx >= 1, P+".O5", "CONTEXT-PROPAGATED", f, m.Pos(), fn.Name()+" SetContext", "the marshaled message gets the caller's context before it is published")
	}
	for i, pb := range pubs {
		k := fmt.Sprintf("%s Publish#%d", fn.Name(), i)
		c.Report(!InLoop(pb) && NoneReachableAfter(pb, pubs), P+".O5", "PUBLISH-ONCE", fn, pb.Pos(), k, "the command/event is published exactly once")
		okT := AllOrigins2(Arg(pb, 0), fn.Pkg, func(v ssa.Value) bool { return ResultOfAny(gens, 0)(v) })
		c.Report(okT, P+".O5", "PUBLISH-TOPIC", fn, pb.Pos(), k, "the topic is the one the configured generator returned")
		el := VariadicElems(Arg(pb, 1))
		okM := len(el) == 1 && AllOrigins2(el[0], fn.Pkg, func(v ssa.Value) bool { return ResultOfAny(marshals, 0)(v) })
		c.Report(okM, P+".O5", "PUBLISH-MESSAGE", fn, pb.Pos(), k, "the published message is the result of Marshal")
		for r, vals := range ReturnValues(fn, 0) {
			if !ReachAfter(pb, nil)[r] {
				continue
			}
			ok := true
			for _, v := range vals {
				if IsNilConst(v) {
					okE, _ := NilEdges(fn, ResultOfAny(pubs, 0))
					if !GuardedBy(fn, r, okE) && !nilOnlyOnEdges(r, v, okE) {
						ok = false
					}
				} else if !IsResultOf(v, pb, 0) && !Wraps(v, func(x ssa.Value) bool { return IsResultOf(x, pb, 0) }) {
					ok = false
				}
			}
			c.Report(ok, P+".O5", "PUBLISH-ERROR-RETURNED", fn, r.Pos(), k, "the Publish error is returned to the caller")
		}
	}
	// the generator sees the name and the value; marshal and name take the sent value
	var val *ssa.Parameter
	for _, prm := range fn.Params {
		if prm.Type().String() == "any" || prm.Type().String() == "interface{}" {
			val = prm
		}
	}
	isVal := func(v ssa.Value) bool {
		return AllOrigins2(v, fn.Pkg, func(o ssa.Value) bool { return val != nil && o == ssa.Value(val) })
	}
	for _, m := range marshals {
		c.Report(isValHelper(m.Common().Args[0], fn, val), P+".O5", "MARSHAL-VALUE", m.Parent(), m.Pos(), fn.Name()+" Marshal", "the sent value is marshaled")
	}
	for _, n := range names {
		c.Report(isValHelper(n.Common().Args[0], fn, val), P+".O5", "NAME-VALUE", n.Parent(), n.Pos(), fn.Name()+" Name", "the name is computed from the sent value")
	}
	_ = isVal
	for _, g := range gens {
		okN := Wraps(g.Common().Args[0], ResultOfAny(names, 0))
		c.Report(okN, P+".O5", "TOPIC-FROM-NAME", g.Parent(), g.Pos(), fn.Name()+" topic generator", "the topic generator receives the value's name")
	}
}

// isValHelper: v is parameter val of fn, or the parameter of a helper bound to it.
func isValHelper(v ssa.Value, fn *ssa.Function, val *ssa.Parameter) bool {
	return AllOrigins(v, func(o ssa.Value) bool {
		if val != nil && o == ssa.Value(val) {
			return true
		}
		prm, ok := o.(*ssa.Parameter)
		if !ok {
			return false
		}
		h := prm.Parent()
		idx := -1
		for i, q := range h.Params {
			if q == prm {
				idx = i
			}
		}
		okAll := false
		for _, cl := range CallsIn(fn) {
			if CalleeFn(cl.Common()) == h && idx < len(cl.Common().Args) {
				okAll = AllOrigins(cl.Common().Args[idx], func(x ssa.Value) bool { return val != nil && x == ssa.Value(val) })
			}
		}
		return okAll
	})
}

// AllOrigins2 is AllOrigins that additionally looks through results of
// in-package helper calls (one level): Extract(call helper, k) is replaced by
// the values the helper returns as result k.
func AllOrigins2(v ssa.Value, pkg *ssa.Package, pred func(ssa.Value) bool) bool {
	return AllOrigins(v, func(o ssa.Value) bool {
		if pred(o) {
			return true
		}
		var call *ssa.Call
		k := 0
		switch x := o.(type) {
		case *ssa.Extract:
			call, _ = x.Tuple.(*ssa.Call)
			k = x.Index
		case *ssa.Call:
			call = x
		}
		if call == nil {
			return false
		}
		cal := CalleeFn(&call.Call)
		if cal == nil || cal.Pkg != pkg || len(cal.Blocks) == 0 {
			return false
		}
		any := false
		for _, vals := range ReturnValues(cal, k) {
			for _, rv := range vals {
				if IsNilConst(rv) {
					continue // error paths return zero values
				}
				if cst, ok := rv.(*ssa.Const); ok && cst.Value != nil && cst.Value.ExactString() == `""` {
					continue
				}
				if !pred(rv) {
					return false
				}
				any = true
			}
		}
		return any
	})
}

func sameOriginSet(a, b ssa.Value) bool {
	oa, ob := Origins(a), Origins(b)
	if len(oa) == 0 || len(oa) != len(ob) {
		return false
	}
	for _, x := range oa {
		found := false
		for _, y := range ob {
			if x == y || (LoadedField(x) != nil && LoadedField(x) == LoadedField(y)) {
				found = true
			}
		}
		if !found {
			return false
		}
	}
	return true
}

func c15NameKey(c *Check, P string) {
	tp := c.P.TypesPkg("components/cqrs")
	if tp == nil {
		c.Floor(P+".O6", "package components/cqrs", 0, 1)
		return
	}
	n := 0
	for _, name := range tp.Scope().Names() {
		tn, ok := tp.Scope().Lookup(name).(*types.TypeName)
		if !ok || !tn.Exported() {
			continue
		}
		named, ok := tn.Type().(*types.Named)
		if !ok {
			continue
		}
		mar, nfm := c.P.MethodOf(named, "Marshal"), c.P.MethodOf(named, "NameFromMessage")
		nm := c.P.MethodOf(named, "Name")
		if mar == nil || nfm == nil || nm == nil || len(mar.Blocks) == 0 {
			continue
		}
		n++
		c.Use(P+".O6", mar, "Marshal")
		c.Use(P+".O6", nfm, "NameFromMessage")
		keysW := map[string]bool{}
		for _, s := range CallsTo(mar, nMetaSet) {
			if k, ok := ConstString(Arg(s, 0)); ok {
				v, isCall := firstOrigin(Arg(s, 1)).(*ssa.Call)
				if isCall && CalleeFn(&v.Call) == nm {
					keysW[k] = true
					c.Report(len(v.Call.Args) == 2 && FromParam(mar.Params[len(mar.Params)-1])(v.Call.Args[1]), P+".O6", "NAME-WRITTEN", mar, s.Pos(), named.Obj().Name()+".Marshal", "Marshal stores Name(v) of the marshaled value")
				}
			}
		}
		keysR := map[string]bool{}
		for _, g := range CallsTo(nfm, nMetaGet) {
			if k, ok := ConstString(Arg(g, 0)); ok {
				keysR[k] = true
			}
		}
		ok = len(keysW) == 1 && len(keysR) == 1
		for k := range keysW {
			if !keysR[k] {
				ok = false
			}
		}
		for r, vals := range ReturnValues(nfm, 0) {
			okR := len(vals) > 0
			for _, v := range vals {
				cl, isC := v.(*ssa.Call)
				if !isC || CalleeName(cl) != nMetaGet {
					okR = false
				}
			}
			c.Report(okR, P+".O6", "NAME-READ", nfm, r.Pos(), named.Obj().Name()+".NameFromMessage", "NameFromMessage returns the metadata value unchanged")
		}
		c.Report(ok, P+".O6", "NAME-KEY", mar, mar.Pos(), named.Obj().Name(), "Marshal writes the name under the same metadata key that NameFromMessage reads")
	}
	c.Floor(P+".O6", "marshalers (types with Marshal/Name/NameFromMessage)", n, 3)
}

func c15Ctx(c *Check, P string) {
	set := c.P.Func("components/cqrs", "CtxWithOriginalMessage")
	get := c.P.Func("components/cqrs", "OriginalMessageFromCtx")
	if !c.Use(P+".O7", set, "cqrs.CtxWithOriginalMessage") || !c.Use(P+".O7", get, "cqrs.OriginalMessageFromCtx") {
		return
	}
	wv := CallsTo(set, nWithValue)
	gv := CallsTo(get, "(context.Context).Value")
	if !c.Floor(P+".O7", "context.WithValue in CtxWithOriginalMessage", len(wv), 1) || !c.Floor(P+".O7", "ctx.Value in OriginalMessageFromCtx", len(gv), 1) {
		return
	}
	kw, kr := constKey(wv[0].Common().Args[1]), constKey(gv[0].Common().Args[0])
	c.Report(kw != "" && kw == kr, P+".O7", "CTX-KEY", set, wv[0].Pos(), "original message key", "setter and accessor use the same context key ("+kw+")")
	okV := FromParam(set.Params[1])(unwrapIface(wv[0].Common().Args[2])) && FromParam(set.Params[0])(wv[0].Common().Args[0])
	c.Report(okV, P+".O7", "CTX-VALUE", set, wv[0].Pos(), "original message value", "the stored value is the given message, on top of the given context")
	for r, vals := range ReturnValues(set, 0) {
		ok := len(vals) == 1 && IsResultOf(vals[0], wv[0], 0)
		c.Report(ok, P+".O7", "CTX-RETURNED", set, r.Pos(), "CtxWithOriginalMessage result", "the derived context is returned")
	}
}

func unwrapIface(v ssa.Value) ssa.Value {
	if mi, ok := v.(*ssa.MakeInterface); ok {
		return mi.X
	}
	return v
}

// constKey renders a constant context key as "type:value".
func constKey(v ssa.Value) string {
	v = unwrapIface(v)
	cst, ok := v.(*ssa.Const)
	if !ok || cst.Value == nil {
		return ""
	}
	return cst.Type().String() + ":" + cst.Value.ExactString()
}

// firstBodyInstr: the first instruction of the body of the range loop whose counter is bo (the true successor of the
// `counter < len` test), or nil.
func firstBodyInstr(bo *ssa.BinOp) ssa.Instruction {
	for _, ref := range *bo.Referrers() {
		cmp, ok := ref.(*ssa.BinOp)
		if !ok || cmp.Op != token.LSS || cmp.X != ssa.Value(bo) {
			continue
		}
		for _, r2 := range *cmp.Referrers() {
			if iff, isIf := r2.(*ssa.If); isIf && len(iff.Block().Succs) == 2 && len(iff.Block().Succs[0].Instrs) > 0 {
				return iff.Block().Succs[0].Instrs[0]
			}
		}
	}
	return nil
}

// c15UnsetConfigFields: a component built by a (deprecated) constructor from a configuration literal that never goes
// through setDefaults carries nil in every interface / function field the literal leaves out; the component's methods
// call such a field only behind a test that it is set (a logger call on a nil Logger panics before the message is sent).
func c15UnsetConfigFields(c *Check, id string) {
	const rel = "components/cqrs"
	sp := c.P.Pkg(rel)
	if sp == nil {
		return
	}
	// component type -> config fields some constructor leaves unset
	unset := map[*types.Named]map[*types.Var]*ssa.Function{}
	for _, fn := range c.P.SrcFuncsRaw(rel) {
		if fn.Parent() != nil || fn.Object() == nil || !fn.Object().Exported() || fn.Signature.Recv() != nil {
			continue
		}
		rawInstrs(fn, func(in ssa.Instruction) {
			al, ok := in.(*ssa.Alloc)
			if !ok {
				return
			}
			C := NamedOf(al.Type())
			if C == nil || C.Obj().Pkg() != sp.Pkg {
				return
			}
			cst, ok := C.Underlying().(*types.Struct)
			if !ok {
				return
			}
			for _, ref := range *al.Referrers() {
				fa, isFA := ref.(*ssa.FieldAddr)
				if !isFA {
					continue
				}
				T := NamedOf(cst.Field(fa.Field).Type())
				if T == nil {
					continue
				}
				tst, isSt := T.Underlying().(*types.Struct)
				if !isSt || c.P.MethodOf(T, "setDefaults") == nil {
					continue
				}
				// field by field: a literal written in place; a whole-value store comes from elsewhere (judged by DEFAULTS-APPLIED)
				stored := map[int]bool{}
				whole := false
				for _, r2 := range *fa.Referrers() {
					switch x := r2.(type) {
					case *ssa.FieldAddr:
						stored[x.Field] = true
					case *ssa.Store:
						if x.Addr == ssa.Value(fa) {
							whole = true
						}
					}
				}
				if whole || len(stored) == 0 {
					continue
				}
				for i := 0; i < tst.NumFields(); i++ {
					f := tst.Field(i)
					switch f.Type().Underlying().(type) {
					case *types.Interface, *types.Signature:
						if !stored[i] {
							if unset[C] == nil {
								unset[C] = map[*types.Var]*ssa.Function{}
							}
							unset[C][f] = fn
						}
					}
				}
			}
		})
	}
	n := 0
	for C, fields := range unset {
		for i := 0; i < C.NumMethods(); i++ {
			m := c.P.SSA.FuncValue(C.Method(i).Origin())
			if m == nil {
				continue
			}
			for _, f := range WithAnon(m) {
				for _, cl := range CallsIn(f) {
					var v ssa.Value
					if cl.Common().IsInvoke() {
						v = cl.Common().Value
					} else if CalleeFn(cl.Common()) == nil {
						v = cl.Common().Value
					}
					if v == nil {
						continue
					}
					for fld, ctor := range fields {
						if !AllOrigins(v, func(o ssa.Value) bool { return LoadedField(o) == fld }) {
							continue
						}
						n++
						_, set := NilEdges(f, func(x ssa.Value) bool { return AllOrigins(x, func(o ssa.Value) bool { return LoadedField(o) == fld }) })
						c.Report(len(set) > 0 && GuardedBy(f, cl, set), id, "UNSET-CONFIG-FIELD-NOT-CALLED", f, cl.Pos(), "call through config."+fld.Name(), "config."+fld.Name()+" is nil in a "+C.Obj().Name()+" built by "+ctor.Name()+" (its literal never goes through setDefaults): it is called only behind a test that it is set")
					}
				}
			}
		}
	}
	c.Report(true, id, "UNSET-CONFIG-FIELDS-SCANNED", nil, token.NoPos, "package cqrs", fmt.Sprintf("%d component types with a constructor that leaves interface/function fields of the configuration unset; %d calls through such fields", len(unset), n))
}
