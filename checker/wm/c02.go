package wm

import (
	"fmt"
	"go/token"
	"go/types"
	"strings"

	"golang.org/x/tools/go/ssa"
)

func init() {
	register(&PropDef{
		ID:  "C02",
		Run: runC02,
		Explanation: "Decides, on every CFG path of the router's dispatch function and its publish helper, the structural necessary conditions of 'Ack iff handled and outputs published': " +
			"every Ack of the consumed message is edge-dominated by (chain error == nil) and by (publish error == nil) in the same goroutine; every Publish is edge-dominated by (chain error == nil); " +
			"every return path settles the message and no Ack follows a Nack; the recover closure is deferred before the chain and publish calls and Nacks on every path of the panicked edge; " +
			"the publish helper returns nil only when nothing was to publish or Publish returned nil; the no-publisher handler's publisher never returns nil; the run loop starts exactly one dispatch per received message. " +
			"What the dispatch function writes per message is its own (no map or field of the shared handler record): any number of messages may be in flight on one handler. The router life-cycle obligations (C10) are decided here too, because a dispatch that cannot start — the in-flight counter's mutex held across somebody's wait — settles nothing. " +
			"Not decided: behaviour of user handlers/middlewares, scheduling.",
		Assumptions: commonAssumptions,
	})
}

func runC02(c *Check) {
	r := c.routerRoles("C02")
	if r == nil {
		return
	}
	c02Core(c, "C02", r)
	c02Dispatch(c, "C02", r)
	// "a settlement the handler made itself is never overridden" rests on Message's first-wins state machine
	if m := c.messageFields("C02.O8"); m != nil {
		c03Guarded(c, "C02.O8", m)
		c03Typestate(c, "C02", m, c03ClosedGlobal(m))
	}
	// the router's own subscriber decorator stands between the subscriber and the run loop: what it takes from the
	// subscription it hands over (decided as C07.O7; a message it drops is neither handled nor settled)
	c07Decorator(c, "C02")
	// every message taken is settled: the dispatch registers each invocation in the router-wide in-flight counter under its
	// mutex, so nothing but Close's wait helper may hold that mutex across a wait (a dispatch that cannot start settles nothing)
	if r2 := c.routerRoles2("C02.M10"); r2 != nil {
		c10Lifecycle(c, "C02.M10", r2)
	}
}

// c02Core holds O1..O6; shared with C01.
func c02Core(c *Check, P string, r *RouterRoles) {
	D := r.Dispatch
	isMsg := FromParam(r.MsgParam)

	if !c.Floor(P+".O1", "call of the handler chain on the consumed message", len(r.ChainCalls), 1) {
		return
	}
	if !c.Floor(P+".O2", "call through which Publisher.Publish is reached", len(r.PubCalls), 1) {
		return
	}
	if r.ChainHelper == nil {
		for _, cl := range r.ChainCalls {
			ok := len(cl.Common().Args) == 1 && isMsg(cl.Common().Args[0])
			c.Report(ok, P+".O7", "CHAIN-ARG", D, cl.Pos(), "chain call", "the handler chain is invoked on the consumed message")
		}
	} else {
		c02ChainHelper(c, P, r)
	}
	chainErr := ResultOfAny(r.ChainCalls, 1)
	chainOK, _ := NilEdges(D, chainErr)
	var pubErrCalls []ssa.CallInstruction
	for _, pc := range r.PubCalls {
		if _, isGo := pc.(*ssa.Go); isGo {
			c.Report(false, P+".O1", "PUBLISH-SAME-GOROUTINE", D, pc.Pos(), "publish call", "the publish is started in another goroutine: the Ack cannot wait for its result")
			continue
		}
		if _, isDefer := pc.(*ssa.Defer); isDefer {
			c.Report(false, P+".O1", "PUBLISH-SAME-GOROUTINE", D, pc.Pos(), "publish call", "the publish is deferred: it runs after the settlement")
			continue
		}
		pubErrCalls = append(pubErrCalls, pc)
	}
	pubErr := func(v ssa.Value) bool {
		for _, pc := range pubErrCalls {
			n := pc.Common().Signature().Results().Len()
			if n > 0 && IsResultOf(v, pc, n-1) {
				return true
			}
		}
		return false
	}
	pubOK, _ := NilEdges(D, pubErr)
	// "every message it returned was accepted" is vacuous when the chain returned none
	noOutputs, _ := LenZeroEdges(D, func(v ssa.Value) bool { return AllOrigins(v, ResultOfAny(r.ChainCalls, 0)) })
	pubOK = append(pubOK, noOutputs...)
	// one error variable merged from several outcomes (`var publishErr error; switch {…}`): its nil test is a
	// publish-success test when every value merged into it is the publish result, a provably non-nil error, or the
	// zero value on a path that took the no-outputs edge
	for _, t := range Tests(D) {
		if t.Y == nil || !IsNilConst(t.Y) || (t.Op != token.EQL && t.Op != token.NEQ) {
			continue
		}
		if mergedNilGuard(D, t.X, pubErr, noOutputs) {
			if t.Op == token.EQL {
				pubOK = append(pubOK, t.True)
			} else {
				pubOK = append(pubOK, t.False)
			}
		}
	}
	c.Floor(P+".O1", "test `chain error == nil`", len(chainOK), 1)
	c.Floor(P+".O1", "test `publish error == nil`", len(pubOK), 1)

	// O1 ACK-GUARD
	acks := SettleSites(D, nAck, isMsg, 2)
	nacks := SettleSites(D, nNack, isMsg, 2)
	c.Floor(P+".O1", "Ack of the consumed message in the dispatch function", len(acks), 1)
	c.Floor(P+".O3", "Nack of the consumed message in the dispatch function", len(nacks), 2)
	for i, a := range acks {
		k := fmt.Sprintf("ack#%d", i)
		if _, isDefer := a.(*ssa.Defer); isDefer {
			c.Report(false, P+".O1", "ACK-GUARD", D, a.Pos(), k, "the Ack is deferred: it is registered before the outcome is known")
			continue
		}
		g1 := GuardedBy(D, a, chainOK)
		g2 := GuardedBy(D, a, pubOK)
		c.Report(g1, P+".O1", "ACK-GUARD/chain", D, a.Pos(), k, "Ack is reachable only through an edge on which the chain's error is nil", "edges: "+edgesStr(chainOK))
		c.Report(g2, P+".O1", "ACK-GUARD/publish", D, a.Pos(), k, "Ack is reachable only through an edge on which the publish error is nil (never before Publish returned successfully)", "edges: "+edgesStr(pubOK))
	}
	// O2 PUBLISH-GUARD
	for i, pc := range r.PubCalls {
		c.Report(GuardedBy(D, pc, chainOK), P+".O2", "PUBLISH-GUARD", D, pc.Pos(), fmt.Sprintf("publish#%d", i),
			"outputs are published only on an edge on which the chain's error is nil (messages returned with an error are not published)")
	}
	// O3 SETTLE-TOTAL
	settle := append(instrsOf(acks), instrsOf(nacks)...)
	cut := NewCut().AddInstrs(settle...)
	reached := ReachEntry(D, cut)
	for i, ret := range Returns(D) {
		c.Report(!reached[ret], P+".O3", "SETTLE-TOTAL", D, ret.Pos(), fmt.Sprintf("return#%d", i),
			"every non-panicking path to this return settles the consumed message (Ack or Nack)")
	}
	for i, n := range nacks {
		after := ReachAfter(n, nil)
		bad := false
		for _, a := range acks {
			if after[a] {
				bad = true
			}
		}
		c.Report(!bad, P+".O3", "NO-ACK-AFTER-NACK", D, n.Pos(), fmt.Sprintf("nack#%d", i), "no Ack is reachable after this Nack")
	}
	// a message whose chain succeeded and whose outputs were accepted is Acked: Nack needs a failure
	_, chainFail := NilEdges(D, chainErr)
	_, pubFailE := NilEdges(D, pubErr)
	failEdges := append(append([]Edge{}, chainFail...), pubFailE...)
	for _, t := range Tests(D) {
		if t.Y == nil || !IsNilConst(t.Y) || (t.Op != token.EQL && t.Op != token.NEQ) {
			continue
		}
		if mergedNilGuard(D, t.X, pubErr, noOutputs) {
			if t.Op == token.EQL {
				failEdges = append(failEdges, t.False)
			} else {
				failEdges = append(failEdges, t.True)
			}
		}
	}
	// "outputs, but no publisher" decided inline is a failure as well
	noPub, _ := NilEdges(D, func(x ssa.Value) bool {
		return AllOrigins(x, func(o ssa.Value) bool {
			f := LoadedField(o)
			return f != nil && f.Type().String() == msgPkg+".Publisher"
		})
	})
	failEdges = append(failEdges, noPub...)
	for i, n := range nacks {
		if n.Parent() != D {
			continue // Nack inside a helper: the helper call is what is guarded
		}
		c.Report(GuardedBy(D, n, failEdges), P+".O3", "NACK-ONLY-ON-FAILURE", D, n.Pos(), fmt.Sprintf("nack#%d", i), "outside the recover closure a Nack happens only on the edge of a chain error or of a publish error (no other condition — message context, shutdown — turns a handled message into a Nack and drops its outputs)")
	}
	for i, a := range acks {
		after := ReachAfter(a, nil)
		bad := false
		for _, n := range nacks {
			if after[n] {
				bad = true
			}
		}
		for _, cc := range r.ChainCalls {
			if after[cc] {
				bad = true
			}
		}
		c.Report(!bad, P+".O3", "ACK-IS-LAST", D, a.Pos(), fmt.Sprintf("ack#%d", i), "after the Ack neither a Nack nor another chain invocation is reachable (settled exactly once)")
	}

	// O4 PANIC-NACK
	var recoverDefers []*ssa.Defer
	AllInstrs(D, func(in ssa.Instruction) {
		d, ok := in.(*ssa.Defer)
		if !ok {
			return
		}
		cl := FuncOfValue(d.Call.Value)
		if cl == nil {
			return
		}
		if len(BuiltinCalls(cl, "recover")) > 0 {
			recoverDefers = append(recoverDefers, d)
		}
	})
	if c.Floor(P+".O4", "deferred closure calling recover() in the dispatch function", len(recoverDefers), 1) {
		for _, d := range recoverDefers {
			cl := FuncOfValue(d.Call.Value)
			c.Use(P+".O4", cl, "recover closure")
			// (i) registered before chain and publish calls
			cutD := NewCut().AddInstrs(d)
			re := ReachEntry(D, cutD)
			okDom := true
			for _, x := range append(append([]ssa.CallInstruction{}, r.ChainCalls...), r.PubCalls...) {
				if re[x] {
					okDom = false
				}
			}
			c.Report(okDom, P+".O4", "RECOVER-DEFERRED-FIRST", D, d.Pos(), "defer recover-closure",
				"the recover closure is deferred on every path before the chain call and before the publish call (a panic of either is caught)")
			// (iii) must-Nack on the panicked edge
			recs := BuiltinCalls(cl, "recover")
			isRec := func(v ssa.Value) bool {
				for _, rc := range recs {
					if v == CallValue(rc) {
						return true
					}
				}
				return false
			}
			_, panicked := NilEdges(cl, func(v ssa.Value) bool { return AllOrigins(v, isRec) })
			clMsg := func(v ssa.Value) bool {
				return AllOrigins(v, func(o ssa.Value) bool {
					if o == ssa.Value(r.MsgParam) {
						return true
					}
					// `defer h.method(msg, …)`: a parameter of the deferred function bound to the consumed message
					if p, ok := o.(*ssa.Parameter); ok && p.Parent() == cl {
						for i, q := range cl.Params {
							if q == p && i < len(d.Call.Args) && isMsg(d.Call.Args[i]) {
								return true
							}
						}
					}
					return false
				})
			}
			cn := SettleSites(cl, nNack, clMsg, 1)
			ca := SettleSites(cl, nAck, clMsg, 1)
			if len(panicked) == 0 {
				c.Undecided(P+".O4", "PANIC-NACK", cl, cl.Pos(), "recover closure", "cannot find the test `recover() != nil`; cannot establish that a panic leads to Nack")
			} else {
				cutN := NewCut().AddInstrs(instrsOf(cn)...)
				ok := true
				var wit []string
				for _, e := range panicked {
					rs := ReachEdge(e, cutN)
					for _, ret := range Returns(cl) {
						if rs[ret] {
							ok = false
							wit = append(wit, fmt.Sprintf("path from %s to return at %s without Nack", e, c.P.Pos(ret.Pos())))
						}
					}
				}
				c.Report(ok && len(cn) > 0, P+".O4", "PANIC-NACK", cl, cl.Pos(), "recover closure",
					"every path from the `recovered != nil` edge to the closure's exit Nacks the consumed message (unconditionally, whatever the panic value)", wit...)
			}
			c.Report(len(ca) == 0, P+".O4", "PANIC-NO-ACK", cl, cl.Pos(), "recover closure", "the recover closure never Acks")
			// nothing between the panicked edge and the Nack can itself panic on some panic value (the closure runs
			// during panicking: a second panic escapes it and the message is never settled)
			if len(panicked) > 0 && len(cn) > 0 {
				cutN := NewCut().AddInstrs(instrsOf(cn)...)
				seenTrap := map[ssa.Instruction]bool{}
				for _, e := range panicked {
					for in := range ReachEdge(e, cutN) {
						if what := trapOf(in); what != "" && !seenTrap[in] {
							seenTrap[in] = true
							c.Report(false, P+".O4", "PANIC-NACK-NO-TRAP", cl, in.Pos(), "recover closure: "+what,
								"between recover() and the Nack there is no operation that panics for some recovered value ("+what+")")
						}
					}
				}
				if len(seenTrap) == 0 {
					c.Report(true, P+".O4", "PANIC-NACK-NO-TRAP", cl, cl.Pos(), "recover closure", "between recover() and the Nack there is no unchecked type assertion, explicit panic, variable index/slice or division")
				}
			}
		}
	}

	c02HelperResult(c, P+".O5", r, pubErrCalls)
	c02PanicSafeLocks(c, P+".O4", r)
	c02RecoverKeepsFailure(c, P+".O4", r)

	// O6 NO-PUBLISHER
	if np := c.P.Method("message", "Router", "AddNoPublisherHandler"); c.Use(P+".O6", np, "Router.AddNoPublisherHandler") {
		adds := CallsTo(np, "(*"+msgPkg+".Router).AddHandler")
		if c.Floor(P+".O6", "AddHandler call in AddNoPublisherHandler", len(adds), 1) {
			for _, ad := range adds {
				pubArg := Arg(ad, 4)
				mi, ok := pubArg.(*ssa.MakeInterface)
				if !ok {
					c.Undecided(P+".O6", "NO-PUBLISHER", np, ad.Pos(), "publisher argument", "cannot determine the dynamic type of the publisher passed by AddNoPublisherHandler")
					continue
				}
				nt := NamedOf(mi.X.Type())
				var pm *ssa.Function
				if nt != nil {
					pm = c.P.MethodOf(nt, "Publish")
				}
				if !c.Use(P+".O6", pm, "Publish method of the no-publisher handler's publisher") {
					continue
				}
				okAll := true
				for _, vs := range ReturnValues(pm, 0) {
					for _, v := range vs {
						if IsNilConst(v) {
							okAll = false
						}
					}
				}
				c.Report(okAll && len(Returns(pm)) > 0, P+".O6", "NO-PUBLISHER-REJECTS", pm, pm.Pos(), "disabled publisher",
					"the publisher of a no-publisher handler returns a non-nil error on every path (outputs ⇒ Nack, nothing published)")
			}
		}
	}
}

// c02Dispatch is O7: exactly one dispatch goroutine per received message.
func c02Dispatch(c *Check, P string, r *RouterRoles) {
	L, g := r.RunLoop, r.GoDispatch
	// message argument = value received from a channel in this iteration
	var msgArg ssa.Value
	for i, prm := range r.Dispatch.Params {
		if prm == r.MsgParam && i < len(g.Call.Args) {
			msgArg = g.Call.Args[i]
		}
	}
	// a receive site: `v, ok := <-ch` / `range ch` (UnOp with comma-ok) or a receive case of a select
	type recvSite struct {
		ins ssa.Instruction
		ok  func(ssa.Value) bool // is v the `ok` result of this receive
	}
	var recvs []recvSite
	ok := msgArg != nil && AllOrigins(msgArg, func(v ssa.Value) bool {
		e, isE := v.(*ssa.Extract)
		if !isE {
			return false
		}
		switch t := e.Tuple.(type) {
		case *ssa.UnOp:
			if e.Index == 0 && t.Op.String() == "<-" && t.X.Type().Underlying().String() == tMsgChanRecv {
				recvs = append(recvs, recvSite{t, func(x ssa.Value) bool {
					e2, ok := x.(*ssa.Extract)
					return ok && e2.Tuple == ssa.Value(t) && e2.Index == 1
				}})
				return true
			}
		case *ssa.Select:
			k := 0
			for _, st := range t.States {
				if st.Dir != types.RecvOnly {
					continue
				}
				if e.Index == 2+k && st.Chan.Type().Underlying().String() == tMsgChanRecv {
					recvs = append(recvs, recvSite{t, func(x ssa.Value) bool {
						e2, ok := x.(*ssa.Extract)
						return ok && e2.Tuple == ssa.Value(t) && e2.Index == 1
					}})
					return true
				}
				k++
			}
		}
		return false
	})
	c.Report(ok, P+".O7", "DISPATCH-ARG", L, g.Pos(), "go dispatch", "the dispatched message is the value received from the handler's message channel")
	if !ok {
		return
	}
	for _, rs := range recvs {
		rcv := rs.ins
		// from the receive, the next receive (or loop exit with ok) is reached only through the go statement, and the go statement is executed once per receive
		okOnce := !ReachWithout(g, g, rcv)
		c.Report(okOnce, P+".O7", "DISPATCH-ONCE", L, g.Pos(), "go dispatch", "between two receives the dispatch is started at most once (no duplicate handling)")
		// every path from the `ok` edge of the receive to the next receive passes the go
		var okEdges, closedEdges []Edge
		for _, t := range Tests(L) {
			if t.Op == token.ILLEGAL && rs.ok(t.X) {
				okEdges = append(okEdges, t.True)
				closedEdges = append(closedEdges, t.False)
			}
		}
		if len(okEdges) == 0 {
			c.Undecided(P+".O7", "DISPATCH-ALL", L, rcv.Pos(), "receive", "cannot find the `ok` test of the receive")
			continue
		}
		all := true
		for _, e := range okEdges {
			if ReachEdge(e, NewCut().AddInstrs(g))[rcv] {
				all = false
			}
			for _, ret := range Returns(L) {
				if ReachEdge(e, NewCut().AddInstrs(g, rcv))[ret] {
					all = false
				}
			}
		}
		c.Report(all, P+".O7", "DISPATCH-ALL", L, g.Pos(), "go dispatch", "every received message is dispatched before the next receive or the loop's exit (none is dropped)")
		// the loop is left only when the channel was closed
		okEnd := len(closedEdges) > 0
		for _, ret := range Returns(L) {
			if !GuardedBy(L, ret, closedEdges) {
				okEnd = false
			}
		}
		c.Report(okEnd, P+".O7", "LOOP-ENDS-ONLY-ON-CHANNEL-CLOSE", L, rcv.Pos(), "message loop", "the run loop (and with it the handler's accounting in Close) ends only when the subscriber closed the message channel — not on context cancellation, which would let Close return while the subscriber is still closing or delivering")
	}
}

func edgesStr(es []Edge) string {
	s := ""
	for i, e := range es {
		if i > 0 {
			s += ","
		}
		s += e.String()
	}
	if s == "" {
		return "<none>"
	}
	return s
}

// nilOnlyOnEdges: the nil constant v reaches ret only via phi edges whose
// predecessor block is reachable only through okEdges.
func nilOnlyOnEdges(ret *ssa.Return, v ssa.Value, okEdges []Edge) bool {
	res := ret.Results[len(ret.Results)-1]
	phi, ok := res.(*ssa.Phi)
	if !ok {
		return false
	}
	fn := ret.Parent()
	cut := NewCut().AddEdges(okEdges...)
	re := ReachEntry(fn, cut)
	for i, e := range phi.Edges {
		if e != v {
			continue
		}
		pred := phi.Block().Preds[i]
		if len(pred.Instrs) > 0 && re[pred.Instrs[len(pred.Instrs)-1]] {
			return false
		}
	}
	return true
}

// wrapsOneOf: v is the result of a call that takes a value satisfying pred
// (error wrapping such as errors.Wrap(err, …), fmt.Errorf("…%w", err)).
func wrapsOneOf(v ssa.Value, pred func(ssa.Value) bool) bool {
	call, ok := v.(*ssa.Call)
	if !ok {
		if e, isE := v.(*ssa.Extract); isE {
			call, ok = e.Tuple.(*ssa.Call)
		}
		if mi, isMI := v.(*ssa.MakeInterface); isMI {
			return wrapsOneOf(mi.X, pred)
		}
		if !ok {
			return false
		}
	}
	for _, a := range call.Call.Args {
		for _, o := range Origins(a) {
			if pred(o) {
				return true
			}
			if mi, isMI := o.(*ssa.MakeInterface); isMI && AnyOrigin(mi.X, pred) {
				return true
			}
			// variadic: slice of interface values
			if sl, isSl := o.(*ssa.Slice); isSl {
				if al, isAl := sl.X.(*ssa.Alloc); isAl {
					for _, ref := range *al.Referrers() {
						if ia, isIA := ref.(*ssa.IndexAddr); isIA {
							for _, r2 := range *ia.Referrers() {
								if st, isSt := r2.(*ssa.Store); isSt {
									if mi, isMI := st.Val.(*ssa.MakeInterface); isMI && AnyOrigin(mi.X, pred) {
										return true
									}
								}
							}
						}
					}
				}
			}
		}
	}
	return false
}

// c02HelperResult: the publish helper between the dispatch function and
// Publisher.Publish returns nil only when nothing was to publish or Publish
// returned nil (shared with C08.O4).
func c02HelperResult(c *Check, id string, r *RouterRoles, pubErrCalls []ssa.CallInstruction) {
	D := r.Dispatch
	_ = D
	for _, pc := range pubErrCalls {
		H := CalleeFn(pc.Common())
		if H == nil || IsCallTo(pc, nPublish) {
			continue // Publish invoked directly in D: its result is the tested value
		}
		c.Use(id, H, "publish helper")
		pubs := CallsLeadingTo(H, 2, nPublish)
		hp := ResultOfAny(pubs, 0)
		hOK, _ := NilEdges(H, hp)
		var outParams []*ssa.Parameter
		for _, prm := range H.Params {
			if ts := prm.Type().Underlying().String(); ts == "[]"+tMessagePtr {
				outParams = append(outParams, prm)
			}
		}
		isOut := func(v ssa.Value) bool {
			for _, prm := range outParams {
				if FromParam(prm)(v) {
					return true
				}
			}
			return false
		}
		empty, nonEmpty := LenZeroEdges(H, isOut)
		okEdges := append(append([]Edge{}, hOK...), empty...)
		for i, ret := range Returns(H) {
			k := fmt.Sprintf("return#%d", i)
			vals := RetOrigins(ret, len(ret.Results)-1)
			for _, v := range vals {
				if IsNilConst(v) {
					// a nil that flows in via phi: require the guard at the return
					c.Report(GuardedBy(H, ret, okEdges) || nilOnlyOnEdges(ret, v, okEdges), id, "HELPER-NIL-ONLY-IF-PUBLISHED", H, ret.Pos(), k,
						"nil is returned only when there was nothing to publish or Publish returned nil (a publish error is never swallowed)")
				} else {
					ok := hp(v) || IsGlobalLoad(v, msgPkg, "ErrOutputInNoPublisherHandler") || wrapsOneOf(v, hp)
					c.Report(ok, id, "HELPER-ERROR-KEPT", H, ret.Pos(), k, "a non-nil result is the Publish error (possibly wrapped) or ErrOutputInNoPublisherHandler")
					if IsGlobalLoad(v, msgPkg, "ErrOutputInNoPublisherHandler") {
						pubNil, _ := NilEdges(H, func(x ssa.Value) bool { return AllOrigins(x, exportedOrPrivateField("publisher", H)) })
						c.Report(len(pubNil) > 0 && (GuardedBy(H, ret, pubNil) || nilOnlyOnEdges(ret, v, pubNil)), id, "NO-PUBLISHER-ERROR-ONLY-WITHOUT-PUBLISHER", H, ret.Pos(), k,
							"the 'outputs in a no-publisher handler' error is raised only on the edge where the handler has no publisher (not for an empty publish topic or any other configuration)")
						c.Report(len(nonEmpty) > 0 && (GuardedBy(H, ret, nonEmpty) || nilOnlyOnEdges(ret, v, nonEmpty)), id, "NO-PUBLISHER-ERROR-ONLY-WITH-OUTPUTS", H, ret.Pos(), k,
							"the 'outputs in a no-publisher handler' error is raised only when the handler returned messages (a handler that returns none succeeds, publisher or not)")
					}
				}
			}
		}
		// Publish arguments: receiver/topic/messages are C08's; here: not in a goroutine
		for _, pb := range pubs {
			_, isGo := pb.(*ssa.Go)
			c.Report(!isGo, id, "PUBLISH-SYNCHRONOUS", H, pb.Pos(), "Publish invoke", "Publish is called synchronously (its result is the helper's result)")
		}
		// every output is offered to the publisher: Publish gets the chain's outputs as they are, once
		direct := CallsTo(H, nPublish)
		c.Floor(id, "Publisher.Publish call in the publish helper", len(direct), 1)
		for i, pb := range direct {
			okAll := len(pb.Common().Args) >= 2 && isOut(pb.Common().Args[len(pb.Common().Args)-1]) && !InLoop(pb) && len(direct) == 1
			c.Report(okAll, id, "PUBLISH-ALL-OUTPUTS", H, pb.Pos(), fmt.Sprintf("Publish#%d", i), "the slice the chain returned is handed to Publish unchanged, in one call (no output is filtered out, de-duplicated or left in an unpublished rest while the input is Acked)")
		}
		// … and the messages in it too: the router assigns no UUID, payload or metadata of a message (it only attaches the
		// handler context to the outputs)
		nw := 0
		for _, f := range []*ssa.Function{H, r.Dispatch} {
			if f == nil {
				continue
			}
			AllInstrs(f, func(in ssa.Instruction) {
				bad := ""
				switch x := in.(type) {
				case *ssa.Store:
					if fld, base := FieldOf(x.Addr); fld != nil && base != nil && fld.Exported() && NamedOf(base.Type()) != nil && NamedOf(base.Type()).Obj().Name() == "Message" && NamedOf(base.Type()).Obj().Pkg().Path() == msgPkg {
						bad = "store to Message." + fld.Name()
					}
					// … nor replaces an element of a message slice (an output swapped for another object loses what the
					// handler and the router put on it)
					if ia, isIA := x.Addr.(*ssa.IndexAddr); isIA {
						if sl, isSl := ia.X.Type().Underlying().(*types.Slice); isSl && sl.Elem().String() == tMessagePtr {
							bad = "element of a message slice replaced"
						}
					}
				case *ssa.MapUpdate:
					if x.Map.Type().String() == msgPkg+".Metadata" {
						bad = "metadata map update"
					}
				case ssa.CallInstruction:
					if CalleeName(x) == nMetaSet {
						bad = "Metadata.Set"
					}
				}
				if bad != "" {
					nw++
					c.Report(false, id, "ROUTER-LEAVES-MESSAGES-AS-THEY-ARE", f, in.Pos(), bad, "the dispatch function and the publish helper edit no message (consumed or produced): outputs reach the publisher unmodified")
				}
			})
		}
		// … and sets no context itself: the handler context is attached by the one decorator function (a context put
		// back afterwards takes the handler values away from a publisher that keeps the message)
		for _, f := range append(WithAnon(r.Dispatch), H) {
			for _, cl := range CallsTo(f, nSetContext) {
				nw++
				c.Report(false, id, "ROUTER-LEAVES-MESSAGES-AS-THEY-ARE", f, cl.Pos(), "SetContext in the dispatch function", "the dispatch function and the publish helper set no message context themselves (the handler context is attached by the decorator function, once, and stays)")
			}
		}
		c.Report(true, id, "MESSAGE-EDITS-SCANNED", H, H.Pos(), "dispatch function and publish helper", fmt.Sprintf("%d assignments to message fields / metadata / contexts", nw))
		// several messages may be in flight on one handler: what the dispatch function writes per message is its own
		// (a map or a field of the handler record written per message is shared by all of them)
		isShared := func(v ssa.Value) bool {
			return AnyOrigin(v, func(o ssa.Value) bool {
				u, ok := o.(*ssa.UnOp)
				if !ok || u.Op != token.MUL {
					return false
				}
				if _, isG := u.X.(*ssa.Global); isG {
					return true
				}
				fld, base := FieldOf(u.X)
				return fld != nil && base != nil && !isLocalAlloc(base)
			})
		}
		ns := 0
		seenF := map[*ssa.Function]bool{}
		for _, f := range append(WithAnon(r.Dispatch), WithAnon(H)...) {
			if f == nil || seenF[f] {
				continue
			}
			seenF[f] = true
			AllInstrs(f, func(in ssa.Instruction) {
				bad := ""
				switch x := in.(type) {
				case *ssa.MapUpdate:
					if isShared(x.Map) {
						bad = "update of a map kept in the handler / router record"
					}
				case *ssa.Store:
					if fld, base := FieldOf(x.Addr); fld != nil && base != nil && !isLocalAlloc(base) {
						if n := NamedOf(base.Type()); n != nil && n.Obj().Pkg() != nil && n.Obj().Pkg().Path() == msgPkg && (n.Obj().Name() == "handler" || n.Obj().Name() == "Router") {
							bad = "store to " + n.Obj().Name() + "." + fld.Name()
						}
					}
				case ssa.CallInstruction:
					for _, b := range []string{"delete", "clear"} {
						if args, ok := IsBuiltinCall(valueOfCall(x), b); ok && len(args) > 0 && isShared(args[0]) {
							bad = b + " on a map kept in the handler / router record"
						}
					}
				}
				if bad != "" {
					ns++
					c.Report(false, id, "PER-MESSAGE-STATE-NOT-SHARED", f, in.Pos(), bad, "the dispatch function writes only to state of its own call: any number of messages may be in flight on one handler, and a map or field of the shared handler record written per message is written by all of them at once")
				}
			})
		}
		c.Report(true, id, "PER-MESSAGE-WRITES-SCANNED", r.Dispatch, r.Dispatch.Pos(), "dispatch function and publish helper", fmt.Sprintf("%d writes to shared handler state", ns))
	}

}

// c02ChainHelper: the chain is invoked through a helper H(chain, msg); H must
// hand back exactly the chain's results, and if it recovers panics it must
// report them as a non-nil error (or re-panic) — otherwise a panicking handler
// would look like a success to the dispatch function.
func c02ChainHelper(c *Check, P string, r *RouterRoles) {
	H := r.ChainHelper
	c.Use(P+".O7", H, "chain-invocation helper")
	for _, ic := range r.ChainInner {
		ok := len(ic.Common().Args) == 1 && AllOrigins(ic.Common().Args[0], IsParam(r.HelperMsg))
		c.Report(ok && !InLoop(ic) && len(r.ChainInner) == 1, P+".O7", "CHAIN-ARG", ic.Parent(), ic.Pos(), "chain call in helper", "the helper invokes the chain exactly once, on the consumed message")
	}
	errCell := ResultCell(H, 1)
	for i, ret := range Returns(H) {
		k := fmt.Sprintf("helper return#%d", i)
		for _, v := range RetOrigins(ret, 1) {
			ok := ResultOfAny(r.ChainInner, 1)(v) || (!IsNilConst(v) && errCell != nil)
			if IsNilConst(v) {
				okE, _ := NilEdges(H, ResultOfAny(r.ChainInner, 1))
				ok = GuardedBy(H, ret, okE)
			}
			c.Report(ok, P+".O7", "CHAIN-HELPER-TRANSPARENT", H, ret.Pos(), k, "the helper returns the chain's error (nil only if the chain returned nil)")
		}
		for _, v := range RetOrigins(ret, 0) {
			c.Report(ResultOfAny(r.ChainInner, 0)(v) || IsNilConst(v), P+".O7", "CHAIN-HELPER-OUTPUTS", H, ret.Pos(), k, "the helper returns the chain's outputs")
		}
	}
	// recovered panics
	for _, f := range WithAnon(H) {
		recs := BuiltinCalls(f, "recover")
		if len(recs) == 0 {
			continue
		}
		isRec := func(v ssa.Value) bool { return v == CallValue(recs[0]) }
		_, panicked := NilEdges(f, func(v ssa.Value) bool { return AllOrigins(v, isRec) })
		ok := errCell != nil && len(panicked) > 0
		if ok {
			// on the panicked edge every path stores a provably non-nil error into the helper's error result, or panics again
			var stores []ssa.Instruction
			for _, st := range StoresToCellIn(f, errCell) {
				if ProvablyNonNil(firstOrigin(st.Val), func(ssa.Value) bool { return false }) {
					stores = append(stores, st)
				}
			}
			for _, p := range Panics(f) {
				stores = append(stores, p)
			}
			for _, e := range panicked {
				re := ReachEdge(e, NewCut().AddInstrs(stores...))
				for _, ret := range Returns(f) {
					if re[ret] {
						ok = false
					}
				}
			}
		}
		c.Report(ok, P+".O7", "CHAIN-HELPER-PANIC-IS-ERROR", f, recs[0].Pos(), "recover in the chain helper",
			"a panic recovered inside the chain helper is turned into a non-nil error result (or re-raised): it must not look like a successful handler")
	}
}

// c02PanicSafeLocks: a lock held while user code runs (the handler chain, the
// publisher) must be released by a defer — the recover closure Nacks the message
// but cannot release a lock that a plain Unlock after the call would have released.
func c02PanicSafeLocks(c *Check, id string, r *RouterRoles) {
	la := NewLockAn(c.P, "message")
	var sites []ssa.CallInstruction
	sites = append(sites, r.ChainCalls...)
	sites = append(sites, r.ChainInner...)
	seen := map[*ssa.Function]bool{}
	var walk func(fn *ssa.Function, d int)
	walk = func(fn *ssa.Function, d int) {
		if fn == nil || seen[fn] || d < 0 {
			return
		}
		seen[fn] = true
		for _, cl := range CallsIn(fn) {
			if IsCallTo(cl, nPublish) {
				sites = append(sites, cl)
			}
			if cal := CalleeFn(cl.Common()); cal != nil && cal.Pkg == fn.Pkg && len(cal.Blocks) > 0 {
				walk(cal, d-1)
			}
		}
	}
	walk(r.Dispatch, 3)
	n := 0
	for _, s := range sites {
		fn := s.Parent()
		res := la.Result(fn)
		var bad []string
		for lid := range la.Held(s) {
			if _, atEntry := res.Entry[lid]; atEntry {
				continue
			}
			if len(res.DeferredUnlock[lid]) == 0 {
				bad = append(bad, lid)
			}
		}
		n++
		c.Report(len(bad) == 0, id, "PANIC-SAFE-LOCKS", fn, s.Pos(), "user code called under a lock", "no lock taken by the router is held across a call of user code (handler chain, publisher) unless it is released by a defer: a panic of that code must not leave the lock held for the handler's later messages", "held without deferred unlock: "+strings.Join(bad, ","))
	}
	c.Floor(id, "calls of user code on the dispatch path (chain, Publish)", n, 2)
}

// trapOf names the run-time trap an instruction can raise whatever its callees do ("" if none is known).
func trapOf(in ssa.Instruction) string {
	switch x := in.(type) {
	case *ssa.TypeAssert:
		if !x.CommaOk {
			return "unchecked type assertion"
		}
	case *ssa.Panic:
		return "explicit panic"
	case *ssa.IndexAddr:
		if _, isC := x.Index.(*ssa.Const); !isC {
			return "variable index"
		}
		if _, isAlloc := x.X.(*ssa.Alloc); !isAlloc {
			if _, isSl := x.X.Type().Underlying().(*types.Slice); isSl {
				return "index into a slice"
			}
		}
	case *ssa.Index:
		if _, isC := x.Index.(*ssa.Const); !isC {
			return "variable index"
		}
	case *ssa.Slice:
		if x.Low != nil || x.High != nil {
			return "slice expression"
		}
	case *ssa.BinOp:
		if x.Op == token.QUO || x.Op == token.REM {
			if _, isC := x.Y.(*ssa.Const); !isC {
				if b, ok := x.Y.Type().Underlying().(*types.Basic); ok && b.Info()&types.IsInteger != 0 {
					return "integer division"
				}
			}
		}
	}
	return ""
}

// mergedNilGuard: v is a phi whose every incoming value is the tracked result,
// a provably non-nil value, or nil on an edge that is only reachable through
// one of the vacuous edges; at least one incoming value is the tracked result.
func mergedNilGuard(fn *ssa.Function, v ssa.Value, isRes func(ssa.Value) bool, vacuous []Edge) bool {
	hasRes := false
	seen := map[*ssa.Phi]bool{}
	var rec func(v ssa.Value) bool
	rec = func(v ssa.Value) bool {
		phi, ok := v.(*ssa.Phi)
		if !ok || seen[phi] {
			return false
		}
		seen[phi] = true
		for i, e := range phi.Edges {
			pred := phi.Block().Preds[i]
			switch {
			case isRes(e):
				hasRes = true
			case IsNilConst(e):
				direct := false
				for _, ve := range vacuous {
					if ve.From == pred && pred.Succs[ve.Idx] == phi.Block() {
						direct = true
					}
				}
				if !direct && (len(vacuous) == 0 || !GuardedBy(fn, pred.Instrs[len(pred.Instrs)-1], vacuous)) {
					return false
				}
			case ProvablyNonNil(e, func(ssa.Value) bool { return false }):
			default:
				if !rec(e) {
					return false
				}
			}
		}
		return true
	}
	return rec(v) && hasRes
}

// c02RecoverKeepsFailure: a function of the message package that reports
// failure through an error result (publisher decorators, Publish wrappers) and
// recovers panics in a deferred closure must turn the panic into a non-nil
// error *result*. With unnamed results the recovered call returns zero values:
// a panicking publisher would look like a successful Publish and the consumed
// message would be Acked.
func c02RecoverKeepsFailure(c *Check, id string, r *RouterRoles) {
	n := 0
	for _, fn := range c.P.SrcFuncs("message") {
		res := fn.Signature.Results()
		if fn.Parent() != nil || res.Len() == 0 || !IsErrorType(res.At(res.Len()-1).Type()) {
			continue
		}
		AllInstrs(fn, func(in ssa.Instruction) {
			d, ok := in.(*ssa.Defer)
			if !ok {
				return
			}
			cl := FuncOfValue(d.Call.Value)
			if cl == nil {
				cl = CalleeFn(&d.Call)
			}
			if cl == nil || len(BuiltinCalls(cl, "recover")) == 0 {
				return
			}
			n++
			cell := ResultCell(fn, res.Len()-1)
			okStore := false
			if name := res.At(res.Len() - 1).Name(); name == "" || name == "_" || (cell != nil && cell.Comment != name) {
				cell = nil // not a named result: what the deferred closure assigns is not what the caller gets
			}
			if cell != nil {
				for _, st := range StoresToCellIn(cl, cell) {
					if ProvablyNonNil(firstOrigin(st.Val), func(ssa.Value) bool { return false }) {
						okStore = true
					}
				}
			}
			c.Report(okStore, id, "RECOVER-KEEPS-FAILURE", fn, d.Pos(), "deferred recover in "+FnName(fn), "a recovered panic is reported through the named error result (with unnamed results the call would return nil: a panicking publisher would count as a successful Publish)")
		})
	}
	c.Note(id, "RECOVER-KEEPS-FAILURE/scan", r.Dispatch, r.Dispatch.Pos(), "package message", fmt.Sprintf("%d deferred recover closures in error-returning functions of package message examined", n))
}

// exportedOrPrivateField: a load of the field of H's receiver type that holds a message.Publisher.
func exportedOrPrivateField(_ string, H *ssa.Function) func(ssa.Value) bool {
	return func(v ssa.Value) bool {
		f := LoadedField(v)
		return f != nil && f.Type().String() == msgPkg+".Publisher"
	}
}

// isLocalAlloc: v is (on every origin) a cell allocated by the function that uses it.
func isLocalAlloc(v ssa.Value) bool {
	return AllOrigins(v, func(o ssa.Value) bool {
		_, ok := o.(*ssa.Alloc)
		return ok
	})
}
