package wm

import (
	"fmt"
	"go/token"
	"go/types"
	"sort"

	"golang.org/x/tools/go/ssa"
)

// Edge is one out-edge of a basic block: From.Succs[Idx].
type Edge struct {
	From *ssa.BasicBlock
	Idx  int
}

func (e Edge) String() string {
	if e.From == nil {
		return "<nil edge>"
	}
	return fmt.Sprintf("b%d->b%d", e.From.Index, e.From.Succs[e.Idx].Index)
}

// Cut describes what is removed from a function's CFG for a reachability query.
type Cut struct {
	Edges  map[Edge]bool
	Instrs map[ssa.Instruction]bool // paths may end at, but not continue through, these
}

func NewCut() *Cut { return &Cut{Edges: map[Edge]bool{}, Instrs: map[ssa.Instruction]bool{}} }

func (c *Cut) AddEdges(es ...Edge) *Cut {
	for _, e := range es {
		c.Edges[e] = true
	}
	return c
}

func (c *Cut) AddInstrs(is ...ssa.Instruction) *Cut {
	for _, i := range is {
		c.Instrs[i] = true
	}
	return c
}

// InstrSet is a set of instructions.
type InstrSet map[ssa.Instruction]bool

func firstInstr(b *ssa.BasicBlock) ssa.Instruction { return b.Instrs[0] }

func indexIn(b *ssa.BasicBlock, i ssa.Instruction) int {
	for k, x := range b.Instrs {
		if x == i {
			return k
		}
	}
	return -1
}

// reach computes the instructions reachable from the given start positions.
// A start (b,k) means execution is about to execute b.Instrs[k].
// An instruction in cut.Instrs is marked reached but not continued through.
//
// With TransparentOn the walk enters a transparent helper at its call and
// comes back behind the call at the helper's returns (exact: the helper has
// one call site). A constant bool/nil result of the return taken is remembered
// until the end of the caller's block, so that `if !helper() { return }`
// continues on the matching branch only.
func reach(starts []pos2, cut *Cut) InstrSet {
	seen := InstrSet{}
	type key struct {
		in   ssa.Instruction
		tag  *ssa.Return
		pred *ssa.BasicBlock
	}
	visited := map[key]bool{}
	type item struct {
		p    pos2
		tag  *ssa.Return
		pred *ssa.BasicBlock // the block we came from, kept only where the block's branch tests a phi of this block
	}
	var stack []item
	for _, s := range starts {
		stack = append(stack, item{s, nil, nil})
	}
	for len(stack) > 0 {
		it := stack[len(stack)-1]
		stack = stack[:len(stack)-1]
		b, k, tag, pred := it.p.b, it.p.k, it.tag, it.pred
		stop := false
		for ; k < len(b.Instrs); k++ {
			in := b.Instrs[k]
			if visited[key{in, tag, pred}] {
				stop = true
				break
			}
			visited[key{in, tag, pred}] = true
			seen[in] = true
			if cut != nil && cut.Instrs[in] {
				stop = true
				break
			}
			if cal := transparentCallee(in); cal != nil {
				stack = append(stack, item{pos2{cal.Blocks[0], 0}, nil, nil})
				stop = true
				break
			}
			if ret, isRet := in.(*ssa.Return); isRet {
				if call := transparentOf(ret.Parent()); call != nil {
					cb := call.Block()
					stack = append(stack, item{pos2{cb, indexIn(cb, call) + 1}, ret, nil})
				}
				stop = true
				break
			}
		}
		if stop {
			continue
		}
		// fell off the end of the block: follow successors
		only := -1
		if tag != nil {
			only = threadedSucc(b, tag)
		}
		if only < 0 && pred != nil {
			only = phiThreadedSucc(b, pred)
		}
		for idx, s := range b.Succs {
			if only >= 0 && idx != only {
				continue
			}
			if cut != nil && cut.Edges[Edge{b, idx}] {
				continue
			}
			if deadConstEdge(b, idx) {
				continue
			}
			if len(s.Instrs) > 0 {
				var np *ssa.BasicBlock
				if branchesOnOwnPhi(s) {
					np = b
				}
				stack = append(stack, item{pos2{s, 0}, nil, np})
			}
		}
	}
	return seen
}

// branchesOnOwnPhi: block b ends in an If whose condition is (the negation of)
// a bool phi defined in b — `flag := false; …; if flag {…}` after a merge.
func branchesOnOwnPhi(b *ssa.BasicBlock) bool {
	return ownPhiOfBranch(b) != nil
}

func ownPhiOfBranch(b *ssa.BasicBlock) *ssa.Phi {
	if len(b.Instrs) == 0 {
		return nil
	}
	iff, ok := b.Instrs[len(b.Instrs)-1].(*ssa.If)
	if !ok {
		return nil
	}
	c := iff.Cond
	if u, isU := c.(*ssa.UnOp); isU && u.Op == token.NOT {
		c = u.X
	}
	phi, isPhi := c.(*ssa.Phi)
	if !isPhi || phi.Block() != b {
		return nil
	}
	return phi
}

// phiThreadedSucc: coming from pred, the phi that b branches on has a constant
// value; returns the only successor that can be taken, or -1.
func phiThreadedSucc(b, pred *ssa.BasicBlock) int {
	phi := ownPhiOfBranch(b)
	if phi == nil {
		return -1
	}
	iff := b.Instrs[len(b.Instrs)-1].(*ssa.If)
	neg := false
	if u, isU := iff.Cond.(*ssa.UnOp); isU && u.Op == token.NOT {
		neg = true
	}
	val := ""
	for i, p := range b.Preds {
		if p != pred {
			continue
		}
		c, isC := phi.Edges[i].(*ssa.Const)
		if !isC || c.Value == nil {
			return -1
		}
		v := c.Value.String()
		if v != "true" && v != "false" {
			return -1
		}
		if val != "" && val != v {
			return -1
		}
		val = v
	}
	if val == "" {
		return -1
	}
	t := val == "true"
	if neg {
		t = !t
	}
	if t {
		return 0
	}
	return 1
}

var inThreading int

// threadedSucc: block b ends in an If whose condition is decided by the
// constant result of the helper return `ret` (the helper's call is in b).
// Returns the index of the only successor to follow, or -1.
func threadedSucc(b *ssa.BasicBlock, ret *ssa.Return) int {
	iff, ok := b.Instrs[len(b.Instrs)-1].(*ssa.If)
	if !ok {
		return -1
	}
	call := transparentOf(ret.Parent())
	if call == nil || call.Block() != b {
		return -1
	}
	// value of result k of the call along this return: "true"/"false"/"nil"/"nonnil"/""
	resultOf := func(v ssa.Value) string {
		k := -1
		switch x := v.(type) {
		case *ssa.Call:
			if x == call && len(ret.Results) == 1 {
				k = 0
			}
		case *ssa.Extract:
			if x.Tuple == ssa.Value(call) {
				k = x.Index
			}
		}
		if k < 0 || k >= len(ret.Results) {
			return ""
		}
		r := ret.Results[k]
		if os := Origins(r); len(os) == 1 {
			r = os[0] // a return value spilled to the result cell because of a defer
		}
		if c, isC := r.(*ssa.Const); isC {
			if c.IsNil() {
				return "nil"
			}
			if c.Value != nil && (c.Value.String() == "true" || c.Value.String() == "false") {
				return c.Value.String()
			}
			return ""
		}
		if ProvablyNonNil(r, func(x ssa.Value) bool {
			// a wrap of an error that was found non-nil on the way to this return
			if _, isIface := x.Type().Underlying().(*types.Interface); !isIface || inThreading != 0 || x == r {
				return false
			}
			inThreading++
			defer func() { inThreading-- }()
			return KnownNonNilAt(ret.Parent(), ret, x)
		}) {
			return "nonnil"
		}
		if _, isIface := r.Type().Underlying().(*types.Interface); isIface && inThreading == 0 {
			// `if err != nil { return err }` inside the helper: non-nil on that path
			inThreading++
			nn := KnownNonNilAt(ret.Parent(), ret, ret.Results[k])
			inThreading--
			if nn {
				return "nonnil"
			}
		}
		return ""
	}
	var eval func(v ssa.Value) string
	eval = func(v ssa.Value) string {
		switch x := v.(type) {
		case *ssa.UnOp:
			if x.Op == token.NOT {
				switch eval(x.X) {
				case "true":
					return "false"
				case "false":
					return "true"
				}
			}
			return ""
		case *ssa.BinOp:
			if x.Op != token.EQL && x.Op != token.NEQ {
				return ""
			}
			a, bb := x.X, x.Y
			if IsNilConst(a) {
				a, bb = bb, a
			}
			if !IsNilConst(bb) {
				return ""
			}
			r := resultOf(a)
			if r != "nil" && r != "nonnil" {
				return ""
			}
			isNil := r == "nil"
			if (x.Op == token.EQL) == isNil {
				return "true"
			}
			return "false"
		default:
			r := resultOf(v)
			if r == "true" || r == "false" {
				return r
			}
		}
		return ""
	}
	switch eval(iff.Cond) {
	case "true":
		return 0
	case "false":
		return 1
	}
	return -1
}

type pos2 struct {
	b *ssa.BasicBlock
	k int
}

// ReachEntry returns the set of instructions reachable from the function's
// entry in the CFG minus cut.
func ReachEntry(fn *ssa.Function, cut *Cut) InstrSet {
	if len(fn.Blocks) == 0 {
		return InstrSet{}
	}
	return reach([]pos2{{fn.Blocks[0], 0}}, cut)
}

// ReachAfter returns the set of instructions reachable after executing `from`
// (from itself is included only if it lies on a cycle).
func ReachAfter(from ssa.Instruction, cut *Cut) InstrSet {
	b := from.Block()
	k := indexIn(b, from)
	if k < 0 {
		return InstrSet{}
	}
	if k+1 < len(b.Instrs) {
		return reach([]pos2{{b, k + 1}}, cut)
	}
	var starts []pos2
	for idx, s := range b.Succs {
		if cut != nil && cut.Edges[Edge{b, idx}] {
			continue
		}
		if deadConstEdge(b, idx) {
			continue
		}
		starts = append(starts, pos2{s, 0})
	}
	return reach(starts, cut)
}

// ReachEdge returns the set of instructions reachable once edge e was taken.
func ReachEdge(e Edge, cut *Cut) InstrSet {
	if cut != nil && cut.Edges[e] {
		return InstrSet{}
	}
	return reach([]pos2{{e.From.Succs[e.Idx], 0}}, cut)
}

// GuardedBy reports whether every entry→site path takes at least one of the
// edges (edge-dominance by a set). It also returns false if site is not
// reachable at all from the entry only when requireReachable is set by caller.
func GuardedBy(fn *ssa.Function, site ssa.Instruction, edges []Edge) bool {
	cut := NewCut().AddEdges(edges...)
	return !ReachEntry(fn, cut)[site]
}

// Reachable reports whether site is reachable from entry at all.
func Reachable(fn *ssa.Function, site ssa.Instruction) bool {
	return ReachEntry(fn, nil)[site]
}

// MustPass reports whether every path that starts after `from` and arrives at
// `to` passes through one of `through` (instructions) or `edges`.
func MustPass(from, to ssa.Instruction, through []ssa.Instruction, edges []Edge) bool {
	cut := NewCut().AddInstrs(through...).AddEdges(edges...)
	// "to" itself may be in through; then arriving at it counts as passing.
	for _, t := range through {
		if t == to {
			return true
		}
	}
	return !ReachAfter(from, cut)[to]
}

// Returns lists the Return instructions of fn (excluding the recover block).
func Returns(fn *ssa.Function) []*ssa.Return {
	var out []*ssa.Return
	for _, b := range fn.Blocks {
		if b == fn.Recover {
			continue
		}
		if len(b.Instrs) == 0 {
			continue
		}
		if r, ok := b.Instrs[len(b.Instrs)-1].(*ssa.Return); ok {
			if cal := tailCallee(r); cal != nil {
				// `return helper(…)` with a helper that is looked through: the helper's returns are the function's
				out = append(out, Returns(cal)...)
				continue
			}
			out = append(out, r)
		}
	}
	return out
}

// tailCallee: r returns exactly the results of a transparent helper called
// immediately before it.
func tailCallee(r *ssa.Return) *ssa.Function {
	if !TransparentOn || len(r.Results) == 0 {
		return nil
	}
	var call *ssa.Call
	for i, v := range r.Results {
		var c2 *ssa.Call
		switch x := v.(type) {
		case *ssa.Call:
			if len(r.Results) == 1 {
				c2 = x
			}
		case *ssa.Extract:
			if cc, ok := x.Tuple.(*ssa.Call); ok && x.Index == i {
				c2 = cc
			}
		}
		if c2 == nil || (call != nil && c2 != call) {
			return nil
		}
		call = c2
	}
	if call == nil || call.Block() != r.Block() {
		return nil
	}
	// nothing but the extracts between the call and the return
	b := r.Block()
	for k := indexIn(b, call) + 1; k < len(b.Instrs)-1; k++ {
		if _, isE := b.Instrs[k].(*ssa.Extract); !isE {
			return nil
		}
	}
	return transparentCallee(call)
}

// Exits lists the instructions that end a normal execution of fn: returns and
// explicit panics are distinguished by the caller.
func Panics(fn *ssa.Function) []*ssa.Panic {
	var out []*ssa.Panic
	for _, b := range fn.Blocks {
		if len(b.Instrs) == 0 {
			continue
		}
		if r, ok := b.Instrs[len(b.Instrs)-1].(*ssa.Panic); ok {
			out = append(out, r)
		}
	}
	return out
}

// AllInstrs iterates over all instructions of fn in block order.
func AllInstrs(fn *ssa.Function, f func(ssa.Instruction)) {
	for _, g := range regionFuncs(fn) {
		for _, b := range g.Blocks {
			if b == g.Recover {
				continue
			}
			for _, in := range b.Instrs {
				f(in)
			}
		}
	}
}

// Test is a normalised two-way branch condition: `X Op Y` (Y may be nil for a
// plain boolean X, Op == token.ILLEGAL). True is the edge taken when the
// relation holds, False when it does not.
type Test struct {
	If    *ssa.If
	X, Y  ssa.Value
	Op    token.Token
	True  Edge
	False Edge
}

// Tests decomposes every If of fn.
func Tests(fn *ssa.Function) []Test {
	var out []Test
	var blocks []*ssa.BasicBlock
	for _, g := range regionFuncs(fn) {
		blocks = append(blocks, g.Blocks...)
	}
	for _, b := range blocks {
		if len(b.Instrs) == 0 {
			continue
		}
		iff, ok := b.Instrs[len(b.Instrs)-1].(*ssa.If)
		if !ok {
			continue
		}
		t := Test{If: iff, True: Edge{b, 0}, False: Edge{b, 1}}
		c := iff.Cond
		for {
			if u, ok := c.(*ssa.UnOp); ok && u.Op == token.NOT {
				t.True, t.False = t.False, t.True
				c = u.X
				continue
			}
			break
		}
		if bo, ok := c.(*ssa.BinOp); ok {
			switch bo.Op {
			case token.EQL, token.NEQ, token.LSS, token.GTR, token.LEQ, token.GEQ:
				t.X, t.Y, t.Op = bo.X, bo.Y, bo.Op
				if bo.Op == token.NEQ { // normalise to EQL
					t.Op = token.EQL
					t.True, t.False = t.False, t.True
				}
				out = append(out, t)
				continue
			}
		}
		t.X, t.Op = c, token.ILLEGAL
		out = append(out, t)
	}
	return out
}

// IsNilConst reports whether v is the nil constant (of any type).
func IsNilConst(v ssa.Value) bool {
	c, ok := v.(*ssa.Const)
	return ok && c.IsNil()
}

// NilEdges returns, for every test `X == nil` / `X != nil` in fn where isX(X)
// holds, the edges on which X is nil (eq) and non-nil (ne).
func NilEdges(fn *ssa.Function, isX func(ssa.Value) bool) (eq, ne []Edge) {
	for _, t := range Tests(fn) {
		if t.Op != token.EQL {
			continue
		}
		x, y := t.X, t.Y
		if IsNilConst(x) {
			x, y = y, x
		}
		if !IsNilConst(y) || !isX(x) {
			continue
		}
		eq = append(eq, t.True)
		ne = append(ne, t.False)
	}
	return
}

// BoolEdges returns the edges on which a boolean X with isX(X) is true / false.
// It recognises `if X`, `if !X`, `X == true/false`.
func BoolEdges(fn *ssa.Function, isX func(ssa.Value) bool) (tr, fa []Edge) {
	for _, t := range Tests(fn) {
		switch t.Op {
		case token.ILLEGAL:
			if isX(t.X) {
				tr = append(tr, t.True)
				fa = append(fa, t.False)
			}
		case token.EQL:
			x, y := t.X, t.Y
			if _, ok := x.(*ssa.Const); ok {
				x, y = y, x
			}
			c, ok := y.(*ssa.Const)
			if !ok || c.Value == nil || !isX(x) {
				continue
			}
			if c.Value.String() == "true" {
				tr = append(tr, t.True)
				fa = append(fa, t.False)
			} else if c.Value.String() == "false" {
				tr = append(tr, t.False)
				fa = append(fa, t.True)
			}
		}
	}
	return
}

// SortInstrs orders instructions by position then block/index for stable output.
func SortInstrs(is []ssa.Instruction) {
	sort.SliceStable(is, func(a, b int) bool {
		if is[a].Pos() != is[b].Pos() {
			return is[a].Pos() < is[b].Pos()
		}
		if is[a].Block().Index != is[b].Block().Index {
			return is[a].Block().Index < is[b].Block().Index
		}
		return indexIn(is[a].Block(), is[a]) < indexIn(is[b].Block(), is[b])
	})
}

// InLoop reports whether instruction in lies on a CFG cycle.
func InLoop(in ssa.Instruction) bool {
	return ReachAfter(in, nil)[in]
}

// SameIteration reports whether there is a path from a to b that does not pass
// through any loop back edge to a — approximated as: b reachable after a
// without passing through a again.
func ReachWithout(from, to ssa.Instruction, avoid ...ssa.Instruction) bool {
	return ReachAfter(from, NewCut().AddInstrs(avoid...))[to]
}

// deadConstEdge reports whether out-edge idx of b can never be taken because
// b ends in an If on a boolean constant (`if x && false`).
func deadConstEdge(b *ssa.BasicBlock, idx int) bool {
	if len(b.Instrs) == 0 {
		return false
	}
	iff, ok := b.Instrs[len(b.Instrs)-1].(*ssa.If)
	if !ok {
		return false
	}
	c, ok := iff.Cond.(*ssa.Const)
	if !ok || c.Value == nil {
		return false
	}
	isTrue := c.Value.String() == "true"
	return (idx == 0 && !isTrue) || (idx == 1 && isTrue)
}

// PathFact summarises one class of entry→target paths: which of the marked
// edge classes were taken and which label was stored last.
type PathFact struct {
	Took  uint32 // bit i set: an edge of class i was taken
	Label string // last label stored ("" = none)
}

// LastLabelAt explores all paths from fn's entry to target and returns the
// distinct (taken edge classes, last stored label) facts with which target is
// reached. label(ins) reports whether ins stores a label and which.
func LastLabelAt(fn *ssa.Function, target ssa.Instruction, classes [][]Edge, label func(ssa.Instruction) (string, bool)) []PathFact {
	// states are positions (block, index) so that a helper that is looked through can be entered at its call and
	// left again behind it
	type state struct {
		b    *ssa.BasicBlock
		k    int
		fact PathFact
	}
	classOf := map[Edge]int{}
	for i, es := range classes {
		for _, e := range es {
			classOf[e] = i
		}
	}
	seen := map[state]bool{}
	out := map[PathFact]bool{}
	var walk func(s state)
	walk = func(s state) {
		if seen[s] {
			return
		}
		seen[s] = true
		f := s.fact
		for k := s.k; k < len(s.b.Instrs); k++ {
			ins := s.b.Instrs[k]
			if ins == target {
				out[f] = true
				return
			}
			if l, ok := label(ins); ok {
				f.Label = l
			}
			if cal := transparentCallee(ins); cal != nil {
				walk(state{cal.Blocks[0], 0, f})
				return
			}
			if ret, isRet := ins.(*ssa.Return); isRet {
				if call := transparentOf(ret.Parent()); call != nil {
					cb := call.Block()
					walk(state{cb, indexIn(cb, call) + 1, f})
				}
				return
			}
		}
		for idx, succ := range s.b.Succs {
			if deadConstEdge(s.b, idx) {
				continue
			}
			nf := f
			if c, ok := classOf[Edge{s.b, idx}]; ok {
				nf.Took |= 1 << uint(c)
			}
			walk(state{succ, 0, nf})
		}
	}
	if len(fn.Blocks) > 0 {
		walk(state{fn.Blocks[0], 0, PathFact{}})
	}
	var res []PathFact
	for f := range out {
		res = append(res, f)
	}
	sort.Slice(res, func(i, j int) bool {
		if res[i].Took != res[j].Took {
			return res[i].Took < res[j].Took
		}
		return res[i].Label < res[j].Label
	})
	return res
}

// RetFact describes one class of paths reaching a Return: the last of the
// tracked calls executed on the path and the returned values with phis and
// defer-spill cells resolved along that path.
type RetFact struct {
	Ret  *ssa.Return
	Last ssa.CallInstruction // nil if none of the tracked calls was executed
	Vals []ssa.Value
}

// ReturnFacts walks all paths of fn (each (block, last call, incoming edge)
// state once) and reports, for every Return reached, which tracked call was
// executed last and what the results resolve to on that path.
func ReturnFacts(fn *ssa.Function, tracked []ssa.CallInstruction) []RetFact {
	isTracked := map[ssa.Instruction]ssa.CallInstruction{}
	for _, c := range tracked {
		isTracked[c] = c
	}
	type key struct {
		b    *ssa.BasicBlock
		last ssa.CallInstruction
		pred *ssa.BasicBlock
	}
	seen := map[key]bool{}
	var out []RetFact
	var walk func(b, pred *ssa.BasicBlock, last ssa.CallInstruction, env map[ssa.Value]ssa.Value)
	resolve := func(v ssa.Value, env map[ssa.Value]ssa.Value) ssa.Value {
		for i := 0; i < 16; i++ {
			if r, ok := env[v]; ok && r != v {
				v = r
				continue
			}
			switch x := v.(type) {
			case *ssa.ChangeType:
				v = x.X
				continue
			case *ssa.ChangeInterface:
				v = x.X
				continue
			}
			break
		}
		return v
	}
	walk = func(b, pred *ssa.BasicBlock, last ssa.CallInstruction, env map[ssa.Value]ssa.Value) {
		k := key{b, last, pred}
		if seen[k] {
			return
		}
		seen[k] = true
		e2 := map[ssa.Value]ssa.Value{}
		for a, v := range env {
			e2[a] = v
		}
		env = e2
		// phis are evaluated simultaneously from the incoming edge
		if pred != nil {
			idx := -1
			for i, p := range b.Preds {
				if p == pred {
					idx = i
				}
			}
			vals := map[*ssa.Phi]ssa.Value{}
			for _, ins := range b.Instrs {
				phi, ok := ins.(*ssa.Phi)
				if !ok {
					break
				}
				if idx >= 0 && idx < len(phi.Edges) {
					vals[phi] = resolve(phi.Edges[idx], env)
				}
			}
			for p, v := range vals {
				env[p] = v
			}
		}
		for _, ins := range b.Instrs {
			if c, ok := isTracked[ins]; ok {
				last = c
			}
			switch x := ins.(type) {
			case *ssa.Store:
				if a, ok := x.Addr.(*ssa.Alloc); ok {
					env[a] = resolve(x.Val, env) // cell content on this path
				}
			case *ssa.UnOp:
				if x.Op == token.MUL {
					if a, ok := x.X.(*ssa.Alloc); ok {
						if v, has := env[a]; has {
							env[x] = v
						}
					}
				}
			case *ssa.Return:
				f := RetFact{Ret: x, Last: last}
				for _, r := range x.Results {
					f.Vals = append(f.Vals, resolve(r, env))
				}
				out = append(out, f)
				return
			}
		}
		for idx, s := range b.Succs {
			if deadConstEdge(b, idx) {
				continue
			}
			walk(s, b, last, env)
		}
	}
	if len(fn.Blocks) > 0 {
		walk(fn.Blocks[0], nil, nil, map[ssa.Value]ssa.Value{})
	}
	return out
}

// KnownNonNilAt: every path to site passes an edge on which v was tested to be
// non-nil (`if v != nil { … site … }`).
func KnownNonNilAt(fn *ssa.Function, site ssa.Instruction, v ssa.Value) bool {
	_, ne := NilEdges(fn, func(x ssa.Value) bool { return x == v || AllOrigins(v, func(n ssa.Value) bool { return n == x }) })
	return len(ne) > 0 && GuardedBy(fn, site, ne)
}

// unspill: in a function with defers a `return x` is compiled to `*result = x; rundefers; t = *result; return t`;
// for the load t used by the return, unspill gives x (the last store to the cell in the return's own block).
func unspill(site ssa.Instruction, v ssa.Value) ssa.Value {
	ld, ok := v.(*ssa.UnOp)
	if !ok || ld.Op != token.MUL || site == nil || ld.Block() != site.Block() {
		return v
	}
	cell, ok := ld.X.(*ssa.Alloc)
	if !ok {
		return v
	}
	var last ssa.Value
	for _, in := range ld.Block().Instrs {
		if in == ssa.Instruction(ld) {
			break
		}
		if st, isSt := in.(*ssa.Store); isSt && st.Addr == ssa.Value(cell) {
			last = st.Val
		}
	}
	if last != nil {
		return last
	}
	return v
}

// KnownNilAt: every path to site passes an edge on which v was tested to be nil.
func KnownNilAt(fn *ssa.Function, site ssa.Instruction, v ssa.Value) bool {
	v = unspill(site, v)
	// pkg/errors wrappers answer nil for a nil error: errors.Wrap(err, …) on the edge where err is nil is nil
	if cl, isCall := v.(*ssa.Call); isCall {
		switch CalleeName(cl) {
		case "github.com/pkg/errors.Wrap", "github.com/pkg/errors.Wrapf", "github.com/pkg/errors.WithStack", "github.com/pkg/errors.WithMessage", "github.com/pkg/errors.WithMessagef":
			if len(cl.Call.Args) > 0 {
				return KnownNilAt(fn, site, cl.Call.Args[0]) || KnownNilAt(fn, cl, cl.Call.Args[0])
			}
		}
	}
	if _, isConst := v.(*ssa.Const); isConst {
		return false
	}
	switch v.Type().Underlying().(type) {
	case *types.Interface, *types.Pointer, *types.Map, *types.Slice, *types.Chan, *types.Signature:
	default:
		return false
	}
	eq, _ := NilEdges(fn, func(x ssa.Value) bool { return x == v })
	return len(eq) > 0 && GuardedBy(fn, site, eq)
}

// OriginsAt is Origins(v) for a use at site, without the nil constants when v
// is known to be non-nil there (the value came back from a helper that answers
// nil on its other paths, and the caller tested it).
func OriginsAt(fn *ssa.Function, site ssa.Instruction, v ssa.Value) []ssa.Value {
	if KnownNilAt(fn, site, v) {
		// `if err == nil { return err }`: the value used here is nil whatever it came from
		return []ssa.Value{ssa.NewConst(nil, v.Type())}
	}
	os := Origins(v)
	if !KnownNonNilAt(fn, site, v) {
		return os
	}
	var out []ssa.Value
	for _, o := range os {
		if !IsNilConst(o) {
			out = append(out, o)
		}
	}
	return out
}

// RetOrigins is Origins of result k of a return, minus the nil constants when
// that result is known to be non-nil at the return (see OriginsAt).
func RetOrigins(r *ssa.Return, k int) []ssa.Value {
	if k < 0 || k >= len(r.Results) {
		return nil
	}
	return OriginsAt(r.Parent(), r, r.Results[k])
}
