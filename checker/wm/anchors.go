package wm

import (
	"go/token"
	"go/types"

	"golang.org/x/tools/go/ssa"
)

// Exported names used as anchors (API of the analysed module and of its
// dependencies; never unexported identifiers).
const (
	msgPkg = ModulePath + "/message"

	nAck         = "(*" + msgPkg + ".Message).Ack"
	nNack        = "(*" + msgPkg + ".Message).Nack"
	nAcked       = "(*" + msgPkg + ".Message).Acked"
	nNacked      = "(*" + msgPkg + ".Message).Nacked"
	nCopy        = "(*" + msgPkg + ".Message).Copy"
	nSetContext  = "(*" + msgPkg + ".Message).SetContext"
	nContext     = "(*" + msgPkg + ".Message).Context"
	nNewMessage  = msgPkg + ".NewMessage"
	nPublish     = "(" + msgPkg + ".Publisher).Publish"
	nPubClose    = "(" + msgPkg + ".Publisher).Close"
	nSubscribe   = "(" + msgPkg + ".Subscriber).Subscribe"
	nSubClose    = "(" + msgPkg + ".Subscriber).Close"
	nMetaSet     = "(" + msgPkg + ".Metadata).Set"
	nMetaGet     = "(" + msgPkg + ".Metadata).Get"
	tMessagePtr  = "*" + msgPkg + ".Message"
	tHandlerFunc = msgPkg + ".HandlerFunc"
	tMsgChanRecv = "<-chan *" + msgPkg + ".Message"
	tMsgChan     = "chan *" + msgPkg + ".Message"

	nMutexLock     = "(*sync.Mutex).Lock"
	nMutexUnlock   = "(*sync.Mutex).Unlock"
	nRWLock        = "(*sync.RWMutex).Lock"
	nRWUnlock      = "(*sync.RWMutex).Unlock"
	nRWRLock       = "(*sync.RWMutex).RLock"
	nRWRUnlock     = "(*sync.RWMutex).RUnlock"
	nWGAdd         = "(*sync.WaitGroup).Add"
	nWGDone        = "(*sync.WaitGroup).Done"
	nWGWait        = "(*sync.WaitGroup).Wait"
	nCtxDone       = "(context.Context).Done"
	nCtxErr        = "(context.Context).Err"
	nWithCancel    = "context.WithCancel"
	nWithTimeout   = "context.WithTimeout"
	nWithValue     = "context.WithValue"
	nTimeAfter     = "time.After"
	nSyncMapLoad   = "(*sync.Map).Load"
	nSyncMapLoadOr = "(*sync.Map).LoadOrStore"
)

// ParamsOfType returns the parameters of fn whose type prints as ts.
func ParamsOfType(fn *ssa.Function, ts string) []*ssa.Parameter {
	var out []*ssa.Parameter
	for _, p := range fn.Params {
		if p.Type().String() == ts {
			out = append(out, p)
		}
	}
	return out
}

// IsParam returns a predicate "value is exactly parameter p".
func IsParam(p *ssa.Parameter) func(ssa.Value) bool {
	return func(v ssa.Value) bool { return v == ssa.Value(p) }
}

// FromParam returns a predicate "every origin of v is parameter p".
func FromParam(p *ssa.Parameter) func(ssa.Value) bool {
	return func(v ssa.Value) bool { return p != nil && AllOrigins(v, IsParam(p)) }
}

// IsBuiltinCall reports whether v is a call of the named builtin; returns args.
func IsBuiltinCall(v ssa.Value, name string) ([]ssa.Value, bool) {
	c, ok := v.(*ssa.Call)
	if !ok {
		return nil, false
	}
	b, ok := c.Call.Value.(*ssa.Builtin)
	if !ok || b.Name() != name {
		return nil, false
	}
	return c.Call.Args, true
}

// BuiltinCalls lists the calls of a builtin (close, recover, len, …) in fn,
// including deferred ones.
func BuiltinCalls(fn *ssa.Function, name string) []ssa.CallInstruction {
	var out []ssa.CallInstruction
	for _, c := range CallsIn(fn) {
		if b, ok := c.Common().Value.(*ssa.Builtin); ok && b.Name() == name {
			out = append(out, c)
		}
	}
	return out
}

// IntConst returns the integer constant value of v.
func IntConst(v ssa.Value) (int64, bool) {
	c, ok := v.(*ssa.Const)
	if !ok || c.Value == nil {
		return 0, false
	}
	if c.Value.Kind().String() != "Int" {
		return 0, false
	}
	return c.Int64(), true
}

// LenZeroEdges: edges on which len(X)==0 for X satisfying isX (eq) / >0 (ne).
func LenZeroEdges(fn *ssa.Function, isX func(ssa.Value) bool) (eq, ne []Edge) {
	for _, t := range Tests(fn) {
		x, y := t.X, t.Y
		if y == nil {
			continue
		}
		swapped := false
		if _, ok := IntConst(x); ok {
			x, y = y, x
			swapped = true
		}
		n, ok := IntConst(y)
		if !ok {
			continue
		}
		args, ok := IsBuiltinCall(x, "len")
		if !ok || len(args) != 1 || !isX(args[0]) {
			continue
		}
		switch {
		case t.Op == token.EQL && n == 0:
			eq, ne = append(eq, t.True), append(ne, t.False)
		case (t.Op == token.GTR && !swapped || t.Op == token.LSS && swapped) && n == 0: // len > 0
			eq, ne = append(eq, t.False), append(ne, t.True)
		case (t.Op == token.LSS && !swapped || t.Op == token.GTR && swapped) && n == 1: // len < 1
			eq, ne = append(eq, t.True), append(ne, t.False)
		case (t.Op == token.GEQ && !swapped || t.Op == token.LEQ && swapped) && n == 1: // len >= 1
			eq, ne = append(eq, t.False), append(ne, t.True)
		case (t.Op == token.LEQ && !swapped || t.Op == token.GEQ && swapped) && n == 0: // len <= 0
			eq, ne = append(eq, t.True), append(ne, t.False)
		}
	}
	return
}

// ReachesCall reports whether fn, or an in-package function it statically
// calls (to the given depth), contains a call with the given name; it returns
// the call instructions found.
func ReachesCall(fn *ssa.Function, depth int, names ...string) []ssa.CallInstruction {
	var out []ssa.CallInstruction
	seen := map[*ssa.Function]bool{}
	var walk func(f *ssa.Function, d int)
	walk = func(f *ssa.Function, d int) {
		if f == nil || seen[f] || len(f.Blocks) == 0 {
			return
		}
		seen[f] = true
		for _, c := range CallsIn(f) {
			if IsCallTo(c, names...) {
				out = append(out, c)
			}
			if d > 0 {
				if cal := CalleeFn(c.Common()); cal != nil && cal.Pkg == fn.Pkg {
					walk(cal, d-1)
				}
				if cl := FuncOfValue(c.Common().Value); cl != nil && cl.Parent() != nil {
					walk(cl, d-1)
				}
			}
		}
	}
	walk(fn, depth)
	return out
}

// CallsLeadingTo lists the calls in fn (not Go statements unless includeGo)
// through which a call named `names` is reached: the direct calls and the
// calls of in-package helpers that contain one (depth bounded).
func CallsLeadingTo(fn *ssa.Function, depth int, names ...string) []ssa.CallInstruction {
	var out []ssa.CallInstruction
	for _, c := range CallsIn(fn) {
		if IsCallTo(c, names...) {
			out = append(out, c)
			continue
		}
		cal := CalleeFn(c.Common())
		if cal == nil {
			cal = FuncOfValue(c.Common().Value)
		}
		if cal != nil && (cal.Pkg == fn.Pkg || cal.Parent() != nil) && depth > 0 {
			if len(ReachesCall(cal, depth-1, names...)) > 0 {
				out = append(out, c)
			}
		}
	}
	return out
}

// InPkgCallers lists the call instructions in package functions fns that
// statically call target.
func Callers(fns []*ssa.Function, target *ssa.Function) []ssa.CallInstruction {
	var out []ssa.CallInstruction
	for _, f := range fns {
		for _, c := range CallsIn(f) {
			if CalleeFn(c.Common()) == target {
				out = append(out, c)
			}
		}
	}
	return out
}

// StructFieldByStoreOfParam finds the field of the struct literal built in fn
// into which parameter p (or a value originating only from it) is stored.
func FieldsStoringParam(fn *ssa.Function, p *ssa.Parameter) []*types.Var {
	var out []*types.Var
	AllInstrs(fn, func(in ssa.Instruction) {
		st, ok := in.(*ssa.Store)
		if !ok {
			return
		}
		f, _ := FieldOf(st.Addr)
		if f == nil {
			return
		}
		if AllOrigins(st.Val, IsParam(p)) {
			out = append(out, f)
		}
	})
	return out
}

// IsGlobalLoad reports whether v is a load of the package-level variable
// pkgpath.name.
func IsGlobalLoad(v ssa.Value, pkgpath, name string) bool {
	u, ok := v.(*ssa.UnOp)
	if !ok || u.Op != token.MUL {
		return false
	}
	g, ok := u.X.(*ssa.Global)
	return ok && g.Pkg != nil && g.Pkg.Pkg.Path() == pkgpath && g.Name() == name
}

// IsErrorType reports whether t is the predeclared error interface.
func IsErrorType(t types.Type) bool { return t.String() == "error" }
