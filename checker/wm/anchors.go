package wm

import (
	"fmt"
	"go/constant"
	"go/token"
	"go/types"
	"strings"

	"golang.org/x/tools/go/ssa"
)

// Exported names used as anchors (API of the analysed module and of its
// dependencies; never unexported identifiers).
const (
	msgPkg = ModulePath + "/message"

	nAck         = "(*" + msgPkg + ".Message).Ack"
	nNack        = "(*" + msgPkg + ".Message).Nack"
	nAcked       = "(*" + msgPkg + ".Message).Acked"
	nNacked      = "(*" + msgPkg + ".Message).Nacked"
	nCopy        = "(*" + msgPkg + ".Message).Copy"
	nSetContext  = "(*" + msgPkg + ".Message).SetContext"
	nContext     = "(*" + msgPkg + ".Message).Context"
	nNewMessage  = msgPkg + ".NewMessage"
	nPublish     = "(" + msgPkg + ".Publisher).Publish"
	nPubClose    = "(" + msgPkg + ".Publisher).Close"
	nSubscribe   = "(" + msgPkg + ".Subscriber).Subscribe"
	nSubClose    = "(" + msgPkg + ".Subscriber).Close"
	nMetaSet     = "(" + msgPkg + ".Metadata).Set"
	nMetaGet     = "(" + msgPkg + ".Metadata).Get"
	tMessagePtr  = "*" + msgPkg + ".Message"
	tHandlerFunc = msgPkg + ".HandlerFunc"
	tMsgChanRecv = "<-chan *" + msgPkg + ".Message"
	tMsgChan     = "chan *" + msgPkg + ".Message"

	nMutexLock     = "(*sync.Mutex).Lock"
	nMutexUnlock   = "(*sync.Mutex).Unlock"
	nRWLock        = "(*sync.RWMutex).Lock"
	nRWUnlock      = "(*sync.RWMutex).Unlock"
	nRWRLock       = "(*sync.RWMutex).RLock"
	nRWRUnlock     = "(*sync.RWMutex).RUnlock"
	nWGAdd         = "(*sync.WaitGroup).Add"
	nWGDone        = "(*sync.WaitGroup).Done"
	nWGWait        = "(*sync.WaitGroup).Wait"
	nCtxDone       = "(context.Context).Done"
	nCtxErr        = "(context.Context).Err"
	nWithCancel    = "context.WithCancel"
	nWithTimeout   = "context.WithTimeout"
	nWithValue     = "context.WithValue"
	nTimeAfter     = "time.After"
	nSyncMapLoad   = "(*sync.Map).Load"
	nSyncMapLoadOr = "(*sync.Map).LoadOrStore"
)

// ParamsOfType returns the parameters of fn whose type prints as ts.
func ParamsOfType(fn *ssa.Function, ts string) []*ssa.Parameter {
	var out []*ssa.Parameter
	for _, p := range fn.Params {
		if p.Type().String() == ts {
			out = append(out, p)
		}
	}
	return out
}

// IsParam returns a predicate "value is exactly parameter p".
func IsParam(p *ssa.Parameter) func(ssa.Value) bool {
	return func(v ssa.Value) bool { return v == ssa.Value(p) }
}

// FromParam returns a predicate "every origin of v is parameter p".
func FromParam(p *ssa.Parameter) func(ssa.Value) bool {
	return func(v ssa.Value) bool { return p != nil && AllOrigins(v, IsParam(p)) }
}

// IsBuiltinCall reports whether v is a call of the named builtin; returns args.
func IsBuiltinCall(v ssa.Value, name string) ([]ssa.Value, bool) {
	c, ok := v.(*ssa.Call)
	if !ok {
		return nil, false
	}
	b, ok := c.Call.Value.(*ssa.Builtin)
	if !ok || b.Name() != name {
		return nil, false
	}
	return c.Call.Args, true
}

// BuiltinCalls lists the calls of a builtin (close, recover, len, …) in fn,
// including deferred ones.
func BuiltinCalls(fn *ssa.Function, name string) []ssa.CallInstruction {
	var out []ssa.CallInstruction
	for _, c := range CallsIn(fn) {
		if b, ok := c.Common().Value.(*ssa.Builtin); ok && b.Name() == name {
			out = append(out, c)
		}
	}
	return out
}

// IntConst returns the integer constant value of v.
func IntConst(v ssa.Value) (int64, bool) {
	c, ok := v.(*ssa.Const)
	if !ok || c.Value == nil {
		return 0, false
	}
	if c.Value.Kind().String() != "Int" {
		return 0, false
	}
	return c.Int64(), true
}

// LenZeroEdges: edges on which len(X)==0 for X satisfying isX (eq) / >0 (ne).
func LenZeroEdges(fn *ssa.Function, isX func(ssa.Value) bool) (eq, ne []Edge) {
	for _, t := range Tests(fn) {
		x, y := t.X, t.Y
		if y == nil {
			continue
		}
		swapped := false
		if _, ok := IntConst(x); ok {
			x, y = y, x
			swapped = true
		}
		n, ok := IntConst(y)
		if !ok {
			continue
		}
		args, ok := IsBuiltinCall(x, "len")
		if !ok || len(args) != 1 || !isX(args[0]) {
			continue
		}
		switch {
		case t.Op == token.EQL && n == 0:
			eq, ne = append(eq, t.True), append(ne, t.False)
		case (t.Op == token.GTR && !swapped || t.Op == token.LSS && swapped) && n == 0: // len > 0
			eq, ne = append(eq, t.False), append(ne, t.True)
		case (t.Op == token.LSS && !swapped || t.Op == token.GTR && swapped) && n == 1: // len < 1
			eq, ne = append(eq, t.True), append(ne, t.False)
		case (t.Op == token.GEQ && !swapped || t.Op == token.LEQ && swapped) && n == 1: // len >= 1
			eq, ne = append(eq, t.False), append(ne, t.True)
		case (t.Op == token.LEQ && !swapped || t.Op == token.GEQ && swapped) && n == 0: // len <= 0
			eq, ne = append(eq, t.True), append(ne, t.False)
		}
	}
	return
}

// ReachesCall reports whether fn, or an in-package function it statically
// calls (to the given depth), contains a call with the given name; it returns
// the call instructions found.
func ReachesCall(fn *ssa.Function, depth int, names ...string) []ssa.CallInstruction {
	var out []ssa.CallInstruction
	seen := map[*ssa.Function]bool{}
	var walk func(f *ssa.Function, d int)
	walk = func(f *ssa.Function, d int) {
		if f == nil || seen[f] || len(f.Blocks) == 0 {
			return
		}
		seen[f] = true
		for _, c := range CallsIn(f) {
			if IsCallTo(c, names...) {
				out = append(out, c)
			}
			if d > 0 {
				if cal := CalleeFn(c.Common()); cal != nil && cal.Pkg == fn.Pkg {
					walk(cal, d-1)
				}
				if cl := FuncOfValue(c.Common().Value); cl != nil && cl.Parent() != nil {
					walk(cl, d-1)
				}
			}
		}
	}
	walk(fn, depth)
	return out
}

// CallsLeadingTo lists the calls in fn (not Go statements unless includeGo)
// through which a call named `names` is reached: the direct calls and the
// calls of in-package helpers that contain one (depth bounded).
func CallsLeadingTo(fn *ssa.Function, depth int, names ...string) []ssa.CallInstruction {
	var out []ssa.CallInstruction
	for _, c := range CallsIn(fn) {
		if IsCallTo(c, names...) {
			out = append(out, c)
			continue
		}
		cal := CalleeFn(c.Common())
		if cal == nil {
			cal = FuncOfValue(c.Common().Value)
		}
		if cal != nil && (cal.Pkg == fn.Pkg || cal.Parent() != nil) && depth > 0 {
			if len(ReachesCall(cal, depth-1, names...)) > 0 {
				out = append(out, c)
			}
		}
	}
	return out
}

// InPkgCallers lists the call instructions in package functions fns that
// statically call target.
func Callers(fns []*ssa.Function, target *ssa.Function) []ssa.CallInstruction {
	var out []ssa.CallInstruction
	for _, f := range fns {
		for _, c := range CallsIn(f) {
			if CalleeFn(c.Common()) == target {
				out = append(out, c)
			}
		}
	}
	return out
}

// StructFieldByStoreOfParam finds the field of the struct literal built in fn
// into which parameter p (or a value originating only from it) is stored.
func FieldsStoringParam(fn *ssa.Function, p *ssa.Parameter) []*types.Var {
	var out []*types.Var
	AllInstrs(fn, func(in ssa.Instruction) {
		st, ok := in.(*ssa.Store)
		if !ok {
			return
		}
		f, _ := FieldOf(st.Addr)
		if f == nil {
			return
		}
		if AllOrigins(st.Val, IsParam(p)) {
			out = append(out, f)
		}
	})
	return out
}

// IsGlobalLoad reports whether v is a load of the package-level variable
// pkgpath.name.
func IsGlobalLoad(v ssa.Value, pkgpath, name string) bool {
	u, ok := v.(*ssa.UnOp)
	if !ok || u.Op != token.MUL {
		return false
	}
	g, ok := u.X.(*ssa.Global)
	return ok && g.Pkg != nil && g.Pkg.Pkg.Path() == pkgpath && g.Name() == name
}

// IsErrorType reports whether t is the predeclared error interface.
func IsErrorType(t types.Type) bool { return t.String() == "error" }

// ErrSource is result k of a call: an error that a function may hand on.
type ErrSource struct {
	Call ssa.CallInstruction
	K    int
}

// ErrorsOnlyFrom decides "fn fails only for the listed reasons": every non-nil
// error fn returns is (a wrap of) one of the source errors, or — for an error
// made in fn itself — is returned only behind one of the given failure edges.
// A new exit that refuses the operation for another reason (a fast path, a
// guard on an option, a context check) is reported.
func ErrorsOnlyFrom(c *Check, id, rule string, fn *ssa.Function, srcs []ErrSource, edges []Edge, why string) {
	ErrorsOnlyFromKinds(c, id, rule, fn, func(cl ssa.CallInstruction) (int, bool) {
		for _, s := range srcs {
			if s.Call == cl {
				return s.K, true
			}
		}
		return 0, false
	}, edges, why)
}

// ErrorsOnlyFromKinds is ErrorsOnlyFrom with the sources given by kind: classify
// says for a call whether its result k is an admissible error. The error result
// of a private in-package helper is admissible if the helper, judged by the same
// classifier, fails only for admissible reasons (two levels).
func ErrorsOnlyFromKinds(c *Check, id, rule string, fn *ssa.Function, classify func(ssa.CallInstruction) (int, bool), edges []Edge, why string) {
	ErrorsOnlyFromKindsAlso(c, id, rule, fn, classify, edges, nil, why)
}

// ErrorsOnlyFromKindsAlso: also(v) admits further origin values (e.g. what a
// deferred closure stores into the named result).
func ErrorsOnlyFromKindsAlso(c *Check, id, rule string, fn *ssa.Function, classify func(ssa.CallInstruction) (int, bool), edges []Edge, also func(ssa.Value) bool, why string) {
	var admissible func(f *ssa.Function, v ssa.Value, depth int) bool
	helperOK := func(h *ssa.Function, depth int) bool {
		if depth > 2 || h == nil || len(h.Blocks) == 0 {
			return false
		}
		for _, r := range Returns(h) {
			if len(r.Results) == 0 {
				return false
			}
			for _, v := range RetOrigins(r, len(r.Results)-1) {
				if !IsNilConst(v) && !admissible(h, v, depth+1) {
					return false
				}
			}
		}
		return true
	}
	admissible = func(f *ssa.Function, v ssa.Value, depth int) bool {
		return Wraps(v, func(x ssa.Value) bool {
			var call ssa.CallInstruction
			k := 0
			switch y := x.(type) {
			case *ssa.Call:
				call = y
			case *ssa.Extract:
				if cc, ok := y.Tuple.(*ssa.Call); ok {
					call, k = cc, y.Index
				}
			}
			if call == nil {
				return false
			}
			if ck, ok := classify(call); ok && ck == k {
				return true
			}
			if cal := CalleeFn(call.Common()); cal != nil && cal.Pkg == f.Pkg && cal.Object() != nil && !cal.Object().Exported() {
				n := cal.Signature.Results().Len()
				return n > 0 && k == n-1 && helperOK(cal, depth)
			}
			return false
		})
	}
	for i, r := range Returns(fn) {
		if len(r.Results) == 0 {
			continue
		}
		res := r.Results[len(r.Results)-1]
		if !IsErrorType(res.Type()) {
			continue
		}
		ok := true
		var wit []string
		for _, v := range Origins(res) {
			if IsNilConst(v) || admissible(fn, v, 0) {
				continue
			}
			if len(edges) > 0 && (GuardedBy(fn, r, edges) || nilOnlyOnEdges(r, v, edges)) {
				continue
			}
			// a value that is only made behind one of the listed failure tests
			if in, isIn := v.(ssa.Instruction); isIn && len(edges) > 0 && in.Parent() == fn && GuardedBy(fn, in, edges) {
				continue
			}
			if also != nil && also(v) {
				continue
			}
			ok = false
			wit = append(wit, "returns "+v.String()+" at "+c.P.Pos(r.Pos())+", which is neither one of the listed errors nor behind one of the listed failure tests")
		}
		c.Report(ok, id, rule, fn, r.Pos(), fmt.Sprintf("%s return#%d", FnName(fn), i), why, wit...)
	}
}

// LostReceiverStores decides, for the methods of the module packages rels, that an assignment to a field of the
// receiver is not made on a by-value copy that nobody looks at afterwards (setDefaults / option methods that silently
// stopped working because the receiver lost its `*`): a store to a field of a value receiver must be followed by a
// read of that receiver (a load of the field, of the whole value, or the value escaping to a call / closure / return).
func LostReceiverStores(c *Check, id string, rels ...string) {
	n := 0
	for _, rel := range rels {
		for _, fn := range c.P.SrcFuncsRaw(rel) {
			recv := fn.Signature.Recv()
			if recv == nil || fn.Parent() != nil || len(fn.Params) == 0 {
				continue
			}
			if _, isPtr := recv.Type().Underlying().(*types.Pointer); isPtr {
				continue
			}
			if _, isStruct := recv.Type().Underlying().(*types.Struct); !isStruct {
				continue
			}
			// the spill of the receiver
			var cell *ssa.Alloc
			for _, ref := range *fn.Params[0].Referrers() {
				if st, ok := ref.(*ssa.Store); ok && st.Val == ssa.Value(fn.Params[0]) {
					if a, isA := st.Addr.(*ssa.Alloc); isA {
						cell = a
					}
				}
			}
			if cell == nil {
				continue
			}
			var stores []*ssa.Store
			var reads []ssa.Instruction
			for _, ref := range *cell.Referrers() {
				switch x := ref.(type) {
				case *ssa.FieldAddr:
					for _, r2 := range *x.Referrers() {
						if st, isSt := r2.(*ssa.Store); isSt && st.Addr == ssa.Value(x) {
							stores = append(stores, st)
						} else {
							reads = append(reads, r2)
						}
					}
				case *ssa.Store:
					if x.Addr != ssa.Value(cell) {
						reads = append(reads, x) // the address escapes
					}
				default:
					reads = append(reads, ref)
				}
			}
			for _, st := range stores {
				n++
				seen := false
				after := ReachAfter(st, nil)
				for _, rd := range reads {
					if after[rd] {
						seen = true
					}
				}
				f, _ := FieldOf(st.Addr)
				name := "?"
				if f != nil {
					name = f.Name()
				}
				c.Report(seen, id, "RECEIVER-STORE-NOT-LOST", fn, st.Pos(), "assignment to "+name+" of a by-value receiver", "an assignment to a field of the receiver is observable: the method has a pointer receiver, or the copy is read / returned afterwards (a default or option stored into a by-value copy is silently lost)")
			}
		}
	}
	c.Report(true, id, "RECEIVER-STORES-SCANNED", nil, token.NoPos, strings.Join(rels, ","), fmt.Sprintf("%d field assignments on by-value receivers examined", n))
}

// DefaultsApplied: a configuration type with a setDefaults method gets its defaults in every exported function of
// its package that takes (or builds) a value of that type: the call is on that very value and precedes every return
// that reports success — or the value is handed, as it is, to another function of the package that does so (one level).
func DefaultsApplied(c *Check, id string, rels ...string) {
	for _, rel := range rels {
		defaultsFillNil(c, id, rel)
	}
	n := 0
	for _, rel := range rels {
		sp := c.P.Pkg(rel)
		if sp == nil {
			continue
		}
		setDef := map[*types.Named]*ssa.Function{}
		for _, m := range sp.Members {
			t, ok := m.(*ssa.Type)
			if !ok {
				continue
			}
			nt, ok := t.Type().(*types.Named)
			if !ok {
				continue
			}
			for i := 0; i < nt.NumMethods(); i++ {
				if nt.Method(i).Name() == "setDefaults" || nt.Method(i).Name() == "SetDefaults" {
					if f := c.P.SSA.FuncValue(nt.Method(i).Origin()); f != nil {
						setDef[nt] = f
					}
				}
			}
		}
		var applies func(fn *ssa.Function, isVar func(ssa.Value) bool, T *types.Named, depth int) bool
		applies = func(fn *ssa.Function, isVar func(ssa.Value) bool, T *types.Named, depth int) bool {
			var sites []ssa.Instruction
			for _, cl := range rawCallsIn(fn) {
				if _, isCall := cl.(*ssa.Call); !isCall {
					continue
				}
				cal := CalleeFn(cl.Common())
				if cal == nil {
					continue
				}
				if cal == setDef[T] && len(cl.Common().Args) > 0 && isVar(cl.Common().Args[0]) {
					sites = append(sites, cl)
					continue
				}
				// handed on as it is to a function of the package that applies the defaults to that parameter
				if depth < 1 && cal.Pkg == fn.Pkg && cal != fn {
					for i, a := range cl.Common().Args {
						if i < len(cal.Params) && isVar(a) {
							prm := cal.Params[i]
							if applies(cal, func(v ssa.Value) bool { return refersToParam(v, prm) }, T, depth+1) {
								sites = append(sites, cl)
							}
						}
					}
				}
			}
			if len(sites) == 0 {
				return false
			}
			re := rawReachEntry(fn, sites)
			for _, r := range Returns(fn) {
				if !re[r] {
					continue
				}
				// a return reached without the defaults must report failure
				k := len(r.Results) - 1
				if k < 0 || !IsErrorType(r.Results[k].Type()) || RetNil(r, k) {
					return false
				}
			}
			return true
		}
		for _, fn := range c.P.SrcFuncsRaw(rel) {
			if fn.Parent() != nil || fn.Object() == nil || !fn.Object().Exported() || fn.Signature.Recv() != nil {
				continue
			}
			// parameters of a config type
			for _, prm := range fn.Params {
				T := NamedOf(prm.Type())
				if T == nil || setDef[T] == nil {
					continue
				}
				n++
				p := prm
				ok := applies(fn, func(v ssa.Value) bool { return refersToParam(v, p) }, T, 0)
				c.Report(ok, id, "DEFAULTS-APPLIED", fn, fn.Pos(), "configuration parameter "+prm.Name()+" of "+fn.Name(), "the constructor fills in the configuration's defaults (on the value it goes on to use) before it can return successfully")
			}
			// a configuration the constructor builds itself and hands to another function of the package
			for _, cl := range rawCallsIn(fn) {
				call, isCall := cl.(*ssa.Call)
				if !isCall {
					continue
				}
				cal := CalleeFn(call.Common())
				if cal == nil || cal.Pkg != fn.Pkg {
					continue
				}
				for ai, a := range call.Common().Args {
					T := NamedOf(a.Type())
					if T == nil || setDef[T] == nil || cal == setDef[T] || ai >= len(cal.Params) {
						continue
					}
					if _, isPtr := a.Type().Underlying().(*types.Pointer); isPtr {
						// &config handed on: judged where the pointee is built
					}
					fromParam := false
					for _, prm := range fn.Params {
						if NamedOf(prm.Type()) == T && (refersToParam(a, prm) || AllOrigins(a, func(o ssa.Value) bool { return refersToParam(o, prm) })) {
							fromParam = true
						}
					}
					if fromParam {
						continue // judged above
					}
					n++
					ok := false
					// defaults applied here, on the variable the argument is read from, before the call
					var cell ssa.Value
					switch x := a.(type) {
					case *ssa.UnOp:
						if x.Op == token.MUL {
							cell = x.X
						}
					case *ssa.Alloc:
						cell = x
					}
					if cell != nil {
						for _, sd := range rawCallsIn(fn) {
							if CalleeFn(sd.Common()) == setDef[T] && len(sd.Common().Args) > 0 && sd.Common().Args[0] == cell && !rawReachEntry(fn, []ssa.Instruction{sd})[call] {
								ok = true
							}
						}
					}
					// or by the function it is handed to
					if !ok {
						prm := cal.Params[ai]
						ok = applies(cal, func(v ssa.Value) bool { return refersToParam(v, prm) }, T, 1)
					}
					c.Report(ok, id, "DEFAULTS-APPLIED", fn, call.Pos(), "configuration built in "+fn.Name()+" and handed to "+cal.Name(), "a configuration the constructor builds itself gets its defaults (here, or in the function it is handed to) before it is used")
				}
			}
		}
	}
	c.Report(true, id, "DEFAULTS-SCANNED", nil, token.NoPos, strings.Join(rels, ","), fmt.Sprintf("%d configuration values in exported constructors examined", n))
}

// refersToParam: v is the parameter, or the address of / a load from the local it was spilled to.
func refersToParam(v ssa.Value, prm *ssa.Parameter) bool {
	if v == ssa.Value(prm) {
		return true
	}
	var cell *ssa.Alloc
	for _, ref := range *prm.Referrers() {
		if st, ok := ref.(*ssa.Store); ok && st.Val == ssa.Value(prm) {
			if a, isA := st.Addr.(*ssa.Alloc); isA {
				cell = a
			}
		}
	}
	if cell == nil {
		return false
	}
	if v == ssa.Value(cell) {
		return true
	}
	if u, ok := v.(*ssa.UnOp); ok && u.Op == token.MUL && u.X == ssa.Value(cell) {
		return true
	}
	return false
}

// OptionalHooksGuarded: a configuration field of function type that neither setDefaults fills nor Validate demands is
// optional; every call through it lies behind the edge on which that field was tested to be non-nil, and every test of it
// that guards a call is of that polarity (a negated guard calls a nil function when the option is unset and skips the hook
// when it is set).
func OptionalHooksGuarded(c *Check, id string, rel string) {
	sp := c.P.Pkg(rel)
	if sp == nil {
		return
	}
	required := map[*types.Var]bool{}
	for _, fn := range c.P.SrcFuncsRaw(rel) {
		if fn.Parent() != nil || fn.Signature.Recv() == nil {
			continue
		}
		nm := fn.Name()
		if nm != "setDefaults" && nm != "SetDefaults" && nm != "Validate" && nm != "validate" {
			continue
		}
		rawInstrs(fn, func(in ssa.Instruction) {
			if fa, ok := in.(*ssa.FieldAddr); ok {
				if f, _ := FieldOf(fa); f != nil {
					required[f] = true
				}
			}
		})
	}
	n := 0
	for _, fn := range c.P.SrcFuncs(rel) {
		for _, cl := range CallsIn(fn) {
			if cl.Common().IsInvoke() || CalleeFn(cl.Common()) != nil {
				continue
			}
			if _, isB := cl.Common().Value.(*ssa.Builtin); isB {
				continue
			}
			F := LoadedField(firstOrigin(cl.Common().Value))
			if F == nil || F.Pkg() != sp.Pkg || !F.Exported() || required[F] || len(Origins(cl.Common().Value)) != 1 {
				continue
			}
			if _, isSig := F.Type().Underlying().(*types.Signature); !isSig {
				continue
			}
			n++
			home := HomeFn(cl.Parent())
			_, nonNil := NilEdges(home, func(v ssa.Value) bool { return AllOrigins(v, IsFieldLoad(F)) })
			c.Report(len(nonNil) > 0 && GuardedBy(home, cl, nonNil), id, "OPTIONAL-HOOK-CALLED-ONLY-IF-SET", home, cl.Pos(), "call of "+F.Name(), "the optional hook is called only behind the edge on which it was found to be set (unset it is nil: the call would panic; with the test negated a configured hook never runs)")
		}
	}
	if fs := c.P.SrcFuncs(rel); len(fs) > 0 {
		c.Report(true, id, "OPTIONAL-HOOK-CALLS-SCANNED", fs[0], fs[0].Pos(), "package "+rel, fmt.Sprintf("%d calls through optional configuration hooks", n))
	}
	// … and the other way round: an interface-typed configuration field the package calls methods on without looking is
	// one that setDefaults assigns or Validate tests
	ensured := map[*types.Var]bool{}
	cfgField := map[*types.Var]bool{}
	for _, fn := range c.P.SrcFuncsRaw(rel) {
		if fn.Parent() != nil || fn.Signature.Recv() == nil {
			continue
		}
		switch fn.Name() {
		case "setDefaults", "SetDefaults", "Validate", "validate":
			if T := NamedOf(fn.Signature.Recv().Type()); T != nil {
				if st, isS := T.Underlying().(*types.Struct); isS {
					for i := 0; i < st.NumFields(); i++ {
						cfgField[st.Field(i)] = true
					}
				}
			}
		}
		switch fn.Name() {
		case "setDefaults", "SetDefaults":
			rawInstrs(fn, func(in ssa.Instruction) {
				if st, ok := in.(*ssa.Store); ok {
					if f, _ := FieldOf(st.Addr); f != nil && !IsNilConst(st.Val) {
						ensured[f] = true
					}
				}
			})
		case "Validate", "validate":
			for _, t := range Tests(fn) {
				for _, v := range []ssa.Value{t.X, t.Y} {
					if v != nil {
						if f := LoadedField(firstOrigin(v)); f != nil {
							ensured[f] = true
						}
					}
				}
			}
		}
	}
	seenF := map[*types.Var]bool{}
	for _, fn := range c.P.SrcFuncs(rel) {
		for _, cl := range CallsIn(fn) {
			if !cl.Common().IsInvoke() {
				continue
			}
			F := LoadedField(firstOrigin(cl.Common().Value))
			if F == nil || F.Pkg() != sp.Pkg || !F.Exported() || !cfgField[F] || seenF[F] || len(Origins(cl.Common().Value)) != 1 {
				continue
			}
			home := HomeFn(cl.Parent())
			_, nonNil := NilEdges(home, func(v ssa.Value) bool { return AllOrigins(v, IsFieldLoad(F)) })
			if len(nonNil) > 0 && GuardedBy(home, cl, nonNil) {
				continue
			}
			seenF[F] = true
			c.Report(ensured[F], id, "FIELD-CALLED-WITHOUT-LOOKING-IS-ENSURED", home, cl.Pos(), "method call on "+F.Name(), "a configuration field the package calls methods on without a nil test is given a value by setDefaults or demanded by Validate")
		}
	}
}

// defaultsFillNil: inside a setDefaults method, a field that is tested against nil is given a non-nil value on the edge
// on which it was found nil — and only there (the rest of the package calls through such a field without looking again).
func defaultsFillNil(c *Check, id string, rel string) {
	isZero := func(v ssa.Value) bool {
		k, ok := v.(*ssa.Const)
		if !ok {
			return false
		}
		if k.IsNil() {
			return true
		}
		if k.Value == nil {
			return true
		}
		switch k.Value.Kind() {
		case constant.Int:
			n, exact := constant.Int64Val(k.Value)
			return exact && n == 0
		case constant.String:
			return constant.StringVal(k.Value) == ""
		}
		return false
	}
	for _, fn := range c.P.SrcFuncsRaw(rel) {
		if fn.Parent() != nil || len(fn.Params) == 0 {
			continue
		}
		isMethod := fn.Signature.Recv() != nil && (fn.Name() == "setDefaults" || fn.Name() == "SetDefaults")
		isFunc := fn.Signature.Recv() == nil && strings.HasPrefix(fn.Name(), "applyDefaults")
		if !isMethod && !isFunc {
			continue
		}
		seen := map[*types.Var]bool{}
		// the defaults confirmed on the reviewed tree (an emptied `if x == zero {}` leaves no test behind to hang a rule on)
		if want, isKnown := confirmedDefaults[strings.Replace(fn.RelString(nil), ModulePath+"/", "", 1)]; isKnown {
			defer func(fn *ssa.Function, want int) {
				c.Floor(id, "defaults filled by "+strings.Replace(fn.RelString(nil), ModulePath+"/", "", 1), len(seen), want)
			}(fn, want)
		}
		for _, t := range Tests(fn) {
			if t.Y == nil || (t.Op != token.EQL && t.Op != token.NEQ) {
				continue
			}
			v, z := t.X, t.Y
			if isZero(t.X) {
				v, z = t.Y, t.X
			}
			if !isZero(z) {
				continue
			}
			F := LoadedField(firstOrigin(v))
			if F == nil || seen[F] {
				continue
			}
			if _, base := FieldOf(loadAddr(firstOrigin(v))); base == nil || !FromParam(fn.Params[0])(base) {
				continue
			}
			seen[F] = true
			// every test of this field against its zero value: the edge on which it is zero
			var zeroEdges []Edge
			for _, t2 := range Tests(fn) {
				if t2.Y == nil || (t2.Op != token.EQL && t2.Op != token.NEQ) {
					continue
				}
				v2, z2 := t2.X, t2.Y
				if isZero(t2.X) {
					v2, z2 = t2.Y, t2.X
				}
				if !isZero(z2) || LoadedField(firstOrigin(v2)) != F {
					continue
				}
				if t2.Op == token.EQL {
					zeroEdges = append(zeroEdges, t2.True)
				} else {
					zeroEdges = append(zeroEdges, t2.False)
				}
			}
			var stores []*ssa.Store
			for _, st := range FieldStores(fn, F) {
				if _, base := FieldOf(st.Addr); base != nil && FromParam(fn.Params[0])(base) {
					stores = append(stores, st)
				}
			}
			okFill := len(stores) > 0 && len(zeroEdges) > 0
			for _, st := range stores {
				if !GuardedBy(fn, st, zeroEdges) || isZero(st.Val) || AnyOrigin(st.Val, IsFieldLoad(F)) {
					okFill = false
				}
			}
			c.Report(okFill, id, "DEFAULT-FILLS-THE-NIL-FIELD", fn, t.If.Pos(), "default for "+F.Name(), "the defaults function gives the field a non-zero value exactly on the edge on which it was found unset (the package uses it without looking again)")
		}
	}
}

func loadAddr(v ssa.Value) ssa.Value {
	if u, ok := v.(*ssa.UnOp); ok && u.Op == token.MUL {
		return u.X
	}
	return nil
}

// confirmedDefaults: number of fields each defaults function fills, as read on the reviewed tree.
var confirmedDefaults = map[string]int{
	"(*components/cqrs.CommandBusConfig).setDefaults":            1,
	"(*components/cqrs.CommandProcessorConfig).setDefaults":      1,
	"(*components/cqrs.EventBusConfig).setDefaults":              1,
	"(*components/cqrs.EventGroupProcessorConfig).setDefaults":   1,
	"(*components/cqrs.EventProcessorConfig).setDefaults":        1,
	"(*components/fanin.Config).setDefaults":                     1,
	"(*components/forwarder.Config).setDefaults":                 2,
	"(*components/forwarder.PublisherConfig).setDefaults":        1,
	"(*components/requeuer.Config).setDefaults":                  1,
	"(*components/requestreply.PubSubBackendConfig).setDefaults": 1,
	"(*message.RouterConfig).setDefaults":                        1,
	"message/router/middleware.applyDefaultsToDeduplicator":      2,
}

// StepFailuresReported: in the named (non-literal) functions of a package that return an error, a step whose error
// result is tested and found non-nil ends in a return that carries a non-nil error: no set-up or publish step fails
// in silence (the caller would take "nothing published", "handler not registered" for success).
func StepFailuresReported(c *Check, id, rel string) {
	n := 0
	for _, fn := range c.P.SrcFuncs(rel) {
		if fn.Parent() != nil {
			continue
		}
		rs := fn.Signature.Results()
		if rs.Len() == 0 || !IsErrorType(rs.At(rs.Len()-1).Type()) {
			continue
		}
		ri := rs.Len() - 1
		for _, cl := range CallsIn(fn) {
			call, isCall := cl.(*ssa.Call)
			if !isCall || call.Parent() != fn {
				continue
			}
			sig := call.Common().Signature()
			nr := sig.Results().Len()
			if nr == 0 || !IsErrorType(sig.Results().At(nr-1).Type()) {
				continue
			}
			_, fail := NilEdges(fn, func(v ssa.Value) bool {
				if nr == 1 {
					return v == ssa.Value(call)
				}
				e, ok := v.(*ssa.Extract)
				return ok && e.Tuple == ssa.Value(call) && e.Index == nr-1
			})
			for _, e := range fail {
				n++
				re := ReachEdge(e, nil)
				okF := true
				for _, ret := range Returns(fn) {
					if !re[ret] || KnownNonNilAt(fn, ret, ret.Results[ri]) {
						continue
					}
					for _, v := range RetOrigins(ret, ri) {
						if !ProvablyNonNil(v, func(x ssa.Value) bool { return KnownNonNilAt(fn, ret, x) }) {
							okF = false
						}
					}
				}
				c.Report(okF, id, "STEP-FAILURE-IS-REPORTED", fn, call.Pos(), "error edge of a step", "when a step fails the function returns a non-nil error (it does not go on, or return, as if the step had succeeded)")
			}
		}
	}
	if fs := c.P.SrcFuncs(rel); len(fs) > 0 {
		c.Report(true, id, "STEP-FAILURES-SCANNED", fs[0], fs[0].Pos(), "package "+rel, fmt.Sprintf("%d tested step errors examined", n))
	}
}
