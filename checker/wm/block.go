package wm

import (
	"go/token"
	"go/types"

	"golang.org/x/tools/go/ssa"
)

// SelCase is one case of a select statement.
type SelCase struct {
	Idx  int
	Send bool
	Chan ssa.Value
	Val  ssa.Value // sent value
	Edge *Edge     // edge taken when this case is chosen (nil if not found)
	Recv ssa.Value // received value (Extract) if used, else nil
}

// SelInfo describes a select instruction.
type SelInfo struct {
	Sel      *ssa.Select
	Cases    []SelCase
	Default  *Edge // edge taken for `default` (non-blocking selects)
	Blocking bool
}

// SelectInfo decomposes a select and locates the CFG edge of every case.
func SelectInfo(sel *ssa.Select) *SelInfo {
	si := &SelInfo{Sel: sel, Blocking: sel.Blocking}
	fn := sel.Parent()
	edges := map[int]Edge{}
	var lastFalse *Edge
	for _, t := range Tests(fn) {
		e, ok := t.X.(*ssa.Extract)
		if !ok || e.Tuple != ssa.Value(sel) || e.Index != 0 || t.Op != token.EQL {
			continue
		}
		if n, ok := IntConst(t.Y); ok {
			edges[int(n)] = t.True
			f := t.False
			lastFalse = &f
		}
	}
	for i, st := range sel.States {
		sc := SelCase{Idx: i, Send: st.Dir == types.SendOnly, Chan: st.Chan, Val: st.Send}
		if e, ok := edges[i]; ok {
			ee := e
			sc.Edge = &ee
		}
		si.Cases = append(si.Cases, sc)
	}
	if !sel.Blocking {
		// the default body follows the last failed index test; when there is a
		// single case the test is `index == 0`
		si.Default = lastFalse
	}
	// the chain of tests for a blocking select ends in a panic block: the
	// last False edge is then dead; nothing to record
	return si
}

// Selects lists the select instructions of fn.
func Selects(fn *ssa.Function) []*SelInfo {
	var out []*SelInfo
	AllInstrs(fn, func(in ssa.Instruction) {
		if s, ok := in.(*ssa.Select); ok {
			out = append(out, SelectInfo(s))
		}
	})
	return out
}

// ChanKind classifies the channel operand of a receive.
type ChanKind struct {
	Kind  string     // "ctx.Done", "time.After", "field", "param", "call", "local", "other"
	Field *types.Var // for Kind == "field"
	Call  *ssa.Call  // for calls
	Val   ssa.Value
}

func ClassifyChan(v ssa.Value) ChanKind {
	o := firstOrigin(v)
	switch x := o.(type) {
	case *ssa.Call:
		switch CalleeName(x) {
		case nCtxDone:
			return ChanKind{Kind: "ctx.Done", Call: x, Val: o}
		case nTimeAfter:
			return ChanKind{Kind: "time.After", Call: x, Val: o}
		}
		return ChanKind{Kind: "call", Call: x, Val: o}
	case *ssa.Parameter:
		return ChanKind{Kind: "param", Val: o}
	case *ssa.MakeChan:
		return ChanKind{Kind: "local", Val: o}
	}
	if f := LoadedField(o); f != nil {
		// timer.C of a timer made by time.NewTimer(d) is time.After(d) with a handle to stop it
		if f.Name() == "C" && f.Pkg() != nil && f.Pkg().Path() == "time" {
			if u, ok := o.(*ssa.UnOp); ok {
				if _, base := FieldOf(u.X); base != nil {
					if call, isCall := firstOrigin(base).(*ssa.Call); isCall && CalleeName(call) == "time.NewTimer" {
						return ChanKind{Kind: "time.After", Call: call, Val: o}
					}
				}
			}
		}
		return ChanKind{Kind: "field", Field: f, Val: o}
	}
	return ChanKind{Kind: "other", Val: o}
}

// BlockOp is a potentially unbounded blocking operation.
type BlockOp struct {
	Ins  ssa.Instruction
	Kind string // "send", "recv", "select", "wg.Wait", "lock", "cond.Wait", "sleep"
	Sel  *SelInfo
	Chan ssa.Value
}

// BlockingOps enumerates the potentially blocking operations of fn (not of
// nested closures).
func BlockingOps(fn *ssa.Function) []BlockOp {
	var out []BlockOp
	AllInstrs(fn, func(in ssa.Instruction) {
		switch x := in.(type) {
		case *ssa.Send:
			out = append(out, BlockOp{Ins: in, Kind: "send", Chan: x.Chan})
		case *ssa.UnOp:
			if x.Op == token.ARROW {
				out = append(out, BlockOp{Ins: in, Kind: "recv", Chan: x.X})
			}
		case *ssa.Select:
			if x.Blocking {
				out = append(out, BlockOp{Ins: in, Kind: "select", Sel: SelectInfo(x)})
			}
		case *ssa.Call:
			switch CalleeName(x) {
			case nWGWait:
				out = append(out, BlockOp{Ins: in, Kind: "wg.Wait"})
			case nMutexLock, nRWLock, nRWRLock:
				out = append(out, BlockOp{Ins: in, Kind: "lock"})
			case "(*sync.Cond).Wait":
				out = append(out, BlockOp{Ins: in, Kind: "cond.Wait"})
			case "time.Sleep":
				out = append(out, BlockOp{Ins: in, Kind: "sleep"})
			}
		}
	})
	return out
}

// SendSites lists the sends on channels satisfying isChan in fn: Send
// instructions and send cases of selects.
type SendSite struct {
	Ins  ssa.Instruction // the Send or the Select
	Val  ssa.Value
	Sel  *SelInfo
	Case *SelCase
}

func SendSites(fn *ssa.Function, isChan func(ssa.Value) bool) []SendSite {
	var out []SendSite
	AllInstrs(fn, func(in ssa.Instruction) {
		switch x := in.(type) {
		case *ssa.Send:
			if isChan(x.Chan) {
				out = append(out, SendSite{Ins: in, Val: x.X})
			}
		case *ssa.Select:
			si := SelectInfo(x)
			for i := range si.Cases {
				if si.Cases[i].Send && isChan(si.Cases[i].Chan) {
					out = append(out, SendSite{Ins: in, Val: si.Cases[i].Val, Sel: si, Case: &si.Cases[i]})
				}
			}
		}
	})
	return out
}

// CloseSites lists close(x) calls in fn with isChan(x), including deferred ones.
func CloseSites(fn *ssa.Function, isChan func(ssa.Value) bool) []ssa.CallInstruction {
	var out []ssa.CallInstruction
	for _, c := range BuiltinCalls(fn, "close") {
		if isChan(c.Common().Args[0]) {
			out = append(out, c)
		}
	}
	return out
}
