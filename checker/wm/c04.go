package wm

import (
	"fmt"
	"go/token"
	"go/types"

	"golang.org/x/tools/go/ssa"
)

func init() {
	register(&PropDef{
		ID:  "C04",
		Run: runC04,
		Explanation: "Decides for GoChannel: the value sent to a subscriber is Copy() of the deliver function's message taken anew before every send, with SetContext(WithCancel(subscription ctx)) and the cancel deferred; after an Ack no further send is reachable, after a Nack the send is reached again unless the subscription is closed; the fan-out visits every element of a full-length copy of the topic's subscriber list exactly once; every index into the subscriber and persisted maps is the topic parameter; " +
			"what Publish hands on / persists are copies of the caller's messages, index by index; registrations happen under the subscribers write lock and Publish looks subscribers up under the read lock; Message.Copy copies UUID, payload and every metadata entry into a fresh map. " +
			"Not decided: that spawned goroutines are scheduled (liveness), ordering between messages.",
		Assumptions: commonAssumptions,
	})
}

func runC04(c *Check) {
	if r := c.gochannelRoles("C04"); r != nil {
		c04HandsOff(c, "C04.O1", r)
	}
	r := c.gochannelRoles("C04")
	if r == nil {
		return
	}
	c04FreshCopy(c, "C04", r)
	c04Resend(c, "C04", r)
	c04Fanout(c, "C04", r)
	c04TopicKey(c, "C04", r)
	c04PublishCopies(c, "C04", r)
	c04Register(c, "C04", r)
	c11PublishSection(c, "C04.O6", r)
	c07TeardownOrder(c, "C04.O6", r)
	c16Copy(c, "C04.O7")
	c16Metadata(c, "C04.O7")
	c04NoMessageWrites(c, "C04.O7", r)
	c04NoSharedWrites(c, "C04.O7", r)
	gcSafety(c, "C04", r)
}

// the sent copies
func (r *GCRoles) copyOf(v ssa.Value) *ssa.Call {
	call, ok := firstOrigin(v).(*ssa.Call)
	if !ok || CalleeName(call) != nCopy {
		return nil
	}
	return call
}

func c04FreshCopy(c *Check, P string, r *GCRoles) {
	D := r.Deliver
	if !c.Floor(P+".O1", "send sites on the output channel", len(r.Sends), 1) {
		return
	}
	for i, s := range r.Sends {
		k := fmt.Sprintf("send#%d", i)
		cp := r.copyOf(s.Val)
		okCopy := cp != nil && FromParam(r.DeliverMsg)(Receiver(cp))
		c.Report(okCopy, P+".O1", "FRESH-COPY", D, s.Ins.Pos(), k, "the value sent to the subscriber is Copy() of the message to deliver (never the original, never a shared copy)")
		if !okCopy {
			continue
		}
		fresh := Dominates(D, cp, s.Ins)
		if InLoop(s.Ins) {
			fresh = fresh && !ReachWithout(s.Ins, s.Ins, cp)
		}
		c.Report(fresh, P+".O1", "COPY-PER-ATTEMPT", D, cp.Pos(), k, "a new copy is made before every (re)send, so a redelivery never reuses a settled or edited copy")
		// context
		var setc []ssa.CallInstruction
		for _, sc := range CallsTo(D, nSetContext) {
			if sameValue(Receiver(sc), cp) || Receiver(sc) == ssa.Value(cp) {
				setc = append(setc, sc)
			}
		}
		if !c.Floor(P+".O1", "SetContext on the copy", len(setc), 1) {
			continue
		}
		for _, sc := range setc {
			e, ok := firstOrigin(Arg(sc, 0)).(*ssa.Extract)
			var wc *ssa.Call
			if ok && e.Index == 0 {
				wc, _ = e.Tuple.(*ssa.Call)
			}
			okCtx := wc != nil && CalleeName(wc) == nWithCancel && AllOrigins(wc.Call.Args[0], IsFieldLoad(r.SCtx))
			c.Report(okCtx, P+".O1", "COPY-CONTEXT", D, sc.Pos(), k, "the copy's context is WithCancel(<the Subscribe context>)")
			c.Report(!ReachWithout(cp, s.Ins, sc), P+".O1", "CONTEXT-BEFORE-SEND", D, sc.Pos(), k, "the context is set on every path from the copy to the send")
			if !okCtx {
				continue
			}
			// cancel: deferred, never called directly before the send
			nDefer, nDirect := 0, 0
			for _, cl := range CallsIn(D) {
				isCancel := AllOrigins(cl.Common().Value, func(v ssa.Value) bool {
					x, ok := v.(*ssa.Extract)
					return ok && x.Tuple == ssa.Value(wc) && x.Index == 1
				})
				if !isCancel {
					continue
				}
				if _, isDefer := cl.(*ssa.Defer); isDefer {
					nDefer++
				} else {
					nDirect++
				}
			}
			c.Report(nDefer >= 1 && nDirect == 0, P+".O1", "CONTEXT-CANCELLED-AFTER", D, wc.Pos(), k, "the delivery context is cancelled when the deliver function returns (after Ack / close), not before: live on receipt, cancelled after the Ack")
		}
	}
}

// settle-wait selects of the deliver function: selects receiving from Acked()/Nacked() of a sent copy.
type settleWait struct {
	si            *SelInfo
	acked, nacked *Edge
}

func (r *GCRoles) settleWaits() []settleWait {
	var out []settleWait
	for _, si := range Selects(r.Deliver) {
		var sw settleWait
		sw.si = si
		for _, cs := range si.Cases {
			if cs.Send {
				continue
			}
			call, ok := firstOrigin(cs.Chan).(*ssa.Call)
			if !ok {
				continue
			}
			isCopy := false
			for _, s := range r.Sends {
				if cp := r.copyOf(s.Val); cp != nil && (Receiver(call) == ssa.Value(cp) || sameValue(Receiver(call), cp)) {
					isCopy = true
				}
			}
			if !isCopy {
				continue
			}
			switch CalleeName(call) {
			case nAcked:
				sw.acked = cs.Edge
			case nNacked:
				sw.nacked = cs.Edge
			}
		}
		if sw.acked != nil || sw.nacked != nil {
			out = append(out, sw)
		}
	}
	return out
}

func c04Resend(c *Check, P string, r *GCRoles) {
	D := r.Deliver
	sws := r.settleWaits()
	if !c.Floor(P+".O2", "select waiting for Acked()/Nacked() of the sent copy", len(sws), 1) {
		return
	}
	closedTrue, _ := BoolEdges(D, func(v ssa.Value) bool { return AllOrigins(v, IsFieldLoad(r.SClosed)) })
	var sendIns []ssa.Instruction
	for _, s := range r.Sends {
		sendIns = append(sendIns, s.Ins)
	}
	for i, sw := range sws {
		k := fmt.Sprintf("settle-wait#%d", i)
		if !c.Report(sw.acked != nil && sw.nacked != nil && sw.si.Blocking, P+".O2", "SETTLE-WAIT-SHAPE", D, sw.si.Sel.Pos(), k, "the wait is a blocking select with a case for Acked() and one for Nacked() of the copy that was sent") {
			continue
		}
		re := ReachEdge(*sw.acked, nil)
		bad := false
		for _, s := range sendIns {
			if re[s] {
				bad = true
			}
		}
		c.Report(!bad, P+".O2", "NO-RESEND-AFTER-ACK", D, sw.si.Sel.Pos(), k, "after an Ack no further send to this subscription is reachable (a message is seen again only after a Nack)")
		// nack: the send is reached again, except on subscription-closed exits
		rn := ReachEdge(*sw.nacked, nil)
		reach := false
		for _, s := range sendIns {
			if rn[s] {
				reach = true
			}
		}
		c.Report(reach, P+".O2", "RESEND-AFTER-NACK", D, sw.si.Sel.Pos(), k, "after a Nack the send is reachable again")
		cut := NewCut().AddInstrs(sendIns...)
		rn2 := ReachEdge(*sw.nacked, cut)
		ok := true
		var wit []string
		// "closed": the closed flag found set, or the subscription's closing signal found raised
		closedOrClosing := append([]Edge{}, closedTrue...)
		for _, si := range Selects(D) {
			for _, cs := range si.Cases {
				if !cs.Send && cs.Edge != nil && AllOrigins(cs.Chan, IsFieldLoad(r.SClosing)) {
					closedOrClosing = append(closedOrClosing, *cs.Edge)
				}
			}
		}
		for _, ret := range Returns(D) {
			if rn2[ret] && !GuardedBy(D, ret, closedOrClosing) {
				ok = false
				wit = append(wit, "return at "+c.P.Pos(ret.Pos())+" reachable from the Nack case without resending and without the subscription being closed")
			}
		}
		c.Report(ok, P+".O2", "RESEND-UNLESS-CLOSED", D, sw.si.Sel.Pos(), k, "from the Nack case every path to the function's exit passes the send again, the subscription-closed check or a case on the subscription's closing signal", wit...)
		// … and only then: no other case of the wait (a timer, a default) leads back to the send
		rs := ReachAfter(sw.si.Sel, NewCut().AddEdges(*sw.nacked))
		again := false
		for _, s2 := range sendIns {
			if rs[s2] {
				again = true
			}
		}
		c.Report(!again, P+".O2", "RESEND-ONLY-AFTER-NACK", D, sw.si.Sel.Pos(), k, "the message is sent again only through the Nack case of the wait (any other way back to the send delivers an unsettled message twice)")
		// the wait is entered only after the copy was really handed over
		for _, s2 := range r.Sends {
			if s2.Sel == nil {
				continue
			}
			var sentEdge *Edge
			for _, cs := range s2.Sel.Cases {
				if cs.Send && cs.Edge != nil {
					sentEdge = cs.Edge
				}
			}
			if sentEdge != nil {
				rw := ReachAfter(s2.Sel.Sel, NewCut().AddEdges(*sentEdge))
				c.Report(!rw[sw.si.Sel], P+".O2", "WAIT-ONLY-AFTER-SENT", D, s2.Ins.Pos(), k, "the wait for the settlement is reached only through the case in which the copy was sent (waiting for the ack of a copy nobody received holds the subscription's mutex forever)")
			}
		}
	}
	c05DeliverUntilSettled(c, P+".O2", r)
}

func c04Fanout(c *Check, P string, r *GCRoles) {
	F := r.Fan
	// the deliver calls in F's literals
	var dcalls []ssa.CallInstruction
	for _, f := range WithStarted(F) {
		for _, cl := range CallsIn(f) {
			if CalleeFn(cl.Common()) == r.Deliver {
				dcalls = append(dcalls, cl)
			}
		}
	}
	if !c.Floor(P+".O3", "deliver call in the fan-out function", len(dcalls), 1) {
		return
	}
	lookups := Callers([]*ssa.Function{F}, r.LookupSubs)
	if !c.Floor(P+".O3", "subscriber lookup in the fan-out function", len(lookups), 1) {
		return
	}
	fmsg := ParamsOfType(F, tMessagePtr)
	for i, dc := range dcalls {
		k := fmt.Sprintf("deliver call#%d", i)
		// receiver: element of the looked-up slice in a full range loop
		recv := firstOrigin(Receiver(dc))
		okElem := false
		var goSite ssa.Instruction
		if u, ok := recv.(*ssa.UnOp); ok && u.Op == token.MUL {
			if ia, ok := u.X.(*ssa.IndexAddr); ok {
				okElem = IsFullRangeIndex(ia.Index, ia.X) && AllOrigins(ia.X, ResultOfAny(lookups, 0))
			}
		}
		c.Report(okElem, P+".O3", "FANOUT-ALL", dc.Parent(), dc.Pos(), k, "the deliver call's subscription is the loop element of a full range over the looked-up subscriber list (no subscriber skipped)")
		c.Report(len(fmsg) == 1 && AllOrigins(Arg(dc, 0), IsParam(fmsg[0])), P+".O3", "FANOUT-SAME-MESSAGE", dc.Parent(), dc.Pos(), k, "every subscriber gets the message being published")
		// the literal containing dc is started once per iteration by a `go`
		lit := dc.Parent()
		if ms := ClosureSites(lit); len(ms) == 1 {
			for _, ref := range *ms[0].Referrers() {
				if g, ok := ref.(*ssa.Go); ok {
					goSite = g
				}
			}
		}
		if goSite == nil {
			// a private named method started with `go` at its only call site
			if g, ok := OnlySite(lit).(*ssa.Go); ok {
				goSite = g
			}
		}
		okOnce := goSite != nil && InLoop(goSite) && !InLoop(dc) && len(dcalls) == 1
		c.Report(okOnce, P+".O3", "FANOUT-ONCE", dc.Parent(), dc.Pos(), k, "one deliver goroutine per subscriber and message")
		if goSite != nil {
			// no break/continue that skips the go: from the loop's index increment the next increment is reached only through the go
			var inc ssa.Instruction
			if u, ok := recv.(*ssa.UnOp); ok {
				if ia, ok := u.X.(*ssa.IndexAddr); ok {
					inc, _ = ia.Index.(ssa.Instruction)
				}
			}
			if inc != nil && inc.Parent() == goSite.Parent() {
				c.Report(!ReachWithout(inc, inc, goSite), P+".O3", "FANOUT-NO-SKIP", goSite.Parent(), goSite.Pos(), k, "every iteration of the subscriber loop starts the deliver goroutine")
			}
		}
	}
	// the loop that starts the deliver goroutines does not block: one subscriber cannot hold up the delivery to the others
	for _, f := range WithStarted(F) {
		for i, op := range BlockingOps(f) {
			if InLoop(op.Ins) && op.Kind != "lock" {
				isFan := false
				for _, dc := range dcalls {
					if g, ok := OnlySite(dc.Parent()).(*ssa.Go); ok && g.Parent() == f {
						isFan = true
					}
					if ms := ClosureSites(dc.Parent()); len(ms) == 1 && ms[0].Parent() == f {
						isFan = true
					}
				}
				if isFan {
					c.Report(false, P+".O3", "FANOUT-NEVER-WAITS", f, op.Ins.Pos(), fmt.Sprintf("op#%d (%s) in the subscriber loop", i, op.Kind), "the loop that starts one deliver goroutine per subscriber contains no channel operation or wait (a slow subscriber must not delay or starve the others)")
				}
			}
		}
	}
	c04LookupCopy(c, P+".O3", r)
}

// c04LookupCopy: the subscriber lookup returns a full-length copy (or the live
// list is only iterated under the subscribers lock). Shared with C07 and C11.
func c04LookupCopy(c *Check, id string, r *GCRoles) {
	F := r.Fan
	lookups := Callers([]*ssa.Function{F}, r.LookupSubs)
	// the lookup returns a full-length copy of the topic's subscriber list
	L := r.LookupSubs
	var lk *ssa.Lookup
	AllInstrs(L, func(in ssa.Instruction) {
		if x, ok := in.(*ssa.Lookup); ok && r.isSubs(x.X) {
			lk = x
		}
	})
	if c.Floor(id, "map lookup in the subscriber lookup function", b2i(lk != nil), 1) {
		isList := func(v ssa.Value) bool {
			return AllOrigins(v, func(o ssa.Value) bool {
				if o == ssa.Value(lk) {
					return true
				}
				e, ok := o.(*ssa.Extract)
				return ok && e.Tuple == ssa.Value(lk) && e.Index == 0
			})
		}
		for ret, vals := range ReturnValues(L, 0) {
			for _, v := range vals {
				if _, isC := v.(*ssa.Const); !isC {
					if _, fresh := FreshCopyOf(v, isList); fresh {
						c.Report(true, id, "LOOKUP-FULL-COPY", L, ret.Pos(), "return copy", "the returned list is a full-length copy of the topic's subscriber list")
						continue
					}
				}
				switch x := v.(type) {
				case *ssa.Const:
					// nil: only when the topic has no entry
					var notFound []Edge
					for _, t := range Tests(L) {
						if e, ok := t.X.(*ssa.Extract); ok && t.Op == token.ILLEGAL && e.Tuple == ssa.Value(lk) && e.Index == 1 {
							notFound = append(notFound, t.False)
						}
					}
					c.Report(x.IsNil() && GuardedBy(L, ret, notFound), id, "LOOKUP-NIL-ONLY-IF-ABSENT", L, ret.Pos(), "return nil", "no subscribers are reported only when the topic has no entry")
				case *ssa.MakeSlice:
					args, ok := IsBuiltinCall(x.Len, "len")
					okLen := ok && isList(args[0])
					okCopy := false
					for _, cp := range BuiltinCalls(L, "copy") {
						if cp.Common().Args[0] == ssa.Value(x) && isList(cp.Common().Args[1]) && Dominates(L, cp, ret) {
							okCopy = true
						}
					}
					c.Report(okLen && okCopy, id, "LOOKUP-FULL-COPY", L, ret.Pos(), "return copy", "the returned list is a full-length copy of the topic's subscriber list")
				default:
					// the live list may be handed out only if every iteration over it happens under the subscribers lock;
					// the fan-out iterates in a goroutine after Publish released it, so a copy is required
					underLock := isList(v)
					for _, f := range WithStarted(F) {
						AllInstrs(f, func(in ssa.Instruction) {
							if ia, ok := in.(*ssa.IndexAddr); ok && AllOrigins(ia.X, ResultOfAny(lookups, 0)) {
								if _, held := r.LA.Held(in)[r.idSubs]; !held {
									underLock = false
								}
							}
						})
					}
					c.Report(underLock, id, "LOOKUP-FULL-COPY", L, ret.Pos(), "return list", "the lookup hands out the live subscriber list, but the fan-out iterates over it outside the subscribers lock (a concurrent unsubscribe shifts the elements): a full-length copy is required")
				}
			}
		}
	}
}

func c04TopicKey(c *Check, P string, r *GCRoles) {
	n := 0
	for _, fn := range r.Funcs {
		AllInstrs(fn, func(in ssa.Instruction) {
			var key ssa.Value
			what := ""
			switch x := in.(type) {
			case *ssa.Lookup:
				if r.isSubs(x.X) {
					key, what = x.Index, "subscriber map lookup"
				} else if r.isPers(x.X) {
					key, what = x.Index, "persisted map lookup"
				}
			case *ssa.MapUpdate:
				if r.isSubs(x.Map) {
					key, what = x.Key, "subscriber map update"
				} else if r.isPers(x.Map) {
					key, what = x.Key, "persisted map update"
				}
			}
			if key == nil {
				return
			}
			n++
			c.Report(r.topicOrigin(key, 3), P+".O4", "TOPIC-KEY", fn, in.Pos(), what, "the map is indexed with the topic the caller named (no delivery to, or replay from, another topic)")
		})
	}
	c.Floor(P+".O4", "indexings of the subscriber / persisted maps", n, 8)
	// the fan-out and the lookup are called with the topic
	for _, cl := range Callers(r.Funcs, r.Fan) {
		c.Report(r.topicOrigin(cl.Common().Args[1], 3), P+".O4", "TOPIC-KEY", cl.Parent(), cl.Pos(), "fan-out call", "the fan-out is started for the published topic")
	}
}

func c04PublishCopies(c *Check, P string, r *GCRoles) {
	Pub := r.Publish
	msgs := Pub.Params[2]
	// a copy of a caller's message: Copy() on an element of the messages parameter
	isCopyOfCallerMsg := func(v ssa.Value) (bool, ssa.Value) {
		cp, ok := firstOrigin(v).(*ssa.Call)
		if !ok || CalleeName(cp) != nCopy {
			return false, nil
		}
		if u, ok := firstOrigin(Receiver(cp)).(*ssa.UnOp); ok && u.Op == token.MUL {
			if sa, ok := u.X.(*ssa.IndexAddr); ok && FromParam(msgs)(sa.X) && IsFullRangeIndex(sa.Index, sa.X) {
				return true, sa.Index
			}
		}
		return false, nil
	}
	// the local slice of copies: either make(len(messages)) filled by index (today's shape) …
	var local *ssa.MakeSlice
	AllInstrs(Pub, func(in ssa.Instruction) {
		if ms, ok := in.(*ssa.MakeSlice); ok && ms.Type().Underlying().String() == "[]"+tMessagePtr {
			if n, isC := IntConst(ms.Len); !isC || n != 0 {
				local = ms
			}
		}
	})
	// … or an empty slice extended by append(copies, msg.Copy()) in a full range over the messages
	builtByAppend := func(v ssa.Value) bool {
		if _, isMake := firstOrigin(v).(*ssa.MakeSlice); isMake && len(Origins(v)) == 1 {
			return false
		}
		okAll := true
		nApp := 0
		ok := sliceBuiltFrom(v, func(e ssa.Value) bool {
			okC, idx := isCopyOfCallerMsg(e)
			if !okC {
				return false
			}
			nApp++
			_ = idx
			return true
		})
		if !ok || nApp == 0 {
			return false
		}
		// every iteration of the range over messages appends (none skipped)
		AllInstrs(Pub, func(in ssa.Instruction) {
			call, isCall := in.(*ssa.Call)
			if !isCall {
				return
			}
			args, isApp := IsBuiltinCall(call, "append")
			if !isApp || len(args) != 2 {
				return
			}
			for _, e := range VariadicElems(args[1]) {
				if okC, idx := isCopyOfCallerMsg(e); okC {
					if inc, isIns := idx.(ssa.Instruction); isIns && ReachWithout(inc, inc, call) {
						okAll = false
					}
				}
			}
		})
		return okAll
	}
	isLocal := func(v ssa.Value) bool {
		if local != nil && AllOrigins(v, func(o ssa.Value) bool { return o == ssa.Value(local) }) {
			return true
		}
		return builtByAppend(v)
	}
	if local != nil {
		args, ok := IsBuiltinCall(local.Len, "len")
		c.Report(ok && FromParam(msgs)(args[0]), P+".O5", "COPIES-LENGTH", Pub, local.Pos(), "copies slice", "as many copies as messages given")
		nst := 0
		AllInstrs(Pub, func(in ssa.Instruction) {
			st, ok := in.(*ssa.Store)
			if !ok {
				return
			}
			ia, ok := st.Addr.(*ssa.IndexAddr)
			if !ok || !AllOrigins(ia.X, func(o ssa.Value) bool { return o == ssa.Value(local) }) {
				return
			}
			nst++
			okC, idx := isCopyOfCallerMsg(st.Val)
			c.Report(okC && idx == ia.Index, P+".O5", "COPIES-ELEMENT", Pub, st.Pos(), "copies[i]", "element i of the copies is Copy() of the caller's message i (full range)")
		})
		c.Floor(P+".O5", "stores into the copies slice", nst, 1)
	}
	isCopyElem := func(v ssa.Value) bool {
		if ok, _ := isCopyOfCallerMsg(v); ok {
			return true
		}
		if u, ok := firstOrigin(v).(*ssa.UnOp); ok && u.Op == token.MUL {
			if ia, ok := u.X.(*ssa.IndexAddr); ok {
				return isLocal(ia.X) && IsFullRangeIndex(ia.Index, ia.X)
			}
		}
		return false
	}
	fans := Callers([]*ssa.Function{Pub}, r.Fan)
	c.Floor(P+".O5", "fan-out calls in Publish", len(fans), 1)
	for i, cl := range fans {
		c.Report(isCopyElem(cl.Common().Args[2]), P+".O5", "PUBLISH-COPIES", Pub, cl.Pos(), fmt.Sprintf("fan-out call#%d", i), "what is handed to the subscribers is a copy of the caller's message, for every index (the publisher's original is never shared)")
		// the whole batch: after the fan-out of one message, success is reported only once the loop has moved on to the
		// next message (and finally left the loop) — not from inside the loop body
		if InLoop(cl) {
			var incs []ssa.Instruction
			AllInstrs(Pub, func(in ssa.Instruction) {
				if ia, ok := in.(*ssa.IndexAddr); ok && IsFullRangeIndex(ia.Index, ia.X) {
					if inc, isIns := ia.Index.(ssa.Instruction); isIns && ReachAfter(inc, nil)[cl] && ReachAfter(cl, nil)[inc] {
						incs = append(incs, inc)
					}
				}
			})
			okAll := len(incs) > 0
			re := ReachAfter(cl, NewCut().AddInstrs(incs...))
			for _, ret := range Returns(Pub) {
				if re[ret] && RetNil(ret, 0) {
					okAll = false
				}
			}
			c.Report(okAll, P+".O5", "PUBLISH-WHOLE-BATCH", Pub, cl.Pos(), fmt.Sprintf("fan-out call#%d", i), "Publish reports success only after every message of the batch went through the fan-out (no successful return from inside the per-message loop)")
			// … and not before the loop either: success is reported only on the loop's exhausted edge
			var done []Edge
			for _, t := range Tests(Pub) {
				for _, inc := range incs {
					if t.Op == token.LSS && t.X == inc.(ssa.Value) {
						done = append(done, t.False)
					}
				}
			}
			for j, ret := range Returns(Pub) {
				if RetNil(ret, 0) {
					c.Report(len(done) > 0 && GuardedBy(Pub, ret, done), P+".O5", "PUBLISH-SUCCESS-ONLY-AFTER-THE-LOOP", Pub, ret.Pos(), fmt.Sprintf("Publish return#%d", j), "every successful return of Publish lies behind the exhausted edge of the per-message loop (no shortcut for 'nothing to do' cases: they would bypass persisting, locking or the fan-out)")
				}
			}
		}
	}
	nper := 0
	AllInstrs(Pub, func(in ssa.Instruction) {
		mu, ok := in.(*ssa.MapUpdate)
		if !ok || !r.isPers(mu.Map) {
			return
		}
		v := firstOrigin(mu.Value)
		if _, isMake := v.(*ssa.MakeSlice); isMake {
			return // initialisation of the topic's log
		}
		if sl, isSl := v.(*ssa.Slice); isSl {
			if _, fresh := sl.X.(*ssa.Alloc); fresh {
				return // make([]T, 0): initialisation of the topic's log
			}
		}
		nper++
		call, isCall := v.(*ssa.Call)
		okP := false
		if isCall {
			if args, isApp := IsBuiltinCall(call, "append"); isApp && len(args) == 2 {
				lk, isLk := firstOrigin(args[0]).(*ssa.Lookup)
				okBase := isLk && r.isPers(lk.X) && sameValue(lk.Index, mu.Key)
				okEl := isLocal(args[1])
				if !okEl {
					els := VariadicElems(args[1])
					okEl = len(els) > 0
					for _, e := range els {
						if !isCopyElem(e) {
							okEl = false
						}
					}
				}
				okP = okBase && okEl
			}
		}
		c.Report(okP, P+".O5", "PERSIST-COPIES", Pub, in.Pos(), "persisted append", "the persisted log is extended with exactly the copies of this batch (never the caller's objects)")
	})
	c.Floor(P+".O5", "append to the persisted log in Publish", nper, 1)
}

func c04Register(c *Check, P string, r *GCRoles) {
	sites := Callers(r.Funcs, r.AddSub)
	if !c.Floor(P+".O6", "registration call sites (non-persistent, persistent)", len(sites), 2) {
		return
	}
	for i, s := range sites {
		held := r.LA.Held(s)
		ok := held[r.idSubs] == 'W'
		c.Report(ok, P+".O6", "REGISTER-UNDER-WRITE-LOCK", s.Parent(), s.Pos(), fmt.Sprintf("registration#%d", i), "a subscription is added to the map with the subscribers write lock held", "held: "+held.String())
		_, hasTopic := held[r.idTopic]
		c.Report(hasTopic, P+".O6", "REGISTER-UNDER-TOPIC-LOCK", s.Parent(), s.Pos(), fmt.Sprintf("registration#%d", i), "… and with the topic's mutex held", "held: "+held.String())
	}
	c11Handoff(c, P+".O6", r)
	// the registration appends the subscription to its topic's list
	A := r.AddSub
	var subP *ssa.Parameter
	for _, p := range A.Params {
		if NamedOf(p.Type()) == r.S {
			subP = p
		}
	}
	nApp := 0
	AllInstrs(A, func(in ssa.Instruction) {
		mu, ok := in.(*ssa.MapUpdate)
		if !ok || !r.isSubs(mu.Map) {
			return
		}
		call, isCall := firstOrigin(mu.Value).(*ssa.Call)
		if !isCall {
			return
		}
		args, isApp := IsBuiltinCall(call, "append")
		if !isApp || len(args) != 2 {
			return
		}
		nApp++
		lk, isLk := firstOrigin(args[0]).(*ssa.Lookup)
		els := VariadicElems(args[1])
		ok2 := isLk && r.isSubs(lk.X) && sameValue(lk.Index, mu.Key) && len(els) == 1 && subP != nil && FromParam(subP)(els[0])
		c.Report(ok2, P+".O6", "REGISTER-APPENDS", A, in.Pos(), "registration", "the subscription is appended to its own topic's list (existing subscriptions are kept)")
		for _, ret := range Returns(A) {
			c.Report(Dominates(A, in, ret), P+".O6", "REGISTER-ALWAYS", A, in.Pos(), "registration", "every path of the registration function adds the subscription")
		}
	})
	c.Floor(P+".O6", "append of the subscription to the subscriber map", nApp, 1)
	// the subscription carries the Subscribe context and a channel with the configured buffer
	okCtx, okBuf := false, false
	for _, st := range FieldStores(r.Subscribe, r.SCtx) {
		if AllOrigins(st.Val, func(o ssa.Value) bool {
			p, ok := o.(*ssa.Parameter)
			return ok && p.Parent() == r.Subscribe && p.Type().String() == "context.Context"
		}) {
			okCtx = true
		}
	}
	for _, st := range FieldStores(r.Subscribe, r.SOut) {
		if mc, ok := firstOrigin(st.Val).(*ssa.MakeChan); ok && AllOrigins(mc.Size, exportedFieldLoad("OutputChannelBuffer")) {
			okBuf = true
		} else if ok {
			if cv, isCv := mc.Size.(*ssa.Convert); isCv && AllOrigins(cv.X, exportedFieldLoad("OutputChannelBuffer")) {
				okBuf = true
			}
		}
	}
	c.Report(okCtx, P+".O1", "SUBSCRIPTION-CONTEXT", r.Subscribe, r.Subscribe.Pos(), "subscription ctx", "the subscription keeps the context given to Subscribe (delivery contexts derive from it)")
	c.Report(okBuf, P+".O6", "SUBSCRIPTION-CHANNEL", r.Subscribe, r.Subscribe.Pos(), "subscription channel", "the output channel is made with the configured buffer size")
	for i, cl := range Callers([]*ssa.Function{r.Publish}, r.Fan) {
		held := r.LA.Held(cl)
		_, ok := held[r.idSubs]
		c.Report(ok, P+".O6", "PUBLISH-UNDER-READ-LOCK", r.Publish, cl.Pos(), fmt.Sprintf("fan-out call#%d", i), "Publish looks subscribers up with the subscribers lock held (a Publish that starts after Subscribe returned sees the subscription)", "held: "+held.String())
	}
	// Subscribe returns the subscription's output channel
	for ret, vals := range ReturnValues(r.Subscribe, 0) {
		for _, v := range vals {
			if IsNilConst(v) {
				continue
			}
			c.Report(LoadedField(v) == r.SOut, P+".O6", "SUBSCRIBE-RETURNS-OUTPUT", r.Subscribe, ret.Pos(), "return", "Subscribe returns the new subscription's output channel")
		}
	}
}

// c04NoMessageWrites: GoChannel never writes the UUID, payload or metadata of a
// message (neither the publisher's nor its copies): what arrives is identical to
// what was published.
func c04NoMessageWrites(c *Check, id string, r *GCRoles) {
	n := 0
	for _, fn := range r.Funcs {
		AllInstrs(fn, func(in ssa.Instruction) {
			switch x := in.(type) {
			case *ssa.Store:
				if f, _ := FieldOf(x.Addr); f != nil && ownerName(f) == "message.Message" {
					c.Report(false, id, "MESSAGE-CONTENT-UNTOUCHED", fn, in.Pos(), "store to Message."+f.Name(), "the Pub/Sub assigns a field of a message: deliveries are no longer identical to what was published")
				}
			case ssa.CallInstruction:
				if IsCallTo(x, nMetaSet) {
					c.Report(false, id, "MESSAGE-CONTENT-UNTOUCHED", fn, in.Pos(), "Metadata.Set", "the Pub/Sub edits message metadata")
				}
			case *ssa.MapUpdate:
				if f := LoadedField(firstOrigin(x.Map)); f != nil && ownerName(f) == "message.Message" {
					c.Report(false, id, "MESSAGE-CONTENT-UNTOUCHED", fn, in.Pos(), "metadata map update", "the Pub/Sub edits message metadata")
				}
			}
		})
		n++
	}
	c.Report(true, id, "MESSAGE-CONTENT-SCANNED", r.Publish, r.Publish.Pos(), "package scan", fmt.Sprintf("%d functions of the Pub/Sub scanned for writes to message content", n))
}

// c04NoSharedWrites: the deliver function runs once per subscriber, concurrently,
// on arguments shared between those goroutines (the message, the log fields):
// it must not write through them.
// c04HandsOff: once a copy was handed to the subscriber it belongs to the subscriber (which may edit it at once): after
// the send the deliver function touches it only to wait for its settlement. And the Pub/Sub never settles a message
// itself — neither a delivered copy nor the publisher's original.
func c04HandsOff(c *Check, id string, r *GCRoles) {
	D := r.Deliver
	for i, s := range r.Sends {
		if s.Case == nil || s.Case.Edge == nil {
			continue
		}
		sent := s.Val
		isSent := func(v ssa.Value) bool { return v == sent || sameValue(v, sent) }
		// (until the next copy is made: in a resend loop the same variable then names a new object)
		cut := NewCut()
		if cp := r.copyOf(s.Val); cp != nil {
			cut.AddInstrs(cp)
		}
		re := ReachEdge(*s.Case.Edge, cut)
		ok := true
		var wit []string
		for _, f := range WithAnon(D) {
			AllInstrs(f, func(in ssa.Instruction) {
				if f == D && !re[in] {
					return
				}
				switch x := in.(type) {
				case *ssa.FieldAddr:
					if isSent(x.X) {
						ok = false
						fld, _ := FieldOf(x)
						name := "?"
						if fld != nil {
							name = fld.Name()
						}
						wit = append(wit, "field "+name+" of the sent copy is accessed at "+c.P.Pos(x.Pos()))
					}
				case ssa.CallInstruction:
					if f != D {
						return
					}
					cc := x.Common()
					if cc.IsInvoke() || len(cc.Args) == 0 || !isSent(cc.Args[0]) {
						return
					}
					switch CalleeName(x) {
					case nAcked, nNacked:
					default:
						ok = false
						wit = append(wit, CalleeName(x)+" is called on the sent copy at "+c.P.Pos(x.Pos()))
					}
				}
			})
		}
		c.Report(ok, id, "HANDS-OFF-AFTER-SEND", D, s.Ins.Pos(), fmt.Sprintf("send#%d", i), "after the send the deliver function only waits for the copy's Acked()/Nacked(): it reads no field of it and calls nothing else on it (the subscriber owns it and may be editing it)", wit...)
	}
	n := 0
	for _, fn := range r.Funcs {
		for _, cl := range CallsIn(fn) {
			switch CalleeName(cl) {
			case nAck, nNack:
				n++
				c.Report(false, id, "PUBSUB-NEVER-SETTLES", fn, cl.Pos(), CalleeName(cl), "the Pub/Sub settles no message: Ack and Nack are the subscriber's (for a delivered copy) and the publisher's owner's (for the original)")
			}
		}
	}
	c.Report(true, id, "SETTLEMENTS-SCANNED", D, D.Pos(), "package gochannel", fmt.Sprintf("%d Ack/Nack calls in the package", n))
}

func c04NoSharedWrites(c *Check, id string, r *GCRoles) {
	D := r.Deliver
	n := 0
	for _, f := range WithAnon(D) {
		AllInstrs(f, func(in ssa.Instruction) {
			mu, ok := in.(*ssa.MapUpdate)
			if !ok {
				return
			}
			n++
			shared := AnyOrigin(mu.Map, func(o ssa.Value) bool {
				p, ok := o.(*ssa.Parameter)
				return ok && p.Parent() == D
			})
			c.Report(!shared, id, "NO-WRITE-TO-SHARED-ARGUMENTS", f, in.Pos(), "map update in the deliver function", "the deliver function does not write into a map it was given: the same map is handed to the deliver goroutines of all subscribers (concurrent map writes crash the process)")
		})
	}
	c.Report(true, id, "SHARED-ARGUMENTS-SCANNED", D, D.Pos(), "deliver function", fmt.Sprintf("%d map updates in the deliver function examined", n))
}

// c04SendersStart: inside the fan-out (the function that starts one sender per subscription and everything nested in
// it) nothing waits before a sender is started: a message's delivery to one subscription depends on that subscription
// alone — not on an earlier message having been settled by all, a timer, or another subscriber.
func c04SendersStart(c *Check, id string, r *GCRoles) {
	n := 0
	for _, fn := range WithAnon(r.Fan) {
		var starts []ssa.Instruction
		for _, cl := range CallsIn(fn) {
			cal := CalleeFn(cl.Common())
			if cal == nil {
				cal = FuncOfValue(cl.Common().Value)
			}
			if cal == nil {
				continue
			}
			if cal == r.Deliver || (cal.Parent() != nil && outermost(cal) == r.Fan && len(Callers(WithAnon(cal), r.Deliver)) > 0) {
				starts = append(starts, cl)
			}
		}
		if len(starts) == 0 {
			continue
		}
		for _, op := range BlockingOps(fn) {
			if op.Kind == "lock" || op.Ins.Parent() != fn {
				continue
			}
			ra := ReachAfter(op.Ins, nil)
			for _, st := range starts {
				if st.Parent() == fn && ra[st] {
					n++
					c.Report(false, id, "SENDERS-START-WITHOUT-WAITING", fn, op.Ins.Pos(), "blocking "+op.Kind+" in front of a sender start", "inside the fan-out nothing waits before a subscription's sender is started: whether and when a subscription receives a message depends on that subscription alone (not on another message, subscriber or timer)")
				}
			}
		}
	}
	c.Report(true, id, "FANOUT-WAITS-SCANNED", r.Fan, r.Fan.Pos(), "fan-out", fmt.Sprintf("%d blocking operations in front of a sender start", n))
}

func outermost(f *ssa.Function) *ssa.Function {
	for f != nil && f.Parent() != nil {
		f = f.Parent()
	}
	return f
}

// c04FanArgsHandedOver: what Publish hands to the fan-out (which passes it on to goroutines that outlive the call) it
// does not write afterwards: a map built once per Publish call and updated per message is read by the senders of the
// earlier messages of the batch while it is written for the later ones.
func c04FanArgsHandedOver(c *Check, id string, r *GCRoles) {
	n := 0
	for _, fn := range r.Funcs {
		for _, fc := range Callers([]*ssa.Function{fn}, r.Fan) {
			after := ReachAfter(fc, nil)
			for _, a := range fc.Common().Args {
				if _, isMap := a.Type().Underlying().(*types.Map); !isMap {
					continue
				}
				n++
				srcs := Origins(a)
				AllInstrs(fn, func(in ssa.Instruction) {
					var m ssa.Value
					switch x := in.(type) {
					case *ssa.MapUpdate:
						m = x.Map
					case ssa.CallInstruction:
						for _, b := range []string{"delete", "clear"} {
							if args, ok := IsBuiltinCall(valueOfCall(x), b); ok && len(args) > 0 {
								m = args[0]
							}
						}
					}
					if m == nil || !after[in] {
						return
					}
					for _, o := range Origins(m) {
						for _, s := range srcs {
							if o == s {
								c.Report(false, id, "HANDED-TO-THE-FAN-OUT-NOT-WRITTEN-AGAIN", fn, in.Pos(), "write to a map passed to the fan-out", "a map handed to the fan-out is not written after the hand-over (the senders started for it still read it)")
							}
						}
					}
				})
			}
		}
	}
	c.Report(true, id, "FAN-OUT-ARGUMENTS-SCANNED", r.Fan, r.Fan.Pos(), "fan-out", fmt.Sprintf("%d map arguments handed to the fan-out examined", n))
}
