package wm

import (
	"go/token"
	"go/types"
	"sort"
	"strings"

	"golang.org/x/tools/go/ssa"
)

// LockSet maps a lock identity to its mode ('W' exclusive, 'R' shared).
type LockSet map[string]byte

func (s LockSet) clone() LockSet {
	o := LockSet{}
	for k, v := range s {
		o[k] = v
	}
	return o
}

func (s LockSet) String() string {
	var ks []string
	for k, m := range s {
		ks = append(ks, k+"("+string(m)+")")
	}
	sort.Strings(ks)
	return "{" + strings.Join(ks, ", ") + "}"
}

func meet(a, b LockSet) LockSet {
	o := LockSet{}
	for k, m := range a {
		if m2, ok := b[k]; ok {
			if m2 == 'R' || m == 'R' {
				if m == m2 {
					o[k] = m
				} else {
					o[k] = 'R'
				}
			} else {
				o[k] = 'W'
			}
		}
	}
	return o
}

func equalLS(a, b LockSet) bool {
	if len(a) != len(b) {
		return false
	}
	for k, m := range a {
		if b[k] != m {
			return false
		}
	}
	return true
}

// LockAn is the lock analysis of one package: lock identities are
// (struct type, field) pairs — instance-insensitive — plus, for locks kept in a
// sync.Map field, the key's origin.
type LockAn struct {
	P       *Prog
	Pkg     *ssa.Package
	Funcs   []*ssa.Function
	alias   map[string]string
	results map[*ssa.Function]*FnLocks
	entry   map[*ssa.Function]LockSet
	inprog  map[*ssa.Function]bool
	inrel   map[*ssa.Function]bool
}

// FnLocks is the per-function result.
type FnLocks struct {
	Fn     *ssa.Function
	Entry  LockSet
	Before map[ssa.Instruction]LockSet // held just before the instruction
	// Releases: locks the function releases (Unlock executed or deferred)
	// without having acquired them itself on that path — i.e. locks it takes
	// over from whoever started it.
	Releases map[string]bool
	// DeferredUnlock: lock ids with a `defer X.Unlock()` somewhere in fn.
	DeferredUnlock map[string][]*ssa.Defer
}

func NewLockAn(p *Prog, rel string) *LockAn {
	la := &LockAn{P: p, Pkg: p.Pkg(rel), Funcs: p.SrcFuncsRaw(rel), alias: map[string]string{},
		results: map[*ssa.Function]*FnLocks{}, entry: map[*ssa.Function]LockSet{}, inprog: map[*ssa.Function]bool{}, inrel: map[*ssa.Function]bool{}}
	la.computeAliases()
	return la
}

func isSyncPtr(t types.Type) bool {
	s := t.String()
	return s == "*sync.Mutex" || s == "*sync.RWMutex" || s == "*sync.WaitGroup"
}

// computeAliases unifies pointer-typed lock fields that are copied from one
// struct to another (`handler.x = router.x`).
func (la *LockAn) computeAliases() {
	find := func(x string) string {
		for la.alias[x] != "" && la.alias[x] != x {
			x = la.alias[x]
		}
		return x
	}
	for _, fn := range la.Funcs {
		rawInstrs(fn, func(in ssa.Instruction) {
			st, ok := in.(*ssa.Store)
			if !ok {
				return
			}
			df, _ := FieldOf(st.Addr)
			if df == nil || !isSyncPtr(df.Type()) {
				return
			}
			sf := LoadedField(firstOrigin(st.Val))
			if sf == nil || !isSyncPtr(sf.Type()) {
				return
			}
			a, b := find(fieldID(df)), find(fieldID(sf))
			if a != b {
				// keep the lexicographically smaller as the representative
				if a < b {
					la.alias[b] = a
				} else {
					la.alias[a] = b
				}
			}
		})
	}
}

func (la *LockAn) canon(id string) string {
	base, suffix := id, ""
	if i := strings.Index(id, "["); i >= 0 {
		base, suffix = id[:i], id[i:]
	}
	for la.alias[base] != "" && la.alias[base] != base {
		base = la.alias[base]
	}
	return base + suffix
}

func fieldID(f *types.Var) string {
	// owner struct: find via position-independent name: pkg.Type.field is not
	// available from types.Var; use the field's declaring package + a unique
	// key from its position in the type graph. Field objects are unique, so
	// the name is only a rendering; identity rests on the object.
	return ownerName(f) + "." + f.Name()
}

var fieldOwner = map[*types.Var]string{}

func ownerName(f *types.Var) string {
	if n, ok := fieldOwner[f]; ok {
		return n
	}
	name := "?"
	if f.Pkg() != nil {
		sc := f.Pkg().Scope()
		for _, nm := range sc.Names() {
			tn, ok := sc.Lookup(nm).(*types.TypeName)
			if !ok {
				continue
			}
			st, ok := tn.Type().Underlying().(*types.Struct)
			if !ok {
				continue
			}
			for i := 0; i < st.NumFields(); i++ {
				if st.Field(i) == f {
					name = f.Pkg().Name() + "." + nm
				}
			}
		}
	}
	fieldOwner[f] = name
	return name
}

// LockID returns the identity of the lock (or wait-group / any sync object)
// denoted by v, "" if it cannot be named.
func (la *LockAn) LockID(v ssa.Value) string {
	return la.canon(la.lockID(v, 0))
}

func (la *LockAn) lockID(v ssa.Value, d int) string {
	if v == nil || d > 10 {
		return ""
	}
	switch x := v.(type) {
	case *ssa.FieldAddr:
		f, _ := FieldOf(x)
		if f != nil {
			return fieldID(f)
		}
	case *ssa.Field:
		f, _ := FieldOf(x)
		if f != nil {
			return fieldID(f)
		}
	case *ssa.UnOp:
		if x.Op == token.MUL {
			if f, _ := FieldOf(x.X); f != nil {
				return fieldID(f)
			}
			os := Origins(x)
			if len(os) == 1 && os[0] != ssa.Value(x) {
				return la.lockID(os[0], d+1)
			}
		}
	case *ssa.TypeAssert:
		return la.lockID(x.X, d+1)
	case *ssa.MakeInterface:
		return la.lockID(x.X, d+1)
	case *ssa.ChangeType:
		return la.lockID(x.X, d+1)
	case *ssa.Extract:
		if call, ok := x.Tuple.(*ssa.Call); ok && x.Index == 0 {
			n := CalleeName(call)
			if n == nSyncMapLoad || n == nSyncMapLoadOr {
				m := la.lockID(call.Call.Args[0], d+1)
				key := "?"
				ko := Origins(unwrapIface(call.Call.Args[1]))
				if len(ko) == 1 {
					if p, ok := ko[0].(*ssa.Parameter); ok {
						key = "param:" + p.Type().String()
					}
				}
				if m != "" {
					return m + "[" + key + "]"
				}
			}
		}
	case *ssa.Phi, *ssa.FreeVar, *ssa.Alloc:
		os := Origins(v)
		if len(os) == 1 && os[0] != v {
			return la.lockID(os[0], d+1)
		}
	case *ssa.Parameter:
		return ""
	}
	return ""
}

type lockOp struct {
	id   string
	mode byte // 'W','R' acquire; 'w','r' release
}

func (la *LockAn) opOf(c ssa.CallInstruction) (lockOp, bool) {
	var mode byte
	switch CalleeName(c) {
	case nMutexLock, nRWLock:
		mode = 'W'
	case nRWRLock:
		mode = 'R'
	case nMutexUnlock, nRWUnlock:
		mode = 'w'
	case nRWRUnlock:
		mode = 'r'
	default:
		return lockOp{}, false
	}
	id := la.LockID(Receiver(c))
	if id == "" {
		id = "?" + c.Common().Args[0].Name()
	}
	return lockOp{id, mode}, true
}

// Analyze computes the must-hold lockset before every instruction of fn for
// the given entry lockset.
func (la *LockAn) Analyze(fn *ssa.Function, entry LockSet) *FnLocks {
	res := &FnLocks{Fn: fn, Entry: entry.clone(), Before: map[ssa.Instruction]LockSet{}, Releases: map[string]bool{}, DeferredUnlock: map[string][]*ssa.Defer{}}
	if len(fn.Blocks) == 0 {
		return res
	}
	in := map[*ssa.BasicBlock]LockSet{}
	acq := map[*ssa.BasicBlock]map[string]bool{} // locks acquired by fn itself on every path (for Releases)
	in[fn.Blocks[0]] = entry.clone()
	work := []*ssa.BasicBlock{fn.Blocks[0]}
	transfer := func(b *ssa.BasicBlock, s LockSet, record bool) LockSet {
		s = s.clone()
		for _, ins := range b.Instrs {
			if record {
				res.Before[ins] = s.clone()
			}
			c, ok := ins.(ssa.CallInstruction)
			if !ok {
				continue
			}
			op, isOp := la.opOf(c)
			if isOp {
				if _, isDefer := ins.(*ssa.Defer); isDefer {
					if op.mode == 'w' || op.mode == 'r' {
						if record {
							res.DeferredUnlock[op.id] = append(res.DeferredUnlock[op.id], ins.(*ssa.Defer))
						}
					}
					continue
				}
				if _, isGo := ins.(*ssa.Go); isGo {
					continue
				}
				switch op.mode {
				case 'W', 'R':
					s[op.id] = op.mode
				case 'w', 'r':
					delete(s, op.id)
				}
				continue
			}
			// a synchronous call of an in-package function that takes over and
			// releases a lock (lock wrapper): apply its net effect
			if call, isCall := ins.(*ssa.Call); isCall {
				cal := CalleeFn(&call.Call)
				if cal == nil {
					cal = FuncOfValue(call.Call.Value)
				}
				if cal != nil && cal != fn && (cal.Pkg == la.Pkg || cal.Parent() != nil) && len(cal.Blocks) > 0 {
					for id := range la.releasesOf(cal) {
						delete(s, id)
					}
				}
			}
		}
		return s
	}
	_ = acq
	seen := map[*ssa.BasicBlock]bool{fn.Blocks[0]: true}
	for len(work) > 0 {
		b := work[0]
		work = work[1:]
		out := transfer(b, in[b], false)
		for _, s := range b.Succs {
			if !seen[s] {
				seen[s] = true
				in[s] = out.clone()
				work = append(work, s)
				continue
			}
			m := meet(in[s], out)
			if !equalLS(m, in[s]) {
				in[s] = m
				work = append(work, s)
			}
		}
	}
	for _, b := range fn.Blocks {
		if s, ok := in[b]; ok {
			transfer(b, s, true)
		}
	}
	return res
}

// releasesOf: lock ids that fn unlocks (directly or by defer) on some path
// without having locked them before on that path — a hand-off receiver.
func (la *LockAn) releasesOf(fn *ssa.Function) map[string]bool {
	out := map[string]bool{}
	if la.inrel[fn] {
		return out
	}
	la.inrel[fn] = true
	defer delete(la.inrel, fn)
	r := la.Analyze(fn, LockSet{})
	rawInstrs(fn, func(ins ssa.Instruction) {
		c, ok := ins.(ssa.CallInstruction)
		if !ok {
			return
		}
		if _, isGo := ins.(*ssa.Go); isGo {
			return
		}
		op, isOp := la.opOf(c)
		if !isOp || (op.mode != 'w' && op.mode != 'r') {
			return
		}
		if _, held := r.Before[ins][op.id]; !held {
			// not provably acquired by fn itself before this unlock
			if _, isDefer := ins.(*ssa.Defer); isDefer {
				// deferred unlock: fine if fn locks it somewhere before its returns… only
				// count it as a release if fn never locks this id at all
				if !la.locksSomewhere(fn, op.id) {
					out[op.id] = true
				}
				return
			}
			out[op.id] = true
		}
	})
	return out
}

func (la *LockAn) locksSomewhere(fn *ssa.Function, id string) bool {
	found := false
	rawInstrs(fn, func(ins ssa.Instruction) {
		if c, ok := ins.(ssa.CallInstruction); ok {
			if op, isOp := la.opOf(c); isOp && op.id == id && (op.mode == 'W' || op.mode == 'R') {
				found = true
			}
		}
	})
	return found
}

// EntryLocks computes the locks surely held whenever fn starts: the
// intersection over its static call sites in the package; for `go` sites only
// the locks that fn takes over (releases itself); for roots the empty set.
func (la *LockAn) EntryLocks(fn *ssa.Function) LockSet {
	if e, ok := la.entry[fn]; ok {
		return e
	}
	if la.inprog[fn] {
		return LockSet{}
	}
	la.inprog[fn] = true
	var acc LockSet
	first := true
	add := func(s LockSet) {
		if first {
			acc, first = s.clone(), false
		} else {
			acc = meet(acc, s)
		}
	}
	for _, caller := range la.Funcs {
		if caller == fn {
			continue
		}
		var sites []ssa.Instruction
		rawInstrs(caller, func(ins ssa.Instruction) {
			c, ok := ins.(ssa.CallInstruction)
			if !ok {
				return
			}
			cal := CalleeFn(c.Common())
			if cal == nil {
				cal = FuncOfValue(firstOrigin(c.Common().Value))
			}
			if cal == fn {
				sites = append(sites, ins)
				return
			}
			// closure passed as an argument to a synchronous callback API
			for _, a := range c.Common().Args {
				if FuncOfValue(firstOrigin(a)) == fn {
					if _, isGo := ins.(*ssa.Go); !isGo {
						if _, isDefer := ins.(*ssa.Defer); !isDefer {
							sites = append(sites, ins)
						}
					}
				}
			}
		})
		if len(sites) == 0 {
			continue
		}
		r := la.Result(caller)
		for _, site := range sites {
			held := r.Before[site]
			switch site.(type) {
			case *ssa.Go:
				takes := la.releasesOf(fn)
				ho := LockSet{}
				for id, m := range held {
					if takes[id] {
						ho[id] = m
					}
				}
				add(ho)
			case *ssa.Defer:
				add(LockSet{})
			default:
				if held == nil {
					held = LockSet{}
				}
				add(held)
			}
		}
	}
	delete(la.inprog, fn)
	if first || fn.Object() != nil && fn.Object().Exported() && fn.Parent() == nil {
		// roots and exported API can be entered with nothing held
		acc = LockSet{}
	}
	la.entry[fn] = acc
	return acc
}

// Result returns the analysis of fn with its inferred entry lockset.
func (la *LockAn) Result(fn *ssa.Function) *FnLocks {
	if r, ok := la.results[fn]; ok {
		return r
	}
	r := la.Analyze(fn, la.EntryLocks(fn))
	la.results[fn] = r
	return r
}

// Held returns the locks surely held just before ins.
func (la *LockAn) Held(ins ssa.Instruction) LockSet {
	r := la.Result(ins.Parent())
	if s := r.Before[ins]; s != nil {
		return s
	}
	return LockSet{}
}

// FieldAccess is a read or write of a struct field (or of the map/slice it holds).
type FieldAccess struct {
	Ins   ssa.Instruction
	Write bool
	What  string
}

// Accesses lists all accesses to field f in the package's functions.
func (la *LockAn) Accesses(f *types.Var) []FieldAccess {
	var out []FieldAccess
	isF := func(v ssa.Value) bool { return AllOrigins(v, IsFieldLoad(f)) }
	for _, fn := range la.Funcs {
		rawInstrs(fn, func(ins ssa.Instruction) {
			switch x := ins.(type) {
			case *ssa.Store:
				if g, _ := FieldOf(x.Addr); g == f {
					out = append(out, FieldAccess{ins, true, "store"})
				}
			case *ssa.UnOp:
				if x.Op == token.MUL {
					if g, _ := FieldOf(x.X); g == f {
						out = append(out, FieldAccess{ins, false, "load"})
					}
				}
			case *ssa.MapUpdate:
				if isF(x.Map) {
					out = append(out, FieldAccess{ins, true, "map update"})
				}
			case *ssa.Lookup:
				if isF(x.X) {
					out = append(out, FieldAccess{ins, false, "map lookup"})
				}
			case *ssa.Range:
				if isF(x.X) {
					out = append(out, FieldAccess{ins, false, "range"})
				}
			case *ssa.Call:
				if b, ok := x.Call.Value.(*ssa.Builtin); ok && len(x.Call.Args) > 0 && isF(x.Call.Args[0]) {
					switch b.Name() {
					case "delete":
						out = append(out, FieldAccess{ins, true, "delete"})
					case "len":
						out = append(out, FieldAccess{ins, false, "len"})
					case "close":
						out = append(out, FieldAccess{ins, true, "close"})
					}
				}
			}
		})
	}
	return out
}

// OrderEdge records that lock To is acquired at Site while From is held.
type OrderEdge struct {
	From, To string
	Site     ssa.Instruction
}

// LockOrder lists, for every blocking lock acquisition in the package, the
// locks held at that moment (instance-insensitive identities).
func (la *LockAn) LockOrder() []OrderEdge {
	var out []OrderEdge
	for _, fn := range la.Funcs {
		for _, cl := range rawCallsIn(fn) {
			if _, isCall := cl.(*ssa.Call); !isCall {
				continue
			}
			op, ok := la.opOf(cl)
			if !ok || (op.mode != 'W' && op.mode != 'R') {
				continue
			}
			for h := range la.Held(cl) {
				if h != op.id {
					out = append(out, OrderEdge{h, op.id, cl})
				}
			}
		}
	}
	return out
}

// LockOrderThroughCalls adds to LockOrder the acquisitions made by a function of the package that is called in place
// (one level) while the caller holds a lock: caller-held (must or may) → every lock the callee acquires itself.
func (la *LockAn) LockOrderThroughCalls() []OrderEdge {
	out := la.LockOrder()
	direct := map[*ssa.Function][]string{}
	for _, fn := range la.Funcs {
		for _, cl := range rawCallsIn(fn) {
			if _, isCall := cl.(*ssa.Call); !isCall {
				continue
			}
			if op, ok := la.opOf(cl); ok && (op.mode == 'W' || op.mode == 'R') {
				direct[fn] = append(direct[fn], op.id)
			}
		}
	}
	for _, fn := range la.Funcs {
		for _, cl := range rawCallsIn(fn) {
			call, isCall := cl.(*ssa.Call)
			if !isCall {
				continue
			}
			if _, isOp := la.opOf(cl); isOp {
				continue
			}
			cal := CalleeFn(call.Common())
			if cal == nil || len(direct[cal]) == 0 || cal == fn {
				continue
			}
			held := LockSet{}
			for k, m := range la.Held(call) {
				held[k] = m
			}
			for k, m := range la.MayHoldAt(call) {
				held[k] = m
			}
			for h := range held {
				for _, to := range direct[cal] {
					if h != to {
						out = append(out, OrderEdge{h, to, call})
					}
				}
			}
		}
	}
	return out
}

// OrderConflicts returns pairs of edges A→B, B→A.
func OrderConflicts(es []OrderEdge) [][2]OrderEdge {
	var out [][2]OrderEdge
	seen := map[string]bool{}
	for _, a := range es {
		for _, b := range es {
			if a.From == b.To && a.To == b.From {
				k := a.From + "|" + a.To
				if a.From > a.To {
					k = a.To + "|" + a.From
				}
				if !seen[k] {
					seen[k] = true
					out = append(out, [2]OrderEdge{a, b})
				}
			}
		}
	}
	return out
}

// LockLeak: a Return reached with a lock that fn acquired itself still held.
type LockLeak struct {
	Ret *ssa.Return
	IDs []string
}

// Leaks reports the returns of fn at which a lock acquired by fn is surely
// still held, is not released by a defer of fn and was not handed over to a
// goroutine started by fn.
func (la *LockAn) Leaks(fn *ssa.Function) []LockLeak {
	r := la.Result(fn)
	// the instructions that settle a lock for the function's exit: a deferred unlock, or a goroutine started
	// by fn that releases it (hand-off); they excuse a return only if every path to it passed one of them
	settle := map[string][]ssa.Instruction{}
	for id, ds := range r.DeferredUnlock {
		for _, d := range ds {
			settle[id] = append(settle[id], d)
		}
	}
	rawInstrs(fn, func(ins ssa.Instruction) {
		if g, ok := ins.(*ssa.Go); ok {
			cal := CalleeFn(&g.Call)
			if cal == nil {
				cal = FuncOfValue(firstOrigin(g.Call.Value))
			}
			if cal != nil {
				for id := range la.releasesOf(cal) {
					settle[id] = append(settle[id], ins)
				}
			}
		}
	})
	var out []LockLeak
	for _, ret := range Returns(fn) {
		var ids []string
		for id := range r.Before[ret] {
			if _, atEntry := r.Entry[id]; atEntry {
				continue
			}
			if ss := settle[id]; len(ss) > 0 && !rawReachEntry(fn, ss)[ret] {
				continue
			}
			ids = append(ids, id)
		}
		if len(ids) > 0 {
			sort.Strings(ids)
			out = append(out, LockLeak{ret, ids})
		}
	}
	return out
}

// rawReachEntry: instructions of fn reachable from its entry without passing one of cut (fn's own CFG only).
func rawReachEntry(fn *ssa.Function, cut []ssa.Instruction) map[ssa.Instruction]bool {
	isCut := map[ssa.Instruction]bool{}
	for _, c := range cut {
		isCut[c] = true
	}
	seen := map[ssa.Instruction]bool{}
	seenB := map[*ssa.BasicBlock]bool{}
	var visit func(b *ssa.BasicBlock)
	visit = func(b *ssa.BasicBlock) {
		if seenB[b] {
			return
		}
		seenB[b] = true
		for _, in := range b.Instrs {
			if isCut[in] {
				return
			}
			seen[in] = true
		}
		for _, s := range b.Succs {
			visit(s)
		}
	}
	if len(fn.Blocks) > 0 {
		visit(fn.Blocks[0])
	}
	return seen
}

// ReportLeaks adds a LOCK-RELEASED-ON-EVERY-EXIT obligation for every function of the package.
func (la *LockAn) ReportLeaks(c *Check, id string, funcs []*ssa.Function) {
	n := 0
	for _, fn := range funcs {
		leaks := la.Leaks(fn)
		for _, l := range leaks {
			c.Report(false, id, "LOCK-RELEASED-ON-EVERY-EXIT", fn, l.Ret.Pos(), "return holding "+strings.Join(l.IDs, ","), "a lock acquired by this function is still held at this return (every later caller blocks forever)")
		}
		has := false
		res := la.Result(fn)
		for _, cl := range rawCallsIn(fn) {
			op, ok := la.opOf(cl)
			if !ok {
				continue
			}
			if op.mode == 'W' || op.mode == 'R' {
				has = true
				continue
			}
			// an unlock of a lock that is not held is a fatal runtime error (and an unlock in the other mode too)
			if _, isDefer := cl.(*ssa.Defer); isDefer {
				for _, ret := range Returns(fn) {
					if !rawReachEntry(fn, []ssa.Instruction{cl})[ret] {
						m, held := res.Before[ret][op.id]
						okM := held && ((op.mode == 'w' && m == 'W') || (op.mode == 'r' && m == 'R'))
						if !okM {
							c.Report(false, id, "UNLOCK-OF-HELD-LOCK", fn, cl.Pos(), "deferred unlock of "+op.id, "a deferred unlock runs with the lock held in the matching mode at every return it covers (unlocking a lock that is not held is a fatal runtime error)", "at the return "+c.P.Pos(ret.Pos())+" held: "+res.Before[ret].String())
						}
					}
				}
				continue
			}
			if _, isGo := cl.(*ssa.Go); isGo {
				continue
			}
			m, held := res.Before[cl][op.id]
			okM := held && ((op.mode == 'w' && m == 'W') || (op.mode == 'r' && m == 'R'))
			if !okM {
				c.Report(false, id, "UNLOCK-OF-HELD-LOCK", fn, cl.Pos(), "unlock of "+op.id, "an unlock runs with the lock held in the matching mode (unlocking a lock that is not held is a fatal runtime error)", "held: "+res.Before[cl].String())
			}
		}
		if has {
			n++
		}
	}
	c.Report(true, id, "LOCK-BALANCE-SCANNED", nil, token.NoPos, "package scan", "functions that acquire locks were scanned for returns with an own lock still held")
	c.Floor(id, "functions acquiring locks", n, 1)
}

// MayHoldAt lists the locks that fn itself may still hold when it reaches
// site on some path: a Lock/RLock of fn from which site is reachable without
// passing a (non-deferred) unlock of the same lock. Complements Held, which is
// the must-hold set.
func (la *LockAn) MayHoldAt(site ssa.Instruction) LockSet {
	fn := site.Parent()
	out := LockSet{}
	var ops []ssa.CallInstruction
	for _, cl := range rawCallsIn(fn) {
		if _, ok := la.opOf(cl); ok {
			ops = append(ops, cl)
		}
	}
	for _, l := range ops {
		op, _ := la.opOf(l)
		if op.mode != 'W' && op.mode != 'R' {
			continue
		}
		if _, isDefer := l.(*ssa.Defer); isDefer {
			continue
		}
		cut := NewCut()
		for _, u := range ops {
			uo, _ := la.opOf(u)
			if _, isDefer := u.(*ssa.Defer); !isDefer && uo.id == op.id && (uo.mode == 'w' || uo.mode == 'r') {
				cut.AddInstrs(u)
			}
		}
		if ReachAfter(l, cut)[site] {
			out[op.id] = op.mode
		}
	}
	return out
}

// rawCallsIn lists the call instructions of fn itself (the lock analysis follows calls on its own).
func rawCallsIn(fn *ssa.Function) []ssa.CallInstruction {
	var out []ssa.CallInstruction
	rawInstrs(fn, func(in ssa.Instruction) {
		if c, ok := in.(ssa.CallInstruction); ok {
			out = append(out, c)
		}
	})
	return out
}
