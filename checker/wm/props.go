package wm

import (
	"fmt"
	"runtime/debug"
	"sort"
)

// PropDef describes one property's static check.
type PropDef struct {
	ID          string
	Run         func(c *Check)
	Explanation string   // what is decided and what is not (goes into the evidence)
	Assumptions []string // trusted base
}

var registry = map[string]*PropDef{}

func register(p *PropDef) { registry[p.ID] = p }

// Lookup returns the definition of a property.
func Lookup(id string) *PropDef { return registry[id] }

// IDs lists the registered property ids.
func IDs() []string {
	var out []string
	for k := range registry {
		out = append(out, k)
	}
	sort.Strings(out)
	return out
}

// RunOn evaluates the property's obligations on one loaded program. A panic
// inside the analysis is reported as an error (the check is then broken).
func (d *PropDef) RunOn(p *Prog, thorough bool) (c *Check, err error) {
	c = NewCheck(p, d.ID)
	c.Thorough = thorough
	defer func() {
		if r := recover(); r != nil {
			err = fmt.Errorf("panic in %s analysis: %v\n%s", d.ID, r, debug.Stack())
		}
	}()
	d.Run(c)
	return c, nil
}

var commonAssumptions = []string{
	"go/types and go/ssa (x/tools v0.29.0) represent the program faithfully; the analysed build configurations cover the code that is compiled",
	"sync.Mutex/RWMutex/WaitGroup, channels, context and the Go memory model behave as documented",
	"user callbacks (handlers, middlewares, decorators, topic generators) are arbitrary but cannot touch unexported state of watermill",
	"each obligation is a necessary structural condition of the property; their conjunction is not claimed to be sufficient (see DESIGN.md §3)",
}
