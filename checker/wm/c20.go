package wm

import (
	"fmt"
	"go/token"
	"go/types"
	"sort"
	"strings"

	"golang.org/x/tools/go/ssa"
)

const metricsRel = "components/metrics"
const promPkg = "github.com/prometheus/client_golang/prometheus"

func init() {
	register(&PropDef{
		ID:  "C20",
		Run: runC20,
		Explanation: "Decides for every publisher wrapper found in the module (message transform, delay, Prometheus metrics, deduplicator, forwarder): at most one inner Publish per path, same topic (forwarder: its configured topic), the caller's messages in order, the inner error returned and never dropped, Close delegated; the transform subscriber decorator forwards every received message, same object, in order, and closes its output when the input closes; " +
			"delay.Publisher stamps each message by a chain of dominating tests — metadata present ⇒ untouched; else context delay; else generator (its error returned); else error unless AllowNoDelay — forwards the batch in one inner call only if every message was stamped, and delay.Message writes both keys from one Delay value; " +
			"the metrics publisher decorator and handler middleware observe exactly once per call from a deferred closure with success=(named error == nil), skipped only on the already-observed edge, and mark every message before the inner call; the subscriber decorator counts once per message after the Acked/Nacked select with the label matching the case. Not decided: Prometheus arithmetic; counts when one message object is published twice.",
		Assumptions: append([]string{"Prometheus client HistogramVec.Observe / CounterVec.Inc record exactly one sample per call"}, commonAssumptions...),
	})
}

func runC20(c *Check) {
	LostReceiverStores(c, "C20.CFG", "components/delay", "components/metrics", "message")
	DefaultsApplied(c, "C20.CFG", "components/delay", "components/metrics", "message")
	for _, rel := range []string{"components/delay", "components/metrics"} {
		OptionalHooksGuarded(c, "C20.CFG", rel)
	}
	c20Wrappers(c, "C20")
	c20SubscriberPump(c, "C20")
	c07Decorator(c, "C20")
	c20Delay(c, "C20")
	c20Metrics(c, "C20")
}

// publisher wrappers: named types of the module with a Publisher field and a
// Publish method calling the inner Publish.
func c20Wrappers(c *Check, P string) {
	type wrapper struct {
		T   *types.Named
		pub *ssa.Function
		rel string
	}
	var ws []wrapper
	for _, rel := range c.P.ModuleRel() {
		sp := c.P.Pkg(rel)
		if sp == nil || rel == "pubsub/tests" {
			continue
		}
		names := sp.Pkg.Scope().Names()
		sort.Strings(names)
		for _, name := range names {
			tn, ok := sp.Pkg.Scope().Lookup(name).(*types.TypeName)
			if !ok {
				continue
			}
			n, ok := tn.Type().(*types.Named)
			if !ok {
				continue
			}
			if len(FieldsByType(n, TypeIs(msgPkg+".Publisher"))) == 0 {
				continue
			}
			pub := c.P.MethodOf(n, "Publish")
			if pub == nil || len(pub.Blocks) == 0 || pub.Signature.Params().Len() != 2 || !pub.Signature.Variadic() ||
				pub.Signature.Params().At(0).Type().String() != "string" || len(CallsLeadingTo(pub, 1, nPublish)) == 0 {
				continue
			}
			ws = append(ws, wrapper{n, pub, rel})
		}
	}
	if !c.Floor(P+".O1", "publisher wrappers (types with a Publisher field whose Publish calls the inner Publish)", len(ws), 5) {
		return
	}
	for _, w := range ws {
		name := w.rel + "." + w.T.Obj().Name()
		fn := w.pub
		c.Use(P+".O1", fn, name+".Publish")
		inner := CallsTo(fn, nPublish)
		topic, msgs := fn.Params[1], fn.Params[2]
		for i, ip := range inner {
			k := fmt.Sprintf("%s Publish#%d", name, i)
			_, isCall := ip.(*ssa.Call)
			c.Report(isCall && !InLoop(ip) && NoneReachableAfter(ip, inner), P+".O1", "WRAPPER-ONE-INNER-PUBLISH", fn, ip.Pos(), k, "at most one synchronous inner Publish per path (the batch passes through once)")
			okT := FromParam(topic)(Arg(ip, 0)) || AllOrigins(Arg(ip, 0), exportedFieldLoad("ForwarderTopic"))
			c.Report(okT, P+".O1", "WRAPPER-TOPIC", fn, ip.Pos(), k, "the inner Publish gets the caller's topic (forwarder: its configured topic)")
			a := Arg(ip, 1)
			okM := a == nil || IsNilConst(a) || FromParam(msgs)(a) ||
				sliceBuiltFrom(a, func(v ssa.Value) bool { return isElemOfParam(v, msgs) }) ||
				sliceBuiltFrom(a, func(v ssa.Value) bool {
					e, ok := v.(*ssa.Extract)
					if !ok {
						return false
					}
					call, ok := e.Tuple.(*ssa.Call)
					return ok && len(call.Call.Args) == 2 && AllOrigins(call.Call.Args[1], func(x ssa.Value) bool { return isElemOfParam(x, msgs) })
				})
			c.Report(okM, P+".O1", "WRAPPER-MESSAGES", fn, ip.Pos(), k, "the inner Publish gets the caller's messages, in order (the slice itself, or a slice appended from its elements in a range)")
			// error discipline
			for j, r := range Returns(fn) {
				if !ReachAfter(ip, nil)[r] {
					continue
				}
				ok := true
				for _, v := range RetOrigins(r, 0) {
					if IsNilConst(v) {
						okE, _ := NilEdges(fn, ResultOfAny(inner, 0))
						if !GuardedBy(fn, r, okE) && !nilOnlyOnEdges(r, v, okE) {
							ok = false
						}
					} else if !ResultOfAny(inner, 0)(v) && !Wraps(v, ResultOfAny(inner, 0)) {
						ok = false
					}
				}
				c.Report(ok, P+".O1", "WRAPPER-ERROR", fn, r.Pos(), fmt.Sprintf("%s return#%d", name, j), "after the inner Publish the wrapper returns its error (possibly wrapped) and nil only if it was nil")
			}
		}
		// Close
		cl := c.P.MethodOf(w.T, "Close")
		if cl != nil && len(cl.Blocks) > 0 && cl.Synthetic == "" {
			ic := CallsTo(cl, nPubClose)
			ok := len(ic) == 1
			if ok {
				for _, vals := range ReturnValues(cl, 0) {
					if len(vals) != 1 || !IsResultOf(vals[0], ic[0], 0) {
						ok = false
					}
				}
			}
			c.Report(ok, P+".O1", "WRAPPER-CLOSE", cl, cl.Pos(), name+".Close", "Close delegates to the wrapped publisher once and returns its result")
		} else {
			// promoted from the embedded Publisher
			emb := false
			st := w.T.Underlying().(*types.Struct)
			for i := 0; i < st.NumFields(); i++ {
				if st.Field(i).Embedded() && st.Field(i).Type().String() == msgPkg+".Publisher" {
					emb = true
				}
			}
			c.Report(emb, P+".O1", "WRAPPER-CLOSE", fn, fn.Pos(), name+".Close", "Close is the embedded publisher's Close")
		}
	}
	// the transform publisher applies the transform to every message before publishing
	if ctor := c.P.Func("message", "MessageTransformPublisherDecorator"); c.Use(P+".O1", ctor, "message.MessageTransformPublisherDecorator") {
		var T *types.Named
		for _, f := range WithAnon(ctor) {
			for _, r := range Returns(f) {
				for _, o := range RetOrigins(r, 0) {
					if mi, ok := o.(*ssa.MakeInterface); ok && mi.Type().String() == msgPkg+".Publisher" {
						T = NamedOf(mi.X.Type())
					}
				}
			}
		}
		if c.Floor(P+".O1", "publisher type built by MessageTransformPublisherDecorator", b2i(T != nil), 1) {
			pub := c.P.MethodOf(T, "Publish")
			var tcalls []ssa.CallInstruction
			for _, cl := range CallsIn(pub) {
				if !cl.Common().IsInvoke() && CalleeFn(cl.Common()) == nil && LoadedField(firstOrigin(cl.Common().Value)) != nil {
					tcalls = append(tcalls, cl)
				}
			}
			ok := len(tcalls) == 1
			if ok {
				a := firstOrigin(tcalls[0].Common().Args[0])
				ok = false
				if u, isU := a.(*ssa.UnOp); isU {
					if ia, isIA := u.X.(*ssa.IndexAddr); isIA {
						ok = FromParam(pub.Params[2])(ia.X) && IsFullRangeIndex(ia.Index, ia.X)
					}
				}
				for _, ip := range CallsTo(pub, nPublish) {
					if ReachAfter(ip, nil)[tcalls[0]] {
						ok = false
					}
				}
			}
			c.Report(ok, P+".O1", "TRANSFORM-EVERY-MESSAGE", pub, pub.Pos(), "transform publisher", "the transform is applied to every message (full range) before the inner Publish")
			// and then the inner publisher gets the same topic and messages, once, and its result is the decorator's result
			inner := CallsTo(pub, nPublish)
			if c.Floor(P+".O1", "inner Publish in the transform publisher", len(inner), 1) {
				ip := inner[0]
				okArgs := len(inner) == 1 && !InLoop(ip) && FromParam(pub.Params[1])(Arg(ip, 0)) && FromParam(pub.Params[2])(Arg(ip, 1))
				c.Report(okArgs, P+".O1", "TRANSFORM-PUBLISHES-SAME", pub, ip.Pos(), "inner Publish", "the inner publisher is called once with the caller's topic and the caller's (transformed) messages")
				for i, r := range Returns(pub) {
					c.Report(Dominates(pub, ip, r) && AllOrigins(r.Results[0], func(v ssa.Value) bool { return IsResultOf(v, ip, 0) }), P+".O1", "TRANSFORM-PUBLISH-RESULT", pub, r.Pos(), fmt.Sprintf("return#%d", i),
						"every return of the decorator's Publish lies behind the inner Publish and hands back its result (no error is swallowed, nothing is reported published that was not)")
				}
			}
		}
	}
}

func c20SubscriberPump(c *Check, P string) {
	ctor := c.P.Func("message", "MessageTransformSubscriberDecorator")
	if !c.Use(P+".O1", ctor, "message.MessageTransformSubscriberDecorator") {
		return
	}
	var T *types.Named
	for _, f := range WithAnon(ctor) {
		for _, r := range Returns(f) {
			for _, o := range RetOrigins(r, 0) {
				if mi, ok := o.(*ssa.MakeInterface); ok && mi.Type().String() == msgPkg+".Subscriber" {
					T = NamedOf(mi.X.Type())
				}
			}
		}
	}
	if !c.Floor(P+".O1", "subscriber type built by MessageTransformSubscriberDecorator", b2i(T != nil), 1) {
		return
	}
	sub := c.P.MethodOf(T, "Subscribe")
	if !c.Use(P+".O1", sub, "transform subscriber Subscribe") {
		return
	}
	inner := CallsTo(sub, nSubscribe)
	if !c.Floor(P+".O1", "inner Subscribe", len(inner), 1) {
		return
	}
	c.Report(FromParam(sub.Params[1])(Arg(inner[0], 0)) && FromParam(sub.Params[2])(Arg(inner[0], 1)), P+".O1", "PUMP-SUBSCRIBES-SAME", sub, inner[0].Pos(), "inner Subscribe", "the inner subscriber is subscribed with the caller's context and topic")
	_, fail := NilEdges(sub, ResultOfAny(inner, 1))
	for _, e := range fail {
		re := ReachEdge(e, nil)
		ok := true
		for _, r := range Returns(sub) {
			if re[r] && !AllOrigins(r.Results[1], ResultOfAny(inner, 1)) {
				ok = false
			}
		}
		c.Report(ok, P+".O1", "PUMP-SUBSCRIBE-ERROR", sub, inner[0].Pos(), "inner Subscribe error", "an inner Subscribe error is returned unchanged")
	}
	var out *ssa.MakeChan
	for _, vals := range ReturnValues(sub, 0) {
		for _, v := range vals {
			if mc, ok := v.(*ssa.MakeChan); ok {
				out = mc
			}
		}
	}
	if !c.Floor(P+".O1", "output channel made by the decorator", b2i(out != nil), 1) {
		return
	}
	isOut := func(v ssa.Value) bool { return AllOrigins(v, func(o ssa.Value) bool { return o == ssa.Value(out) }) }
	for _, pump := range sub.AnonFuncs {
		var recv *ssa.UnOp
		AllInstrs(pump, func(in ssa.Instruction) {
			if u, ok := in.(*ssa.UnOp); ok && u.Op == token.ARROW && AllOrigins(u.X, ResultOfAny(inner, 0)) {
				recv = u
			}
		})
		if !c.Floor(P+".O1", "receive from the inner subscription in the pump", b2i(recv != nil), 1) {
			continue
		}
		isMsg := func(v ssa.Value) bool {
			return AllOrigins(v, func(o ssa.Value) bool {
				e, ok := o.(*ssa.Extract)
				return ok && e.Tuple == ssa.Value(recv) && e.Index == 0
			})
		}
		sends := SendSites(pump, isOut)
		c.Floor(P+".O1", "send on the output channel in the pump", len(sends), 1)
		for i, s := range sends {
			c.Report(isMsg(s.Val), P+".O1", "PUMP-SAME-OBJECT", pump, s.Ins.Pos(), fmt.Sprintf("pump send#%d", i), "the message sent on is the very object received (settling it settles the inner subscriber's message)")
			c.Report(!ReachWithout(recv, recv, s.Ins), P+".O1", "PUMP-EVERY-MESSAGE", pump, s.Ins.Pos(), fmt.Sprintf("pump send#%d", i), "every received message reaches the send before the next receive (none dropped, order kept)")
		}
		// transform on the received message before the send
		nt := 0
		for _, cl := range CallsIn(pump) {
			if !cl.Common().IsInvoke() && CalleeFn(cl.Common()) == nil && len(cl.Common().Args) == 1 && isMsg(cl.Common().Args[0]) {
				nt++
				for _, s := range sends {
					c.Report(!ReachWithout(recv, s.Ins, cl), P+".O1", "PUMP-TRANSFORM-BEFORE-SEND", pump, cl.Pos(), "transform", "the transform is applied to every message before it is passed on")
				}
			}
		}
		c.Floor(P+".O1", "transform call in the pump", nt, 1)
		cls := CloseSites(pump, isOut)
		okC := len(cls) == 1
		if okC {
			if _, isDefer := cls[0].(*ssa.Defer); !isDefer {
				for _, r := range Returns(pump) {
					if !Dominates(pump, cls[0], r) {
						okC = false
					}
				}
				okC = okC && !InLoop(cls[0])
			}
		}
		c.Report(okC, P+".O1", "PUMP-CLOSES-OUTPUT", pump, pump.Pos(), "close(out)", "the output channel is closed exactly once when the pump ends (the inner channel was closed)")
	}
}

func c20Delay(c *Check, P string) {
	const rel = "components/delay"
	ctor := c.P.Func(rel, "NewPublisher")
	if !c.Use(P+".O2", ctor, "delay.NewPublisher") {
		return
	}
	var T *types.Named
	for _, r := range Returns(ctor) {
		for _, o := range RetOrigins(r, 0) {
			if mi, ok := o.(*ssa.MakeInterface); ok {
				T = NamedOf(mi.X.Type())
			}
		}
	}
	if !c.Floor(P+".O2", "publisher type built by delay.NewPublisher", b2i(T != nil), 1) {
		return
	}
	pub := c.P.MethodOf(T, "Publish")
	if !c.Use(P+".O2", pub, "delay publisher Publish") {
		return
	}
	msgFn := c.P.Func(rel, "Message")
	c.Use(P+".O2", msgFn, "delay.Message")
	// apply helper
	var apply *ssa.Function
	var applyCalls []ssa.CallInstruction
	for _, cl := range CallsIn(pub) {
		cal := CalleeFn(cl.Common())
		if cal != nil && cal.Pkg == pub.Pkg && len(Callers([]*ssa.Function{cal}, msgFn)) > 0 {
			apply = cal
			applyCalls = append(applyCalls, cl)
		}
	}
	if !c.Use(P+".O2", apply, "delay publisher's per-message helper (calls delay.Message)") {
		return
	}
	// Publish: every message is stamped before the single inner Publish
	inner := CallsTo(pub, nPublish)
	okE, fail := NilEdges(pub, ResultOfAny(applyCalls, 0))
	for _, ac := range applyCalls {
		okArg := false
		for _, a := range ac.Common().Args {
			if u, ok := firstOrigin(a).(*ssa.UnOp); ok {
				if ia, ok := u.X.(*ssa.IndexAddr); ok && FromParam(pub.Params[2])(ia.X) && IsFullRangeIndex(ia.Index, ia.X) {
					okArg = true
				}
			}
		}
		c.Report(okArg, P+".O2", "DELAY-EVERY-MESSAGE", pub, ac.Pos(), "stamp call", "every message of the batch is stamped (full range loop)")
		// no path to the inner Publish goes around the stamping loop
		for _, ip := range inner {
			okLoop := false
			for _, a := range ac.Common().Args {
				if u, ok := firstOrigin(a).(*ssa.UnOp); ok {
					if ia, ok := u.X.(*ssa.IndexAddr); ok {
						if hb := loopHeaderOf(ia.Index); hb != nil && Dominates(pub, firstInstr(hb), ip) {
							okLoop = true
						}
					}
				}
			}
			c.Report(okLoop, P+".O2", "DELAY-NO-BYPASS", pub, ip.Pos(), "inner Publish", "every path to the inner Publish runs the stamping loop (no configuration-dependent shortcut: the context's delay must be stamped even when no default delay is configured)")
		}
		for _, ip := range inner {
			c.Report(!ReachAfter(ip, nil)[ac], P+".O2", "DELAY-STAMP-BEFORE-PUBLISH", pub, ac.Pos(), "stamp call", "stamping precedes the inner Publish")
		}
	}
	{
		var srcs []ErrSource
		for _, ac := range applyCalls {
			srcs = append(srcs, ErrSource{ac, 0})
		}
		for _, ip := range inner {
			srcs = append(srcs, ErrSource{ip, 0})
		}
		ErrorsOnlyFrom(c, P+".O2", "DELAY-PUBLISH-FAILS-ONLY-ON-FAULT", pub, srcs, nil, "the delay publisher fails only when a message could not be stamped or the wrapped publisher failed")
	}
	for _, e := range fail {
		re := ReachEdge(e, nil)
		ok := !reachesAny(re, inner)
		for _, r := range Returns(pub) {
			if os := OriginsAt(pub, r, r.Results[0]); re[r] && (len(os) == 0 || !allOf(os, ResultOfAny(applyCalls, 0))) {
				ok = false
			}
		}
		c.Report(ok, P+".O2", "DELAY-NOTHING-PUBLISHED-ON-ERROR", pub, pub.Pos(), "stamp error edge", "when a message has no delay (or the generator fails) nothing is published and the error is returned")
	}
	c.Floor(P+".O2", "test of the stamp helper's error", len(okE), 1)
	// apart from the stamp, the publisher leaves the caller's messages as they are (whatever the wrapped publisher answers)
	nwr := 0
	for _, w := range MessageWrites(pub, func(v ssa.Value) bool { return v.Type().String() == tMessagePtr }) {
		nwr++
		c.Report(false, P+".O2", "DELAY-PUBLISHER-ONLY-STAMPS", pub, w.Pos(), "write to a message of the batch", "the delay publisher edits the caller's messages only through its stamp helper, before the inner Publish: a stamp taken away again (e.g. when the wrapped publisher failed) loses a delay the caller had set")
	}
	c.Report(true, P+".O2", "DELAY-PUBLISHER-WRITES-SCANNED", pub, pub.Pos(), "delay publisher Publish", fmt.Sprintf("%d direct writes to messages in Publish", nwr))

	// the precedence chain in the helper
	A := apply
	msgP := ParamsOfType(A, tMessagePtr)
	if !c.Floor(P+".O2", "message parameter of the stamp helper", len(msgP), 1) {
		return
	}
	isMsg := FromParam(msgP[0])
	forKey, _ := c.P.ExportedConstString(rel, "DelayedForKey")
	untilKey, _ := c.P.ExportedConstString(rel, "DelayedUntilKey")
	var metaPresent, metaAbsent []Edge
	testsFor := false
	for _, t := range Tests(A) {
		if t.Op != token.EQL || t.Y == nil {
			continue
		}
		x, y := t.X, t.Y
		if s, ok := ConstString(x); ok && s == "" {
			x, y = y, x
		}
		s, ok := ConstString(y)
		g, isG := firstOrigin(x).(*ssa.Call)
		if ok && s == "" && isG && CalleeName(g) == nMetaGet {
			k, _ := ConstString(Arg(g, 0))
			if k == forKey || k == untilKey {
				metaAbsent = append(metaAbsent, t.True)
				metaPresent = append(metaPresent, t.False)
			}
			if k == forKey {
				testsFor = true
			}
		}
	}
	// ctx value present
	isCtxVal := func(v ssa.Value) bool {
		call, ok := firstOrigin(v).(*ssa.Call)
		if !ok || CalleeName(call) != "(context.Context).Value" {
			return false
		}
		cc, ok := firstOrigin(call.Call.Value).(*ssa.Call)
		return ok && CalleeName(cc) == nContext && isMsg(Receiver(cc))
	}
	ctxAbsent, ctxPresent := NilEdges(A, isCtxVal)
	// generator configured
	genAbsent, genPresent := NilEdges(A, func(v ssa.Value) bool { return AllOrigins(v, exportedFieldLoad("DefaultDelayGenerator")) })
	allowTrue, allowFalse := BoolEdges(A, exportedFieldLoad("AllowNoDelay"))
	c.Report(testsFor, P+".O2", "DELAY-PRECEDENCE/key", A, A.Pos(), "metadata test", "'already delayed' is read from the delayed-for key — the one DelayOnError and the other writers of the library go by (a message that carries only it must keep its delay)")
	c.Floor(P+".O2", "tests: metadata present, context delay present, generator configured, AllowNoDelay", b2i(len(metaAbsent) > 0)+b2i(len(ctxPresent) > 0)+b2i(len(genPresent) > 0)+b2i(len(allowTrue) > 0), 4)
	var gens []ssa.CallInstruction
	for _, cl := range CallsIn(A) {
		if !cl.Common().IsInvoke() && CalleeFn(cl.Common()) == nil && AllOrigins(cl.Common().Value, exportedFieldLoad("DefaultDelayGenerator")) {
			gens = append(gens, cl)
		}
	}
	genOK, genFail := NilEdges(A, ResultOfAny(gens, 1))
	stamps := Callers([]*ssa.Function{A}, msgFn)
	nCtx, nGen := 0, 0
	for i, s := range stamps {
		k := fmt.Sprintf("delay.Message#%d", i)
		c.Report(GuardedBy(A, s, metaAbsent), P+".O2", "DELAY-PRECEDENCE/metadata", A, s.Pos(), k, "a message that already carries delay metadata is never stamped again")
		c.Report(isMsg(s.Common().Args[0]), P+".O2", "DELAY-STAMP-TARGET", A, s.Pos(), k, "the stamp goes on the message being published")
		d := firstOrigin(s.Common().Args[1])
		switch {
		case func() bool {
			ta, ok := d.(*ssa.TypeAssert)
			return ok && isCtxVal(ta.X)
		}():
			nCtx++
			c.Report(GuardedBy(A, s, ctxPresent), P+".O2", "DELAY-PRECEDENCE/context", A, s.Pos(), k, "the context delay is used only when the message context carries one")
		case ResultOfAny(gens, 0)(d):
			nGen++
			c.Report(GuardedBy(A, s, ctxAbsent) && GuardedBy(A, s, genPresent) && GuardedBy(A, s, genOK), P+".O2", "DELAY-PRECEDENCE/generator", A, s.Pos(), k, "the generated delay is used only when there is no context delay, a generator is configured and it returned no error")
		default:
			c.Report(false, P+".O2", "DELAY-PRECEDENCE/source", A, s.Pos(), k, "the stamped delay comes from neither the context nor the generator")
		}
		// exactly one stamp per message
		c.Report(!InLoop(s) && NoneReachableAfter(s, stamps), P+".O2", "DELAY-ONE-STAMP", A, s.Pos(), k, "at most one stamp per message")
	}
	c.Floor(P+".O2", "stamps from the context delay and from the generator", b2i(nCtx > 0)+b2i(nGen > 0), 2)
	for _, g := range gens {
		c.Report(GuardedBy(A, g, metaAbsent) && GuardedBy(A, g, ctxAbsent) && GuardedBy(A, g, genPresent), P+".O2", "DELAY-GENERATOR-LAST", A, g.Pos(), "generator call", "the default generator is consulted only when neither metadata nor context provide a delay")
		okA := Wraps(g.Common().Args[0], isMsg) && Wraps(g.Common().Args[0], func(v ssa.Value) bool { p, ok := v.(*ssa.Parameter); return ok && p.Type().String() == "string" })
		c.Report(okA, P+".O2", "DELAY-GENERATOR-ARGS", A, g.Pos(), "generator call", "the generator receives the topic and the message")
		// the message itself, not a copy of it (Copy() leaves the context behind, and with it what the generator may decide on)
		if u, isU := g.Common().Args[0].(*ssa.UnOp); isU {
			if al, isAl := u.X.(*ssa.Alloc); isAl {
				for _, ref := range *al.Referrers() {
					fa, isFA := ref.(*ssa.FieldAddr)
					if !isFA || fa.Type().(*types.Pointer).Elem().String() != tMessagePtr {
						continue
					}
					for _, r2 := range *fa.Referrers() {
						if st, isSt := r2.(*ssa.Store); isSt && st.Addr == ssa.Value(fa) {
							c.Report(AllOrigins(st.Val, isMsg), P+".O2", "DELAY-GENERATOR-SEES-THE-MESSAGE", A, st.Pos(), "generator parameter: message", "the generator is handed the outgoing message itself (with its context), not a copy or another message")
						}
					}
				}
			}
		}
	}
	for _, e := range allowTrue {
		t := e.From.Instrs[len(e.From.Instrs)-1]
		c.Report(GuardedBy(A, t, genAbsent) && GuardedBy(A, t, ctxAbsent) && GuardedBy(A, t, metaAbsent), P+".O2", "DELAY-ALLOW-LAST", A, t.Pos(), "AllowNoDelay test", "AllowNoDelay is consulted only when nothing provides a delay: no metadata, no context delay and no default generator configured (a configured generator always applies)")
	}
	for _, e := range genFail {
		re := ReachEdge(e, nil)
		ok := !reachesAny(re, stamps)
		for _, r := range Returns(A) {
			if re[r] && !AllOrigins(r.Results[0], ResultOfAny(gens, 1)) {
				ok = false
			}
		}
		c.Report(ok, P+".O2", "DELAY-GENERATOR-ERROR", A, A.Pos(), "generator error edge", "a generator error is returned and nothing is stamped")
	}
	for i, r := range Returns(A) {
		k := fmt.Sprintf("stamp helper return#%d", i)
		for _, v := range RetOrigins(r, 0) {
			switch {
			case IsNilConst(v):
				// nil: metadata present, or a stamp happened, or AllowNoDelay
				re := ReachEntry(A, NewCut().AddInstrs(instrsOf(stamps)...).AddEdges(metaPresent...).AddEdges(allowTrue...))
				c.Report(!re[r], P+".O2", "DELAY-NIL-ONLY-IF-DELAYED", A, r.Pos(), k, "success is reported only when the message already had a delay, was stamped, or AllowNoDelay is set")
			case ResultOfAny(gens, 1)(v):
			default:
				c.Report(GuardedBy(A, r, allowFalse) && GuardedBy(A, r, genAbsent) && GuardedBy(A, r, ctxAbsent) && GuardedBy(A, r, metaAbsent), P+".O2", "DELAY-ERROR-ONLY-IF-NO-DELAY", A, r.Pos(), k, "the 'no delay' error is returned only when nothing provides a delay and AllowNoDelay is not set")
			}
		}
	}
	c20DelayMessage(c, P+".O2")
	// For / Until agree
	for _, name := range []string{"For", "Until"} {
		fn := c.P.Func(rel, name)
		if !c.Use(P+".O2", fn, "delay."+name) {
			continue
		}
		prm := fn.Params[0]
		var tVal, dVal ssa.Value
		AllInstrs(fn, func(in ssa.Instruction) {
			if st, ok := in.(*ssa.Store); ok {
				if f, _ := FieldOf(st.Addr); f != nil {
					switch f.Type().String() {
					case "time.Time":
						tVal = st.Val
					case "time.Duration":
						dVal = st.Val
					}
				}
			}
		})
		ok := false
		isNowUTC := func(v ssa.Value) bool {
			call, ok := firstOrigin(v).(*ssa.Call)
			if !ok || CalleeName(call) != "(time.Time).UTC" {
				return false
			}
			now, ok := firstOrigin(call.Call.Args[0]).(*ssa.Call)
			return ok && CalleeName(now) == "time.Now"
		}
		if tVal != nil && dVal != nil {
			if name == "For" {
				add, isAdd := firstOrigin(tVal).(*ssa.Call)
				ok = FromParam(prm)(dVal) && isAdd && CalleeName(add) == "(time.Time).Add" && isNowUTC(add.Call.Args[0]) && FromParam(prm)(add.Call.Args[1])
			} else {
				sub, isSub := firstOrigin(dVal).(*ssa.Call)
				ok = FromParam(prm)(tVal) && isSub && CalleeName(sub) == "(time.Time).Sub" && FromParam(prm)(sub.Call.Args[0]) && isNowUTC(sub.Call.Args[1])
				// time.Until(t) is t.Sub(time.Now())
				if !ok && FromParam(prm)(tVal) && isSub && CalleeName(sub) == "time.Until" && FromParam(prm)(sub.Call.Args[0]) {
					ok = true
				}
			}
		}
		c.Report(ok, P+".O2", "DELAY-FOR-UNTIL-AGREE", fn, fn.Pos(), "delay."+name, "delayed-for and delayed-until describe the same instant (until = now + for)")
		// for every argument: each return hands back the value in which both fields were set
		nStores := map[string]int{}
		var stores []ssa.Instruction
		AllInstrs(fn, func(in ssa.Instruction) {
			if st, isSt := in.(*ssa.Store); isSt {
				if f, _ := FieldOf(st.Addr); f != nil && (f.Type().String() == "time.Time" || f.Type().String() == "time.Duration") {
					nStores[f.Type().String()]++
					stores = append(stores, st)
				}
			}
		})
		okAlways := nStores["time.Time"] == 1 && nStores["time.Duration"] == 1
		for _, ret := range Returns(fn) {
			for _, st := range stores {
				if !Dominates(fn, st, ret) {
					okAlways = false
				}
			}
		}
		c.Report(okAlways, P+".O2", "DELAY-FOR-UNTIL-ALWAYS", fn, fn.Pos(), "delay."+name, "whatever the argument (zero, negative, past), the returned Delay has both fields set from it (no special-cased zero value whose two halves disagree)")
	}
}

// c20MetricsRegister: a builder used more than once (several Pub/Subs, a Pub/Sub
// decorated twice) registers the same metric again; the collector handed to the
// decorator must then be the one the registry already has, or its observations
// never reach the registry.
func c20MetricsRegister(c *Check, P string) {
	// "also when applied twice": the decorators keep no state between applications — the package-level label-key lists and
	// bucket definitions are assigned during package initialisation only
	ng := 0
	for _, fn := range c.P.SrcFuncs(metricsRel) {
		if outermost(fn).Name() == "init" {
			continue
		}
		AllInstrs(fn, func(in ssa.Instruction) {
			st, ok := in.(*ssa.Store)
			if !ok {
				return
			}
			if g, isG := st.Addr.(*ssa.Global); isG && g.Pkg == fn.Pkg {
				ng++
				c.Report(false, P+".O5", "METRICS-GLOBALS-SET-AT-INIT-ONLY", fn, st.Pos(), "store to "+g.Name(), "no function of the metrics package assigns a package-level variable after initialisation (a label list extended on each application makes the second decorator differ from the first)")
			}
		})
	}
	if fs := c.P.SrcFuncs(metricsRel); len(fs) > 0 {
		c.Report(true, P+".O5", "METRICS-GLOBAL-STORES-SCANNED", fs[0], fs[0].Pos(), "package components/metrics", fmt.Sprintf("%d stores to package-level variables outside init", ng))
	}
	n := 0
	for _, fn := range c.P.SrcFuncs(metricsRel) {
		var regs []ssa.CallInstruction
		for _, cl := range CallsIn(fn) {
			if cl.Common().IsInvoke() && cl.Common().Method.Name() == "Register" && len(cl.Common().Args) == 1 {
				regs = append(regs, cl)
			}
		}
		if len(regs) == 0 || fn.Signature.Results().Len() != 2 {
			continue
		}
		n++
		regOK, _ := NilEdges(fn, ResultOfAny(regs, 0))
		c.Floor(P+".O3", "test `Register error == nil` in "+FnName(fn), len(regOK), 1)
		isNew := func(v ssa.Value) bool {
			for _, rg := range regs {
				if sameValue(unwrapIface(v), unwrapIface(rg.Common().Args[0])) || AllOrigins(v, func(o ssa.Value) bool {
					return AnyOrigin(rg.Common().Args[0], func(a ssa.Value) bool { return a == o })
				}) {
					return true
				}
			}
			return false
		}
		nExisting := 0
		for i, r := range Returns(fn) {
			v := r.Results[0]
			if IsNilConst(v) {
				continue
			}
			k := fmt.Sprintf("register return#%d", i)
			if f := LoadedField(firstOrigin(v)); f != nil && f.Name() == "ExistingCollector" {
				nExisting++
				continue
			}
			if isNew(v) {
				c.Report(GuardedBy(fn, r, regOK), P+".O3", "REGISTER-NEW-ONLY-IF-REGISTERED", fn, r.Pos(), k, "the collector just built is handed out only when the registry accepted it; when the metric is already registered the existing collector is used (observations of a second decoration reach the registry)")
			}
		}
		c.Report(nExisting >= 1, P+".O3", "REGISTER-RETURNS-EXISTING", fn, fn.Pos(), "register", "on AlreadyRegisteredError the registry's existing collector is returned")
	}
	c.Floor(P+".O3", "metrics builder function calling Registerer.Register", n, 1)
}

// c20MethodValueSnapshots: `d.method` with a value receiver copies *d at the
// moment the method value is made; fields of d assigned afterwards (the
// registered collectors) are missing from the copy the callback works on.
func c20MethodValueSnapshots(c *Check, P string) {
	n := 0
	for _, fn := range c.P.SrcFuncs(metricsRel) {
		AllInstrs(fn, func(in ssa.Instruction) {
			mc, ok := in.(*ssa.MakeClosure)
			if !ok || len(mc.Bindings) != 1 {
				return
			}
			wf, _ := mc.Fn.(*ssa.Function)
			if wf == nil || wf.Synthetic == "" {
				return
			}
			ld, isLoad := mc.Bindings[0].(*ssa.UnOp)
			if !isLoad || ld.Op != token.MUL {
				return
			}
			al, isAlloc := ld.X.(*ssa.Alloc)
			if !isAlloc {
				return
			}
			n++
			after := ReachAfter(ld, nil)
			okSnap := true
			var wit []string
			AllInstrs(fn, func(in2 ssa.Instruction) {
				if st, isSt := in2.(*ssa.Store); isSt && after[in2] {
					if f, base := FieldOf(st.Addr); f != nil && base == ssa.Value(al) && !f.Embedded() {
						okSnap = false
						wit = append(wit, "field "+f.Name()+" is assigned at "+c.P.Pos(st.Pos())+", after the copy was taken")
					}
				}
			})
			c.Report(okSnap, P+".O3", "METHOD-VALUE-AFTER-INIT", fn, mc.Pos(), "method value with a value receiver", "the decorator's callback is bound to a copy of the decorator taken when all its collectors are already registered (a copy taken earlier has nil collectors: the first observation panics)", wit...)
		})
	}
	c.Floor(P+".O3", "method values bound to a copy of a local decorator value in package metrics", n, 1)
}

// c20LabelsPerCall: the label set handed to a metric vector is a map that is filled in per message (success / acked
// labels): it must be allocated per call — by the function that receives the message(s) or inside it — never once
// per decorator, where concurrent calls would write the same map.
func c20LabelsPerCall(c *Check, P string) {
	n := 0
	for _, fn := range c.P.SrcFuncs(metricsRel) {
		for _, cl := range CallsIn(fn) {
			if !strings.HasSuffix(CalleeName(cl), "Vec).With") || !strings.HasPrefix(CalleeName(cl), "(*"+promPkg) {
				continue
			}
			n++
			ok := true
			var wit []string
			for _, o := range Origins(Arg(cl, 0)) {
				var at ssa.Instruction
				switch x := o.(type) {
				case *ssa.MakeMap:
					at = x
				case *ssa.Call:
					// a helper of the package that builds a new map on every call (possibly through another such helper)
					var freshMaker func(cal *ssa.Function, d int) bool
					freshMaker = func(cal *ssa.Function, d int) bool {
						if cal == nil || cal.Pkg != fn.Pkg || d > 2 || len(cal.Blocks) == 0 {
							return false
						}
						for _, r := range Returns(cal) {
							for _, ro := range RetOrigins(r, 0) {
								switch y := ro.(type) {
								case *ssa.MakeMap:
									if y.Parent() != cal {
										return false
									}
								case *ssa.Call:
									if !freshMaker(CalleeFn(y.Common()), d+1) {
										return false
									}
								default:
									return false
								}
							}
						}
						return true
					}
					if freshMaker(CalleeFn(x.Common()), 0) {
						at = x
					}
				case *ssa.Parameter:
					continue // a label set handed in by the caller, judged at the caller's With
				}
				if at == nil {
					ok = false
					wit = append(wit, "label set is "+o.String())
					continue
				}
				mm := at
				perCall := false
				for f := mm.Parent(); f != nil; f = f.Parent() {
					for _, p := range f.Params {
						t := p.Type().String()
						if t == tMessagePtr || strings.HasSuffix(t, "[]"+tMessagePtr) || t == "[]"+tMessagePtr {
							perCall = true
						}
					}
				}
				if !perCall {
					ok = false
					wit = append(wit, "label map allocated in "+FnName(mm.Parent())+" at "+c.P.Pos(mm.Pos())+", which is not entered per message")
				}
			}
			c.Report(ok, P+".O3", "LABELS-PER-CALL", fn, cl.Pos(), "label set of a metric observation", "the label map of an observation is allocated per call (it is written per message; a map shared by concurrent calls is a data race and mixes labels)", wit...)
		}
	}
	c.Floor(P+".O3", "metric vector With(labels) calls in package metrics", n, 3)
}

func c20Metrics(c *Check, P string) {
	c20MetricsRegister(c, P)
	c20MethodValueSnapshots(c, P)
	c20LabelsPerCall(c, P)
	// context marks
	type mark struct{ set, get string }
	keys := map[string]string{}
	for _, mk := range []mark{{"setPublishObservedToCtx", "publishAlreadyObserved"}, {"setSubscribeObservedToCtx", "subscribeAlreadyObserved"}} {
		// located through their callers below; here by role: functions of package metrics calling context.WithValue / ctx.Value with one constant key
		_ = mk
	}
	var setters, getters []*ssa.Function
	for _, fn := range c.P.SrcFuncs(metricsRel) {
		if fn.Parent() != nil || fn.Signature.Recv() != nil {
			continue
		}
		if len(CallsTo(fn, nWithValue)) == 1 && fn.Signature.Params().Len() == 1 {
			setters = append(setters, fn)
			keys[fn.Name()] = constKey(CallsTo(fn, nWithValue)[0].Common().Args[1])
		}
		if len(CallsTo(fn, "(context.Context).Value")) == 1 && fn.Signature.Results().Len() == 1 && fn.Signature.Results().At(0).Type().String() == "bool" {
			getters = append(getters, fn)
			keys[fn.Name()] = constKey(CallsTo(fn, "(context.Context).Value")[0].Common().Args[0])
		}
	}
	c.Floor(P+".O3", "observed-mark setters and getters in package metrics", b2i(len(setters) == 2)+b2i(len(getters) == 2), 2)
	pairOf := func(set *ssa.Function) *ssa.Function {
		for _, g := range getters {
			if keys[g.Name()] != "" && keys[g.Name()] == keys[set.Name()] {
				return g
			}
		}
		return nil
	}
	if len(setters) == 2 {
		c.Report(keys[setters[0].Name()] != keys[setters[1].Name()] && pairOf(setters[0]) != nil && pairOf(setters[1]) != nil, P+".O3", "MARK-KEYS", setters[0], setters[0].Pos(), "observed marks", "publish and subscribe marks use distinct keys, each read back by its own getter")
	}
	for _, g := range getters {
		// true iff value != nil
		ok := false
		for _, vals := range ReturnValues(g, 0) {
			for _, v := range vals {
				if bo, isB := v.(*ssa.BinOp); isB && bo.Op == token.NEQ && IsNilConst(bo.Y) {
					ok = true
				}
			}
		}
		c.Report(ok, P+".O3", "MARK-GETTER", g, g.Pos(), g.Name(), "the getter reports whether the mark is present")
	}

	// publisher decorator
	PT := c.P.Named(metricsRel, "PublisherPrometheusMetricsDecorator")
	if PT != nil {
		pub := c.P.MethodOf(PT, "Publish")
		if c.Use(P+".O3", pub, "metrics publisher decorator Publish") {
			c20Observe(c, P, pub, "publisher", setters, getters, pairOf)
		}
	} else {
		c.Floor(P+".O3", "type metrics.PublisherPrometheusMetricsDecorator", 0, 1)
	}
	// handler middleware
	if m := c.middleware(P+".O3", c.P.Method(metricsRel, "HandlerPrometheusMetricsMiddleware", "Middleware"), "metrics handler middleware"); m != nil {
		c.Report(len(m.HCalls) == 1 && m.HCalls[0].Parent() == m.Inner && !InLoop(m.HCalls[0]) && m.IsMsg(m.HCalls[0].Common().Args[0]), P+".O3", "HANDLER-METRICS-TRANSPARENT", m.Inner, m.Inner.Pos(), "handler middleware", "the handler is called exactly once on the consumed message")
		for r, vals := range ReturnValues(m.Inner, 0) {
			ok := len(vals) > 0
			for _, v := range vals {
				if !ResultOfAny(m.HCalls, 0)(v) {
					ok = false
				}
			}
			c.Report(ok, P+".O3", "HANDLER-METRICS-OUTPUTS", m.Inner, r.Pos(), "handler middleware", "outputs pass through unchanged")
		}
		if cell := ResultCell(m.Inner, 1); cell != nil {
			for _, st := range StoresToCellIn(m.Inner, cell) {
				c.Report(ResultOfAny(m.HCalls, 1)(st.Val), P+".O3", "HANDLER-METRICS-ERROR", m.Inner, st.Pos(), "handler middleware", "the error result is the handler's error")
			}
			for _, f := range m.Family {
				if f != m.Inner {
					c.Report(len(StoresToCellIn(f, cell)) == 0, P+".O3", "HANDLER-METRICS-ERROR", f, f.Pos(), "handler middleware defer", "the deferred closure does not change the error")
				}
			}
		}
		c20Observe(c, P, m.Inner, "handler", nil, nil, pairOf)
	}
	// subscriber decorator
	ST := c.P.Named(metricsRel, "SubscriberPrometheusMetricsDecorator")
	if ST == nil {
		c.Floor(P+".O3", "type metrics.SubscriberPrometheusMetricsDecorator", 0, 1)
		return
	}
	var rec *ssa.Function
	for i := 0; i < ST.NumMethods(); i++ {
		fn := c.P.SSA.FuncValue(ST.Method(i).Origin())
		if fn != nil && len(ParamsOfType(fn, tMessagePtr)) == 1 && fn.Signature.Results().Len() == 0 {
			rec = fn
		}
	}
	if !c.Use(P+".O3", rec, "metrics subscriber decorator's per-message function") {
		return
	}
	msgP := ParamsOfType(rec, tMessagePtr)[0]
	var lit *ssa.Function
	AllInstrs(rec, func(in ssa.Instruction) {
		if g, ok := in.(*ssa.Go); ok {
			lit = FuncOfValue(g.Call.Value)
		}
	})
	if !c.Use(P+".O3", lit, "metrics subscriber counting goroutine") {
		return
	}
	isMsg := func(v ssa.Value) bool { return AllOrigins(v, IsParam(msgP)) }
	incs := CallsTo(lit, "("+promPkg+".Counter).Inc")
	if !c.Floor(P+".O3", "Counter.Inc in the counting goroutine", len(incs), 1) {
		return
	}
	var sw *SelInfo
	var ackedE, nackedE *Edge
	for _, si := range Selects(lit) {
		for _, cs := range si.Cases {
			call, ok := firstOrigin(cs.Chan).(*ssa.Call)
			if !ok || !isMsg(Receiver(call)) {
				continue
			}
			switch CalleeName(call) {
			case nAcked:
				sw, ackedE = si, cs.Edge
			case nNacked:
				sw, nackedE = si, cs.Edge
			}
		}
	}
	if !c.Report(sw != nil && ackedE != nil && nackedE != nil && sw.Blocking && len(sw.Cases) == 2, P+".O3", "SUBSCRIBER-METRICS-WAIT", lit, lit.Pos(), "settle select", "the counting goroutine waits for exactly Acked() or Nacked() of the received message") {
		return
	}
	for i, inc := range incs {
		k := fmt.Sprintf("Inc#%d", i)
		c.Report(len(incs) == 1 && !InLoop(inc) && Dominates(lit, sw.Sel, inc), P+".O3", "SUBSCRIBER-METRICS-ONCE", lit, inc.Pos(), k, "the counter is incremented exactly once per message, after it was settled")
		// skipped only if already observed
		var seen []Edge
		for _, g := range getters {
			calls := Callers([]*ssa.Function{lit}, g)
			tr, _ := BoolEdges(lit, ResultOfAny(calls, 0))
			seen = append(seen, tr...)
		}
		re := ReachEntry(lit, NewCut().AddInstrs(inc).AddEdges(seen...))
		ok := len(seen) > 0
		for _, r := range Returns(lit) {
			if re[r] {
				ok = false
			}
		}
		c.Report(ok, P+".O3", "SUBSCRIBER-METRICS-ALWAYS", lit, inc.Pos(), k, "every path counts, except on the already-observed edge")
	}
	// labels
	label := func(in ssa.Instruction) (string, bool) {
		mu, ok := in.(*ssa.MapUpdate)
		if !ok {
			return "", false
		}
		v, isS := ConstString(mu.Value)
		_, isK := ConstString(mu.Key)
		if !isS || !isK || (v != "acked" && v != "nacked") {
			return "", false
		}
		return v, true
	}
	for i, inc := range incs {
		facts := LastLabelAt(lit, inc, [][]Edge{{*ackedE}, {*nackedE}}, label)
		okLab := len(facts) > 0
		var wit []string
		sawA, sawN := false, false
		for _, f := range facts {
			switch {
			case f.Took&1 != 0:
				sawA = true
				if f.Label != "acked" {
					okLab = false
					wit = append(wit, fmt.Sprintf("the Acked() case reaches Inc with label %q", f.Label))
				}
			case f.Took&2 != 0:
				sawN = true
				if f.Label != "nacked" {
					okLab = false
					wit = append(wit, fmt.Sprintf("the Nacked() case reaches Inc with label %q", f.Label))
				}
			default:
				okLab = false
				wit = append(wit, "Inc reachable without passing the settle select")
			}
		}
		c.Report(okLab && sawA && sawN, P+".O3", "SUBSCRIBER-METRICS-LABEL", lit, inc.Pos(), fmt.Sprintf("Inc#%d label", i), "on every path to Inc the last settlement label stored matches the select case taken (acked ↔ Acked(), nacked ↔ Nacked())", wit...)
	}
	// the mark is set on the message after the goroutine captured the old context
	okMark := false
	for _, sc := range CallsTo(rec, nSetContext) {
		if !isMsg(Receiver(sc)) {
			continue
		}
		if call, ok := firstOrigin(Arg(sc, 0)).(*ssa.Call); ok {
			for _, s := range setters {
				if CalleeFn(&call.Call) == s {
					okMark = true
				}
			}
		}
	}
	c.Report(okMark, P+".O3", "SUBSCRIBER-METRICS-MARK", rec, rec.Pos(), "mark", "the received message is marked as observed (a second decorator does not count it again)")
	// wired as a message transform
	if b := c.P.Method(metricsRel, "PrometheusMetricsBuilder", "DecorateSubscriber"); c.Use(P+".O3", b, "PrometheusMetricsBuilder.DecorateSubscriber") {
		ok := false
		for _, cl := range CallsTo(b, msgPkg+".MessageTransformSubscriberDecorator") {
			if t := c.P.BoundMethodTarget(firstOrigin(cl.Common().Args[0])); t == rec {
				ok = true
			}
		}
		c.Report(ok, P+".O3", "SUBSCRIBER-METRICS-WIRED", b, b.Pos(), "DecorateSubscriber", "the counting function is installed as the transform of a transform subscriber decorator (every received message passes it once)")
	}
}

// c20Observe checks the deferred Observe of the publisher decorator / handler middleware.
func c20Observe(c *Check, P string, fn *ssa.Function, kind string, setters, getters []*ssa.Function, pairOf func(*ssa.Function) *ssa.Function) {
	var dcl *ssa.Function
	var dInstr *ssa.Defer
	AllInstrs(fn, func(in ssa.Instruction) {
		if d, ok := in.(*ssa.Defer); ok {
			if f := FuncOfValue(d.Call.Value); f != nil && len(CallsTo(f, "("+promPkg+".Observer).Observe")) > 0 {
				dcl, dInstr = f, d
			}
		}
	})
	if !c.Use(P+".O3", dcl, kind+": deferred closure calling Observe") {
		return
	}
	obs := CallsTo(dcl, "("+promPkg+".Observer).Observe")
	c.Report(len(obs) == 1 && !InLoop(obs[0]), P+".O3", "METRICS-ONCE", dcl, obs[0].Pos(), kind+" Observe", "one Observe call site, outside any loop")
	// skipped only on already-observed
	var seen []Edge
	for _, g := range getters {
		calls := Callers([]*ssa.Function{dcl}, g)
		tr, _ := BoolEdges(dcl, ResultOfAny(calls, 0))
		seen = append(seen, tr...)
	}
	re := ReachEntry(dcl, NewCut().AddInstrs(obs[0]).AddEdges(seen...))
	ok := true
	for _, r := range Returns(dcl) {
		if re[r] {
			ok = false
		}
	}
	c.Report(ok, P+".O3", "METRICS-ALWAYS", dcl, obs[0].Pos(), kind+" Observe", "every path of the deferred closure observes, except on the already-observed edge")
	// the label set is the same on every path: a key written on one path to Observe is written on all of them (With panics
	// on a label set that differs from the registered one — after every success, if the key is written for failures only)
	{
		byKey := map[string][]ssa.Instruction{}
		AllInstrs(dcl, func(in ssa.Instruction) {
			if mu, ok := in.(*ssa.MapUpdate); ok {
				if k, isK := ConstString(mu.Key); isK {
					byKey[k] = append(byKey[k], in)
				}
			}
		})
		var keys []string
		for k := range byKey {
			keys = append(keys, k)
		}
		sort.Strings(keys)
		for _, k := range keys {
			re := ReachEntry(dcl, NewCut().AddInstrs(byKey[k]...))
			c.Report(!re[obs[0]], P+".O3", "METRICS-LABEL-SET-UNIFORM", dcl, byKey[k][0].Pos(), kind+" label "+k, "a label written in the observing closure is written on every path to Observe (the label set handed to With is the registered one on successes and on failures alike)")
		}
	}
	// success label from the named error result
	cell := ResultCell(fn, fn.Signature.Results().Len()-1)
	if cell == nil {
		c.Undecided(P+".O3", "METRICS-LABEL", fn, fn.Pos(), kind+" success label", "the error is not a named result visible to the deferred closure")
		return
	}
	// the label computed in one expression: strconv.FormatBool(err == nil), stored on every path to Observe and nothing else
	{
		var computed []*ssa.MapUpdate
		nConst := 0
		AllInstrs(dcl, func(in ssa.Instruction) {
			mu, ok := in.(*ssa.MapUpdate)
			if !ok {
				return
			}
			if v, isS := ConstString(mu.Value); isS && (v == "true" || v == "false") {
				nConst++
			}
			call, isCall := mu.Value.(*ssa.Call)
			if !isCall || CalleeName(call) != "strconv.FormatBool" {
				return
			}
			bo, isBO := call.Call.Args[0].(*ssa.BinOp)
			if isBO && bo.Op == token.EQL && ((IsLoadOfCell(cell)(bo.X) && IsNilConst(bo.Y)) || (IsLoadOfCell(cell)(bo.Y) && IsNilConst(bo.X))) {
				computed = append(computed, mu)
			}
		})
		if len(computed) == 1 && nConst == 0 {
			c.Report(Dominates(dcl, computed[0], obs[0]), P+".O3", "METRICS-LABEL", dcl, obs[0].Pos(), kind+" success label", "the success label is FormatBool(named error == nil), stored on every path to Observe")
			goto labelDone
		}
	}
	{
		errNil, errSet := NilEdges(dcl, IsLoadOfCell(cell))
		c.Floor(P+".O3", kind+": test of the named error result in the deferred closure", len(errNil), 1)
		label := func(in ssa.Instruction) (string, bool) {
			mu, ok := in.(*ssa.MapUpdate)
			if !ok {
				return "", false
			}
			v, isS := ConstString(mu.Value)
			if !isS || (v != "true" && v != "false") {
				return "", false
			}
			return v, true
		}
		facts := LastLabelAt(dcl, obs[0], [][]Edge{errNil, errSet}, label)
		okLab := len(facts) > 0
		var wit []string
		sawT, sawF := false, false
		for _, f := range facts {
			switch {
			case f.Took&2 != 0: // error != nil
				sawF = true
				if f.Label != "false" {
					okLab = false
					wit = append(wit, fmt.Sprintf("a path through the error != nil edge reaches Observe with success=%q", f.Label))
				}
			case f.Took&1 != 0: // error == nil
				sawT = true
				if f.Label != "true" {
					okLab = false
					wit = append(wit, fmt.Sprintf("a path through the error == nil edge reaches Observe with success=%q", f.Label))
				}
			default:
				okLab = false
				wit = append(wit, "a path reaches Observe without testing the error")
			}
		}
		c.Report(okLab && sawT && sawF, P+".O3", "METRICS-LABEL", dcl, obs[0].Pos(), kind+" success label", "on every path to Observe the last success label stored agrees with (named error == nil)", wit...)
	}
labelDone:
	// the defer is registered before the inner call on the counted path
	var innerCalls []ssa.CallInstruction
	if kind == "publisher" {
		innerCalls = CallsTo(fn, nPublish)
	}
	for _, ic := range innerCalls {
		if ReachAfter(dInstr, nil)[ic] {
			c.Report(Dominates(fn, dInstr, ic), P+".O3", "METRICS-DEFER-BEFORE-CALL", fn, dInstr.Pos(), kind+" defer", "the observing closure is deferred before the inner call it measures")
		}
	}
	if kind == "publisher" {
		// every message is marked before the inner Publish on the counted path
		var marks []ssa.CallInstruction
		for _, sc := range CallsTo(fn, nSetContext) {
			if call, ok := firstOrigin(Arg(sc, 0)).(*ssa.Call); ok {
				for _, s := range setters {
					if CalleeFn(&call.Call) == s {
						marks = append(marks, sc)
					}
				}
			}
		}
		if c.Floor(P+".O3", "publisher: marking of the messages as observed", len(marks), 1) {
			mk := marks[0]
			okAll := false
			if u, isU := firstOrigin(Receiver(mk)).(*ssa.UnOp); isU {
				if ia, isIA := u.X.(*ssa.IndexAddr); isIA {
					okAll = FromParam(fn.Params[2])(ia.X) && IsFullRangeIndex(ia.Index, ia.X)
				}
			}
			c.Report(okAll, P+".O3", "METRICS-MARK-ALL", fn, mk.Pos(), "publisher mark", "every message of the batch is marked (full range)")
			// each message keeps its own context: the mark is added to that message's context, not to another one's
			okOwn := false
			if call, ok := firstOrigin(Arg(mk, 0)).(*ssa.Call); ok && len(call.Call.Args) == 1 {
				if cx, isC := firstOrigin(call.Call.Args[0]).(*ssa.Call); isC && CalleeName(cx) == nContext {
					okOwn = sameValue(Receiver(cx), Receiver(mk)) && cx.Block() == mk.Block()
				}
			}
			c.Report(okOwn, P+".O3", "METRICS-MARK-OWN-CONTEXT", fn, mk.Pos(), "publisher mark", "the marked context of a message is derived from that message's own context, inside the loop (the other values of its context — a delay, tracing — stay its own)")
			// the getter consulted in the defer is the pair of the setter used, and reads the context captured BEFORE marking
			var used *ssa.Function
			if call, ok := firstOrigin(Arg(mk, 0)).(*ssa.Call); ok {
				used = CalleeFn(&call.Call)
			}
			okPair := false
			if used != nil {
				if g := pairOf(used); g != nil {
					for _, gc := range Callers([]*ssa.Function{dcl}, g) {
						// argument: a context value obtained before the marks
						okPair = AllOrigins(gc.Common().Args[0], func(o ssa.Value) bool {
							call, ok := o.(*ssa.Call)
							return ok && CalleeName(call) == nContext && call.Parent() == fn && !ReachAfter(mk, nil)[call]
						})
					}
				}
			}
			c.Report(okPair, P+".O3", "METRICS-MARK-PAIR", fn, mk.Pos(), "publisher mark", "the deferred closure asks the matching getter about the context as it was before this decorator marked it (an outer decorator's mark suppresses the inner observation, not its own)")
			for _, ic := range innerCalls {
				if ReachAfter(mk, nil)[ic] {
					c.Report(!ReachAfter(ic, nil)[mk], P+".O3", "METRICS-MARK-BEFORE-CALL", fn, mk.Pos(), "publisher mark", "messages are marked before the inner Publish")
				}
			}
		}
	}
}

// c20DelayMessage: delay.Message writes both keys directly from the two fields
// of the Delay value it is given (shared with C19: DelayOnError reads its own
// previous value back from this metadata, so any rounding accumulates).
func c20DelayMessage(c *Check, id string) {
	const rel = "components/delay"
	msgFn := c.P.Func(rel, "Message")
	if !c.Use(id, msgFn, "delay.Message") {
		return
	}
	forKey, _ := c.P.ExportedConstString(rel, "DelayedForKey")
	untilKey, _ := c.P.ExportedConstString(rel, "DelayedUntilKey")
	dP := msgFn.Params[1]
	isFieldOfDelay := func(v ssa.Value, typ string) bool {
		o := firstOrigin(v)
		switch x := o.(type) {
		case *ssa.Field:
			return FromParam(dP)(x.X) && x.Type().String() == typ
		case *ssa.UnOp:
			if fa, ok := x.X.(*ssa.FieldAddr); ok {
				if cell := cellOf(fa.X); cell != nil {
					vals, _, _ := StoresTo(cell)
					okAll := len(vals) > 0
					for _, sv := range vals {
						if sv != ssa.Value(dP) {
							okAll = false
						}
					}
					return okAll && x.Type().String() == typ
				}
				return FromParam(dP)(fa.X) && x.Type().String() == typ
			}
		}
		return false
	}
	got := map[string]bool{}
	n := 0
	for _, s := range CallsTo(msgFn, nMetaSet) {
		n++
		k, _ := ConstString(Arg(s, 0))
		rf := LoadedField(firstOrigin(Receiver(s)))
		okR := rf != nil && rf.Name() == "Metadata"
		okV := false
		if call, ok := firstOrigin(Arg(s, 1)).(*ssa.Call); ok {
			switch {
			case k == untilKey && CalleeName(call) == "(time.Time).Format":
				okV = isFieldOfDelay(call.Call.Args[0], "time.Time")
			case k == forKey && CalleeName(call) == "(time.Duration).String":
				okV = isFieldOfDelay(call.Call.Args[0], "time.Duration")
			}
		}
		if k == forKey || k == untilKey {
			got[k] = okR && okV
		}
	}
	c.Report(got[forKey] && got[untilKey] && n == 2, id, "DELAY-MESSAGE-BOTH-KEYS", msgFn, msgFn.Pos(), "delay.Message",
		"delay.Message writes delayed-until (the time field, formatted) and delayed-for (the duration field's String(), unrounded) straight from the one Delay value it is given")
}

// loopHeaderOf returns the block holding the induction phi that index derives from.
func loopHeaderOf(index ssa.Value) *ssa.BasicBlock {
	switch x := index.(type) {
	case *ssa.Phi:
		return x.Block()
	case *ssa.BinOp:
		if b := loopHeaderOf(x.X); b != nil {
			return b
		}
		return loopHeaderOf(x.Y)
	case *ssa.Convert:
		return loopHeaderOf(x.X)
	}
	return nil
}
