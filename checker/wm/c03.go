package wm

import (
	"fmt"
	"go/token"
	"go/types"
	"sort"
	"strings"

	"golang.org/x/tools/go/ssa"
)

func init() {
	register(&PropDef{
		ID:  "C03",
		Run: runC03,
		Explanation: "Decides for message.Message: every access to the settlement state and every write/close of the two signal channels happens with the message's mutex held (so Ack/Nack are single critical sections, hence linearizable in lock order for any number of goroutines); those fields are written only by the constructor, Ack and Nack; " +
			"by constant propagation over all 12 abstract pre-states (state × ack-channel nil/open × nack-channel nil/open) Ack and Nack implement exactly the first-wins transition table — no close in a settled state, no close of a nil channel, the other channel never touched, the documented boolean result; Ack/Nack contain no blocking operation. " +
			"Not decided: the Go memory model itself; reads through Acked()/Nacked() of a zero-value message racing its first Ack (documented limitation).",
		Assumptions: commonAssumptions,
	})
}

type msgFields struct {
	T          *types.Named
	Mutex      *types.Var
	State      *types.Var
	AckCh      *types.Var
	NackCh     *types.Var
	Ack, Nack  *ssa.Function
	Acked      *ssa.Function
	Nacked     *ssa.Function
	NewMessage *ssa.Function
}

func (c *Check) messageFields(id string) *msgFields {
	m := &msgFields{T: c.P.Named("message", "Message")}
	if m.T == nil {
		c.Floor(id, "type message.Message", 0, 1)
		return nil
	}
	m.Ack, m.Nack = c.P.MethodOf(m.T, "Ack"), c.P.MethodOf(m.T, "Nack")
	m.Acked, m.Nacked = c.P.MethodOf(m.T, "Acked"), c.P.MethodOf(m.T, "Nacked")
	m.NewMessage = c.P.Func("message", "NewMessage")
	for _, f := range []*ssa.Function{m.Ack, m.Nack, m.Acked, m.Nacked, m.NewMessage} {
		if !c.Use(id, f, "Message API function") {
			return nil
		}
	}
	if fs := ReturnedFields(m.Acked, 0); len(fs) == 1 {
		m.AckCh = fs[0]
	}
	if fs := ReturnedFields(m.Nacked, 0); len(fs) == 1 {
		m.NackCh = fs[0]
	}
	if fs := FieldsByType(m.T, TypeIs("sync.Mutex")); len(fs) == 1 {
		m.Mutex = fs[0]
	}
	// state: the field of a package-defined integer type
	for _, f := range FieldsByType(m.T, func(t types.Type) bool {
		n, ok := t.(*types.Named)
		if !ok || n.Obj().Pkg() == nil || n.Obj().Pkg().Path() != msgPkg {
			return false
		}
		b, ok := n.Underlying().(*types.Basic)
		return ok && b.Info()&types.IsInteger != 0
	}) {
		m.State = f
	}
	n := 0
	for _, f := range []*types.Var{m.AckCh, m.NackCh, m.Mutex, m.State} {
		if f != nil {
			n++
		}
	}
	if !c.Floor(id, "Message fields: ack channel (Acked()), nack channel (Nacked()), mutex, settlement state", n, 4) || m.AckCh == m.NackCh {
		return nil
	}
	return m
}

func runC03(c *Check) {
	P := "C03"
	m := c.messageFields(P)
	if m == nil {
		return
	}
	c03Guarded(c, P+".O1", m)
	la := NewLockAn(c.P, "message")

	// the pre-closed channel
	var closedGlobal *ssa.Global
	for _, fn := range []*ssa.Function{m.Ack, m.Nack} {
		for _, st := range FieldStores(fn, m.AckCh) {
			if u, ok := st.Val.(*ssa.UnOp); ok {
				if g, ok := u.X.(*ssa.Global); ok {
					closedGlobal = g
				}
			}
		}
	}
	if c.Floor(P+".O2", "pre-closed channel substituted for a nil ack channel", b2i(closedGlobal != nil), 1) {
		nClose, nStore := 0, 0
		for _, fn := range la.Funcs {
			AllInstrs(fn, func(ins ssa.Instruction) {
				if st, ok := ins.(*ssa.Store); ok && st.Addr == ssa.Value(closedGlobal) {
					nStore++
					_, isMake := st.Val.(*ssa.MakeChan)
					if call, isCall := st.Val.(*ssa.Call); isCall && !isMake {
						// a constructor function that makes the channel, closes it on every path and returns it
						if H := CalleeFn(&call.Call); H != nil && H.Pkg == fn.Pkg && len(H.Blocks) > 0 && H.Signature.Results().Len() == 1 {
							okH := true
							for ret, vals := range ReturnValues(H, 0) {
								mk, isMk := (ssa.Value)(nil), false
								if len(vals) == 1 {
									mk, isMk = vals[0].(*ssa.MakeChan)
								}
								closed := false
								for _, cl := range BuiltinCalls(H, "close") {
									if isMk && AllOrigins(cl.Common().Args[0], func(o ssa.Value) bool { return o == mk }) && Dominates(H, cl, ret) && !InLoop(cl) {
										closed = true
									}
								}
								if !isMk || !closed {
									okH = false
								}
							}
							if okH && len(Returns(H)) > 0 {
								isMake = true
								nClose++
							}
						}
					}
					c.Report(fn.Name() == "init" && isMake, P+".O2", "CLOSEDCHAN-ASSIGNED-ONCE", fn, ins.Pos(), "pre-closed channel", "the shared pre-closed channel is created once during package initialisation")
				}
				if cl, ok := ins.(ssa.CallInstruction); ok {
					if b, isB := cl.Common().Value.(*ssa.Builtin); isB && b.Name() == "close" {
						if u, isU := cl.Common().Args[0].(*ssa.UnOp); isU && u.X == ssa.Value(closedGlobal) {
							nClose++
							c.Report(strings.HasPrefix(fn.Name(), "init"), P+".O2", "CLOSEDCHAN-CLOSED-IN-INIT", fn, ins.Pos(), "pre-closed channel", "the shared channel is closed during package initialisation only")
						}
					}
				}
			})
		}
		c.Report(nClose == 1 && nStore == 1, P+".O2", "CLOSEDCHAN-LIFECYCLE", m.Ack, closedGlobal.Pos(), "pre-closed channel", "the pre-closed channel is assigned once and closed exactly once before any message exists")
	}

	// O3 typestate
	c03Typestate(c, P, m, closedGlobal)
	// every exit of Ack/Nack releases the mutex ("no call blocks")
	la.ReportLeaks(c, P+".O4", []*ssa.Function{m.Ack, m.Nack})

	// O4 non-blocking
	for _, fn := range []*ssa.Function{m.Ack, m.Nack} {
		ok := true
		var wit []string
		AllInstrs(fn, func(ins ssa.Instruction) {
			switch x := ins.(type) {
			case *ssa.Send, *ssa.Select, *ssa.Go:
				ok = false
				wit = append(wit, c.P.Pos(ins.Pos())+": "+ins.String())
			case *ssa.UnOp:
				if x.Op == token.ARROW {
					ok = false
					wit = append(wit, c.P.Pos(ins.Pos())+": channel receive")
				}
			case ssa.CallInstruction:
				n := CalleeName(x)
				switch n {
				case nMutexLock, nMutexUnlock, "builtin.close":
				default:
					ok = false
					wit = append(wit, c.P.Pos(ins.Pos())+": call "+n)
				}
			}
		})
		c.Report(ok, P+".O4", "NON-BLOCKING", fn, fn.Pos(), fn.Name(), "Ack/Nack perform no channel send/receive/select and call nothing but the mutex and close (never block, nothing that can panic besides close)", wit...)
	}
}

func b2i(b bool) int {
	if b {
		return 1
	}
	return 0
}

func roleOf(m *msgFields, f *types.Var) string {
	switch f {
	case m.State:
		return "settlement state"
	case m.AckCh:
		return "ack channel"
	case m.NackCh:
		return "nack channel"
	case m.Mutex:
		return "mutex"
	}
	return "field"
}

// ---------------------------------------------------------------------------
// Typestate by conditional constant propagation

type tsState struct {
	state int64  // settlement state constant
	ch    [2]int // 0 = nil, 1 = open, 2 = closed or pre-closed  (index 0 = ack channel, 1 = nack channel)
}

type tsOutcome struct {
	post    tsState
	events  []string
	ret     string
	badness []string
}

// interpret walks fn from the given pre-state along all feasible paths.
func tsInterpret(fn *ssa.Function, m *msgFields, closedGlobal *ssa.Global, pre tsState) []tsOutcome {
	var outs []tsOutcome
	type frame struct {
		b      *ssa.BasicBlock
		st     tsState
		env    map[ssa.Value]string // known values: ints as decimal, "nil","nonnil","true","false"
		events []string
		bad    []string
		depth  int
	}
	chIdx := func(f *types.Var) int {
		switch f {
		case m.AckCh:
			return 0
		case m.NackCh:
			return 1
		}
		return -1
	}
	var walk func(fr frame)
	walk = func(fr frame) {
		if fr.depth > 64 {
			outs = append(outs, tsOutcome{post: fr.st, events: fr.events, ret: "?", badness: append(fr.bad, "path too long (loop?)")})
			return
		}
		env := map[ssa.Value]string{}
		for k, v := range fr.env {
			env[k] = v
		}
		st := fr.st
		events := append([]string{}, fr.events...)
		bad := append([]string{}, fr.bad...)
		val := func(v ssa.Value) string {
			if c, ok := v.(*ssa.Const); ok {
				if c.IsNil() {
					return "nil"
				}
				if c.Value != nil {
					return c.Value.ExactString()
				}
			}
			return env[v]
		}
		for _, ins := range fr.b.Instrs {
			switch x := ins.(type) {
			case *ssa.UnOp:
				switch x.Op {
				case token.MUL:
					if f, _ := FieldOf(x.X); f != nil {
						if f == m.State {
							env[x] = fmt.Sprint(st.state)
						} else if i := chIdx(f); i >= 0 {
							if st.ch[i] == 0 {
								env[x] = "nil"
							} else {
								env[x] = "nonnil:" + fmt.Sprint(i)
							}
						}
					} else if a, isLocal := x.X.(*ssa.Alloc); isLocal {
						env[x] = env[a]
					} else if g, ok := x.X.(*ssa.Global); ok && g == closedGlobal {
						env[x] = "nonnil:closed"
					}
				case token.NOT:
					switch val(x.X) {
					case "true":
						env[x] = "false"
					case "false":
						env[x] = "true"
					}
				}
			case *ssa.BinOp:
				a, b := val(x.X), val(x.Y)
				if a == "" || b == "" {
					break
				}
				na, nb := strings.SplitN(a, ":", 2)[0], strings.SplitN(b, ":", 2)[0]
				var r bool
				switch x.Op {
				case token.EQL:
					r = na == nb
				case token.NEQ:
					r = na != nb
				default:
					continue
				}
				env[x] = fmt.Sprint(r)
			case *ssa.Store:
				if a, isLocal := x.Addr.(*ssa.Alloc); isLocal {
					env[a] = val(x.Val)
					break
				}
				f, _ := FieldOf(x.Addr)
				if f == nil {
					break
				}
				if f == m.State {
					if n, ok := IntConst(x.Val); ok {
						st.state = n
						events = append(events, fmt.Sprintf("state=%d", n))
					} else {
						bad = append(bad, "non-constant store to the settlement state")
					}
				} else if i := chIdx(f); i >= 0 {
					v := val(x.Val)
					switch {
					case v == "nonnil:closed":
						st.ch[i] = 2
						events = append(events, fmt.Sprintf("ch%d=preclosed", i))
					case v == "nil":
						st.ch[i] = 0
						events = append(events, fmt.Sprintf("ch%d=nil", i))
					default:
						st.ch[i] = 1
						events = append(events, fmt.Sprintf("ch%d=?", i))
						bad = append(bad, "a signal channel is replaced by an unknown value")
					}
				}
			case *ssa.Call:
				if b, ok := x.Call.Value.(*ssa.Builtin); ok && b.Name() == "close" {
					v := val(x.Call.Args[0])
					switch {
					case strings.HasPrefix(v, "nonnil:") && v != "nonnil:closed":
						i := int(v[len(v)-1] - '0')
						if st.ch[i] == 2 {
							bad = append(bad, fmt.Sprintf("double close of channel %d", i))
						}
						st.ch[i] = 2
						events = append(events, fmt.Sprintf("close(ch%d)", i))
					case v == "nil":
						bad = append(bad, "close of a nil channel")
					case v == "nonnil:closed":
						bad = append(bad, "close of the shared pre-closed channel")
					default:
						bad = append(bad, "close of an unknown channel")
					}
				}
			case *ssa.If:
				cv := val(x.Cond)
				switch cv {
				case "true":
					walk(frame{fr.b.Succs[0], st, env, events, bad, fr.depth + 1})
				case "false":
					walk(frame{fr.b.Succs[1], st, env, events, bad, fr.depth + 1})
				default:
					walk(frame{fr.b.Succs[0], st, env, events, bad, fr.depth + 1})
					walk(frame{fr.b.Succs[1], st, env, events, bad, fr.depth + 1})
				}
				return
			case *ssa.Jump:
				walk(frame{fr.b.Succs[0], st, env, events, bad, fr.depth + 1})
				return
			case *ssa.Return:
				r := "?"
				if len(x.Results) == 1 {
					if v := val(x.Results[0]); v == "true" || v == "false" {
						r = v
					}
				}
				outs = append(outs, tsOutcome{post: st, events: events, ret: r, badness: bad})
				return
			case *ssa.Panic:
				outs = append(outs, tsOutcome{post: st, events: events, ret: "panic", badness: append(bad, "explicit panic")})
				return
			case *ssa.Phi:
				// resolve phi by predecessor is not needed for these loop-free functions with constant returns
			}
		}
	}
	walk(frame{b: fn.Blocks[0], st: pre, env: map[ssa.Value]string{}})
	return outs
}

func c03Typestate(c *Check, P string, m *msgFields, closedGlobal *ssa.Global) {
	// the constants Ack and Nack store
	constOf := func(fn *ssa.Function) (int64, bool) {
		var v int64
		n := 0
		for _, st := range FieldStores(fn, m.State) {
			if k, ok := IntConst(st.Val); ok {
				v = k
				n++
			}
		}
		return v, n == 1
	}
	A, okA := constOf(m.Ack)
	N, okN := constOf(m.Nack)
	const U = int64(0)
	if !c.Report(okA && okN && A != N && A != U && N != U, P+".O3", "STATE-CONSTANTS", m.Ack, m.Ack.Pos(), "settlement constants",
		fmt.Sprintf("Ack and Nack each store one distinct non-zero constant (%d, %d); the zero value is 'unsettled' so a zero-value Message starts unsettled", A, N)) {
		return
	}
	type exp struct {
		post   int64
		ret    string
		closes bool // own channel ends closed (closed or pre-closed substituted)
	}
	for _, side := range []struct {
		fn       *ssa.Function
		own      int
		mine     int64
		theirs   int64
		ownLabel string
	}{{m.Ack, 0, A, N, "ack"}, {m.Nack, 1, N, A, "nack"}} {
		for _, pre := range []int64{U, A, N} {
			for ca := 0; ca <= 1; ca++ {
				for cn := 0; cn <= 1; cn++ {
					preSt := tsState{state: pre, ch: [2]int{ca, cn}}
					if pre == A && ca == 1 {
						preSt.ch[0] = 2 // already acked: channel closed
					}
					if pre == N && cn == 1 {
						preSt.ch[1] = 2
					}
					outs := tsInterpret(side.fn, m, closedGlobal, preSt)
					k := fmt.Sprintf("%s(): pre state=%s ackch=%s nackch=%s", side.fn.Name(), stName(pre, A, N), chName(preSt.ch[0]), chName(preSt.ch[1]))
					ok := len(outs) > 0
					var wit []string
					for _, o := range outs {
						var want exp
						switch pre {
						case U:
							want = exp{side.mine, "true", true}
						case side.mine:
							want = exp{side.mine, "true", false}
						default:
							want = exp{side.theirs, "false", false}
						}
						good := len(o.badness) == 0 && o.post.state == want.post && o.ret == want.ret
						other := 1 - side.own
						if o.post.ch[other] != preSt.ch[other] {
							good = false
							wit = append(wit, "the other channel is touched")
						}
						if want.closes {
							if o.post.ch[side.own] != 2 {
								good = false
								wit = append(wit, "own channel not closed after the deciding call")
							}
						} else if o.post.ch[side.own] != preSt.ch[side.own] || len(o.events) != 0 {
							good = false
							wit = append(wit, "a settled message is modified: "+strings.Join(o.events, ","))
						}
						if !good {
							ok = false
							wit = append(wit, fmt.Sprintf("path: events=[%s] post=%s ret=%s problems=%v", strings.Join(o.events, ","), stName(o.post.state, A, N), o.ret, o.badness))
						}
					}
					sort.Strings(wit)
					c.Report(ok, P+".O3", "TYPESTATE", side.fn, side.fn.Pos(), k, "every feasible path from this pre-state implements the first-wins table (result, post-state, exactly the own channel closed, never a nil or second close)", wit...)
				}
			}
		}
	}
}

func stName(s, A, N int64) string {
	switch s {
	case 0:
		return "unsettled"
	case A:
		return "acked"
	case N:
		return "nacked"
	}
	return fmt.Sprint(s)
}

func chName(i int) string { return [...]string{"nil", "open", "closed"}[i] }

// c03Guarded: lockset + who-may-write for the settlement fields (shared with C02.O8).
func c03Guarded(c *Check, id string, m *msgFields) {
	P := id
	_ = P
	la := NewLockAn(c.P, "message")
	mu := la.canon(fieldID(m.Mutex))

	// O1 lockset + O2 who-may-write
	exemptRead := map[*ssa.Function]bool{m.Acked: true, m.Nacked: true}
	writers := map[*ssa.Function]bool{m.NewMessage: true, m.Ack: true, m.Nack: true}
	nacc := 0
	for _, f := range []*types.Var{m.State, m.AckCh, m.NackCh} {
		for _, a := range la.Accesses(f) {
			fn := HomeFn(a.Ins.Parent())
			k := fmt.Sprintf("%s of %s", a.What, roleOf(m, f))
			if fn == m.NewMessage {
				c.Report(true, id, "GUARDED-BY/constructor", fn, a.Ins.Pos(), k, "constructor: the object is not shared yet")
				continue
			}
			if st, isSt := a.Ins.(*ssa.Store); isSt {
				// a composite literal built in this very function: that object is not shared yet either
				if _, base := FieldOf(st.Addr); base != nil {
					if al, isAl := base.(*ssa.Alloc); isAl && al.Parent() == a.Ins.Parent() {
						if _, fresh := firstOrigin(st.Val).(*ssa.MakeChan); fresh || f == m.State {
							c.Report(true, id, "GUARDED-BY/constructor", fn, a.Ins.Pos(), k, "field of a message value created in this function: the object is not shared yet")
							continue
						}
					}
				}
			}
			nacc++
			if a.Write {
				c.Report(writers[fn], id, "WHO-MAY-WRITE", fn, a.Ins.Pos(), k, "settlement fields are written only by NewMessage, Ack and Nack")
			}
			if !a.Write && exemptRead[fn] && f != m.State {
				c.Report(true, id, "GUARDED-BY/accessor", fn, a.Ins.Pos(), k, "accessor read of a field that is assigned at most once for constructor-built messages (documented exception)")
				continue
			}
			held := la.Held(a.Ins)
			_, ok := held[mu]
			c.Report(ok && held[mu] == 'W', id, "GUARDED-BY", fn, a.Ins.Pos(), k, "the access happens with the message's mutex held", "held: "+held.String())
		}
	}
	c.Floor(id, "accesses to the settlement fields outside the constructor", nacc, 8)
	// a channel field is (re)assigned only where it was nil: for constructor-built messages the accessors' lock-free
	// read never meets a write
	for _, fn := range []*ssa.Function{m.Ack, m.Nack} {
		for _, f := range []*types.Var{m.AckCh, m.NackCh} {
			wasNil, _ := NilEdges(fn, func(v ssa.Value) bool { return AllOrigins(v, IsFieldLoad(f)) })
			for _, st := range FieldStores(fn, f) {
				c.Report(len(wasNil) > 0 && GuardedBy(fn, st, wasNil), id, "CHANNEL-ASSIGNED-ONLY-IF-NIL", fn, st.Pos(), "store to the "+roleOf(m, f), "the channel field is written only on the edge where it was nil (zero-value message): a message built by the constructor keeps its channel, so Acked()/Nacked() may read the field without the mutex")
			}
		}
	}
	// the accessors hand out the message's own channel, whatever its state
	for _, pair := range []struct {
		fn *ssa.Function
		f  *types.Var
	}{{m.Acked, m.AckCh}, {m.Nacked, m.NackCh}} {
		for ret, vals := range ReturnValues(pair.fn, 0) {
			okF := len(vals) > 0
			for _, v := range vals {
				if LoadedField(v) != pair.f {
					okF = false
				}
			}
			c.Report(okF, id, "ACCESSOR-RETURNS-FIELD", pair.fn, ret.Pos(), roleOf(m, pair.f), "the accessor returns the message's own channel field on every path (no state-dependent substitute read without the mutex)")
		}
	}
	// composite literals elsewhere that set these fields would be stores too (covered by Accesses)

}

// c03ClosedGlobal finds the pre-closed channel substituted for a nil ack channel.
func c03ClosedGlobal(m *msgFields) *ssa.Global {
	var g0 *ssa.Global
	for _, fn := range []*ssa.Function{m.Ack, m.Nack} {
		for _, st := range FieldStores(fn, m.AckCh) {
			if u, ok := st.Val.(*ssa.UnOp); ok {
				if g, ok := u.X.(*ssa.Global); ok {
					g0 = g
				}
			}
		}
	}
	return g0
}
