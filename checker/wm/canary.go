package wm

// RunCanaries analyses the canary package with the engines; it returns a
// non-empty message if an engine misbehaves. (Filled in canary_test-like code
// below as engines are added.)
func RunCanaries(dir string) string { return runCanaries(dir) }

var canaryStats = map[string]int{}

// CanarySummary reports what the self-test exercised on this run.
func CanarySummary() map[string]int { return canaryStats }
