package wm

import (
	"go/token"
	"go/types"
	"strings"

	"golang.org/x/tools/go/ssa"
)

// RouterRoles2 extends RouterRoles with the lifecycle constructs.
type RouterRoles2 struct {
	*RouterRoles
	R                              *types.Named // Router
	AddHandler, Run, RunHandlers   *ssa.Function
	Close, IsClosed, Running       *ssa.Function
	WaitFn                         *ssa.Function // helper waiting for handlers (called by Close, returns bool)
	Watcher                        *ssa.Function // close watcher started by the run loop
	StartLit                       *ssa.Function // goroutine literal in RunHandlers calling the run loop
	SelfClose                      *ssa.Function // literal that closes the router when all handlers stopped
	LA                             *LockAn
	WRun, WLoop                    string // wait-group identities
	ClosedF, ClosedLockF           *types.Var
	ClosingCh, ClosedCh, RunningCh *types.Var
	HCloseCh                       *types.Var // handler's copy of the closing channel
	HFunc, HSub, HSubTopic, HPub   *types.Var
	HPubTopic, HName, HMsgCh       *types.Var
	HStarted, HStartedCh           *types.Var
	HStopFn, HStopped              *types.Var
	HPubName, HSubName             *types.Var
	Funcs                          []*ssa.Function
}

func (c *Check) routerRoles2(id string) *RouterRoles2 {
	base := c.routerRoles(id)
	if base == nil {
		return nil
	}
	r := &RouterRoles2{RouterRoles: base, R: c.P.Named("message", "Router")}
	if r.R == nil || r.HandlerT == nil {
		c.Floor(id, "types message.Router and the private handler type", 0, 1)
		return nil
	}
	r.Funcs = c.P.SrcFuncs("message")
	r.AddHandler = c.P.MethodOf(r.R, "AddHandler")
	r.Run, r.RunHandlers = c.P.MethodOf(r.R, "Run"), c.P.MethodOf(r.R, "RunHandlers")
	r.Close, r.IsClosed, r.Running = c.P.MethodOf(r.R, "Close"), c.P.MethodOf(r.R, "IsClosed"), c.P.MethodOf(r.R, "Running")
	for _, f := range []*ssa.Function{r.AddHandler, r.Run, r.RunHandlers, r.Close, r.IsClosed, r.Running} {
		if !c.Use(id, f, "Router API method") {
			return nil
		}
	}
	r.LA = NewLockAn(c.P, "message")
	// Router fields
	if fs := ReturnedFields(r.IsClosed, 0); len(fs) == 1 {
		r.ClosedF = fs[0]
	}
	if fs := ReturnedFields(r.Running, 0); len(fs) == 1 {
		r.RunningCh = fs[0]
	}
	// the lock the closed flag is read under: the mutex IsClosed takes (a value or a pointer field)
	for _, cl := range rawCallsIn(r.IsClosed) {
		n := CalleeName(cl)
		if n != "(*sync.Mutex).Lock" && n != "(*sync.RWMutex).Lock" && n != "(*sync.RWMutex).RLock" {
			continue
		}
		recv := cl.Common().Args[0]
		if fa, ok := recv.(*ssa.FieldAddr); ok {
			if f, _ := FieldOf(fa); f != nil {
				r.ClosedLockF = f
			}
		} else if f := LoadedField(firstOrigin(recv)); f != nil {
			r.ClosedLockF = f
		}
	}
	if r.ClosedLockF == nil {
		r.ClosedLockF = oneField(r.R, TypeIs("sync.Mutex"))
	}
	for _, cl := range BuiltinCalls(r.Close, "close") {
		f := LoadedField(firstOrigin(cl.Common().Args[0]))
		if f == nil {
			continue
		}
		if _, isDefer := cl.(*ssa.Defer); isDefer {
			r.ClosedCh = f
		} else {
			r.ClosingCh = f
		}
	}
	// handler fields from AddHandler's parameters: (name, subTopic, subscriber, pubTopic, publisher, func)
	ps := r.AddHandler.Params
	get := func(i int) *types.Var {
		if i >= len(ps) {
			return nil
		}
		fs := FieldsStoringParam(r.AddHandler, ps[i])
		var out *types.Var
		for _, f := range fs {
			if ownerName(f) == ownerName(fieldOfNamed(r.HandlerT, 0)) {
				if out != nil && out != f {
					return nil
				}
				out = f
			}
		}
		return out
	}
	r.HName, r.HSubTopic, r.HSub, r.HPubTopic, r.HPub, r.HFunc = get(1), get(2), get(3), get(4), get(5), get(6)
	r.HMsgCh = oneField(r.HandlerT, TypeIs(tMsgChanRecv))
	// the handler's copy of the router's closing channel
	AllInstrs(r.AddHandler, func(in ssa.Instruction) {
		if st, ok := in.(*ssa.Store); ok {
			if f, _ := FieldOf(st.Addr); f != nil && f.Type().String() == "chan struct{}" && r.ClosingCh != nil && AllOrigins(st.Val, IsFieldLoad(r.ClosingCh)) {
				r.HCloseCh = f
			}
		}
	})
	// publisher / subscriber type names: fields storing results of internal.StructName
	AllInstrs(r.AddHandler, func(in ssa.Instruction) {
		st, ok := in.(*ssa.Store)
		if !ok {
			return
		}
		f, _ := FieldOf(st.Addr)
		call, isCall := firstOrigin(st.Val).(*ssa.Call)
		if f == nil || !isCall || CalleeName(call) != ModulePath+"/internal.StructName" {
			return
		}
		a := unwrapIface(call.Call.Args[0])
		if len(ps) > 5 && AllOrigins(a, IsParam(ps[5])) {
			r.HPubName = f
		}
		if len(ps) > 3 && AllOrigins(a, IsParam(ps[3])) {
			r.HSubName = f
		}
	})
	// Handler API: Started/Stop/Stopped
	H := c.P.Named("message", "Handler")
	if H != nil {
		if fn := c.P.MethodOf(H, "Started"); fn != nil {
			if fs := ReturnedFields(fn, 0); len(fs) == 1 {
				r.HStartedCh = fs[0]
			}
		}
		if fn := c.P.MethodOf(H, "Stopped"); fn != nil {
			if fs := ReturnedFields(fn, 0); len(fs) == 1 {
				r.HStopped = fs[0]
			}
		}
		if fn := c.P.MethodOf(H, "Stop"); fn != nil {
			for _, cl := range CallsIn(fn) {
				if f := LoadedField(firstOrigin(cl.Common().Value)); f != nil && !cl.Common().IsInvoke() && CalleeFn(cl.Common()) == nil {
					r.HStopFn = f
				}
			}
			for _, t := range Tests(fn) {
				if f := LoadedField(firstOrigin(t.X)); f != nil && f.Type().String() == "bool" {
					r.HStarted = f
				}
			}
		}
	}
	n := 0
	for _, f := range []*types.Var{r.ClosedF, r.RunningCh, r.ClosedLockF, r.ClosedCh, r.ClosingCh, r.HName, r.HSubTopic, r.HSub, r.HPubTopic, r.HPub, r.HFunc, r.HMsgCh, r.HCloseCh, r.HPubName, r.HSubName, r.HStartedCh, r.HStopped, r.HStopFn, r.HStarted} {
		if f != nil {
			n++
		}
	}
	if !c.Floor(id, "router/handler fields located through the exported API (closed flag, signals, wiring fields, start/stop fields)", n, 19) {
		return nil
	}
	// wait helper: in-package function called by Close returning bool
	for _, cl := range CallsIn(r.Close) {
		cal := CalleeFn(cl.Common())
		if cal != nil && cal.Pkg == r.Close.Pkg && cal.Signature.Results().Len() == 1 && cal.Signature.Results().At(0).Type().String() == "bool" && cal != r.IsClosed {
			r.WaitFn = cal
		}
		// the same helper answering with an error (nil = finished in time) instead of a flag
		if cal != nil && cal.Pkg == r.Close.Pkg && r.WaitFn == nil && cal.Signature.Results().Len() == 1 && IsErrorType(cal.Signature.Results().At(0).Type()) &&
			len(CallsTo(cal, ModulePath+"/pubsub/sync.WaitGroupTimeout")) > 0 {
			r.WaitFn = cal
		}
	}
	// close watcher: the other `go` in the run loop
	AllInstrs(r.RunLoop, func(in ssa.Instruction) {
		if g, ok := in.(*ssa.Go); ok && g != r.GoDispatch {
			if cal := CalleeFn(&g.Call); cal != nil {
				r.Watcher = cal
			} else if f := FuncOfValue(g.Call.Value); f != nil {
				r.Watcher = f
			}
		}
	})
	// start literal: the goroutine in RunHandlers that calls the run loop
	for _, f := range r.RunHandlers.AnonFuncs {
		for _, cl := range CallsIn(f) {
			if CalleeFn(cl.Common()) == r.RunLoop {
				r.StartLit = f
			}
		}
	}
	if r.StartLit == nil {
		// the goroutine may be a named method started with `go` (its parameters bind to the arguments of that one site)
		AllInstrs(r.RunHandlers, func(in ssa.Instruction) {
			g, ok := in.(*ssa.Go)
			if !ok {
				return
			}
			f := FuncOfValue(g.Call.Value)
			if f == nil {
				f = CalleeFn(&g.Call)
			}
			if f == nil || f.Pkg != r.RunHandlers.Pkg {
				return
			}
			for _, cl := range CallsIn(f) {
				if CalleeFn(cl.Common()) == r.RunLoop {
					r.StartLit = f
				}
			}
		})
	}
	// self-close literal: a goroutine literal (anywhere in Run's helpers) that calls Close
	for _, fn := range r.Funcs {
		if fn.Parent() == nil {
			continue
		}
		for _, cl := range CallsIn(fn) {
			if CalleeFn(cl.Common()) == r.Close {
				r.SelfClose = fn
			}
		}
	}
	ok := true
	for what, f := range map[string]*ssa.Function{
		"helper waiting for handlers (called by Close)":                    r.WaitFn,
		"close watcher (second goroutine of the run loop)":                 r.Watcher,
		"handler start literal in RunHandlers":                             r.StartLit,
		"self-close literal (closes the router when all handlers stopped)": r.SelfClose,
	} {
		if !c.Use(id, f, what) {
			ok = false
		}
	}
	if !ok {
		return nil
	}
	// wait groups
	for _, a := range CallsTo(r.RunLoop, nWGAdd) {
		if Dominates(r.RunLoop, a, r.GoDispatch) {
			r.WRun = r.LA.LockID(Receiver(a))
		}
	}
	for _, d := range CallsTo(r.StartLit, nWGDone) {
		r.WLoop = r.LA.LockID(Receiver(d))
	}
	// (the wiring and middleware properties do not use the wait groups: their role lookup does not depend on them)
	needWG := !(strings.HasPrefix(id, "C08") || strings.HasPrefix(id, "C09") || strings.HasSuffix(id, ".M09"))
	if needWG && !c.Floor(id, "wait groups: in-flight invocations (Add before go dispatch) and handler loops (Done after the run loop)", b2i(r.WRun != "")+b2i(r.WLoop != "" && r.WLoop != r.WRun), 2) {
		return nil
	}
	return r
}

func fieldOfNamed(n *types.Named, i int) *types.Var {
	st, ok := n.Underlying().(*types.Struct)
	if !ok || i >= st.NumFields() {
		return nil
	}
	return st.Field(i)
}

// WrapLoop describes `acc = elem_i(acc)` inside a loop over a slice.
type WrapLoop struct {
	Call  ssa.CallInstruction
	Slice ssa.Value
	Index ssa.Value
	Dir   int  // +1 ascending, -1 descending, 0 unknown
	Full  bool // covers every index
}

// FindWrapLoops finds dynamic calls f(acc) where acc is a loop-carried
// accumulator that receives the call's result, and f is (a field of) an
// element of a slice indexed by the loop's induction variable.
func FindWrapLoops(fn *ssa.Function) []WrapLoop {
	var out []WrapLoop
	for _, cl := range CallsIn(fn) {
		call, ok := cl.(*ssa.Call)
		if !ok || call.Call.IsInvoke() || CalleeFn(&call.Call) != nil || len(call.Call.Args) != 1 {
			continue
		}
		// accumulator: arg's origins include the call itself (through phis)
		carried := false
		for _, o := range Origins(call.Call.Args[0]) {
			if o == ssa.Value(call) {
				carried = true
			}
			if e, isE := o.(*ssa.Extract); isE && e.Tuple == ssa.Value(call) {
				carried = true
			}
		}
		if !carried {
			continue
		}
		wl := WrapLoop{Call: cl}
		// element
		var ia *ssa.IndexAddr
		Wraps(call.Call.Value, func(v ssa.Value) bool {
			if u, ok := v.(*ssa.UnOp); ok && u.Op == token.MUL {
				if x, ok := u.X.(*ssa.IndexAddr); ok {
					ia = x
					return true
				}
				// field of a local copy of the element
				if fa, ok := u.X.(*ssa.FieldAddr); ok {
					if al, ok := fa.X.(*ssa.Alloc); ok {
						for _, ref := range *al.Referrers() {
							if st, ok := ref.(*ssa.Store); ok && st.Addr == ssa.Value(al) {
								if u2, ok := st.Val.(*ssa.UnOp); ok {
									if x, ok := u2.X.(*ssa.IndexAddr); ok {
										ia = x
										return true
									}
								}
							}
						}
					}
				}
			}
			return false
		})
		if ia != nil {
			wl.Slice, wl.Index = ia.X, ia.Index
			switch {
			case IsFullRangeIndex(ia.Index, ia.X):
				wl.Dir, wl.Full = +1, true
			case isMirroredFullRange(ia.Index, ia.X):
				wl.Dir, wl.Full = -1, true
			default:
				wl.Dir, wl.Full = loopDirection(ia.Index, ia.X)
			}
		}
		out = append(out, wl)
	}
	return out
}

// loopDirection recognises `for i := len(s)-1; i >= 0; i--` (‑1, full) and
// `for i := 0; i < len(s); i++` (+1, full).
func loopDirection(idx, s ssa.Value) (int, bool) {
	phi, ok := idx.(*ssa.Phi)
	if !ok {
		return 0, false
	}
	var init ssa.Value
	var step *ssa.BinOp
	for _, e := range phi.Edges {
		if bo, ok := e.(*ssa.BinOp); ok && bo.X == ssa.Value(phi) && (bo.Op == token.ADD || bo.Op == token.SUB) {
			if n, isC := IntConst(bo.Y); isC && n == 1 {
				step = bo
				continue
			}
		}
		if init != nil && init != e {
			return 0, false
		}
		init = e
	}
	if init == nil || step == nil {
		return 0, false
	}
	isLen := func(v ssa.Value) bool {
		args, ok := IsBuiltinCall(v, "len")
		return ok && sameValue(args[0], s)
	}
	// loop test on phi
	for _, ref := range *phi.Referrers() {
		cmp, ok := ref.(*ssa.BinOp)
		if !ok || cmp.X != ssa.Value(phi) {
			continue
		}
		if step.Op == token.SUB {
			// init = len(s)-1, test i >= 0  (or i > -1)
			ib, ok := init.(*ssa.BinOp)
			okInit := ok && ib.Op == token.SUB && isLen(ib.X)
			if okInit {
				n, isC := IntConst(ib.Y)
				okInit = isC && n == 1
			}
			n, isC := IntConst(cmp.Y)
			okTest := isC && ((cmp.Op == token.GEQ && n == 0) || (cmp.Op == token.GTR && n == -1))
			return -1, okInit && okTest
		}
		n0, isC0 := IntConst(init)
		okInit := isC0 && n0 == 0
		okTest := cmp.Op == token.LSS && isLen(cmp.Y)
		return +1, okInit && okTest
	}
	return 0, false
}

// waitVerdictEdges returns, for the calls of the wait helper in fn, the edges
// on which the wait timed out and those on which it did not — from a test of
// the helper's bool result, or of its error result against nil.
func (r *RouterRoles2) waitVerdictEdges(fn *ssa.Function, waits []ssa.CallInstruction) (timedOut, inTime []Edge) {
	if r.WaitFn != nil && IsErrorType(r.WaitFn.Signature.Results().At(0).Type()) {
		inTime, timedOut = NilEdges(fn, ResultOfAny(waits, 0))
		return
	}
	return BoolEdges(fn, ResultOfAny(waits, 0))
}

// handlerStartLockID: the lock RunHandlers holds (in write mode) at the go statement that starts a handler.
func (r *RouterRoles2) handlerStartLockID() string {
	id := ""
	AllInstrs(r.RunHandlers, func(in ssa.Instruction) {
		g, ok := in.(*ssa.Go)
		if !ok || HomeFn(in.Parent()) != r.RunHandlers {
			return
		}
		cal := CalleeFn(&g.Call)
		if cal == nil {
			cal = FuncOfValue(firstOrigin(g.Call.Value))
		}
		if cal != r.StartLit {
			return
		}
		for lid, m := range r.LA.Held(g) {
			if m == 'W' {
				id = lid
			}
		}
	})
	return id
}

// isMirroredFullRange: idx is (len(s)-1) - i for an i that runs over the full range of s upwards — a descending walk
// spelled with an ascending counter.
func isMirroredFullRange(idx, s ssa.Value) bool {
	bo, ok := idx.(*ssa.BinOp)
	if !ok || bo.Op != token.SUB || !IsFullRangeIndex(bo.Y, s) {
		return false
	}
	last, ok := firstOrigin(bo.X).(*ssa.BinOp)
	if !ok || last.Op != token.SUB || len(Origins(bo.X)) != 1 {
		return false
	}
	if n, isC := IntConst(last.Y); !isC || n != 1 {
		return false
	}
	args, isLen := IsBuiltinCall(last.X, "len")
	return isLen && len(args) == 1 && sameValue(args[0], s)
}
