package wm

import (
	"fmt"
	"go/token"
	"go/types"
	"strings"

	"golang.org/x/tools/go/ssa"
)

func init() {
	register(&PropDef{
		ID:  "C17",
		Run: runC17,
		Explanation: "Decides for the Forwarder handler, the Forwarder publisher, the Requeuer handler, FanIn and FanOut registration: a nil return (⇒ Ack by the Router, C02) is reachable only behind destination-Publish == nil (Forwarder additionally: unwrap failed ∧ AckWhenCannotUnwrap); a failing Publish returns non-nil; Publish is unreachable on the unwrap-error edge; " +
			"the destination topic and message passed to Publish are the results of unwrap / the topic generator / the consumed message object; the requeuer stores decimal(previous-or-0 + 1) under RetriesKey before Publish; FanIn/FanOut register pass-through handlers with the documented topics, subscriber and publisher. " +
			"Not decided: the JSON envelope round trip on all values (C16.O4 decides field agreement), Router behaviour (C02).",
		Assumptions: commonAssumptions,
	})
}

const nAddNoPub = "(*" + msgPkg + ".Router).AddNoPublisherHandler"
const nAddHandler = "(*" + msgPkg + ".Router).AddHandler"

// relayHandler finds the function registered with AddNoPublisherHandler in ctor.
func (c *Check) noPubHandlerIn(id string, ctor *ssa.Function) *ssa.Function {
	calls := CallsTo(ctor, nAddNoPub)
	if !c.Floor(id, "AddNoPublisherHandler call in "+FnName(ctor), len(calls), 1) {
		return nil
	}
	h := Arg(calls[0], 3)
	var fn *ssa.Function
	for _, o := range Origins(h) {
		if t := c.P.BoundMethodTarget(o); t != nil {
			fn = t
		} else if f := FuncOfValue(o); f != nil {
			fn = f
		}
	}
	if !c.Use(id, fn, "handler function registered in "+FnName(ctor)) {
		return nil
	}
	return fn
}

func runC17(c *Check) {
	LostReceiverStores(c, "C17.CFG", "components/forwarder", "components/requeuer", "components/fanin")
	DefaultsApplied(c, "C17.CFG", "components/forwarder", "components/requeuer", "components/fanin")
	for _, rel := range []string{"components/forwarder", "components/requeuer", "components/fanin"} {
		OptionalHooksGuarded(c, "C17.CFG", rel)
	}
	c17Forwarder(c)
	c17ForwarderPublisher(c)
	// the forwarder pair relays through the JSON envelope: its field-by-field agreement (also decided as C16.O4) is what keeps UUID, payload and metadata intact
	c16Envelope(c, "C17.O2")
	c17Requeuer(c)
	c17FanIn(c)
	c17FanOut(c)
}

func exportedFieldLoad(name string) func(ssa.Value) bool {
	return func(v ssa.Value) bool {
		f := LoadedField(v)
		return f != nil && f.Exported() && f.Name() == name
	}
}

func c17Forwarder(c *Check) {
	P := "C17"
	ctor := c.P.Func("components/forwarder", "NewForwarder")
	if !c.Use(P, ctor, "forwarder.NewForwarder") {
		return
	}
	fn := c.noPubHandlerIn(P+".O1", ctor)
	if fn == nil {
		return
	}
	msgs := ParamsOfType(fn, tMessagePtr)
	if !c.Floor(P+".O1", "message parameter of the forwarder handler", len(msgs), 1) {
		return
	}
	msg := msgs[0]
	// unwrap: in-package call on the consumed message returning (string, *Message, error)
	var unwraps []ssa.CallInstruction
	for _, cl := range CallsIn(fn) {
		cal := CalleeFn(cl.Common())
		if cal == nil || cal.Pkg != fn.Pkg {
			continue
		}
		rs := cal.Signature.Results()
		if rs.Len() == 3 && rs.At(0).Type().String() == "string" && rs.At(1).Type().String() == tMessagePtr && IsErrorType(rs.At(2).Type()) &&
			len(cl.Common().Args) >= 1 && FromParam(msg)(cl.Common().Args[len(cl.Common().Args)-1]) {
			unwraps = append(unwraps, cl)
		}
	}
	if !c.Floor(P+".O1", "unwrap call on the consumed message", len(unwraps), 1) {
		return
	}
	uw := unwraps[0]
	_, uwFail := NilEdges(fn, ResultOfAny(unwraps, 2))
	pubs := CallsTo(fn, nPublish)
	if !c.Floor(P+".O1", "Publish call in the forwarder handler", len(pubs), 1) {
		return
	}
	pubOK, pubFail := NilEdges(fn, ResultOfAny(pubs, 0))
	ackTrue, _ := BoolEdges(fn, exportedFieldLoad("AckWhenCannotUnwrap"))
	c.Floor(P+".O1", "test of AckWhenCannotUnwrap", len(ackTrue), 1)
	c.Floor(P+".O1", "test `unwrap error != nil`", len(uwFail), 1)
	c.Floor(P+".O1", "test `publish error == nil` (or the Publish result returned as it is)", len(pubOK)+tailReturns(fn, ResultOfAny(pubs, 0)), 1)
	for _, e := range ackTrue {
		c.Report(GuardedBy(fn, e.From.Instrs[len(e.From.Instrs)-1], uwFail), P+".O1", "ACK-OPTION-ONLY-ON-UNWRAP-ERROR", fn, e.From.Instrs[len(e.From.Instrs)-1].Pos(), "AckWhenCannotUnwrap test",
			"AckWhenCannotUnwrap is consulted only on the unwrap-error edge")
	}
	relayReturns(c, P, fn, append(append([]Edge{}, pubOK...), ackTrue...), pubFail,
		"nil (⇒ Ack) is returned only after the destination accepted the message, or for a non-envelope when AckWhenCannotUnwrap")
	for i, r := range Returns(fn) {
		if RetNil(r, len(r.Results)-1) {
			continue
		}
		c.Report(GuardedBy(fn, r, append(append([]Edge{}, uwFail...), pubFail...)) || isTailOf(r.Results[len(r.Results)-1], ResultOfAny(pubs, 0)), P+".O1", "RELAY-FAILS-ONLY-ON-FAULT", fn, r.Pos(), fmt.Sprintf("return#%d", i), "the forwarder refuses a message (⇒ Nack, redelivery) only when it could not be unwrapped or the destination Publish failed — not because of what the envelope says (e.g. its destination topic)")
	}
	// on the unwrap-error edge the option alone decides: with AckWhenCannotUnwrap set every non-envelope is acked, whatever
	// made it a non-envelope (undecodable bytes, JSON of another shape, an empty destination)
	_, ackFalse := BoolEdges(fn, exportedFieldLoad("AckWhenCannotUnwrap"))
	for _, e := range uwFail {
		re := ReachEdge(e, NewCut().AddEdges(ackFalse...))
		for i, r := range Returns(fn) {
			if re[r] && !RetNil(r, len(r.Results)-1) {
				c.Report(false, P+".O1", "ACK-OPTION-ALONE-DECIDES", fn, r.Pos(), fmt.Sprintf("return#%d", i), "a failing return (⇒ Nack) on the unwrap-error edge lies behind the edge on which AckWhenCannotUnwrap is false: no further condition (the kind of unwrap error, …) makes the forwarder Nack a non-envelope although the option is set")
			}
		}
	}
	c.Report(true, P+".O1", "ACK-OPTION-SCANNED", fn, fn.Pos(), "AckWhenCannotUnwrap", "failing returns on the unwrap-error edge examined")
	for _, e := range uwFail {
		re := ReachEdge(e, nil)
		bad := false
		for _, pb := range pubs {
			if re[pb] {
				bad = true
			}
		}
		c.Report(!bad, P+".O1", "NO-FORWARD-ON-UNWRAP-ERROR", fn, e.From.Instrs[len(e.From.Instrs)-1].Pos(), "unwrap error edge", "a message that is not a valid envelope is never forwarded")
	}
	c17UnwrapValidates(c, P, CalleeFn(uw.Common()))
	for i, pb := range pubs {
		k := fmt.Sprintf("Publish#%d", i)
		c.Report(AllOrigins(Arg(pb, 0), func(v ssa.Value) bool { return IsResultOf(v, uw, 0) }), P+".O2", "DEST-TOPIC", fn, pb.Pos(), k, "the destination topic is the one recorded in the envelope")
		el := VariadicElems(Arg(pb, 1))
		c.Report(len(el) == 1 && AllOrigins(el[0], func(v ssa.Value) bool { return IsResultOf(v, uw, 1) }), P+".O2", "DEST-MESSAGE", fn, pb.Pos(), k, "exactly the unwrapped message is forwarded")
		c.Report(!InLoop(pb) && NoneReachableAfter(pb, pubs), P+".O2", "FORWARD-ONCE", fn, pb.Pos(), k, "forwarded at most once per consumed message")
		rf := LoadedField(firstOrigin(Receiver(pb)))
		okR := false
		if rf != nil {
			// the field must be the one the constructor fills from its publisher parameter
			for _, prm := range ParamsOfType(ctor, msgPkg+".Publisher") {
				for _, f := range FieldsStoringParam(ctor, prm) {
					if f == rf {
						okR = true
					}
				}
			}
		}
		c.Report(okR, P+".O2", "DEST-PUBLISHER", fn, pb.Pos(), k, "the publisher is the output publisher given to NewForwarder")
	}
	// registration: subscribe topic = config.ForwarderTopic, subscriber = parameter
	for _, ad := range CallsTo(ctor, nAddNoPub) {
		c.Report(AllOrigins(Arg(ad, 1), exportedFieldLoad("ForwarderTopic")), P+".O2", "FORWARDER-SUBSCRIBE-TOPIC", ctor, ad.Pos(), "registration", "the forwarder subscribes to config.ForwarderTopic")
		subs := ParamsOfType(ctor, msgPkg+".Subscriber")
		c.Report(len(subs) == 1 && FromParam(subs[0])(Arg(ad, 2)), P+".O2", "FORWARDER-SUBSCRIBER", ctor, ad.Pos(), "registration", "the forwarder consumes from the given subscriber")
	}
	c17ForwarderMiddlewares(c, P+".O2")
}

// tailReturns counts the returns whose last result is exactly the tracked
// call's result (`return pub.Publish(…)`): nil iff the call succeeded, no test needed.
func tailReturns(fn *ssa.Function, isRes func(ssa.Value) bool) int {
	n := 0
	for _, r := range Returns(fn) {
		if len(r.Results) > 0 && isTailOf(r.Results[len(r.Results)-1], isRes) {
			n++
		}
	}
	return n
}

// isTailOf: v is the result itself, or a pkg/errors wrap of it (Wrap, Wrapf, WithStack, WithMessage[f] answer nil for
// a nil error and a non-nil error otherwise): returning it is returning "nil iff the call succeeded".
func isTailOf(v ssa.Value, isRes func(ssa.Value) bool) bool {
	return AllOrigins(v, func(o ssa.Value) bool {
		for d := 0; d < 4; d++ {
			if isRes(o) {
				return true
			}
			cl, ok := o.(*ssa.Call)
			if !ok || len(cl.Call.Args) == 0 {
				return false
			}
			switch CalleeName(cl) {
			case "github.com/pkg/errors.Wrap", "github.com/pkg/errors.Wrapf", "github.com/pkg/errors.WithStack", "github.com/pkg/errors.WithMessage", "github.com/pkg/errors.WithMessagef":
				os := Origins(cl.Call.Args[0])
				if len(os) != 1 {
					return false
				}
				o = os[0]
			default:
				return false
			}
		}
		return false
	})
}

// relayReturns checks the nil/non-nil discipline of a relay handler's returns.
func relayReturns(c *Check, P string, fn *ssa.Function, okEdges, failEdges []Edge, why string) {
	for i, r := range Returns(fn) {
		k := fmt.Sprintf("return#%d", i)
		res := r.Results[len(r.Results)-1]
		for _, v := range Origins(res) {
			if IsNilConst(v) {
				c.Report(GuardedBy(fn, r, okEdges) || nilOnlyOnEdges(r, v, okEdges), P+".O1", "RELAY-ACK", fn, r.Pos(), k, why)
			}
		}
	}
	for _, e := range failEdges {
		re := ReachEdge(e, nil)
		ok := true
		var wit []string
		// the error that is known to be non-nil on this edge
		var failing ssa.Value
		if iff, isIf := e.From.Instrs[len(e.From.Instrs)-1].(*ssa.If); isIf {
			for _, t := range Tests(fn) {
				if t.If == iff {
					failing = t.X
					if IsNilConst(failing) {
						failing = t.Y
					}
				}
			}
		}
		isFailing := func(v ssa.Value) bool { return failing != nil && (v == failing || sameValue(v, failing)) }
		for _, r := range Returns(fn) {
			if !re[r] {
				continue
			}
			res := r.Results[len(r.Results)-1]
			for _, v := range Origins(res) {
				if !ProvablyNonNil(v, isFailing) {
					ok = false
					wit = append(wit, "return at "+c.P.Pos(r.Pos())+" yields "+v.String()+", which is not provably non-nil on the failure edge")
				}
			}
		}
		c.Report(ok, P+".O1", "RELAY-NACK", fn, e.From.Instrs[len(e.From.Instrs)-1].Pos(), "publish error edge", "when the destination Publish fails a provably non-nil error is returned (the failing error itself, a wrap of it, or a fresh error) ⇒ Nack", wit...)
	}
}

// ProvablyNonNil: v is non-nil whenever known(v') holds for the error known to
// be non-nil: the error itself, a wrap of a provably non-nil error, or a
// freshly constructed error.
func ProvablyNonNil(v ssa.Value, known func(ssa.Value) bool) bool {
	seen := map[ssa.Value]bool{}
	var rec func(v ssa.Value, d int) bool
	rec = func(v ssa.Value, d int) bool {
		if v == nil || d > 6 || seen[v] {
			return false
		}
		seen[v] = true
		if known(v) {
			return true
		}
		switch x := v.(type) {
		case *ssa.Const:
			return !x.IsNil()
		case *ssa.MakeInterface:
			// a concrete non-pointer value boxed into an interface is non-nil
			if _, isPtr := x.X.Type().Underlying().(*types.Pointer); !isPtr {
				return true
			}
			return rec(x.X, d+1)
		case *ssa.Alloc:
			return true
		case *ssa.Call:
			switch CalleeName(x) {
			case "github.com/pkg/errors.New", "github.com/pkg/errors.Errorf", "errors.New", "fmt.Errorf":
				return true
			case "github.com/pkg/errors.Wrap", "github.com/pkg/errors.Wrapf", "github.com/pkg/errors.WithStack", "github.com/pkg/errors.WithMessage", "github.com/pkg/errors.WithMessagef":
				if known(x.Call.Args[0]) {
					return true // the wrapped value itself was tested
				}
				for _, o := range Origins(x.Call.Args[0]) {
					if !rec(o, d+1) {
						return false
					}
				}
				return true
			case "(context.Context).Err":
				return false
			}
		case *ssa.UnOp:
			if g, ok := x.X.(*ssa.Global); ok && g != nil {
				return true // package-level sentinel error
			}
		}
		return false
	}
	return rec(v, 0)
}

func c17ForwarderPublisher(c *Check) {
	P := "C17"
	fn := c.P.Method("components/forwarder", "Publisher", "Publish")
	if !c.Use(P+".O2", fn, "forwarder.(*Publisher).Publish") {
		return
	}
	topic := fn.Params[1]
	pubs := CallsTo(fn, nPublish)
	if !c.Floor(P+".O2", "inner Publish in forwarder.Publisher.Publish", len(pubs), 1) {
		return
	}
	// wrap calls: in-package (string, *Message) -> (*Message, error)
	var wraps []ssa.CallInstruction
	for _, cl := range CallsIn(fn) {
		cal := CalleeFn(cl.Common())
		if cal == nil || cal.Pkg != fn.Pkg {
			continue
		}
		rs := cal.Signature.Results()
		if rs.Len() == 2 && rs.At(0).Type().String() == tMessagePtr && IsErrorType(rs.At(1).Type()) && cal.Signature.Params().Len() == 2 {
			wraps = append(wraps, cl)
		}
	}
	if !c.Floor(P+".O2", "wrap-in-envelope call", len(wraps), 1) {
		return
	}
	for i, w := range wraps {
		k := fmt.Sprintf("wrap#%d", i)
		c.Report(FromParam(topic)(w.Common().Args[0]), P+".O2", "ENVELOPE-DESTINATION", fn, w.Pos(), k, "the envelope's destination is the topic the caller published to")
		okM := AllOrigins(w.Common().Args[1], func(v ssa.Value) bool { return isElemOfParam(v, fn.Params[2]) })
		c.Report(okM, P+".O2", "ENVELOPE-MESSAGE", fn, w.Pos(), k, "each of the caller's messages is wrapped")
		_, wFail := NilEdges(fn, ResultOfAny([]ssa.CallInstruction{w}, 1))
		for _, e := range wFail {
			re := ReachEdge(e, nil)
			bad := false
			for _, pb := range pubs {
				if re[pb] {
					bad = true
				}
			}
			for _, r := range Returns(fn) {
				if re[r] && RetNil(r, 0) {
					bad = true
				}
			}
			c.Report(!bad, P+".O2", "WRAP-ERROR-RETURNED", fn, w.Pos(), k, "a wrapping error aborts the publish with a non-nil error")
		}
	}
	// an envelope is only made for a destination the forwarder can deliver to: the wrap function succeeds only past the
	// envelope validation (directly, or through the in-package constructor it calls)
	for _, w := range wraps {
		if W := CalleeFn(w.Common()); W != nil {
			c.Report(succeedsOnlyIfValidated(W, 2), P+".O2", "WRAP-SUCCEEDS-ONLY-IF-VALID", W, W.Pos(), "wrap function", "every successful return of the wrap function lies behind the edge on which the envelope validation (non-empty destination topic) passed: Publish to an empty topic fails at the caller instead of producing an envelope the forwarder can only drop or nack forever")
		}
	}
	wrapRes := ResultOfAny(wraps, 0)
	for i, pb := range pubs {
		k := fmt.Sprintf("Publish#%d", i)
		c.Report(!InLoop(pb) && NoneReachableAfter(pb, pubs), P+".O2", "BATCH-ONE-PUBLISH", fn, pb.Pos(), k, "the batch is handed to the wrapped publisher in one call")
		c.Report(AllOrigins(Arg(pb, 0), exportedFieldLoad("ForwarderTopic")), P+".O2", "FORWARDER-TOPIC", fn, pb.Pos(), k, "envelopes are published to the configured forwarder topic")
		okS := sliceBuiltFrom(Arg(pb, 1), wrapRes)
		c.Report(okS, P+".O2", "BATCH-CONTENT", fn, pb.Pos(), k, "the published batch consists of the envelopes, appended in order")
	}
	pubOK, pubFail := NilEdges(fn, ResultOfAny(pubs, 0))
	relayReturns(c, P, fn, pubOK, pubFail, "nil is returned only after the wrapped publisher accepted the envelopes")
	{
		var srcs []ErrSource
		for _, w := range wraps {
			srcs = append(srcs, ErrSource{w, 1})
		}
		for _, pb := range pubs {
			srcs = append(srcs, ErrSource{pb, 0})
		}
		ErrorsOnlyFrom(c, P+".O2", "FORWARDER-PUBLISH-FAILS-ONLY-ON-FAULT", fn, srcs, nil, "the forwarder's publisher fails only when a message cannot be wrapped or the wrapped publisher failed")
	}
}

// isElemOfParam: v is an element read from slice parameter p (range or index).
func isElemOfParam(v ssa.Value, p *ssa.Parameter) bool {
	u, ok := v.(*ssa.UnOp)
	if !ok || u.Op != token.MUL {
		return false
	}
	ia, ok := u.X.(*ssa.IndexAddr)
	return ok && FromParam(p)(ia.X)
}

// sliceBuiltFrom: v is a slice made empty and extended only by append(v, e)
// with e satisfying elem.
func sliceBuiltFrom(v ssa.Value, elem func(ssa.Value) bool) bool {
	seen := map[ssa.Value]bool{}
	var rec func(v ssa.Value) bool
	rec = func(v ssa.Value) bool {
		if seen[v] {
			return true
		}
		seen[v] = true
		switch x := v.(type) {
		case *ssa.Phi:
			for _, e := range x.Edges {
				if !rec(e) {
					return false
				}
			}
			return true
		case *ssa.ChangeType:
			return rec(x.X)
		case *ssa.Slice:
			// s[:0] of a fresh array, or a full reslice
			if _, fresh := x.X.(*ssa.Alloc); fresh {
				return true
			}
			return x.Low == nil && x.High == nil && rec(x.X)
		case *ssa.MakeSlice:
			if n, ok := IntConst(x.Len); ok {
				return n == 0
			}
			// make([]T, len(S)) filled by index in a full range loop over S: out[i] = elem, in every iteration
			largs, isLen := IsBuiltinCall(x.Len, "len")
			if !isLen || len(largs) != 1 {
				return false
			}
			nst := 0
			for _, ref := range *x.Referrers() {
				ia, isIA := ref.(*ssa.IndexAddr)
				if !isIA {
					continue
				}
				for _, r2 := range *ia.Referrers() {
					st, isSt := r2.(*ssa.Store)
					if !isSt || st.Addr != ssa.Value(ia) {
						continue
					}
					inc, isIns := ia.Index.(ssa.Instruction)
					if !isIns || !isRangeIndexOver(ia.Index, largs[0]) || !AllOrigins(st.Val, elem) || ReachWithout(inc, inc, st) {
						return false
					}
					nst++
				}
			}
			return nst > 0
		case *ssa.Const:
			return x.IsNil()
		case *ssa.Call:
			args, ok := IsBuiltinCall(x, "append")
			if !ok || len(args) != 2 {
				return false
			}
			if !rec(args[0]) {
				return false
			}
			els := VariadicElems(args[1])
			if len(els) == 0 {
				return false
			}
			for _, e := range els {
				if !AllOrigins(e, elem) {
					return false
				}
			}
			return true
		}
		return false
	}
	return rec(v)
}

func c17Requeuer(c *Check) {
	P := "C17"
	ctor := c.P.Func("components/requeuer", "NewRequeuer")
	if !c.Use(P, ctor, "requeuer.NewRequeuer") {
		return
	}
	fn := c.noPubHandlerIn(P+".O1", ctor)
	if fn == nil {
		return
	}
	msg := ParamsOfType(fn, tMessagePtr)[0]
	pubs := CallsTo(fn, nPublish)
	if !c.Floor(P+".O1", "Publish call in the requeuer handler", len(pubs), 1) {
		return
	}
	pubOK, pubFail := NilEdges(fn, ResultOfAny(pubs, 0))
	c.Floor(P+".O1", "test `publish error == nil` in the requeuer (or the Publish result returned as it is)", len(pubOK)+tailReturns(fn, ResultOfAny(pubs, 0)), 1)
	relayReturns(c, P, fn, pubOK, pubFail, "nil (⇒ Ack) is returned only after the destination accepted the message")
	ErrorsOnlyFromKinds(c, P+".O1", "REQUEUE-FAILS-ONLY-ON-FAULT", fn, func(cl ssa.CallInstruction) (int, bool) {
		switch {
		case IsCallTo(cl, nPublish):
			return 0, true
		case cl.Common().IsInvoke() && cl.Common().Method.Name() == "Err" && cl.Common().Value.Type().String() == "context.Context":
			return 0, true // the consumed message's context ended while waiting for the delay
		case !cl.Common().IsInvoke() && CalleeFn(cl.Common()) == nil && AllOrigins(cl.Common().Value, exportedFieldLoad("GeneratePublishTopic")):
			return 1, true
		}
		return 0, false
	}, nil, "the requeuer refuses a message (⇒ Nack) only when its context ended, the topic generator failed or the destination Publish failed")
	// topic generator
	var gens []ssa.CallInstruction
	for _, cl := range CallsIn(fn) {
		if cl.Common().IsInvoke() || CalleeFn(cl.Common()) != nil {
			continue
		}
		if AllOrigins(cl.Common().Value, exportedFieldLoad("GeneratePublishTopic")) {
			gens = append(gens, cl)
		}
	}
	c.Floor(P+".O2", "call of config.GeneratePublishTopic", len(gens), 1)
	key, _ := c.P.ExportedConstString("components/requeuer", "RetriesKey")
	for i, pb := range pubs {
		k := fmt.Sprintf("Publish#%d", i)
		c.Report(AllOrigins(Arg(pb, 0), ResultOfAny(gens, 0)), P+".O2", "DEST-TOPIC", fn, pb.Pos(), k, "the destination topic is the result of GeneratePublishTopic")
		el := VariadicElems(Arg(pb, 1))
		c.Report(len(el) == 1 && FromParam(msg)(el[0]), P+".O2", "DEST-MESSAGE", fn, pb.Pos(), k, "the consumed message object itself is re-published (UUID, payload, metadata intact)")
		c.Report(!InLoop(pb) && NoneReachableAfter(pb, pubs), P+".O2", "FORWARD-ONCE", fn, pb.Pos(), k, "re-published at most once")
		c.Report(AllOrigins(Receiver(pb), exportedFieldLoad("Publisher")), P+".O2", "DEST-PUBLISHER", fn, pb.Pos(), k, "the publisher is config.Publisher")
	}
	for _, g := range gens {
		// the generator sees the consumed message
		ok := Wraps(g.Common().Args[0], FromParam(msg))
		c.Report(ok, P+".O2", "GENERATOR-ARG", fn, g.Pos(), "GeneratePublishTopic call", "the topic generator receives the consumed message")
		_, gFail := NilEdges(fn, ResultOfAny([]ssa.CallInstruction{g}, 1))
		for _, e := range gFail {
			re := ReachEdge(e, nil)
			bad := false
			for _, pb := range pubs {
				if re[pb] {
					bad = true
				}
			}
			c.Report(!bad, P+".O2", "GENERATOR-ERROR", fn, g.Pos(), "GeneratePublishTopic call", "a generator error prevents publishing")
		}
	}
	// O3 retries + 1
	// metadata intact: the only edit of the consumed message is the retries counter
	nw := 0
	for _, w := range MessageWrites(fn, FromParam(msg)) {
		nw++
		okW := false
		if cl, isCall := w.(ssa.CallInstruction); isCall && CalleeName(cl) == nMetaSet {
			ks, isK := ConstString(Arg(cl, 0))
			okW = isK && ks == key && key != ""
		}
		c.Report(okW, P+".O2", "REQUEUED-MESSAGE-OTHERWISE-INTACT", fn, w.Pos(), "write to the consumed message", "the requeuer edits nothing of the message it re-publishes except its retries counter (UUID, payload and every other metadata entry arrive as consumed)")
	}
	c.Report(true, P+".O2", "REQUEUED-MESSAGE-WRITES-SCANNED", fn, fn.Pos(), "requeuer handler", fmt.Sprintf("%d writes to the consumed message examined", nw))
	nset := 0
	for _, s := range CallsTo(fn, nMetaSet) {
		ks, ok := ConstString(Arg(s, 0))
		if !ok || ks != key || key == "" {
			continue
		}
		nset++
		rf := LoadedField(firstOrigin(Receiver(s)))
		onConsumed := false
		if u, isU := firstOrigin(Receiver(s)).(*ssa.UnOp); isU {
			if _, base := FieldOf(u.X); base != nil && FromParam(msg)(base) {
				onConsumed = true
			}
		}
		// … of the very message that is published: the consumed message itself, or the object handed to Publish
		if !onConsumed {
			if u, isU := firstOrigin(Receiver(s)).(*ssa.UnOp); isU {
				if _, base := FieldOf(u.X); base != nil {
					for _, pb := range pubs {
						for _, el := range VariadicElems(Arg(pb, 1)) {
							if sameValue(el, base) {
								onConsumed = true
							}
						}
					}
				}
			}
		}
		c.Report(rf != nil && rf.Exported() && rf.Name() == "Metadata" && onConsumed, P+".O3", "RETRIES-ON-MESSAGE", fn, s.Pos(), "Set(RetriesKey)", "the counter is written to the metadata of the message that is requeued (the consumed message, which is what gets published)")
		okFmt, num := decimalOf(firstOrigin(Arg(s, 1)))
		okInc := false
		if okFmt {
			if bo, isB := firstOrigin(num).(*ssa.BinOp); isB && bo.Op == token.ADD {
				x, y := bo.X, bo.Y
				if n, isC := IntConst(x); isC && n == 1 {
					x, y = y, x
				}
				if n, isC := IntConst(y); isC && n == 1 {
					// both the parsed value (on the no-error edge) and the fallback 0 (on the parse-error edge) must be there
					var atoi *ssa.Call
					hasZero := false
					xs, okHelper := expandHelperInts(Origins(x), fn.Pkg, FromParam(msg))
					for _, o := range xs {
						if z, isZ := IntConst(o); isZ && z == 0 {
							hasZero = true
						}
						if e, isE := o.(*ssa.Extract); isE && e.Index == 0 {
							atoi, _ = e.Tuple.(*ssa.Call)
						}
					}
					okFallback := false
					if atoi != nil && hasZero {
						pok, perr := NilEdges(atoi.Parent(), func(v ssa.Value) bool { return IsResultOf(v, atoi, 1) })
						okFallback = len(perr) > 0 && okHelper
						// … the right way round: the 0 is chosen on the parse-error edge, the parsed value on the other
						for _, in := range xsPhis(x, atoi.Parent()) {
							for i, e := range in.Edges {
								pred := in.Block().Preds[i]
								term := pred.Instrs[len(pred.Instrs)-1]
								viaErr := GuardedBy(atoi.Parent(), term, perr) || edgeIs(pred, in.Block(), perr)
								viaOK := GuardedBy(atoi.Parent(), term, pok) || edgeIs(pred, in.Block(), pok)
								if z, isZ := IntConst(e); isZ && z == 0 {
									if !viaErr {
										okFallback = false
									}
								} else if !viaOK && viaErr {
									okFallback = false
								}
							}
						}
					}
					c.Report(okFallback, P+".O3", "RETRIES-PARSE-ERROR-IS-ZERO", fn, s.Pos(), "Set(RetriesKey)", "a counter that does not parse (absent, malformed, out of range) counts as 0: the parse error is tested and replaced by 0")
					okInc = okHelper && len(xs) > 0 && allOf(xs, func(v ssa.Value) bool {
						if z, isZ := IntConst(v); isZ && z == 0 {
							return true
						}
						e, isE := v.(*ssa.Extract)
						if !isE || e.Index != 0 {
							return false
						}
						at, isCall := e.Tuple.(*ssa.Call)
						if !isCall || CalleeName(at) != "strconv.Atoi" {
							return false
						}
						g, isG := firstOrigin(at.Call.Args[0]).(*ssa.Call)
						if !isG || CalleeName(g) != nMetaGet {
							return false
						}
						gk, isK := ConstString(Arg(g, 0))
						return isK && gk == key
					})
				}
			}
		}
		c.Report(okFmt && okInc, P+".O3", "RETRIES-PLUS-ONE", fn, s.Pos(), "Set(RetriesKey)",
			"the stored value is the decimal form of (previous parsed value, or 0 on parse error) + 1")
		for _, pb := range pubs {
			c.Report(Dominates(fn, s, pb), P+".O3", "RETRIES-BEFORE-PUBLISH", fn, s.Pos(), "Set(RetriesKey)", "the counter is stored on every path before Publish")
		}
		for _, g := range gens {
			c.Report(!ReachAfter(s, nil)[g], P+".O2", "GENERATOR-SEES-CONSUMED-STATE", fn, g.Pos(), "GeneratePublishTopic call", "the topic is computed from the message as it was consumed: before this attempt's counter is written (a generator that looks at the counter decides with the number of retries already made)")
		}
		c.Report(!InLoop(s), P+".O3", "RETRIES-ONCE", fn, s.Pos(), "Set(RetriesKey)", "the counter is raised once per requeue")
	}
	c.Floor(P+".O3", "Metadata.Set(RetriesKey, …)", nset, 1)
	for _, ad := range CallsTo(ctor, nAddNoPub) {
		c.Report(AllOrigins(Arg(ad, 1), exportedFieldLoad("SubscribeTopic")) && AllOrigins(Arg(ad, 2), exportedFieldLoad("Subscriber")), P+".O2", "REQUEUER-REGISTRATION", ctor, ad.Pos(), "registration",
			"the requeuer consumes config.SubscribeTopic from config.Subscriber")
	}
	// the relay handler is not idempotent (it raises the counter on the consumed message): the component itself puts
	// nothing around it that could run it twice on one delivery — no middleware, plugin or decorator on its router
	nreg := 0
	for _, f := range c.P.SrcFuncs("components/requeuer") {
		for _, cl := range CallsIn(f) {
			switch CalleeName(cl) {
			case "(*" + msgPkg + ".Router).AddMiddleware", "(*" + msgPkg + ".Handler).AddMiddleware", "(*" + msgPkg + ".Router).AddPlugin",
				"(*" + msgPkg + ".Router).AddPublisherDecorators", "(*" + msgPkg + ".Router).AddSubscriberDecorators":
				nreg++
				c.Report(false, P+".O3", "REQUEUER-HANDLER-RUNS-ONCE-PER-DELIVERY", f, cl.Pos(), CalleeName(cl), "the requeuer wraps its own handler in nothing that re-runs it (a retry around it raises the retries counter more than once per delivery)")
			}
		}
	}
	c.Report(true, P+".O3", "REQUEUER-WRAPPERS-SCANNED", ctor, ctor.Pos(), "package requeuer", fmt.Sprintf("%d middleware / plugin / decorator registrations by the requeuer itself", nreg))
}

// decimalOf recognises strconv.Itoa(x) and strconv.FormatInt(int64(x), 10).
func decimalOf(v ssa.Value) (bool, ssa.Value) {
	call, ok := v.(*ssa.Call)
	if !ok {
		return false, nil
	}
	switch CalleeName(call) {
	case "strconv.Itoa":
		return true, call.Call.Args[0]
	case "strconv.FormatInt":
		if b, ok := IntConst(call.Call.Args[1]); ok && b == 10 {
			x := call.Call.Args[0]
			if cv, isC := x.(*ssa.Convert); isC {
				x = cv.X
			}
			return true, x
		}
	}
	return false, nil
}

// passthroughClosure: fn returns ([msg], nil) for its parameter msg.
func passthroughClosure(fn *ssa.Function) bool {
	if fn == nil || len(fn.Params) == 0 || len(fn.Blocks) == 0 {
		return false
	}
	msg := fn.Params[len(fn.Params)-1]
	rets := Returns(fn)
	if len(rets) == 0 {
		return false
	}
	for _, r := range rets {
		if len(r.Results) != 2 || !RetNil(r, 1) {
			return false
		}
		els := VariadicElems(r.Results[0])
		if len(els) != 1 || !FromParam(msg)(els[0]) {
			return false
		}
	}
	return len(CallsIn(fn)) == 0
}

// relayRouterBare: the component registers nothing on its private router besides its pass-through handlers — a middleware,
// plugin or decorator of its own (InstantAck, a retry, a filter) changes when the source message is acked or what is relayed.
func relayRouterBare(c *Check, id, rel, what string) {
	nreg := 0
	fs := c.P.SrcFuncs(rel)
	for _, f := range fs {
		for _, cl := range CallsIn(f) {
			switch CalleeName(cl) {
			case "(*" + msgPkg + ".Router).AddMiddleware", "(*" + msgPkg + ".Handler).AddMiddleware", "(*" + msgPkg + ".Router).AddPlugin",
				"(*" + msgPkg + ".Router).AddPublisherDecorators", "(*" + msgPkg + ".Router).AddSubscriberDecorators":
				nreg++
				c.Report(false, id, "RELAY-ROUTER-HAS-ONLY-THE-RELAY-HANDLERS", f, cl.Pos(), CalleeName(cl), "the "+what+" puts no middleware, plugin or decorator of its own on its private router: the source message is acked exactly when the router's own publish-then-ack logic says so")
			}
		}
	}
	if len(fs) > 0 {
		c.Report(true, id, "RELAY-ROUTER-REGISTRATIONS-SCANNED", fs[0], fs[0].Pos(), "package "+rel, fmt.Sprintf("%d middleware / plugin / decorator registrations by the %s itself", nreg, what))
	}
}

func c17FanIn(c *Check) {
	P := "C17"
	relayRouterBare(c, P+".O2", "components/fanin", "fan-in")
	relayRouterBare(c, P+".O2", "pubsub/gochannel", "fan-out")
	fn := c.P.Func("components/fanin", "NewFanIn")
	if !c.Use(P+".O2", fn, "fanin.NewFanIn") {
		return
	}
	adds := CallsTo(fn, nAddHandler)
	if !c.Floor(P+".O2", "AddHandler call in NewFanIn", len(adds), 1) {
		return
	}
	subs, pubs := ParamsOfType(fn, msgPkg+".Subscriber"), ParamsOfType(fn, msgPkg+".Publisher")
	for _, ad := range adds {
		// subscribe topic: element of config.SourceTopics in a loop covering the slice
		topic := firstOrigin(Arg(ad, 1))
		okT := false
		var loopSlice ssa.Value
		if u, ok := topic.(*ssa.UnOp); ok && u.Op == token.MUL {
			if ia, ok := u.X.(*ssa.IndexAddr); ok {
				loopSlice = ia.X
				okT = AllOrigins(ia.X, exportedFieldLoad("SourceTopics")) && IsFullRangeIndex(ia.Index, ia.X)
			}
		}
		_ = loopSlice
		c.Report(okT && InLoop(ad), P+".O2", "FANIN-SOURCES", fn, ad.Pos(), "AddHandler", "one handler is registered for every element of config.SourceTopics (full range loop)")
		c.Report(AllOrigins(Arg(ad, 3), exportedFieldLoad("TargetTopic")), P+".O2", "FANIN-TARGET", fn, ad.Pos(), "AddHandler", "every handler publishes to config.TargetTopic")
		c.Report(len(subs) == 1 && FromParam(subs[0])(Arg(ad, 2)) && len(pubs) == 1 && FromParam(pubs[0])(Arg(ad, 4)), P+".O2", "FANIN-PUBSUB", fn, ad.Pos(), "AddHandler", "the given subscriber and publisher are used")
		h := FuncOfValue(firstOrigin(Arg(ad, 5)))
		if h == nil {
			h = globalFuncValue(c.P, firstOrigin(Arg(ad, 5)))
		}
		c.Report(passthroughClosure(h), P+".O2", "FANIN-PASSTHROUGH", fn, ad.Pos(), "AddHandler", "the handler returns exactly the consumed message and no error")
	}
}

// IsFullRangeIndex: idx is the induction variable of a `range` over slice s:
// phi(-1, idx+1) compared with len(s).
func IsFullRangeIndex(idx ssa.Value, s ssa.Value) bool {
	// the explicit form `for i := 0; i < len(s); i++`: idx = phi(0, idx+1), tested `idx < len(s)` before every use
	if phi, isPhi := idx.(*ssa.Phi); isPhi {
		hasZero, hasStep := false, false
		for _, e := range phi.Edges {
			if n, ok := IntConst(e); ok && n == 0 {
				hasZero = true
			} else if inc, ok := e.(*ssa.BinOp); ok && inc.Op == token.ADD && inc.X == ssa.Value(phi) {
				if n, ok := IntConst(inc.Y); ok && n == 1 {
					hasStep = true
				} else {
					return false
				}
			} else {
				return false
			}
		}
		if !hasZero || !hasStep {
			return false
		}
		for _, ref := range *phi.Referrers() {
			if cmp, ok := ref.(*ssa.BinOp); ok && cmp.Op == token.LSS && cmp.X == ssa.Value(phi) && cmp.Block() == phi.Block() {
				if args, ok := IsBuiltinCall(cmp.Y, "len"); ok && len(args) == 1 && sameValue(args[0], s) {
					return true
				}
			}
		}
		return false
	}
	bo, ok := idx.(*ssa.BinOp)
	if !ok || bo.Op != token.ADD {
		return false
	}
	if n, ok := IntConst(bo.Y); !ok || n != 1 {
		return false
	}
	phi, ok := bo.X.(*ssa.Phi)
	if !ok {
		return false
	}
	hasInit, hasStep := false, false
	for _, e := range phi.Edges {
		if n, ok := IntConst(e); ok && n == -1 {
			hasInit = true
		} else if e == ssa.Value(bo) {
			hasStep = true
		} else {
			return false
		}
	}
	if !hasInit || !hasStep {
		return false
	}
	// the loop test: idx < len(s)
	for _, ref := range *bo.Referrers() {
		if cmp, ok := ref.(*ssa.BinOp); ok && cmp.Op == token.LSS && cmp.X == ssa.Value(bo) {
			if args, ok := IsBuiltinCall(cmp.Y, "len"); ok && len(args) == 1 && sameValue(args[0], s) {
				// the body must not `break` … covered by callers (site in loop)
				return true
			}
		}
	}
	return false
}

func sameValue(a, b ssa.Value) bool {
	if a == b {
		return true
	}
	oa, ob := Origins(a), Origins(b)
	if len(oa) != 1 || len(ob) != 1 {
		return false
	}
	// the address of a local captured by a closure is that local
	for _, os := range [][]ssa.Value{oa, ob} {
		if fv, isFV := os[0].(*ssa.FreeVar); isFV {
			if bnd, isAlloc := FreeVarBinding(fv).(*ssa.Alloc); isAlloc {
				os[0] = bnd
			}
		}
	}
	if oa[0] == ob[0] {
		return true
	}
	// two loads of the same field of the same object
	ua, oka := oa[0].(*ssa.UnOp)
	ub, okb := ob[0].(*ssa.UnOp)
	if oka && okb && ua.Op == token.MUL && ub.Op == token.MUL {
		fa, ba := FieldOf(ua.X)
		fb, bb := FieldOf(ub.X)
		if fa != nil && fa == fb && ba != nil && bb != nil {
			return ba == bb || sameValue(ba, bb)
		}
	}
	return false
}

func c17FanOut(c *Check) {
	P := "C17"
	fn := c.P.Method("pubsub/gochannel", "FanOut", "AddSubscription")
	if !c.Use(P+".O2", fn, "gochannel.(*FanOut).AddSubscription") {
		return
	}
	adds := CallsTo(fn, nAddHandler)
	if !c.Floor(P+".O2", "AddHandler call in FanOut.AddSubscription", len(adds), 1) {
		return
	}
	topic := fn.Params[1]
	ctor := c.P.Func("pubsub/gochannel", "NewFanOut")
	c.Use(P+".O2", ctor, "gochannel.NewFanOut")
	for _, ad := range adds {
		c.Report(FromParam(topic)(Arg(ad, 1)) && FromParam(topic)(Arg(ad, 3)), P+".O2", "FANOUT-TOPICS", fn, ad.Pos(), "AddHandler", "subscribe topic and publish topic are both the requested topic")
		sf := LoadedField(firstOrigin(Arg(ad, 2)))
		okS := false
		if sf != nil && ctor != nil {
			for _, prm := range ParamsOfType(ctor, msgPkg+".Subscriber") {
				for _, f := range FieldsStoringParam(ctor, prm) {
					if f == sf {
						okS = true
					}
				}
			}
		}
		c.Report(okS, P+".O2", "FANOUT-SUBSCRIBER", fn, ad.Pos(), "AddHandler", "messages are consumed from the subscriber given to NewFanOut")
		// publisher: the internal *GoChannel field, which is also what Subscribe delegates to
		pv := firstOrigin(Arg(ad, 4))
		var pf *types.Var
		if mi, ok := pv.(*ssa.MakeInterface); ok {
			pf = LoadedField(firstOrigin(mi.X))
		}
		okP := pf != nil && pf.Type().String() == "*"+ModulePath+"/pubsub/gochannel.GoChannel"
		if sub := c.P.Method("pubsub/gochannel", "FanOut", "Subscribe"); okP && c.Use(P+".O2", sub, "FanOut.Subscribe") {
			okD := false
			for _, cl := range CallsTo(sub, "(*"+ModulePath+"/pubsub/gochannel.GoChannel).Subscribe") {
				if LoadedField(firstOrigin(Receiver(cl))) == pf {
					okD = true
				}
			}
			okP = okD
		}
		c.Report(okP, P+".O2", "FANOUT-PUBLISHER", fn, ad.Pos(), "AddHandler", "messages are published to the internal GoChannel that Subscribe hands out subscriptions of")
		okH := AllOrigins(Arg(ad, 5), func(v ssa.Value) bool { return IsGlobalLoad(v, msgPkg, "PassthroughHandler") })
		c.Report(okH, P+".O2", "FANOUT-PASSTHROUGH", fn, ad.Pos(), "AddHandler", "the handler is message.PassthroughHandler")
	}
	// PassthroughHandler itself
	if ini := c.P.Func("message", "init"); c.Use(P+".O2", ini, "package message init") {
		found := 0
		AllInstrs(ini, func(in ssa.Instruction) {
			st, ok := in.(*ssa.Store)
			if !ok {
				return
			}
			g, ok := st.Addr.(*ssa.Global)
			if !ok || g.Name() != "PassthroughHandler" {
				return
			}
			found++
			c.Report(passthroughClosure(FuncOfValue(firstOrigin(st.Val))), P+".O2", "PASSTHROUGH-HANDLER", ini, st.Pos(), "PassthroughHandler", "PassthroughHandler returns exactly the consumed message and no error")
		})
		c.Floor(P+".O2", "initialisation of message.PassthroughHandler", found, 1)
	}
}

// c17UnwrapValidates: unwrap reports success only for an envelope that decoded
// and whose destination topic is not empty.
func c17UnwrapValidates(c *Check, P string, U *ssa.Function) {
	if !c.Use(P+".O1", U, "unwrap function") {
		return
	}
	dec := CallsTo(U, "encoding/json.Unmarshal")
	if !c.Floor(P+".O1", "json.Unmarshal in unwrap", len(dec), 1) {
		return
	}
	decOK, _ := NilEdges(U, ResultOfAny(dec, 0))
	env := NamedOf(unwrapIface(dec[0].Common().Args[1]).Type())
	// validation: either a call of an in-package method of the envelope type returning error, or an inline test of the destination
	var vals []ssa.CallInstruction
	for _, cl := range CallsIn(U) {
		cal := CalleeFn(cl.Common())
		if cal != nil && cal.Pkg == U.Pkg && cal.Signature.Recv() != nil && NamedOf(cal.Signature.Recv().Type()) == env && cal.Signature.Results().Len() == 1 && IsErrorType(cal.Signature.Results().At(0).Type()) {
			vals = append(vals, cl)
		}
	}
	valOK, _ := NilEdges(U, ResultOfAny(vals, 0))
	nonEmptyInline := destNonEmptyEdges(U)
	guards := append(append([]Edge{}, valOK...), nonEmptyInline...)
	for i, r := range Returns(U) {
		if !RetNil(r, len(r.Results)-1) {
			continue
		}
		k := fmt.Sprintf("unwrap return#%d", i)
		c.Report(len(decOK) > 0 && GuardedBy(U, r, decOK), P+".O1", "UNWRAP-SUCCESS-ONLY-IF-DECODED", U, r.Pos(), k, "unwrap succeeds only if the payload decoded as an envelope")
		c.Report(len(guards) > 0 && GuardedBy(U, r, guards), P+".O1", "UNWRAP-SUCCESS-ONLY-IF-VALID", U, r.Pos(), k, "unwrap succeeds only for an envelope that passed validation (a payload without destination topic is not a valid envelope and is never forwarded)")
	}
	// … and fails only if it did not decode or did not pass validation (what the decoder accepts is an envelope)
	_, decFail := NilEdges(U, ResultOfAny(dec, 0))
	_, valFail := NilEdges(U, ResultOfAny(vals, 0))
	failG := append(append([]Edge{}, decFail...), valFail...)
	for i, r := range Returns(U) {
		if RetNil(r, len(r.Results)-1) {
			continue
		}
		c.Report(len(failG) > 0 && GuardedBy(U, r, failG), P+".O1", "UNWRAP-FAILS-ONLY-IF-NOT-AN-ENVELOPE", U, r.Pos(), fmt.Sprintf("unwrap return#%d", i), "unwrap reports an error only on the decoder's or the validation's error edge (no extra pre-filter on the payload: valid envelopes would be acked-and-lost or nacked forever)")
	}
	for _, v := range vals {
		V := CalleeFn(v.Common())
		c.Use(P+".O1", V, "envelope validation")
		ne := destNonEmptyEdges(V)
		ok := len(ne) > 0
		for _, r := range Returns(V) {
			if RetNil(r, 0) && !GuardedBy(V, r, ne) {
				ok = false
			}
		}
		c.Report(ok, P+".O1", "ENVELOPE-VALIDATION", V, V.Pos(), "validate", "validation accepts only envelopes with a non-empty destination topic")
	}
}

// destNonEmptyEdges: edges on which a string field of the receiver/envelope is known to be != "".
func destNonEmptyEdges(fn *ssa.Function) []Edge {
	var out []Edge
	for _, t := range Tests(fn) {
		if t.Op != token.EQL || t.Y == nil {
			continue
		}
		x, y := t.X, t.Y
		if s, ok := ConstString(x); ok && s == "" {
			x, y = y, x
		}
		if s, ok := ConstString(y); ok && s == "" {
			if f := LoadedField(firstOrigin(x)); f != nil && f.Type().String() == "string" && f.Exported() {
				out = append(out, t.False)
			}
		}
	}
	return out
}

func allOf(vs []ssa.Value, pred func(ssa.Value) bool) bool {
	for _, v := range vs {
		if !pred(v) {
			return false
		}
	}
	return true
}

// expandHelperInts replaces, in a list of origins, the result of a call to an
// in-package helper by the values that helper returns (one level). ok is false
// if such a helper is handed a message other than the one isMsg accepts.
func expandHelperInts(os []ssa.Value, pkg *ssa.Package, isMsg func(ssa.Value) bool) (out []ssa.Value, ok bool) {
	ok = true
	for _, o := range os {
		call, isCall := o.(*ssa.Call)
		var cal *ssa.Function
		if isCall {
			cal = CalleeFn(&call.Call)
		}
		if cal == nil || cal.Pkg != pkg || len(cal.Blocks) == 0 || cal.Signature.Results().Len() != 1 {
			out = append(out, o)
			continue
		}
		for _, a := range call.Call.Args {
			if a.Type().String() == tMessagePtr && !isMsg(a) {
				ok = false
			}
		}
		for _, vals := range ReturnValues(cal, 0) {
			out = append(out, vals...)
		}
	}
	return out, ok
}

// c17ForwarderMiddlewares: Config.Middlewares wrap the forwarder's own handler
// only — the Router may be shared (Config.Router), so they are registered on
// the Handler that AddNoPublisherHandler returned, never on the Router.
// Shared with C09 (scoping of middlewares).
func c17ForwarderMiddlewares(c *Check, id string) {
	ctor := c.P.Func("components/forwarder", "NewForwarder")
	if ctor == nil {
		return
	}
	n := 0
	for _, cl := range CallsIn(ctor) {
		name := CalleeName(cl)
		isRouter := name == "(*"+msgPkg+".Router).AddMiddleware"
		isHandler := name == "(*"+msgPkg+".Handler).AddMiddleware"
		if !isRouter && !isHandler {
			continue
		}
		if !AllOrigins(cl.Common().Args[len(cl.Common().Args)-1], exportedFieldLoad("Middlewares")) {
			continue
		}
		n++
		okH := isHandler && AllOrigins(Receiver(cl), ResultOfAny(CallsTo(ctor, nAddNoPub), 0))
		c.Report(okH, id, "FORWARDER-MIDDLEWARES-ON-ITS-HANDLER", ctor, cl.Pos(), "registration of Config.Middlewares", "the configured middlewares are added to the forwarder's own handler (handler-level), not to the router, which other handlers may share")
	}
	c.Floor(id, "registration of Config.Middlewares in NewForwarder", n, 1)
}

// isRangeIndexOver: idx is the index of a full ascending range loop over the slice s (`for i := range s` or
// `for i, x := range s`).
func isRangeIndexOver(idx ssa.Value, s ssa.Value) bool {
	bo, ok := idx.(*ssa.BinOp)
	if !ok || !isRangeCounter(bo) {
		return false
	}
	for _, ref := range *bo.Referrers() {
		if cmp, isC := ref.(*ssa.BinOp); isC && cmp.Op == token.LSS && cmp.X == ssa.Value(bo) {
			if args, isL := IsBuiltinCall(cmp.Y, "len"); isL && len(args) == 1 && sameValue(args[0], s) {
				return true
			}
		}
	}
	return false
}

// xsPhis lists the phi nodes (of fn) on the way from v back to its origins.
func xsPhis(v ssa.Value, fn *ssa.Function) []*ssa.Phi {
	var out []*ssa.Phi
	seen := map[ssa.Value]bool{}
	var walk func(v ssa.Value)
	walk = func(v ssa.Value) {
		if v == nil || seen[v] {
			return
		}
		seen[v] = true
		switch x := v.(type) {
		case *ssa.Phi:
			if x.Parent() == fn {
				out = append(out, x)
			}
			for _, e := range x.Edges {
				walk(e)
			}
		case *ssa.ChangeType:
			walk(x.X)
		case *ssa.Convert:
			walk(x.X)
		}
	}
	walk(v)
	return out
}

// edgeIs: the CFG edge from→to is one of es.
func edgeIs(from, to *ssa.BasicBlock, es []Edge) bool {
	for _, e := range es {
		if e.From == from && e.Idx < len(from.Succs) && from.Succs[e.Idx] == to {
			return true
		}
	}
	return false
}

// globalFuncValue: v is a load of a package-level variable of the analysed module that is initialised with a
// function (literal) and never assigned anywhere else in the module: that function.
func globalFuncValue(p *Prog, v ssa.Value) *ssa.Function {
	u, ok := v.(*ssa.UnOp)
	if !ok || u.Op != token.MUL {
		return nil
	}
	g, ok := u.X.(*ssa.Global)
	if !ok || g.Pkg == nil || !strings.HasPrefix(g.Pkg.Pkg.Path(), p.Cfg.Prefix) {
		return nil
	}
	var fn *ssa.Function
	n := 0
	for _, rel := range p.ModuleRel() {
		sp := p.Pkg(rel)
		if sp == nil {
			continue
		}
		fns := p.SrcFuncsRaw(rel)
		if init := sp.Func("init"); init != nil {
			have := false
			for _, f := range fns {
				if f == init {
					have = true
				}
			}
			if !have {
				fns = append(fns, init)
			}
		}
		for _, f := range fns {
			rawInstrs(f, func(in ssa.Instruction) {
				if st, isSt := in.(*ssa.Store); isSt && st.Addr == ssa.Value(g) {
					n++
					fn = FuncOfValue(st.Val)
				}
			})
		}
	}
	if n != 1 {
		return nil
	}
	return fn
}

// succeedsOnlyIfValidated: every return of F with a nil error is guarded by the OK edge of a validation — an inline
// test of a non-empty string field, a call of an in-package error-returning method without parameters (validate), or a call
// of an in-package function for which the same holds (depth levels down).
func succeedsOnlyIfValidated(F *ssa.Function, depth int) bool {
	if F == nil || len(F.Blocks) == 0 {
		return false
	}
	guards := append([]Edge{}, destNonEmptyEdges(F)...)
	for _, cl := range CallsIn(F) {
		cal := CalleeFn(cl.Common())
		if cal == nil || cal.Pkg != F.Pkg || cal == F {
			continue
		}
		rs := cal.Signature.Results()
		if rs.Len() == 0 || !IsErrorType(rs.At(rs.Len()-1).Type()) {
			continue
		}
		isV := cal.Signature.Recv() != nil && cal.Signature.Params().Len() == 0 && rs.Len() == 1 && len(destNonEmptyEdges(cal)) > 0
		if isV || (depth > 0 && succeedsOnlyIfValidated(cal, depth-1)) {
			ok, _ := NilEdges(F, ResultOfAny([]ssa.CallInstruction{cl}, rs.Len()-1))
			guards = append(guards, ok...)
		}
	}
	if len(guards) == 0 {
		return false
	}
	n := 0
	for _, r := range Returns(F) {
		if len(r.Results) == 0 || !RetNil(r, len(r.Results)-1) {
			continue
		}
		n++
		if !GuardedBy(F, r, guards) {
			return false
		}
	}
	return n > 0
}
