package wm

import (
	"encoding/json"
	"fmt"
	"go/token"
	"os"
	"path/filepath"
	"sort"
	"strings"

	"golang.org/x/tools/go/ssa"
)

// Verdict of one obligation instance.
type Verdict string

const (
	OK        Verdict = "OK"
	Violation Verdict = "VIOLATION"
	Undecided Verdict = "UNDECIDED" // counts as a violation: the checker refuses to guess
	Known     Verdict = "KNOWN-FINDING"
	Note      Verdict = "NOTE" // informational, never affects the exit code
)

// Ob is one obligation instance: a rule applied to one construct.
type Ob struct {
	ID        string   `json:"id"`        // e.g. "C02.O1"
	Rule      string   `json:"rule"`      // e.g. "ACK-GUARD"
	Func      string   `json:"func"`      // enclosing function (for the reader)
	KeyFunc   string   `json:"key_func"`  // enclosing function if it is exported API, else "" (private names are not part of a key)
	Pos       string   `json:"pos"`       // file:line (informational)
	Construct string   `json:"construct"` // name of the construct, free of line numbers
	Verdict   Verdict  `json:"verdict"`
	Why       string   `json:"why"`
	Witness   []string `json:"witness,omitempty"`
	Config    string   `json:"config,omitempty"`
}

// Key identifies the obligation instance in known_findings.json and replays.
func (o Ob) Key() string { return o.ID + "|" + o.Rule + "|" + o.KeyFunc + "|" + o.Construct }

// Check collects the obligations of one property on one build configuration.
type Check struct {
	P        *Prog
	Prop     string
	Obs      []Ob
	Floors   map[string][2]int
	Funcs    map[string]bool
	Sites    int
	Edges    int
	Thorough bool
	// RoleKeys: obligations reported while set are keyed by rule + construct only (the construct names a role,
	// so the key survives moving the code between functions)
	RoleKeys bool
	seenOb   map[string]bool
}

func NewCheck(p *Prog, prop string) *Check {
	return &Check{P: p, Prop: prop, Floors: map[string][2]int{}, Funcs: map[string]bool{}}
}

// FnName renders a function for reports (module-relative).
func FnName(fn *ssa.Function) string {
	if fn == nil {
		return "<missing>"
	}
	return Short(fn.RelString(nil))
}

// keyFunc names fn in obligation keys only when it is exported API (a private
// function or a literal inside one may be renamed without changing behaviour).
func keyFunc(fn *ssa.Function) string {
	if fn == nil {
		return ""
	}
	root := fn
	for root.Parent() != nil {
		root = root.Parent()
	}
	obj := root.Object()
	if obj == nil || !obj.Exported() {
		return ""
	}
	if recv := root.Signature.Recv(); recv != nil {
		if n := NamedOf(recv.Type()); n == nil || !n.Obj().Exported() {
			return ""
		}
	}
	if root != fn {
		return FnName(root) + "$literal"
	}
	return FnName(root)
}

// Use records that fn was analysed; returns false (and an ANCHOR violation)
// when fn is nil or has no body.
func (c *Check) Use(id string, fn *ssa.Function, what string) bool {
	if fn == nil || len(fn.Blocks) == 0 {
		c.add(Ob{ID: id, Rule: "ANCHOR", Func: "<missing>", Construct: what, Verdict: Violation,
			Why: "cannot find " + what + " in the analysed tree; the obligation cannot be decided"})
		return false
	}
	c.Funcs[FnName(fn)] = true
	return true
}

func (c *Check) add(o Ob) {
	o.Config = c.P.Cfg.Label
	// the same rule instance reported again under another obligation id (rule groups shared between properties): keep the first
	k := o.Rule + "|" + o.Func + "|" + o.Pos + "|" + o.Construct + "|" + string(o.Verdict)
	if c.seenOb == nil {
		c.seenOb = map[string]bool{}
	}
	if o.Rule != "ANCHOR" && c.seenOb[k] {
		return
	}
	c.seenOb[k] = true
	c.Obs = append(c.Obs, o)
}

// Report adds an obligation with an explicit verdict.
func (c *Check) Report(ok bool, id, rule string, fn *ssa.Function, pos token.Pos, construct, why string, witness ...string) bool {
	v := OK
	if !ok {
		v = Violation
	}
	if fn != nil {
		c.Funcs[FnName(fn)] = true
	}
	c.Sites++
	kf := keyFunc(fn)
	if c.RoleKeys {
		kf = ""
	}
	c.add(Ob{ID: id, Rule: rule, Func: FnName(fn), KeyFunc: kf, Pos: c.P.Pos(pos), Construct: construct, Verdict: v, Why: why, Witness: witness})
	return ok
}

// Undecided records that the rule's idiom was not recognised.
func (c *Check) Undecided(id, rule string, fn *ssa.Function, pos token.Pos, construct, why string) {
	c.add(Ob{ID: id, Rule: rule, Func: FnName(fn), KeyFunc: keyFunc(fn), Pos: c.P.Pos(pos), Construct: construct, Verdict: Undecided, Why: why})
}

// Note records an informational line.
func (c *Check) Note(id, rule string, fn *ssa.Function, pos token.Pos, construct, why string) {
	c.add(Ob{ID: id, Rule: rule, Func: FnName(fn), Pos: c.P.Pos(pos), Construct: construct, Verdict: Note, Why: why})
}

// Floor records that `found` constructs of a kind were located, with the
// minimum confirmed by hand; fewer is an ANCHOR violation (no vacuous pass).
func (c *Check) Floor(id, what string, found, floor int) bool {
	c.Floors[id+" "+what] = [2]int{found, floor}
	if found < floor {
		c.add(Ob{ID: id, Rule: "ANCHOR", Func: "-", Construct: what, Verdict: Violation,
			Why: fmt.Sprintf("expected at least %d × %s, found %d: the rule would pass vacuously", floor, what, found)})
		return false
	}
	return true
}

// ---------------------------------------------------------------------------
// Known findings

type KnownFinding struct {
	Property  string `json:"property"`
	ID        string `json:"id"`
	Rule      string `json:"rule"`
	Func      string `json:"func"`     // informational: where it is today
	KeyFunc   string `json:"key_func"` // part of the key: exported enclosing function or ""
	Construct string `json:"construct"`
	What      string `json:"what"`
	Status    string `json:"status"` // "open" or "fixed"
	Commit    string `json:"commit,omitempty"`
}

func (k KnownFinding) Key() string { return k.ID + "|" + k.Rule + "|" + k.KeyFunc + "|" + k.Construct }

type KnownFile struct {
	Findings []KnownFinding `json:"findings"`
	Fixed    []string       `json:"fixed"`
}

func LoadKnown(path string) (map[string]KnownFinding, error) {
	out := map[string]KnownFinding{}
	b, err := os.ReadFile(path)
	if err != nil {
		if os.IsNotExist(err) {
			return out, nil
		}
		return nil, err
	}
	var kf KnownFile
	if err := json.Unmarshal(b, &kf); err != nil {
		return nil, fmt.Errorf("%s: %w", path, err)
	}
	for _, k := range kf.Findings {
		if k.Status == "open" {
			out[k.Key()] = k
		}
	}
	return out, nil
}

// ---------------------------------------------------------------------------
// Outcome

type Outcome struct {
	Property   string
	Tier       string
	Seed       int
	Obs        []Ob
	Floors     map[string][2]int
	Funcs      []string
	Configs    []string
	Packages   int
	Sites      int
	Violations []Ob
	KnownHit   []Ob
	Extra      map[string]any
	WallS      float64
	Internal   string
}

// Merge folds a finished Check into the outcome, applying known findings.
// Failing counts the obligations that fail or are undecided and are not listed as known findings.
func (c *Check) Failing(known map[string]KnownFinding) int {
	n := 0
	for _, ob := range c.Obs {
		if ob.Verdict == Violation || ob.Verdict == Undecided {
			if _, ok := known[ob.Key()]; !ok {
				n++
			}
		}
	}
	return n
}

func (o *Outcome) Merge(c *Check, known map[string]KnownFinding) {
	seenF := map[string]bool{}
	for _, f := range o.Funcs {
		seenF[f] = true
	}
	for f := range c.Funcs {
		if !seenF[f] {
			o.Funcs = append(o.Funcs, f)
		}
	}
	sort.Strings(o.Funcs)
	for k, v := range c.Floors {
		if o.Floors == nil {
			o.Floors = map[string][2]int{}
		}
		o.Floors[k] = v
	}
	o.Sites += c.Sites
	o.Configs = append(o.Configs, c.P.Cfg.Label)
	o.Packages = len(c.P.Pkgs)
	for _, ob := range c.Obs {
		if ob.Verdict == Violation || ob.Verdict == Undecided {
			if _, ok := known[ob.Key()]; ok {
				ob.Verdict = Known
				o.KnownHit = append(o.KnownHit, ob)
			} else {
				o.Violations = append(o.Violations, ob)
			}
		}
		o.Obs = append(o.Obs, ob)
	}
}

// Print writes the human-readable report and VIOLATION lines; returns exit code.
func (o *Outcome) Print(verifDir string) int {
	fmt.Printf("== %s tier=%s configs=%s packages=%d functions=%d sites=%d\n",
		o.Property, o.Tier, strings.Join(o.Configs, ","), o.Packages, len(o.Funcs), o.Sites)
	for _, ob := range o.Obs {
		cfg := ""
		if len(o.Configs) > 1 {
			cfg = " [" + ob.Config + "]"
		}
		fmt.Printf("%-13s %s %-22s %s %s {%s}%s — %s\n", ob.Verdict, ob.ID, ob.Rule, ob.Pos, ob.Func, ob.Construct, cfg, ob.Why)
		if ob.Verdict != OK && ob.Verdict != Note {
			for _, w := range ob.Witness {
				fmt.Printf("              witness: %s\n", w)
			}
		}
	}
	keys := make([]string, 0, len(o.Floors))
	for k := range o.Floors {
		keys = append(keys, k)
	}
	sort.Strings(keys)
	for _, k := range keys {
		fmt.Printf("anchor %-50s found=%d floor=%d\n", k, o.Floors[k][0], o.Floors[k][1])
	}
	seenK := map[string]bool{}
	for _, ob := range o.KnownHit {
		if seenK[ob.Key()] {
			continue
		}
		seenK[ob.Key()] = true
		fmt.Printf("KNOWN-FINDING: property=%s %s %s at %s {%s}: %s\n", o.Property, ob.ID, ob.Rule, ob.Func, ob.Construct, ob.Why)
	}
	if o.Internal != "" {
		fmt.Printf("INTERNAL ERROR: %s\n", o.Internal)
		fmt.Printf("VIOLATION property=%s replay=%s rule=INTERNAL\n", o.Property, filepath.Join(verifDir, "evidence", o.Property+".json"))
		return 2
	}
	if len(o.Violations) == 0 {
		fmt.Printf("PASS property=%s obligations=%d known_findings=%d\n", o.Property, o.countDecided(), len(seenK))
		return 0
	}
	rdir := filepath.Join(verifDir, "evidence", "replay")
	_ = os.MkdirAll(rdir, 0o755)
	seenV := map[string]bool{}
	n := 0
	for _, ob := range o.Violations {
		if seenV[ob.Key()] {
			continue
		}
		seenV[ob.Key()] = true
		n++
		path := filepath.Join(rdir, fmt.Sprintf("%s-%s-%d.json", o.Property, sanitize(ob.Rule), n))
		b, _ := json.MarshalIndent(map[string]any{"property": o.Property, "key": ob.Key(), "obligation": ob}, "", " ")
		_ = os.WriteFile(path, b, 0o644)
		fmt.Printf("VIOLATION property=%s replay=%s rule=%s func=%s at=%s\n", o.Property, path, ob.ID+"/"+ob.Rule, ob.Func, ob.Pos)
	}
	return 1
}

func sanitize(s string) string {
	return strings.Map(func(r rune) rune {
		if r >= 'a' && r <= 'z' || r >= 'A' && r <= 'Z' || r >= '0' && r <= '9' || r == '-' {
			return r
		}
		return '_'
	}, s)
}

func (o *Outcome) countDecided() int {
	n := 0
	for _, ob := range o.Obs {
		if ob.Verdict != Note {
			n++
		}
	}
	return n
}

// WriteEvidence writes /verif/evidence/<id>.json per EVIDENCE.schema.json.
func (o *Outcome) WriteEvidence(verifDir, explanation string, assumptions []string) error {
	total, discharged := 0, 0
	distinct := map[string]bool{}
	rules := map[string]int{}
	var samples []any
	for _, ob := range o.Obs {
		if ob.Verdict == Note {
			continue
		}
		total++
		if ob.Verdict == OK {
			discharged++
		}
		distinct[ob.Key()] = true
		rules[ob.ID+" "+ob.Rule]++
	}
	// samples: every non-OK obligation plus the first OK instance of each rule
	seenRule := map[string]bool{}
	for _, ob := range o.Obs {
		k := ob.ID + " " + ob.Rule
		if ob.Verdict != OK || !seenRule[k] {
			if len(samples) < 600 {
				samples = append(samples, ob)
			}
			seenRule[k] = true
		}
	}
	floors := map[string]any{}
	for k, v := range o.Floors {
		floors[k] = map[string]int{"found": v[0], "floor": v[1]}
	}
	cov := map[string]any{
		"explanation":            explanation,
		"obligations":            total,
		"discharged":             discharged,
		"evaluations":            total,
		"distinct_nontrivial":    len(distinct),
		"rule":                   "one evaluation = one structural obligation (rule × construct × build configuration) decided on all CFG paths of the analysed functions; distinct = distinct rule×construct keys; an obligation is non-trivial because its anchor had to be located in the current tree (anchor floors below)",
		"rules":                  rules,
		"functions_analysed":     len(o.Funcs),
		"functions":              o.Funcs,
		"sites_checked":          o.Sites,
		"packages_loaded":        o.Packages,
		"build_configurations":   o.Configs,
		"anchors_found_vs_floor": floors,
		"exhaustive":             true,
		"samples":                samples,
		"known_findings":         o.KnownHit,
		"checker_cmd":            "bin/wmcheck -property " + o.Property + " -tier " + o.Tier,
	}
	for k, v := range o.Extra {
		cov[k] = v
	}
	nviol := len(o.Violations)
	if o.Internal != "" {
		nviol++
		cov["internal_error"] = o.Internal
	}
	ev := map[string]any{
		"property_id": o.Property,
		"tier":        o.Tier,
		"seed":        o.Seed,
		"level":       "other",
		"coverage":    cov,
		"assumptions": assumptions,
		"wall_s":      o.WallS,
		"violations":  nviol,
	}
	b, err := json.MarshalIndent(ev, "", " ")
	if err != nil {
		return err
	}
	dir := filepath.Join(verifDir, "evidence")
	if err := os.MkdirAll(dir, 0o755); err != nil {
		return err
	}
	return os.WriteFile(filepath.Join(dir, o.Property+".json"), append(b, '\n'), 0o644)
}
