package wm

import (
	"fmt"
	"go/types"

	"golang.org/x/tools/go/ssa"
)

func init() {
	register(&PropDef{
		ID:  "C06",
		Run: runC06,
		Explanation: "Decides the ordering facts that make the bad Close schedules impossible: the wait for in-flight handler invocations is sequenced, in the same goroutine, after the wait for the handler loops (which are the only place that registers invocations); every invocation is registered before its goroutine starts and deregistered by the dispatch function's first defer; Close returns nil only on the not-timed-out edge (or when already closed) and the timeout helper answers 'timed out' only from its time.After case; " +
			"the closed flag is read and set under its lock and guards both channel closes (repeated/concurrent Close is safe and every caller returns); the 'closed' channel is closed after the wait and Run returns nil only after receiving from it; the run loop closes the publisher on every exit and the close watcher closes the subscriber on the router-closing case, ends in the stop function, and cannot bypass subscriber.Close() when the router is closing. " +
			"Not decided: handler durations vs. CloseTimeout, behaviour of third-party Subscriber.Close.",
		Assumptions: commonAssumptions,
	})
}

func runC06(c *Check) {
	LostReceiverStores(c, "C06.CFG", "message")
	DefaultsApplied(c, "C06.CFG", "message")
	P := "C06"
	r := c.routerRoles2(P)
	if r == nil {
		return
	}
	c06WaitOrder(c, P, r)
	c06WgPair(c, P, r)
	c06CloseResult(c, P, r)
	c06CloseOnce(c, P, r)
	c06RunAfterClose(c, P, r)
	c06ClosesPubSub(c, P, r)
	c06NotBypassed(c, P, r)
	// the subscriber decorator the Router puts in front of every handler takes part in the shutdown: its Close must end its pumps
	c07Decorator(c, P+".S")
	c10Lifecycle(c, P+".S", r)
	c02Dispatch(c, P, r.RouterRoles)
}

func (r *RouterRoles2) waitsOn(fn *ssa.Function, id string) []ssa.CallInstruction {
	var out []ssa.CallInstruction
	for _, cl := range CallsTo(fn, nWGWait) {
		if r.LA.LockID(Receiver(cl)) == id {
			out = append(out, cl)
		}
	}
	return out
}

func c06WaitOrder(c *Check, P string, r *RouterRoles2) {
	n := 0
	for _, fn := range r.Funcs {
		runWaits := r.waitsOn(fn, r.WRun)
		loopWaits := r.waitsOn(fn, r.WLoop)
		for i, w := range runWaits {
			n++
			ok := false
			for _, lw := range loopWaits {
				if Dominates(fn, lw, w) && lw != w {
					ok = true
				}
			}
			c.Report(ok, P+".O1", "WAIT-ORDER", fn, w.Pos(), fmt.Sprintf("wait for in-flight invocations#%d", i),
				"the wait for in-flight handler invocations is preceded, in the same goroutine, by the wait for the handler loops (only they register invocations, so only after they ended can the count be final)")
		}
	}
	c.Floor(P+".O1", "wait for in-flight invocations", n, 1)
	// the in-flight counter is raised (by the run loops) and waited for (by Close) under one mutex — a WaitGroup must not
	// see Add and Wait at the same time when it is at zero — and that mutex is not held while the loops are waited
	// for: a loop that has to register one more invocation would block on it and never end
	var addLocks []string
	nadd := 0
	for _, fn := range r.Funcs {
		for _, cl := range CallsTo(fn, nWGAdd) {
			if r.LA.LockID(Receiver(cl)) != r.WRun {
				continue
			}
			nadd++
			held := r.LA.Held(cl)
			for lid, m := range held {
				if m == 'W' {
					addLocks = append(addLocks, lid)
				}
			}
			c.Report(len(held) > 0, P+".O1", "IN-FLIGHT-COUNTER-SERIALISED", fn, cl.Pos(), "Add on the in-flight counter", "an invocation is registered with the counter's mutex held", "held: "+held.String())
		}
	}
	c.Floor(P+".O1", "Add on the in-flight counter", nadd, 1)
	// the counter and its mutex are the router's own, handed to every handler: Close waits for "no invocation running in this
	// router", also of handlers that were stopped and have left the handler map meanwhile
	if hs, isS := r.HandlerT.Underlying().(*types.Struct); isS {
		nsh := 0
		for i := 0; i < hs.NumFields(); i++ {
			f := hs.Field(i)
			if t := f.Type().String(); t != "*sync.WaitGroup" && t != "*sync.Mutex" {
				continue
			}
			for _, fn := range r.Funcs {
				for _, st := range FieldStores(fn, f) {
					nsh++
					okShared := AllOrigins(st.Val, func(o ssa.Value) bool {
						lf := LoadedField(o)
						if lf == nil {
							return false
						}
						rs, _ := r.R.Underlying().(*types.Struct)
						for j := 0; rs != nil && j < rs.NumFields(); j++ {
							if rs.Field(j) == lf {
								return true
							}
						}
						return false
					})
					c.Report(okShared, P+".O1", "IN-FLIGHT-COUNTER-IS-THE-ROUTERS", fn, st.Pos(), "store to handler."+f.Name(), "a handler's in-flight counter and its mutex are the router's (one per router, shared by all its handlers), not objects of the handler's own")
				}
			}
		}
		c.Floor(P+".O1", "handler fields holding the router's in-flight counter / mutex", nsh, 2)
	}
	for _, fn := range r.Funcs {
		for _, w := range r.waitsOn(fn, r.WRun) {
			held := r.LA.Held(w)
			ok := false
			for _, lid := range addLocks {
				if held[lid] == 'W' {
					ok = true
				}
			}
			c.Report(ok, P+".O1", "IN-FLIGHT-COUNTER-SERIALISED", fn, w.Pos(), "Wait on the in-flight counter", "Close waits for the in-flight invocations with the same mutex held under which they are registered", "held: "+held.String())
		}
		for _, lw := range r.waitsOn(fn, r.WLoop) {
			held := r.LA.Held(lw)
			var bad []string
			for _, lid := range addLocks {
				if _, has := held[lid]; has {
					bad = append(bad, lid)
				}
			}
			c.Report(len(bad) == 0, P+".O1", "LOOPS-AWAITED-WITHOUT-THE-COUNTER-MUTEX", fn, lw.Pos(), "Wait for the handler loops", "the handler loops are waited for without the in-flight counter's mutex: a loop that still has a message to dispatch needs it to register the invocation", "held: "+held.String())
		}
	}
	// both waits are part of what Close waits for: the wait helper's family contains them
	fam := WithStarted(r.WaitFn)
	nl, nr := 0, 0
	for _, f := range fam {
		nl += len(r.waitsOn(f, r.WLoop))
		nr += len(r.waitsOn(f, r.WRun))
	}
	c.Report(nl >= 1 && nr >= 1, P+".O1", "CLOSE-WAITS-FOR-BOTH", r.WaitFn, r.WaitFn.Pos(), "wait helper", "Close's wait covers the handler loops and the in-flight invocations")
}

func c06WgPair(c *Check, P string, r *RouterRoles2) {
	L, D, g := r.RunLoop, r.Dispatch, r.GoDispatch
	okAdd := false
	for _, a := range CallsTo(L, nWGAdd) {
		if r.LA.LockID(Receiver(a)) != r.WRun {
			continue
		}
		n, isC := IntConst(a.Common().Args[1])
		if _, isCall := a.(*ssa.Call); isCall && isC && n == 1 && Dominates(L, a, g) && !ReachWithout(a, a, g) && !ReachWithout(g, g, a) {
			okAdd = true
		}
	}
	c.Report(okAdd, P+".O2", "REGISTER-BEFORE-GO", L, g.Pos(), "go dispatch", "each invocation is registered (Add(1)) in the run loop before its goroutine is started, once per message")
	// D's first call-like instruction is `defer Done()` on the same wait group
	var first ssa.CallInstruction
	for _, cl := range CallsIn(D) {
		first = cl
		break
	}
	okDone := false
	if d, isDefer := first.(*ssa.Defer); isDefer && IsCallTo(d, nWGDone) && r.LA.LockID(Receiver(d)) == r.WRun && d.Block() == D.Blocks[0] {
		okDone = true
	}
	pos := D.Pos()
	if first != nil {
		pos = first.Pos()
	}
	c.Report(okDone, P+".O2", "DEREGISTER-DEFERRED-FIRST", D, pos, "defer Done()", "the dispatch function's first statement defers Done() on the in-flight wait group (it runs last, also when the handler panics)")
	nd := 0
	for _, f := range WithAnon(D) {
		for _, cl := range CallsTo(f, nWGDone) {
			if r.LA.LockID(Receiver(cl)) == r.WRun {
				nd++
			}
		}
	}
	c.Report(nd == 1, P+".O2", "DEREGISTER-ONCE", D, D.Pos(), "Done()", "exactly one Done() per invocation")
}

func c06CloseResult(c *Check, P string, r *RouterRoles2) {
	Cl := r.Close
	waits := Callers([]*ssa.Function{Cl}, r.WaitFn)
	if !c.Floor(P+".O3", "call of the wait helper in Close", len(waits), 1) {
		return
	}
	// no handler is started while Close waits: the lock RunHandlers starts handlers under is held from before the
	// closing signal until after the wait ("none will start afterwards")
	if startLock := r.handlerStartLockID(); c.Floor(P+".O3", "lock held by RunHandlers when it starts a handler", b2i(startLock != ""), 1) {
		for _, w := range waits {
			held := r.LA.Held(w)
			c.Report(held[startLock] == 'W', P+".O3", "NO-START-WHILE-CLOSE-WAITS", Cl, w.Pos(), "wait for the handlers in Close", "Close waits for the handlers with the handlers lock held: a RunHandlers call that overlaps Close cannot start a handler whose invocations Close no longer waits for", "held: "+held.String())
		}
		for _, cs := range CloseSites(Cl, func(v ssa.Value) bool { return AllOrigins(v, IsFieldLoad(r.ClosingCh)) }) {
			held := r.LA.Held(cs)
			c.Report(held[startLock] == 'W', P+".O3", "NO-START-WHILE-CLOSE-WAITS", Cl, cs.Pos(), "close(closing signal)", "the closing signal is raised with the handlers lock held (the same critical section as the wait)", "held: "+held.String())
		}
	}
	_, notTimedOut := r.waitVerdictEdges(Cl, waits)
	closedTrue, _ := BoolEdges(Cl, func(v ssa.Value) bool { return AllOrigins(v, IsFieldLoad(r.ClosedF)) })
	c.Floor(P+".O3", "test of the wait helper's result in Close (or its error returned as it is)", len(notTimedOut)+tailReturns(Cl, ResultOfAny(waits, 0)), 1)
	for i, ret := range Returns(Cl) {
		for _, v := range RetOrigins(ret, 0) {
			if IsNilConst(v) {
				c.Report(GuardedBy(Cl, ret, append(append([]Edge{}, notTimedOut...), closedTrue...)), P+".O3", "NIL-ONLY-IF-WAITED", Cl, ret.Pos(), fmt.Sprintf("return#%d", i),
					"Close returns nil only on the edge where the wait did not time out (or the router was already closed)")
			}
		}
	}
	timedOut, _ := r.waitVerdictEdges(Cl, waits)
	{
		var srcs []ErrSource
		if IsErrorType(r.WaitFn.Signature.Results().At(0).Type()) {
			for _, w := range waits {
				srcs = append(srcs, ErrSource{w, 0}) // the helper's own verdict (decided below: non-nil iff timed out)
			}
		}
		ErrorsOnlyFrom(c, P+".O3", "CLOSE-FAILS-ONLY-ON-TIMEOUT", Cl, srcs, timedOut, "Close reports an error only when the handlers did not finish within CloseTimeout")
	}
	for _, e := range timedOut {
		re := ReachEdge(e, nil)
		ok := true
		for _, ret := range Returns(Cl) {
			if re[ret] {
				for _, v := range RetOrigins(ret, 0) {
					if IsNilConst(v) {
						ok = false
					}
				}
			}
		}
		c.Report(ok, P+".O3", "ERROR-ON-TIMEOUT", Cl, e.From.Instrs[len(e.From.Instrs)-1].Pos(), "timed-out edge", "when handlers outlive CloseTimeout Close returns an error")
	}
	// the wait helper returns the timeout helper's verdict for CloseTimeout
	W := r.WaitFn
	tos := CallsTo(W, ModulePath+"/pubsub/sync.WaitGroupTimeout")
	if c.Floor(P+".O3", "WaitGroupTimeout call in the wait helper", len(tos), 1) {
		to := tos[0]
		if IsErrorType(W.Signature.Results().At(0).Type()) {
			tTrue, tFalse := BoolEdges(W, func(v ssa.Value) bool { return IsResultOf(v, to, 0) })
			for _, ret := range Returns(W) {
				if RetNil(ret, 0) {
					c.Report(len(tFalse) > 0 && GuardedBy(W, ret, tFalse), P+".O3", "WAIT-RESULT", W, ret.Pos(), "return nil", "the wait helper answers nil only when WaitGroupTimeout said 'finished'")
				} else {
					os := RetOrigins(ret, 0)
					c.Report(len(tTrue) > 0 && GuardedBy(W, ret, tTrue) && len(os) > 0 && allOf(os, func(v ssa.Value) bool { return ProvablyNonNil(v, func(ssa.Value) bool { return false }) }), P+".O3", "WAIT-RESULT", W, ret.Pos(), "return error", "the wait helper answers with a non-nil error exactly when WaitGroupTimeout said 'timed out'")
				}
			}
		} else {
			for ret, vals := range ReturnValues(W, 0) {
				c.Report(len(vals) == 1 && IsResultOf(vals[0], to, 0), P+".O3", "WAIT-RESULT", W, ret.Pos(), "return", "the wait helper returns WaitGroupTimeout's verdict")
			}
		}
		c.Report(AllOrigins(to.Common().Args[1], exportedFieldLoad("CloseTimeout")), P+".O3", "WAIT-BOUND", W, to.Pos(), "WaitGroupTimeout", "the wait is bounded by config.CloseTimeout")
		// the joined group counts the goroutines that wait for loops and invocations
		wg := to.Common().Args[0]
		for _, f := range W.AnonFuncs {
			waitsHere := len(r.waitsOn(f, r.WLoop)) + len(r.waitsOn(f, r.WRun))
			if waitsHere == 0 {
				continue
			}
			okDone := false
			for _, d := range CallsTo(f, nWGDone) {
				if sameValue(Receiver(d), wg) || cellOf(Receiver(d)) != nil && cellOf(Receiver(d)) == cellOf(wg) {
					if _, isDefer := d.(*ssa.Defer); isDefer {
						okDone = true
					} else {
						okDone = true
						for _, ret := range Returns(f) {
							if !Dominates(f, d, ret) {
								okDone = false
							}
						}
					}
				}
			}
			c.Report(okDone, P+".O3", "WAITER-JOINED", f, f.Pos(), "waiter goroutine", "the goroutine that waits for the handlers signals the joined wait group when (and only when) it is done")
			// Add(1) before go
			for _, ms := range ClosureSites(f) {
				for _, ref := range *ms.Referrers() {
					if g, ok := ref.(*ssa.Go); ok {
						okAdd := false
						for _, a := range CallsTo(W, nWGAdd) {
							if Dominates(W, a, g) && (sameValue(Receiver(a), wg) || cellOf(Receiver(a)) == cellOf(wg)) {
								okAdd = true
							}
						}
						c.Report(okAdd, P+".O3", "WAITER-COUNTED", W, g.Pos(), "go waiter", "the waiter goroutine is counted before it starts")
						c.Report(Dominates(W, g, to), P+".O3", "WAITER-STARTED", W, g.Pos(), "go waiter", "the waiter goroutine is started before the bounded wait")
					}
				}
			}
		}
	}
	// WaitGroupTimeout itself
	wt := c.P.Func("pubsub/sync", "WaitGroupTimeout")
	if !c.Use(P+".O3", wt, "sync.WaitGroupTimeout") {
		return
	}
	sels := Selects(wt)
	if !c.Floor(P+".O3", "select in WaitGroupTimeout", len(sels), 1) {
		return
	}
	si := sels[0]
	var timeEdge, doneEdge *Edge
	okShape := si.Blocking && len(si.Cases) == 2
	for _, cs := range si.Cases {
		ck := ClassifyChan(cs.Chan)
		switch {
		case ck.Kind == "time.After":
			timeEdge = cs.Edge
			okShape = okShape && AllOrigins(ck.Call.Call.Args[0], func(v ssa.Value) bool { p, ok := v.(*ssa.Parameter); return ok && p.Type().String() == "time.Duration" })
		case ck.Kind == "local":
			doneEdge = cs.Edge
			// the local channel is signalled (sent to or closed) only after wg.Wait() in a goroutine
			okSig := false
			for _, f := range wt.AnonFuncs {
				ws := CallsTo(f, nWGWait)
				sigs := SendSites(f, func(v ssa.Value) bool { return AllOrigins(v, func(o ssa.Value) bool { return o == ck.Val }) })
				cls := CloseSites(f, func(v ssa.Value) bool { return AllOrigins(v, func(o ssa.Value) bool { return o == ck.Val }) })
				for _, w := range ws {
					if !AllOrigins(Receiver(w), func(o ssa.Value) bool { p, ok := o.(*ssa.Parameter); return ok && p.Parent() == wt }) {
						continue
					}
					for _, s := range sigs {
						if Dominates(f, w, s.Ins) {
							okSig = true
						}
					}
					for _, s := range cls {
						if Dominates(f, w, s) {
							okSig = true
						}
					}
				}
			}
			// and signalled nowhere else
			nOther := len(SendSites(wt, func(v ssa.Value) bool { return AllOrigins(v, func(o ssa.Value) bool { return o == ck.Val }) }))
			okShape = okShape && okSig && nOther == 0
			// buffered so that the signalling goroutine never blocks
			if mc, ok := ck.Val.(*ssa.MakeChan); ok {
				n, isC := IntConst(mc.Size)
				c.Report(isC && n >= 1 || len(CloseSites(wt.AnonFuncs[0], func(v ssa.Value) bool { return true })) > 0, P+".O3", "TIMEOUT-HELPER-NO-LEAK", wt, mc.Pos(), "done channel", "the 'finished' signal cannot block its sender after a timeout (buffered channel or close)")
			}
		default:
			okShape = false
		}
	}
	c.Report(okShape && timeEdge != nil && doneEdge != nil, P+".O3", "TIMEOUT-HELPER-SHAPE", wt, si.Sel.Pos(), "select", "WaitGroupTimeout is a blocking select over exactly {wait finished, time.After(timeout)}")
	if timeEdge != nil && doneEdge != nil {
		for i, ret := range Returns(wt) {
			for _, v := range RetOrigins(ret, 0) {
				cst, ok := v.(*ssa.Const)
				if !ok || cst.Value == nil {
					c.Undecided(P+".O3", "TIMEOUT-HELPER-RESULT", wt, ret.Pos(), fmt.Sprintf("return#%d", i), "non-constant result")
					continue
				}
				if cst.Value.String() == "true" {
					c.Report(GuardedBy(wt, ret, []Edge{*timeEdge}), P+".O3", "TIMEOUT-HELPER-RESULT", wt, ret.Pos(), fmt.Sprintf("return#%d", i), "'timed out' is answered only from the time.After case")
				} else {
					c.Report(GuardedBy(wt, ret, []Edge{*doneEdge}), P+".O3", "TIMEOUT-HELPER-RESULT", wt, ret.Pos(), fmt.Sprintf("return#%d", i), "'finished' is answered only after the wait group's Wait returned")
				}
			}
		}
	}
}

func c06CloseOnce(c *Check, P string, r *RouterRoles2) {
	Cl := r.Close
	lockID := r.LA.canon(fieldID(r.ClosedLockF))
	_, notClosed := BoolEdges(Cl, func(v ssa.Value) bool { return AllOrigins(v, IsFieldLoad(r.ClosedF)) })
	c.Floor(P+".O4", "test of the closed flag in Close", len(notClosed), 1)
	for _, a := range r.LA.Accesses(r.ClosedF) {
		fn := HomeFn(a.Ins.Parent())
		if fn.Name() == "newRouter" || fn.Parent() == nil && fn.Signature.Recv() == nil && !a.Write {
			continue
		}
		held := r.LA.Held(a.Ins)
		// composite literal initialisation in constructors has no lock; detect by: function returns *Router and allocates it
		if allocatesNamed(fn, r.R) {
			continue
		}
		c.Report(held[lockID] == 'W', P+".O4", "CLOSED-FLAG-GUARDED", fn, a.Ins.Pos(), a.What+" of closed flag", "the closed flag is accessed under its lock", "held: "+held.String())
	}
	okSet := false
	for _, st := range FieldStores(Cl, r.ClosedF) {
		cst, isC := st.Val.(*ssa.Const)
		if isC && cst.Value != nil && cst.Value.String() == "true" && GuardedBy(Cl, st, notClosed) {
			okSet = true
		}
	}
	c.Report(okSet, P+".O4", "CLOSED-FLAG-SET", Cl, Cl.Pos(), "closed = true", "Close sets the flag on the not-yet-closed edge")
	n := 0
	for _, cl := range BuiltinCalls(Cl, "close") {
		f := LoadedField(firstOrigin(cl.Common().Args[0]))
		if f != r.ClosingCh && f != r.ClosedCh {
			continue
		}
		n++
		what := "close(closing-in-progress)"
		if f == r.ClosedCh {
			what = "close(closed)"
		}
		c.Report(GuardedBy(Cl, cl, notClosed) && !InLoop(cl), P+".O4", "CLOSE-ONCE", Cl, cl.Pos(), what, "the channel is closed only on the not-yet-closed edge, under the closed lock (no double close, every Close call returns)")
	}
	c.Floor(P+".O4", "close of the closing-in-progress and closed channels in Close", n, 2)
	// nobody else closes them
	for _, fn := range r.Funcs {
		if fn == Cl {
			continue
		}
		for _, cl := range BuiltinCalls(fn, "close") {
			f := LoadedField(firstOrigin(cl.Common().Args[0]))
			if f == r.ClosingCh || f == r.ClosedCh || f == r.HCloseCh {
				c.Report(false, P+".O4", "WHO-MAY-CLOSE", fn, cl.Pos(), "close of a router signal", "only Router.Close closes the router's signal channels")
			}
		}
	}
	// a concurrent second Close must not return nil while the first is still waiting
	waits := Callers([]*ssa.Function{Cl}, r.WaitFn)
	closedTrue, _ := BoolEdges(Cl, func(v ssa.Value) bool { return AllOrigins(v, IsFieldLoad(r.ClosedF)) })
	for _, w := range waits {
		held := r.LA.Held(w)
		serial := held[lockID] == 'W'
		if !serial {
			// alternative: the already-closed path waits for the 'closed' channel
			serial = len(closedTrue) > 0
			for _, e := range closedTrue {
				var recvs []ssa.Instruction
				for _, op := range BlockingOps(Cl) {
					if op.Kind == "recv" && AllOrigins(op.Chan, IsFieldLoad(r.ClosedCh)) {
						recvs = append(recvs, op.Ins)
					}
				}
				re := ReachEdge(e, NewCut().AddInstrs(recvs...))
				for _, ret := range Returns(Cl) {
					if re[ret] {
						serial = false
					}
				}
			}
		}
		c.Report(serial, P+".O4", "CLOSE-SERIALISED", Cl, w.Pos(), "wait for handlers",
			"while one Close waits for the handlers a concurrent Close cannot return nil: the closed lock is held across the wait (or the already-closed path waits for the 'closed' channel)", "held: "+held.String())
	}
	// blocking operations in Close: locks and the bounded wait only
	for i, op := range BlockingOps(Cl) {
		c.Report(op.Kind == "lock", P+".O4", "CLOSE-BLOCKS-ONLY-ON-LOCKS", Cl, op.Ins.Pos(), fmt.Sprintf("op#%d (%s)", i, op.Kind), "besides the bounded wait, Close blocks only on its locks")
	}
}

func allocatesNamed(fn *ssa.Function, n interface{ String() string }) bool {
	found := false
	AllInstrs(fn, func(in ssa.Instruction) {
		if a, ok := in.(*ssa.Alloc); ok {
			if nn := NamedOf(a.Type()); nn != nil && nn.String() == n.String() {
				found = true
			}
		}
	})
	return found
}

func c06RunAfterClose(c *Check, P string, r *RouterRoles2) {
	Cl := r.Close
	waits := Callers([]*ssa.Function{Cl}, r.WaitFn)
	for _, cl := range BuiltinCalls(Cl, "close") {
		if LoadedField(firstOrigin(cl.Common().Args[0])) != r.ClosedCh {
			continue
		}
		ok := false
		if _, isDefer := cl.(*ssa.Defer); isDefer {
			ok = len(waits) > 0 // a deferred close runs after the body, hence after the wait
			for _, w := range waits {
				// the defer must be registered on every path that reaches the wait (else the channel would stay open)
				if !Dominates(Cl, cl, w) {
					ok = false
				}
			}
		} else {
			ok = len(waits) > 0
			for _, w := range waits {
				if !Dominates(Cl, w, cl) {
					ok = false
				}
			}
		}
		c.Report(ok, P+".O5", "CLOSED-AFTER-WAIT", Cl, cl.Pos(), "close(closed)", "the 'closed' channel is closed only after the wait for handlers finished (deferred, or sequenced after the wait)")
	}
	Run := r.Run
	var recvClosed []ssa.Instruction
	for _, op := range BlockingOps(Run) {
		if op.Kind == "recv" && AllOrigins(op.Chan, IsFieldLoad(r.ClosedCh)) {
			recvClosed = append(recvClosed, op.Ins)
		}
	}
	c.Floor(P+".O5", "receive from the 'closed' channel in Run", len(recvClosed), 1)
	for i, ret := range Returns(Run) {
		for _, v := range RetOrigins(ret, 0) {
			if IsNilConst(v) {
				ok := false
				for _, rc := range recvClosed {
					if Dominates(Run, rc, ret) {
						ok = true
					}
				}
				c.Report(ok, P+".O5", "RUN-RETURNS-AFTER-CLOSED", Run, ret.Pos(), fmt.Sprintf("return#%d", i), "Run returns nil only after it received from the 'closed' channel (never while Close is still waiting)")
			}
		}
	}
}

func c06ClosesPubSub(c *Check, P string, r *RouterRoles2) {
	L := r.RunLoop
	var pubCloses []ssa.Instruction
	for _, cl := range CallsTo(L, nPubClose) {
		if AllOrigins(Receiver(cl), IsFieldLoad(r.HPub)) {
			pubCloses = append(pubCloses, cl)
		}
	}
	c.Floor(P+".O6", "publisher.Close() in the run loop", len(pubCloses), 1)
	pubNil, _ := NilEdges(L, func(v ssa.Value) bool { return AllOrigins(v, IsFieldLoad(r.HPub)) })
	cut := NewCut().AddInstrs(pubCloses...).AddEdges(pubNil...)
	re := ReachEntry(L, cut)
	for i, ret := range Returns(L) {
		c.Report(!re[ret], P+".O6", "PUBLISHER-CLOSED", L, ret.Pos(), fmt.Sprintf("return#%d", i), "every exit of the run loop closes the handler's publisher (unless there is none)")
	}
	// a handler may have no publisher at all (AddHandler with a nil publisher and no outputs is legal): the close is
	// reached only on the edge on which the publisher is not nil — a nil dereference here kills the whole process
	_, pubSet := NilEdges(L, func(v ssa.Value) bool { return AllOrigins(v, IsFieldLoad(r.HPub)) })
	for _, pc := range pubCloses {
		c.Report(len(pubSet) > 0 && GuardedBy(L, pc, pubSet), P+".O6", "PUBLISHER-CLOSE-ONLY-IF-PRESENT", L, pc.Pos(), "publisher.Close()", "the handler's publisher is closed only on the edge on which it is not nil")
	}
	// the publisher is closed after the loop, not inside it
	for _, pc := range pubCloses {
		c.Report(!InLoop(pc), P+".O6", "PUBLISHER-CLOSED-AFTER-LOOP", L, pc.Pos(), "publisher.Close()", "the publisher is closed once, after the message loop ended")
	}
	W := r.Watcher
	var subCloses []ssa.Instruction
	for _, f := range append(WithAnon(W), sameReceiverCallees(W)...) {
		for _, cl := range CallsTo(f, nSubClose) {
			if AllOrigins(Receiver(cl), IsFieldLoad(r.HSub)) {
				subCloses = append(subCloses, cl)
			}
		}
	}
	c.Floor(P+".O6", "subscriber.Close() in the close watcher", len(subCloses), 1)
	// stop function on every exit
	var stops []ssa.Instruction
	for _, cl := range CallsIn(W) {
		if !cl.Common().IsInvoke() && CalleeFn(cl.Common()) == nil && AllOrigins(cl.Common().Value, IsFieldLoad(r.HStopFn)) {
			stops = append(stops, cl)
		}
	}
	c.Floor(P+".O6", "call of the handler's stop function in the close watcher", len(stops), 1)
	for i, ret := range Returns(W) {
		ok := false
		for _, s := range stops {
			if _, isDefer := s.(*ssa.Defer); isDefer || Dominates(W, s, ret) {
				ok = true
			}
		}
		c.Report(ok, P+".O6", "WATCHER-STOPS-HANDLER", W, ret.Pos(), fmt.Sprintf("return#%d", i), "every path of the close watcher ends by cancelling the handler's context")
	}
}

// closesSubscriber: instructions in W (incl. calls of local literals) that lead to subscriber.Close().
func (r *RouterRoles2) subCloseSitesIn(W *ssa.Function) []ssa.Instruction {
	var out []ssa.Instruction
	for _, cl := range CallsIn(W) {
		if IsCallTo(cl, nSubClose) && AllOrigins(Receiver(cl), IsFieldLoad(r.HSub)) {
			out = append(out, cl)
			continue
		}
		f := FuncOfValue(firstOrigin(cl.Common().Value))
		if f != nil && f.Parent() != W {
			f = nil
		}
		if f == nil {
			// a private method of the same handler value does as well as a local literal
			for _, g := range sameReceiverCallees(W) {
				if CalleeFn(cl.Common()) == g {
					f = g
				}
			}
		}
		if f != nil {
			if _, isGo := cl.(*ssa.Go); isGo {
				continue
			}
			// the literal must close the subscriber on every path
			var inner []ssa.Instruction
			for _, c2 := range CallsTo(f, nSubClose) {
				if AllOrigins(Receiver(c2), IsFieldLoad(r.HSub)) {
					inner = append(inner, c2)
				}
			}
			if len(inner) == 0 {
				continue
			}
			re := ReachEntry(f, NewCut().AddInstrs(inner...))
			all := true
			for _, ret := range Returns(f) {
				if re[ret] {
					all = false
				}
			}
			if all {
				out = append(out, cl)
			}
		}
	}
	return out
}

func c06NotBypassed(c *Check, P string, r *RouterRoles2) {
	W := r.Watcher
	closes := r.subCloseSitesIn(W)
	if !c.Floor(P+".O7", "sites in the close watcher that close the subscriber", len(closes), 1) {
		return
	}
	isCloseCh := func(v ssa.Value) bool { return AllOrigins(v, IsFieldLoad(r.HCloseCh)) }
	// the router-closing case leads to subscriber.Close()
	var polls []Edge
	nCase := 0
	// the closing signal is only ever closed, never sent on: once a receive from it succeeded, a later poll of it
	// (select with default) cannot take the default branch
	closeOnly := true
	for _, f := range c.P.SrcFuncs("message") {
		AllInstrs(f, func(in ssa.Instruction) {
			switch x := in.(type) {
			case *ssa.Send:
				if AnyOrigin(x.Chan, func(o ssa.Value) bool { return IsFieldLoad(r.HCloseCh)(o) || IsFieldLoad(r.ClosingCh)(o) }) {
					closeOnly = false
				}
			case *ssa.Select:
				for _, st := range x.States {
					if st.Dir == types.SendOnly && AnyOrigin(st.Chan, func(o ssa.Value) bool { return IsFieldLoad(r.HCloseCh)(o) || IsFieldLoad(r.ClosingCh)(o) }) {
						closeOnly = false
					}
				}
			}
		})
	}
	var rePolls []Edge
	if closeOnly {
		for _, si := range Selects(W) {
			if si.Blocking || si.Default == nil {
				continue
			}
			for _, cs := range si.Cases {
				if !cs.Send && isCloseCh(cs.Chan) {
					rePolls = append(rePolls, *si.Default)
				}
			}
		}
	}
	for _, si := range Selects(W) {
		for _, cs := range si.Cases {
			if cs.Send || !isCloseCh(cs.Chan) || cs.Edge == nil {
				continue
			}
			nCase++
			re := ReachEdge(*cs.Edge, NewCut().AddInstrs(closes...).AddEdges(rePolls...))
			ok := true
			for _, ret := range Returns(W) {
				if re[ret] {
					ok = false
				}
			}
			c.Report(ok, P+".O6", "SUBSCRIBER-CLOSED-ON-ROUTER-CLOSE", W, si.Sel.Pos(), "router-closing case", "on the router-closing case every path closes the handler's subscriber")
			if !si.Blocking && si.Default != nil {
				polls = append(polls, *si.Default)
			}
		}
	}
	c.Floor(P+".O7", "select case on the router's closing signal in the close watcher", nCase, 1)
	// paths to exit that never close the subscriber
	cut := NewCut().AddInstrs(closes...).AddEdges(polls...)
	re := ReachEntry(W, cut)
	bypass := false
	var wit []string
	for _, ret := range Returns(W) {
		if re[ret] {
			bypass = true
			wit = append(wit, "exit at "+c.P.Pos(ret.Pos())+" reachable without subscriber.Close() and without a poll that found the router not closing")
		}
	}
	if bypass {
		// alternative (b): the bypassing case cannot be made ready by Close itself
		okAlt := false
		Run := r.Run
		var recvClosed []ssa.Instruction
		for _, op := range BlockingOps(Run) {
			if op.Kind == "recv" && AllOrigins(op.Chan, IsFieldLoad(r.ClosedCh)) {
				recvClosed = append(recvClosed, op.Ins)
			}
		}
		cancels := 0
		okAlt = len(recvClosed) > 0
		for _, cl := range CallsIn(Run) {
			if _, isCall := cl.(*ssa.Call); !isCall {
				continue
			}
			if e, ok := firstOrigin(cl.Common().Value).(*ssa.Extract); ok && e.Index == 1 {
				if wc, ok := e.Tuple.(*ssa.Call); ok && CalleeName(wc) == nWithCancel {
					cancels++
					dom := false
					for _, rc := range recvClosed {
						if Dominates(Run, rc, cl) {
							dom = true
						}
					}
					if !dom {
						okAlt = false
						wit = append(wit, "Run cancels the handlers' context at "+c.P.Pos(cl.Pos())+" before the close completed, which makes the bypassing case ready")
					}
				}
			}
		}
		bypass = !okAlt
	}
	c.Report(!bypass, P+".O7", "CLOSE-NOT-BYPASSED", W, W.Pos(), "close watcher",
		"when the router is closing the watcher cannot leave without closing the subscriber: every path that skips subscriber.Close() has polled the closing signal and found it unset (or the skipping case cannot be triggered by Close)", wit...)
}

// sameReceiverCallees lists the private methods that fn calls synchronously on
// its own receiver (one level): `h.closeSubscriber()` inside a method of h.
func sameReceiverCallees(fn *ssa.Function) []*ssa.Function {
	if fn == nil || fn.Signature.Recv() == nil || len(fn.Params) == 0 {
		return nil
	}
	var out []*ssa.Function
	seen := map[*ssa.Function]bool{}
	for _, cl := range CallsIn(fn) {
		call, ok := cl.(*ssa.Call)
		if !ok {
			continue
		}
		cal := CalleeFn(&call.Call)
		if cal == nil || cal == fn || cal.Pkg != fn.Pkg || cal.Signature.Recv() == nil || len(cal.Blocks) == 0 || cal.Object() == nil || cal.Object().Exported() || seen[cal] {
			continue
		}
		if len(call.Call.Args) > 0 && AllOrigins(call.Call.Args[0], IsParam(fn.Params[0])) {
			seen[cal] = true
			out = append(out, cal)
		}
	}
	return out
}
