// Command wmcheck decides the structural obligations of one watermill property
// from /repo's current source, without running it.
package main

import (
	"encoding/json"
	"flag"
	"fmt"
	"os"
	"strconv"
	"strings"
	"time"

	"wmverif/wm"
)

func main() {
	prop := flag.String("property", "", "property id (C01..C20)")
	tier := flag.String("tier", "quick", "quick|thorough")
	repo := flag.String("repo", "/repo", "repository root")
	verif := flag.String("verif", "/verif", "verification directory (evidence, known findings)")
	replay := flag.String("replay", "", "replay file: re-decide only that obligation")
	noEvidence := flag.Bool("no-evidence", false, "do not write the evidence file")
	list := flag.Bool("list", false, "list properties")
	seededJSON := flag.String("seeded-json", "", "results of the seeded-variant self-test (tools/mutants.py --json) to embed in the evidence")
	describe := flag.Bool("describe", false, "print the properties' claim texts as JSON")
	writeBaseline := flag.Bool("write-baseline", false, "write baseline_funcs.txt (the private functions of the tree the obligations are confirmed on) and exit")
	sweep := flag.String("sweep", "", "comma-separated property ids or 'all': load the tree once and print one verdict line per property plus its failing obligations (no evidence, no replay files; for evaluating the checker on variants)")
	flag.Parse()
	if *sweep != "" {
		os.Exit(runSweep(*sweep, *repo, *verif))
	}
	if *describe {
		out := map[string]string{}
		for _, id := range wm.IDs() {
			out[id] = wm.Lookup(id).Explanation
		}
		b, _ := json.MarshalIndent(out, "", " ")
		fmt.Println(string(b))
		return
	}
	if *list {
		fmt.Println(strings.Join(wm.IDs(), " "))
		return
	}
	if t := os.Getenv("VERIF_TIER"); t != "" && !isFlagSet("tier") {
		*tier = t
	}
	seed := 0
	if s := os.Getenv("VERIF_SEED"); s != "" {
		seed, _ = strconv.Atoi(s)
	}
	var replayKey string
	if *replay != "" {
		b, err := os.ReadFile(*replay)
		if err != nil {
			fmt.Println("cannot read replay file:", err)
			os.Exit(2)
		}
		var r struct {
			Property string `json:"property"`
			Key      string `json:"key"`
		}
		if err := json.Unmarshal(b, &r); err != nil {
			fmt.Println("bad replay file:", err)
			os.Exit(2)
		}
		*prop, replayKey = r.Property, r.Key
		*noEvidence = true
	}
	def := wm.Lookup(*prop)
	if def == nil {
		fmt.Printf("unknown property %q (known: %s)\n", *prop, strings.Join(wm.IDs(), " "))
		os.Exit(2)
	}
	start := time.Now()
	out := &wm.Outcome{Property: *prop, Tier: *tier, Seed: seed, Extra: map[string]any{}}
	known, err := wm.LoadKnown(*verif + "/known_findings.json")
	if err != nil {
		out.Internal = err.Error()
	}
	if err := wm.LoadBaseline(*verif + "/baseline_funcs.txt"); err != nil && !*writeBaseline {
		out.Internal = "baseline_funcs.txt: " + err.Error()
	}
	if *writeBaseline {
		p, err := wm.Load(wm.Config{Dir: *repo, Label: "default"})
		if err != nil {
			fmt.Println(err)
			os.Exit(2)
		}
		txt := "# private package-level functions and methods of the tree the obligations were confirmed on (wmcheck -write-baseline).\n# Only used to decide which helpers are NEW (and may be read at their single call site); never to find or match anything.\n" + strings.Join(p.PrivateFuncs(), "\n") + "\n"
		if err := os.WriteFile(*verif+"/baseline_funcs.txt", []byte(txt), 0o644); err != nil {
			fmt.Println(err)
			os.Exit(2)
		}
		fmt.Println("wrote", *verif+"/baseline_funcs.txt")
		os.Exit(0)
	}
	if out.Internal == "" {
		if msg := wm.RunCanaries(*verif + "/checker/testdata/canary"); msg != "" {
			out.Internal = "canary self-test failed: " + msg
		} else {
			out.Extra["canaries"] = wm.CanarySummary()
		}
	}
	configs := []wm.Config{{Dir: *repo, Label: "default"}}
	if *tier == "thorough" {
		configs = append(configs,
			wm.Config{Dir: *repo, Label: "tags=race", Tags: []string{"race"}},
			wm.Config{Dir: *repo, Label: "tags=stress", Tags: []string{"stress"}},
			wm.Config{Dir: *repo, Label: "GOARCH=386", Env: []string{"GOARCH=386"}},
		)
	}
	for _, cfg := range configs {
		if out.Internal != "" {
			break
		}
		p, err := wm.Load(cfg)
		if err != nil {
			out.Internal = fmt.Sprintf("load [%s]: %v", cfg.Label, err)
			break
		}
		c, err := def.RunOn(p, *tier == "thorough")
		if err != nil {
			out.Internal = err.Error()
			break
		}
		// second attempt: private single-call-site helpers that are new since the obligations were confirmed are
		// read as if their body stood at the call; taken only if every obligation holds on that view
		if c.Failing(known) > 0 && wm.Baseline != nil {
			wm.TransparentOn = true
			wm.ResetTransparent()
			c2, err2 := def.RunOn(p, *tier == "thorough")
			wm.TransparentOn = false
			if os.Getenv("WM_SHOW_SECOND") != "" && err2 == nil {
				fmt.Printf("second attempt (looked through: %s): %d failing\n", strings.Join(wm.UsedTransparent(), ", "), c2.Failing(known))
				for _, ob := range c2.Obs {
					if ob.Verdict == wm.Violation || ob.Verdict == wm.Undecided {
						fmt.Printf("  2nd %s %s %s %s {%s}\n", ob.ID, ob.Rule, ob.Pos, ob.Func, ob.Construct)
					}
				}
			}
			if used := wm.UsedTransparent(); err2 == nil && len(used) > 0 && c2.Failing(known) == 0 {
				c = c2
				out.Extra["inlined_helpers["+cfg.Label+"]"] = used
				fmt.Printf("note: decided on the view with %d new private single-call-site helper(s) read at their call: %s\n", len(used), strings.Join(used, ", "))
			}
		}
		out.Merge(c, known)
	}
	if replayKey != "" {
		var keep []wm.Ob
		for _, ob := range out.Violations {
			if ob.Key() == replayKey {
				keep = append(keep, ob)
			}
		}
		out.Violations = keep
	}
	if *seededJSON != "" {
		if b, err := os.ReadFile(*seededJSON); err == nil {
			var rs []map[string]any
			if json.Unmarshal(b, &rs) == nil {
				det, tot, skipped, silent := 0, 0, 0, 0
				var missed, alarms []string
				for _, r := range rs {
					switch r["status"] {
					case "DETECTED":
						det++
						tot++
					case "MISSED":
						tot++
						missed = append(missed, fmt.Sprint(r["id"]))
					case "SILENT-OK":
						silent++
					case "FALSE-ALARM":
						alarms = append(alarms, fmt.Sprint(r["id"]))
					default:
						skipped++
					}
				}
				out.Extra["neutral_variants_silent"] = silent
				out.Extra["neutral_variants_false_alarms"] = alarms
				out.Extra["seeded_total"] = tot
				out.Extra["seeded_detected"] = det
				out.Extra["seeded_skipped_or_not_compiling"] = skipped
				out.Extra["seeded_missed"] = missed
				out.Extra["seeded_results"] = rs
				out.Extra["seeded_note"] = "sensitivity self-test of the checker on single-edit variants of the CURRENT tree (scratch copies, deleted); describes the checker, never changes the exit code"
			}
		}
	}
	out.WallS = time.Since(start).Seconds()
	if !*noEvidence {
		if err := out.WriteEvidence(*verif, def.Explanation, def.Assumptions); err != nil {
			fmt.Println("cannot write evidence:", err)
			os.Exit(2)
		}
	}
	os.Exit(out.Print(*verif))
}

// runSweep decides several properties on one loaded program (default build configuration, quick tier).
func runSweep(ids, repo, verif string) int {
	var list []string
	if ids == "all" {
		list = wm.IDs()
	} else {
		list = strings.Split(ids, ",")
	}
	known, err := wm.LoadKnown(verif + "/known_findings.json")
	if err != nil {
		fmt.Println("INTERNAL ERROR:", err)
		return 2
	}
	if err := wm.LoadBaseline(verif + "/baseline_funcs.txt"); err != nil {
		fmt.Println("INTERNAL ERROR: baseline_funcs.txt:", err)
		return 2
	}
	p, err := wm.Load(wm.Config{Dir: repo, Label: "default"})
	if err != nil {
		fmt.Println("INTERNAL ERROR: load:", err)
		return 2
	}
	rc := 0
	for _, id := range list {
		def := wm.Lookup(id)
		if def == nil {
			fmt.Printf("unknown property %q\n", id)
			return 2
		}
		c, err := def.RunOn(p, false)
		if err != nil {
			fmt.Printf("SWEEP %s INTERNAL %v\n", id, err)
			rc = 2
			continue
		}
		if c.Failing(known) > 0 && wm.Baseline != nil {
			wm.TransparentOn = true
			wm.ResetTransparent()
			c2, err2 := def.RunOn(p, false)
			wm.TransparentOn = false
			if used := wm.UsedTransparent(); err2 == nil && len(used) > 0 && c2.Failing(known) == 0 {
				c = c2
			}
		}
		out := &wm.Outcome{Property: id, Tier: "quick", Extra: map[string]any{}}
		out.Merge(c, known)
		if len(out.Violations) == 0 {
			fmt.Printf("SWEEP %s PASS\n", id)
			continue
		}
		if rc == 0 {
			rc = 1
		}
		fmt.Printf("SWEEP %s FAIL %d\n", id, len(out.Violations))
		for _, ob := range out.Violations {
			fmt.Printf("%-13s %s %-22s %s %s {%s} — %s\n", ob.Verdict, ob.ID, ob.Rule, ob.Pos, ob.Func, ob.Construct, ob.Why)
		}
	}
	return rc
}

func isFlagSet(name string) bool {
	set := false
	flag.Visit(func(f *flag.Flag) {
		if f.Name == name {
			set = true
		}
	})
	return set
}
