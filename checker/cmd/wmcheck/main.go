package main

import (
	"fmt"
	"os"
	"time"

	"wmverif/wm"
)

func main() {
	t := time.Now()
	p, err := wm.Load(wm.Config{})
	if err != nil {
		fmt.Println(err)
		os.Exit(2)
	}
	fmt.Println(len(p.Pkgs), time.Since(t))
	for _, r := range p.ModuleRel() {
		fmt.Println(r, len(p.SrcFuncs(r)))
	}
}
