package main

import (
	"fmt"
	"os"
	"strings"

	"golang.org/x/tools/go/ssa"
	"wmverif/wm"
)

func main() {
	p, err := wm.Load(wm.Config{})
	if err != nil {
		panic(err)
	}
	B := p.Named("components/requestreply", "PubSubBackend")
	l := p.MethodOf(B, "ListenForNotifications")
	for _, f := range wm.WithAnon(l) {
		for _, c := range wm.CallsIn(f) {
			if cal := c.Common().StaticCallee(); cal != nil && strings.Contains(cal.Name(), os.Args[1]) {
				fmt.Println(f.Name(), "->", cal.String(), "synthetic:", cal.Synthetic, "blocks:", len(cal.Blocks), "origin:", cal.Origin(), "typeargs:", cal.TypeArgs())
				cal.WriteTo(os.Stdout)
				_ = ssa.NaiveForm
			}
		}
	}
}
