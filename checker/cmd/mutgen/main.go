// Command mutgen writes single-edit syntactic variants of one Go source file.
// It is a tool for testing the checker (which rules notice which edits), not a
// check: the variants are built, type-checked and decided by wmcheck -sweep in
// scratch copies by tools/mutsweep.py.
//
// usage: mutgen -file <path> -out <dir> [-rel <path shown in the index>]
//
// For every variant <n> it writes <dir>/<n>.go (the whole file) and one line of
// <dir>/index.jsonl: {"n":…, "file":…, "op":…, "line":…, "func":…, "desc":…}.
package main

import (
	"bytes"
	"encoding/json"
	"flag"
	"fmt"
	"go/ast"
	"go/format"
	"go/parser"
	"go/printer"
	"go/token"
	"os"
	"path/filepath"
	"strings"
)

type variant struct {
	N    int    `json:"n"`
	File string `json:"file"`
	Op   string `json:"op"`
	Line int    `json:"line"`
	Func string `json:"func"`
	Desc string `json:"desc"`
}

var (
	fset   = token.NewFileSet()
	file   *ast.File
	outDir string
	rel    string
	idx    *os.File
	count  int
	orig   []byte
)

func emit(op string, pos token.Pos, fn, desc string) {
	var buf bytes.Buffer
	if err := (&printer.Config{Mode: printer.UseSpaces | printer.TabIndent, Tabwidth: 8}).Fprint(&buf, fset, file); err != nil {
		return
	}
	src, err := format.Source(buf.Bytes())
	if err != nil || bytes.Equal(src, orig) {
		return
	}
	count++
	_ = os.WriteFile(filepath.Join(outDir, fmt.Sprintf("%d.go", count)), src, 0o644)
	b, _ := json.Marshal(variant{N: count, File: rel, Op: op, Line: fset.Position(pos).Line, Func: fn, Desc: desc})
	fmt.Fprintln(idx, string(b))
}

func exprString(e ast.Node) string {
	var buf bytes.Buffer
	_ = printer.Fprint(&buf, fset, e)
	s := strings.Join(strings.Fields(buf.String()), " ")
	if len(s) > 90 {
		s = s[:90] + "…"
	}
	return s
}

func main() {
	path := flag.String("file", "", "Go source file")
	out := flag.String("out", "", "output directory")
	relF := flag.String("rel", "", "path recorded in the index")
	flag.Parse()
	outDir, rel = *out, *relF
	if rel == "" {
		rel = *path
	}
	var err error
	orig, err = os.ReadFile(*path)
	if err != nil {
		fmt.Println(err)
		os.Exit(2)
	}
	file, err = parser.ParseFile(fset, *path, orig, parser.ParseComments)
	if err != nil {
		fmt.Println(err)
		os.Exit(2)
	}
	_ = os.MkdirAll(outDir, 0o755)
	idx, err = os.OpenFile(filepath.Join(outDir, "index.jsonl"), os.O_CREATE|os.O_WRONLY|os.O_TRUNC, 0o644)
	if err != nil {
		fmt.Println(err)
		os.Exit(2)
	}
	defer idx.Close()
	for _, d := range file.Decls {
		fd, ok := d.(*ast.FuncDecl)
		if !ok || fd.Body == nil {
			continue
		}
		name := fd.Name.Name
		if fd.Recv != nil && len(fd.Recv.List) > 0 {
			name = "(" + exprString(fd.Recv.List[0].Type) + ")." + name
		}
		mutateFunc(fd, name)
	}
	fmt.Printf("%s: %d variants\n", rel, count)
}

func returnsError(ft *ast.FuncType) bool {
	if ft.Results == nil || len(ft.Results.List) == 0 {
		return false
	}
	last := ft.Results.List[len(ft.Results.List)-1]
	id, ok := last.Type.(*ast.Ident)
	return ok && id.Name == "error"
}

func mutateFunc(fd *ast.FuncDecl, name string) {
	// statement lists: drop / un-go / un-defer
	var lists []*[]ast.Stmt
	var funcTypes []*ast.FuncType // stack is not needed: RET-NIL looks at the innermost enclosing literal by position
	_ = funcTypes
	ast.Inspect(fd.Body, func(n ast.Node) bool {
		switch x := n.(type) {
		case *ast.BlockStmt:
			lists = append(lists, &x.List)
		case *ast.CaseClause:
			lists = append(lists, &x.Body)
		case *ast.CommClause:
			lists = append(lists, &x.Body)
		}
		return true
	})
	for _, l := range lists {
		for i := range *l {
			st := (*l)[i]
			switch x := st.(type) {
			case *ast.ExprStmt:
				if _, isCall := x.X.(*ast.CallExpr); isCall {
					(*l)[i] = &ast.EmptyStmt{Semicolon: st.Pos(), Implicit: false}
					emit("DROP-CALL", st.Pos(), name, "removed: "+exprString(st))
					(*l)[i] = st
				}
			case *ast.GoStmt:
				(*l)[i] = &ast.ExprStmt{X: x.Call}
				emit("UN-GO", st.Pos(), name, "synchronous: "+exprString(x.Call))
				(*l)[i] = &ast.EmptyStmt{Semicolon: st.Pos()}
				emit("DROP-GO", st.Pos(), name, "removed: "+exprString(st))
				(*l)[i] = st
			case *ast.DeferStmt:
				(*l)[i] = &ast.ExprStmt{X: x.Call}
				emit("UN-DEFER", st.Pos(), name, "immediate: "+exprString(x.Call))
				(*l)[i] = &ast.EmptyStmt{Semicolon: st.Pos()}
				emit("DROP-DEFER", st.Pos(), name, "removed: "+exprString(st))
				(*l)[i] = st
			case *ast.AssignStmt:
				if x.Tok == token.ASSIGN && len(x.Lhs) == 1 {
					switch x.Lhs[0].(type) {
					case *ast.SelectorExpr, *ast.IndexExpr, *ast.StarExpr:
						(*l)[i] = &ast.EmptyStmt{Semicolon: st.Pos()}
						emit("DROP-STORE", st.Pos(), name, "removed: "+exprString(st))
						(*l)[i] = st
					}
				}
			case *ast.IncDecStmt:
				(*l)[i] = &ast.EmptyStmt{Semicolon: st.Pos()}
				emit("DROP-INCDEC", st.Pos(), name, "removed: "+exprString(st))
				(*l)[i] = st
			case *ast.SendStmt:
				(*l)[i] = &ast.EmptyStmt{Semicolon: st.Pos()}
				emit("DROP-SEND", st.Pos(), name, "removed: "+exprString(st))
				(*l)[i] = st
			case *ast.BranchStmt:
				if x.Label == nil && (x.Tok == token.CONTINUE || x.Tok == token.BREAK) {
					old := x.Tok
					if old == token.CONTINUE {
						x.Tok = token.BREAK
					} else {
						x.Tok = token.CONTINUE
					}
					emit("BRANCH-SWAP", st.Pos(), name, old.String()+" -> "+x.Tok.String())
					x.Tok = old
				}
			}
		}
		// swap two adjacent statements (only plain calls / assignments, no declarations the second may depend on)
		for i := 0; i+1 < len(*l); i++ {
			a, b := (*l)[i], (*l)[i+1]
			if movable(a) && movable(b) {
				(*l)[i], (*l)[i+1] = b, a
				emit("SWAP-STMTS", a.Pos(), name, "swapped: "+exprString(a)+" <-> "+exprString(b))
				(*l)[i], (*l)[i+1] = a, b
			}
		}
	}
	// case bodies emptied
	ast.Inspect(fd.Body, func(n ast.Node) bool {
		switch x := n.(type) {
		case *ast.CommClause:
			if len(x.Body) > 0 {
				old := x.Body
				x.Body = nil
				emit("EMPTY-CASE", x.Pos(), name, "select case body removed: "+exprString(x.Comm))
				x.Body = old
			}
		case *ast.CaseClause:
			if len(x.Body) > 0 {
				old := x.Body
				x.Body = nil
				emit("EMPTY-CASE", x.Pos(), name, "switch case body removed")
				x.Body = old
			}
		}
		return true
	})
	// conditions, operators, constants, lock modes
	var ftStack []*ast.FuncType
	ftStack = append(ftStack, fd.Type)
	var walk func(n ast.Node)
	walk = func(n ast.Node) {
		ast.Inspect(n, func(m ast.Node) bool {
			switch x := m.(type) {
			case *ast.FuncLit:
				ftStack = append(ftStack, x.Type)
				walk(x.Body)
				ftStack = ftStack[:len(ftStack)-1]
				return false
			case *ast.IfStmt:
				old := x.Cond
				x.Cond = &ast.UnaryExpr{Op: token.NOT, X: &ast.ParenExpr{X: old}}
				emit("NEGATE-IF", x.Pos(), name, "if !("+exprString(old)+")")
				x.Cond = old
				if x.Else != nil {
					oe := x.Else
					x.Else = nil
					emit("DROP-ELSE", x.Pos(), name, "else branch removed of if "+exprString(old))
					x.Else = oe
				}
			case *ast.ForStmt:
				if x.Cond != nil {
					if be, ok := x.Cond.(*ast.BinaryExpr); ok {
						_ = be
					}
				}
			case *ast.BinaryExpr:
				alt := map[token.Token]token.Token{token.EQL: token.NEQ, token.NEQ: token.EQL, token.LSS: token.LEQ, token.LEQ: token.LSS,
					token.GTR: token.GEQ, token.GEQ: token.GTR, token.LAND: token.LOR, token.LOR: token.LAND, token.ADD: token.SUB, token.SUB: token.ADD}
				if t, ok := alt[x.Op]; ok {
					old := x.Op
					if (old == token.ADD || old == token.SUB) && isStringy(x) {
						break
					}
					x.Op = t
					emit("BINOP", x.OpPos, name, exprString(x)+"  (was "+old.String()+")")
					x.Op = old
				}
			case *ast.BasicLit:
				if x.Kind == token.INT && (x.Value == "0" || x.Value == "1") {
					old := x.Value
					if old == "0" {
						x.Value = "1"
					} else {
						x.Value = "0"
					}
					emit("INT-CONST", x.Pos(), name, old+" -> "+x.Value)
					x.Value = old
				}
			case *ast.Ident:
				if x.Name == "true" || x.Name == "false" {
					old := x.Name
					if old == "true" {
						x.Name = "false"
					} else {
						x.Name = "true"
					}
					emit("BOOL-CONST", x.Pos(), name, old+" -> "+x.Name)
					x.Name = old
				}
			case *ast.ReturnStmt:
				ft := ftStack[len(ftStack)-1]
				if returnsError(ft) && len(x.Results) > 0 {
					last := x.Results[len(x.Results)-1]
					if id, ok := last.(*ast.Ident); !ok || id.Name != "nil" {
						if len(x.Results) == 1 {
							if _, isCall := last.(*ast.CallExpr); isCall && ft.Results.NumFields() > 1 {
								break // return f() with a tuple
							}
						}
						x.Results[len(x.Results)-1] = ast.NewIdent("nil")
						emit("RET-NIL-ERROR", x.Pos(), name, "error result replaced by nil (was "+exprString(last)+")")
						x.Results[len(x.Results)-1] = last
					}
				}
			}
			return true
		})
	}
	walk(fd.Body)
	// lock mode: per receiver expression, all Lock/Unlock <-> RLock/RUnlock of the function together
	recv := map[string][]*ast.Ident{}
	ast.Inspect(fd.Body, func(n ast.Node) bool {
		if call, ok := n.(*ast.CallExpr); ok {
			if sel, ok := call.Fun.(*ast.SelectorExpr); ok && len(call.Args) == 0 {
				switch sel.Sel.Name {
				case "Lock", "Unlock", "RLock", "RUnlock":
					k := exprString(sel.X)
					recv[k] = append(recv[k], sel.Sel)
				}
			}
		}
		return true
	})
	swap := map[string]string{"Lock": "RLock", "Unlock": "RUnlock", "RLock": "Lock", "RUnlock": "Unlock"}
	for k, ids := range recv {
		olds := make([]string, len(ids))
		for i, id := range ids {
			olds[i] = id.Name
			id.Name = swap[id.Name]
		}
		emit("LOCK-MODE", ids[0].Pos(), name, "all lock operations on "+k+" switched between read and write mode")
		for i, id := range ids {
			id.Name = olds[i]
		}
	}
}

func movable(s ast.Stmt) bool {
	switch x := s.(type) {
	case *ast.ExprStmt:
		_, ok := x.X.(*ast.CallExpr)
		return ok
	case *ast.AssignStmt:
		return x.Tok == token.ASSIGN
	case *ast.GoStmt, *ast.DeferStmt, *ast.SendStmt, *ast.IncDecStmt:
		return true
	}
	return false
}

func isStringy(b *ast.BinaryExpr) bool {
	for _, e := range []ast.Expr{b.X, b.Y} {
		if l, ok := e.(*ast.BasicLit); ok && l.Kind == token.STRING {
			return true
		}
	}
	return false
}
